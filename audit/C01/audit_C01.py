"""Audit of property C01 (signal containers keep their shape/noise contract; operands never touched).

Prints one line per violated (clause, input) and exits 1 if any clause is violated, else PASS / exit 0.
All data are multiples of 0.5 with small magnitude so every sum, difference and product is exact in
binary floating point and the comparisons below can be exact.
"""
import sys
del sys.path[0]

import copy as _copy
import itertools
import numpy as np

from opticomlib.typing import electrical_signal as E, optical_signal as O
from opticomlib.utils import str2array

VIOL = {}          # key -> [count, first message]
ORDER = []
NCHECK = [0]


def viol(clause, what, detail):
    key = (clause, what)
    if key not in VIOL:
        VIOL[key] = [0, detail]
        ORDER.append(key)
    VIOL[key][0] += 1


# ----------------------------------------------------------------------------------------------
# helpers
# ----------------------------------------------------------------------------------------------
LENGTHS = [1, 2, 3, 5, 7, 8, 13]
BIG = [4099, 65537]
DTYPES = [int, float, complex]


def rand_vals(rng, shape, dtype):
    k = rng.integers(-8, 9, size=shape)
    if dtype is int:
        return k.astype(np.int64)
    if dtype is float:
        return k.astype(float) / 2
    k2 = rng.integers(-8, 9, size=shape)
    return k.astype(float) / 2 + 1j * k2.astype(float) / 2


class M:
    """plain (signal, noise) array pair model"""
    def __init__(self, s, n=None):
        self.s = np.array(s)
        self.n = None if n is None else np.array(n)

    @property
    def N(self):
        return self.s.shape[-1] if self.s.ndim else 1

    def total(self):
        return self.s if self.n is None else self.s + self.n


def make(cls, npol, N, dtype, noise, rng):
    shape = (N,) if npol == 1 else (2, N)
    s = rand_vals(rng, shape, dtype)
    n = rand_vals(rng, shape, dtype) if noise else None
    if cls is E:
        obj = E(s.copy(), None if n is None else n.copy())
    else:
        obj = O(s.copy(), None if n is None else n.copy(), n_pol=npol)
    return obj, M(s, n)


def snap(x):
    """bit-for-bit snapshot of an operand"""
    if isinstance(x, E):
        return ('obj', type(x), getattr(x, 'n_pol', None), snap(x.signal), snap(x.noise), id(x.signal), id(x.noise))
    if isinstance(x, np.ndarray):
        return ('arr', x.dtype.str, x.shape, x.tobytes())
    if isinstance(x, np.generic):
        return ('nps', x.dtype.str, x.tobytes())
    return ('py', type(x), _copy.deepcopy(x), repr(x))


def arrays_of(x):
    if isinstance(x, E):
        return [a for a in (x.signal, x.noise) if a is not None]
    if isinstance(x, np.ndarray):
        return [x]
    return []


def contract(obj, cls, npol, N, label, clause):
    """checks class, polarisation count, length, shape of signal and noise"""
    NCHECK[0] += 1
    ok = True
    if type(obj) is not cls:
        viol(clause, 'class', f'{label}: expected {cls.__name__}, got {type(obj).__name__}'); return False
    s, n = obj.signal, obj.noise
    if not isinstance(s, np.ndarray):
        viol(clause, 'signal-not-ndarray', f'{label}: {type(s)}'); return False
    exp = (N,) if npol == 1 else (2, N)
    if s.shape != exp:
        viol(clause, 'shape', f'{label}: expected signal shape {exp}, got {s.shape}'); ok = False
    if s.size < 1:
        viol(clause, 'empty', f'{label}: empty signal'); ok = False
    if n is not None and (not isinstance(n, np.ndarray) or n.shape != s.shape):
        viol(clause, 'noise-shape', f'{label}: noise shape {getattr(n, "shape", None)} != signal shape {s.shape}'); ok = False
    if cls is O and obj.n_pol != npol:
        viol(clause, 'n_pol', f'{label}: expected n_pol={npol}, got {obj.n_pol}'); ok = False
    if len(obj) != N or obj.len() != N:
        viol(clause, 'len', f'{label}: expected len {N}, got {obj.len()}'); ok = False
    return ok


def guarded(f, operands, label, clause):
    """run f, return (result, exception); check operands unchanged and not aliased by the result"""
    before = [snap(o) for o in operands]
    res, exc = None, None
    try:
        res = f()
    except Exception as e:      # noqa
        exc = e
    after = [snap(o) for o in operands]
    for i, (b, a) in enumerate(zip(before, after)):
        if b != a:
            viol('operands-unchanged', clause, f'{label}: operand {i} was modified')
    if res is not None and isinstance(res, E):
        for o in operands:
            if res is o:
                viol('new-object', clause, f'{label}: result is an operand'); continue
            for ra in arrays_of(res):
                for oa in arrays_of(o):
                    if np.shares_memory(ra, oa):
                        viol('no-shared-memory', clause, f'{label}: result shares memory with an operand')
    return res, exc


def same(a, b):
    a = np.asarray(a); b = np.asarray(b)
    return a.shape == b.shape and np.array_equal(a, b)


def bshape(ms, mo):
    return np.broadcast_shapes(ms.s.shape, mo.s.shape)


def model_binop(op, ma, mb):
    """ma op mb on the pair model; noise follows 'total field of result = total op total' for +,-;
    for * the signal is the product and the noise combination is not constrained by the statement."""
    if op == '+':
        s = ma.s + mb.s
    elif op == '-':
        s = ma.s - mb.s
    else:
        s = ma.s * mb.s
    if op == '*':
        return M(s, None)
    if ma.n is None and mb.n is None:
        n = None
    else:
        na = 0 if ma.n is None else ma.n
        nb = 0 if mb.n is None else mb.n
        n = np.broadcast_to(na + nb if op == '+' else na - nb, s.shape)
    return M(s, n)


def fmt_str(arr):
    """string form of a 1-D or 2-D array accepted by str2array without the all-0/1 (bool) quirk"""
    def tok(v):
        if np.iscomplexobj(arr):
            return f'{v.real:.1f}{v.imag:+.1f}j'
        return f'{float(v):.1f}'
    arr = np.asarray(arr)
    if arr.ndim == 1:
        return ' '.join(tok(v) for v in arr)
    return '; '.join(', '.join(tok(v) for v in row) for row in arr)


def desc(cls, npol, N, dt, noise):
    return f'{cls.__name__}(npol={npol},N={N},{dt.__name__},noise={noise})'


CONFIGS = [(E, 1), (O, 1), (O, 2)]

# ----------------------------------------------------------------------------------------------
# K1 constructor forms
# ----------------------------------------------------------------------------------------------
def k1_constructors():
    rng = np.random.default_rng(101)
    for N in LENGTHS + BIG[:1]:
        for dt in DTYPES:
            for noise in (False, True):
                v = rand_vals(rng, (N,), dt); w = rand_vals(rng, (N,), dt) if noise else None
                forms = {
                    'ndarray': (v.copy(), None if w is None else w.copy()),
                    'list': (v.tolist(), None if w is None else w.tolist()),
                    'tuple': (tuple(v.tolist()), None if w is None else tuple(w.tolist())),
                }
                if N <= 13:
                    forms['str'] = (fmt_str(v), None if w is None else fmt_str(w))
                for name, (a, b) in forms.items():
                    for cls, kw, npol in ((E, {}, 1), (O, {}, 1), (O, {'n_pol': 1}, 1), (O, {'n_pol': 2}, 2)):
                        lab = f'{cls.__name__}({name} N={N} {dt.__name__} noise={noise} {kw})'
                        ops = [a] + ([b] if b is not None else [])
                        r, e = guarded(lambda: cls(a, b, **kw), ops, lab, 'K1')
                        if e is not None:
                            viol('K1-constructor', 'raised', f'{lab}: {type(e).__name__}: {e}'); continue
                        if contract(r, cls, npol, N, lab, 'K1-constructor'):
                            es = v if name != 'str' else str2array(a)
                            row = r.signal if npol == 1 else r.signal[0]
                            if not same(row, es) or (npol == 2 and not same(r.signal[1], es)):
                                viol('K1-constructor', 'values', f'{lab}: signal values differ')
                            if (r.noise is None) != (w is None):
                                viol('K1-constructor', 'noise-presence', lab)
                            elif w is not None:
                                rown = r.noise if npol == 1 else r.noise[0]
                                if not same(rown, w) or (npol == 2 and not same(r.noise[1], w)):
                                    viol('K1-constructor', 'noise-values', f'{lab}: noise values differ')
                # 2-row forms for optical_signal
                v2 = rand_vals(rng, (2, N), dt); w2 = rand_vals(rng, (2, N), dt) if noise else None
                forms2 = {'ndarray': (v2.copy(), None if w2 is None else w2.copy()),
                          'list': (v2.tolist(), None if w2 is None else w2.tolist()),
                          'tuple': (tuple(map(tuple, v2.tolist())), None if w2 is None else tuple(map(tuple, w2.tolist())))}
                if N <= 13:
                    forms2['str'] = (fmt_str(v2), None if w2 is None else fmt_str(w2))
                for name, (a, b) in forms2.items():
                    for kw, npol in (({}, 2), ({'n_pol': 2}, 2), ({'n_pol': 1}, 1)):
                        lab = f'O(2-row {name} N={N} {dt.__name__} noise={noise} {kw})'
                        ops = [a] + ([b] if b is not None else [])
                        r, e = guarded(lambda: O(a, b, **kw), ops, lab, 'K1')
                        if e is not None:
                            viol('K1-constructor', 'raised', f'{lab}: {type(e).__name__}: {e}'); continue
                        if contract(r, O, npol, N, lab, 'K1-constructor'):
                            es = v2 if npol == 2 else v2[0]
                            if not same(r.signal, es):
                                viol('K1-constructor', 'values', f'{lab}: signal values differ')
                            if (r.noise is None) != (w2 is None):
                                viol('K1-constructor', 'noise-presence', lab)
                            elif w2 is not None and not same(r.noise, w2 if npol == 2 else w2[0]):
                                viol('K1-constructor', 'noise-values', lab)
                # 1 x N 2-D forms
                a = v[np.newaxis].copy(); b = None if w is None else w[np.newaxis].copy()
                for kw, npol in (({'n_pol': 1}, 1), ({'n_pol': 2}, 2)):
                    lab = f'O(1xN ndarray N={N} {dt.__name__} noise={noise} {kw})'
                    r, e = guarded(lambda: O(a, b, **kw), [a] + ([b] if b is not None else []), lab, 'K1')
                    if e is not None:
                        viol('K1-constructor', 'raised', f'{lab}: {type(e).__name__}: {e}'); continue
                    contract(r, O, npol, N, lab, 'K1-constructor')
    # scalar forms
    for sc in (3, -2.5, 1.5 - 2j, np.float64(2.5), np.int64(4), np.complex128(1 + 1j), np.array(2.5)):
        for nz in (None, 0.5, np.float64(0.5)):
            for cls, kw, npol in ((E, {}, 1), (O, {}, 1), (O, {'n_pol': 1}, 1), (O, {'n_pol': 2}, 2)):
                lab = f'{cls.__name__}(scalar {sc!r}, noise={nz!r}, {kw})'
                r, e = guarded(lambda: cls(sc, nz, **kw), [sc], lab, 'K1')
                if e is not None:
                    viol('K1-constructor', 'raised', f'{lab}: {type(e).__name__}: {e}'); continue
                if contract(r, cls, npol, 1, lab, 'K1-constructor'):
                    if not np.all(r.signal == sc):
                        viol('K1-constructor', 'values', lab)
                    if (r.noise is None) != (nz is None) or (nz is not None and not np.all(r.noise == nz)):
                        viol('K1-constructor', 'noise-values', lab)
    # dtype= keyword
    for cls, kw, npol in ((E, {}, 1), (O, {}, 1), (O, {'n_pol': 2}, 2)):
        for dt in (float, complex):
            for nz in (None, [1, 0, 2]):
                lab = f'{cls.__name__}([1,2,3], {nz}, dtype={dt.__name__}, {kw})'
                r, e = guarded(lambda: cls([1, 2, 3], nz, dtype=dt, **kw), [], lab, 'K1')
                if e is not None:
                    viol('K1-constructor', 'raised', f'{lab}: {type(e).__name__}: {e}'); continue
                if contract(r, cls, npol, 3, lab, 'K1-constructor') and r.signal.dtype != np.dtype(dt):
                    viol('K1-constructor', 'dtype', f'{lab}: got {r.signal.dtype}')
    # invalid forms must raise ValueError (non-empty / 1-D / same shape contract)
    bad = [(E, ([],), {}), (E, ([[1, 2, 3]],), {}), (E, ([1, 2, 3], [1, 2]), {}), (E, ([1, 2, 3], 1.0), {}),
           (O, ([],), {}), (O, ([[], []],), {}), (O, ([[1, 2], [3, 4], [5, 6]],), {}), (O, ([[[1, 2]]],), {}),
           (O, ([1, 2, 3], [1, 2]), {}), (O, ([[1, 2], [3, 4]], [1, 2]), {})]
    for cls, args, kw in bad:
        lab = f'{cls.__name__}{args}'
        try:
            r = cls(*args, **kw)
            viol('K1-constructor', 'invalid-accepted', f'{lab}: accepted, signal shape {r.signal.shape}, noise {None if r.noise is None else r.noise.shape}')
        except ValueError:
            pass
        except Exception as e:
            viol('K1-constructor', 'invalid-wrong-exception', f'{lab}: {type(e).__name__}')


# ----------------------------------------------------------------------------------------------
# K2 slicing, K3 copy
# ----------------------------------------------------------------------------------------------
def slice_forms(N):
    out = []
    for i in sorted({0, 1, N // 2, N - 1, -1, -2, -N}):
        if -N <= i < N:
            out.append(i)
    ss = [slice(None), slice(0, None), slice(None, N), slice(1, None), slice(None, -1), slice(None, 1), slice(-1, None),
          slice(None, None, 2), slice(1, None, 2), slice(None, None, 3), slice(None, None, -1), slice(None, None, -2),
          slice(N - 1, None, -1), slice(-2, None), slice(None, -N + 1 if N > 1 else None), slice(0, N + 5), slice(-N - 3, None),
          slice(N // 2, N // 2 + 1), slice(None, None, N), slice(None, None, N + 1), slice(-1, None, -N)]
    return out + ss


def k2_slicing():
    rng = np.random.default_rng(202)
    for cls, npol in CONFIGS:
        for N in LENGTHS + BIG[:1]:
            for dt in DTYPES:
                for noise in (False, True):
                    x, m = make(cls, npol, N, dt, noise, rng)
                    for sl in slice_forms(N):
                        lab = f'{desc(cls, npol, N, dt, noise)}[{sl}]'
                        es = m.s[..., sl]
                        if es.ndim < m.s.ndim:
                            es = es[..., np.newaxis]
                        r, e = guarded(lambda: x[sl], [x], lab, 'K2')
                        if es.shape[-1] == 0:
                            if e is None:
                                viol('K2-slice', 'empty-accepted', lab)
                            elif not isinstance(e, ValueError):
                                viol('K2-slice', 'empty-wrong-exception', f'{lab}: {type(e).__name__}')
                            continue
                        if e is not None:
                            viol('K2-slice', 'raised', f'{lab}: {type(e).__name__}: {e}'); continue
                        if contract(r, cls, npol, es.shape[-1], lab, 'K2-slice'):
                            if not same(r.signal, es):
                                viol('K2-slice', 'signal-values', lab)
                            if (r.noise is None) != (m.n is None):
                                viol('K2-slice', 'noise-presence', lab)
                            elif m.n is not None:
                                en = m.n[..., sl]
                                if en.ndim < m.n.ndim:
                                    en = en[..., np.newaxis]
                                if not same(r.noise, en):
                                    viol('K2-slice', 'noise-values', lab)
                            if r.signal.dtype != x.signal.dtype:
                                viol('K2-slice', 'dtype', f'{lab}: {x.signal.dtype} -> {r.signal.dtype}')
                    # out-of-range int must raise IndexError, not return garbage
                    for i in (N, -N - 1):
                        try:
                            x[i]
                            viol('K2-slice', 'out-of-range-accepted', f'{desc(cls, npol, N, dt, noise)}[{i}]')
                        except (IndexError, ValueError):
                            pass
                    # K3 copy
                    lab = f'{desc(cls, npol, N, dt, noise)}.copy()'
                    r, e = guarded(lambda: x.copy(), [x], lab, 'K3')
                    if e is not None:
                        viol('K3-copy', 'raised', f'{lab}: {type(e).__name__}: {e}')
                    elif contract(r, cls, npol, N, lab, 'K3-copy'):
                        if not same(r.signal, m.s) or (m.n is not None and not same(r.noise, m.n)) or ((r.noise is None) != (m.n is None)):
                            viol('K3-copy', 'values', lab)
                        if r.signal.dtype != x.signal.dtype:
                            viol('K3-copy', 'dtype', lab)
                        # mutating the copy must not touch the original
                        r.signal[..., 0] = 99
                        if r.noise is not None:
                            r.noise[..., 0] = 99
                        if not same(x.signal, m.s) or (m.n is not None and not same(x.noise, m.n)):
                            viol('K3-copy', 'write-through', lab)


def k2b_numpy_index():
    """integer index given as a numpy integer (what np.argmax & co. return)"""
    rng = np.random.default_rng(203)
    for cls, npol in CONFIGS:
        for N in (1, 2, 3, 5):
            for noise in (False, True):
                x, m = make(cls, npol, N, float, noise, rng)
                for i in (0, N - 1, -1):
                    lab = f'{desc(cls, npol, N, float, noise)}[np.int64({i})]'
                    r, e = guarded(lambda: x[np.int64(i)], [x], lab, 'K2')
                    if e is not None:
                        viol('K2-slice(np-int index)', 'raised', f'{lab}: {type(e).__name__}: {e}'); continue
                    if contract(r, cls, npol, 1, lab, 'K2-slice(np-int index)'):
                        if not same(r.signal, m.s[..., i][..., np.newaxis]):
                            viol('K2-slice(np-int index)', 'values', lab)


# ----------------------------------------------------------------------------------------------
# K4/K5 binary operators with every operand kind, K6 rejection, K7 length-1 broadcast
# ----------------------------------------------------------------------------------------------
def raw_operands(rng, npol, N, dt):
    """(name, raw value, model, allowed on the left?)"""
    out = []
    for sc in (3, -2.5, 1.5 - 0.5j, 0, np.float64(1.5), np.int64(-3), np.complex128(0.5 + 1j), np.float32(0.5), np.array(2.5)):
        left = not isinstance(sc, (np.generic, np.ndarray))
        out.append((f'scalar {sc!r}', sc, M(np.asarray(sc)), left))
    for odt in DTYPES:
        v = rand_vals(rng, (N,), odt)
        out.append((f'list[{odt.__name__}]', v.tolist(), M(v), True))
        out.append((f'tuple[{odt.__name__}]', tuple(v.tolist()), M(v), True))
        out.append((f'ndarray[{odt.__name__}]', v.copy(), M(v), False))
        if N <= 13 and odt is not int:
            s = fmt_str(v)
            out.append((f'str[{odt.__name__}]', s, M(str2array(s)), True))
        if npol == 2:
            v2 = rand_vals(rng, (2, N), odt)
            out.append((f'list2[{odt.__name__}]', v2.tolist(), M(v2), True))
            out.append((f'ndarray2[{odt.__name__}]', v2.copy(), M(v2), False))
            if N <= 13 and odt is not int:
                s = fmt_str(v2)
                out.append((f'str2[{odt.__name__}]', s, M(str2array(s)), True))
    # length-1 containers
    out.append(('list len1', [1.5], M(np.array([1.5])), True))
    out.append(('tuple len1', (2,), M(np.array([2])), True))
    out.append(('ndarray len1', np.array([1 + 1j]), M(np.array([1 + 1j])), False))
    out.append(('str len1', '2.5', M(str2array('2.5')), True))
    return out


def check_binop(x, mx, y, my, op, reflected, cls, npol, lab):
    """x is always an object of the audited class; y the other operand (object or raw)."""
    if not reflected:
        f = {'+': lambda: x + y, '-': lambda: x - y, '*': lambda: x * y}[op]
        mr = model_binop(op, mx, my)
    else:
        f = {'+': lambda: y + x, '-': lambda: y - x, '*': lambda: y * x}[op]
        mr = model_binop(op, my, mx)
    r, e = guarded(f, [x, y], lab, 'K4' if op != '*' else 'K5')
    cl = 'K4-addsub' if op != '*' else 'K5-mul'
    if e is not None:
        viol(cl, 'raised', f'{lab}: {type(e).__name__}: {e}')
        return
    N = max(mx.N, my.N)
    if not contract(r, cls, npol, N, lab, cl):
        return
    if not same(r.signal, mr.s):
        viol(cl, 'signal-values', lab)
    if op == '*':
        return
    if (r.noise is None) != (mr.n is None):
        viol('K4-noise-iff', 'presence', f'{lab}: result noise {"present" if r.noise is not None else "absent"}')
        return
    tot_r = r.signal if r.noise is None else r.signal + r.noise
    tot_m = (mx.total() + my.total()) if op == '+' else ((mx.total() - my.total()) if not reflected else (my.total() - mx.total()))
    if not same(tot_r, np.broadcast_to(tot_m, tot_r.shape)):
        viol('K4-total-field', 'values', lab)
    if mr.n is not None and not same(r.noise, mr.n):
        viol('K4-addsub', 'noise-values', lab)


def k4_binops():
    rng = np.random.default_rng(404)
    for cls, npol in CONFIGS:
        for N in LENGTHS + BIG:
            dts = DTYPES if N <= 13 else [float]
            for dt in dts:
                for noise in (False, True):
                    x, mx = make(cls, npol, N, dt, noise, rng)
                    d = desc(cls, npol, N, dt, noise)
                    # second object of the same class, same layout, noise on neither/either/both
                    for odt in dts:
                        for onoise in (False, True):
                            y, my = make(cls, npol, N, odt, onoise, rng)
                            for op in '+-*':
                                check_binop(x, mx, y, my, op, False, cls, npol, f'{d} {op} {desc(cls, npol, N, odt, onoise)}')
                    for op in '+-*':
                        check_binop(x, mx, x, mx, op, False, cls, npol, f'{d} {op} itself')
                    # raw operands
                    for name, raw, mraw, left in raw_operands(rng, npol, N, dt):
                        for op in '+-*':
                            check_binop(x, mx, raw, mraw, op, False, cls, npol, f'{d} {op} {name}')
                            if left:
                                check_binop(x, mx, raw, mraw, op, True, cls, npol, f'{name} {op} {d}')


def k7_len1_objects():
    """length-1 operands broadcast: a length-1 object of the same class on the right and on the left"""
    rng = np.random.default_rng(707)
    for cls, npol in CONFIGS:
        for N in [1, 2, 3, 7]:
            for dt in (float, complex):
                for noise in (False, True):
                    for onoise in (False, True):
                        x, mx = make(cls, npol, N, dt, noise, rng)
                        y, my = make(cls, npol, 1, dt, onoise, rng)
                        for op in '+-*':
                            # right
                            lab = f'{desc(cls, npol, N, dt, noise)} {op} len-1 {desc(cls, npol, 1, dt, onoise)}'
                            sub_check_len1(x, mx, y, my, op, cls, npol, lab, 'K7-len1-right')
                            if N > 1:
                                lab = f'len-1 {desc(cls, npol, 1, dt, onoise)} {op} {desc(cls, npol, N, dt, noise)}'
                                sub_check_len1(y, my, x, mx, op, cls, npol, lab, 'K7-len1-left')
        # length-1 object on the right-hand side of a reflected op: list/tuple/str (length N) op len-1 object
        for N in (2, 3):
            y, my = make(cls, npol, 1, float, False, rng)
            v = rand_vals(rng, (N,), float)
            for name, raw in (('list', v.tolist()), ('tuple', tuple(v.tolist())), ('str', fmt_str(v))):
                for op in '+-*':
                    lab = f'{name}(N={N}) {op} len-1 {desc(cls, npol, 1, float, False)}'
                    f = {'+': lambda: raw + y, '-': lambda: raw - y, '*': lambda: raw * y}[op]
                    r, e = guarded(f, [raw, y], lab, 'K7')
                    if e is not None:
                        viol('K7-len1-left', 'raised(reflected container)', f'{lab}: {type(e).__name__}: {e}')
                    else:
                        contract(r, cls, npol, N, lab, 'K7-len1-left')


def sub_check_len1(a, ma, b, mb, op, cls, npol, lab, clause):
    f = {'+': lambda: a + b, '-': lambda: a - b, '*': lambda: a * b}[op]
    r, e = guarded(f, [a, b], lab, 'K7')
    if e is not None:
        viol(clause, f'raised ({op}; noise self={ma.n is not None}, other={mb.n is not None})', f'{lab}: {type(e).__name__}: {e}')
        return
    N = max(ma.N, mb.N)
    if not contract(r, cls, npol, N, lab, clause):
        return
    mr = model_binop(op, ma, mb)
    if not same(r.signal, mr.s):
        viol(clause, 'signal-values', lab)
    if op != '*':
        if (r.noise is None) != (mr.n is None):
            viol(clause, 'noise-iff', lab)
        else:
            tot = r.signal if r.noise is None else r.signal + r.noise
            tm = ma.total() + mb.total() if op == '+' else ma.total() - mb.total()
            if not same(tot, np.broadcast_to(tm, tot.shape)):
                viol(clause, 'total-field', lab)


def k6_rejection():
    rng = np.random.default_rng(606)
    for cls, npol in CONFIGS:
        for N, Mlen in [(2, 3), (3, 2), (5, 4), (5, 6), (7, 14), (8, 4), (13, 12), (3, 0)]:
            for noise, onoise in itertools.product((False, True), repeat=2):
                x, mx = make(cls, npol, N, float, noise, rng)
                others = []
                if Mlen > 0:
                    y, _ = make(cls, npol, Mlen, float, onoise, rng)
                    others.append(('object', y, False))
                v = rand_vals(rng, (Mlen,), float)
                others += [('list', v.tolist(), True), ('tuple', tuple(v.tolist()), True), ('ndarray', v.copy(), False)]
                if Mlen > 0:
                    others.append(('str', fmt_str(v), True))
                for name, y, left in others:
                    for op in '+-*':
                        forms = [('x op y', {'+': lambda: x + y, '-': lambda: x - y, '*': lambda: x * y}[op])]
                        if left or name == 'object':
                            forms.append(('y op x', {'+': lambda: y + x, '-': lambda: y - x, '*': lambda: y * x}[op]))
                        for fname, f in forms:
                            lab = f'{desc(cls, npol, N, float, noise)} vs {name} len {Mlen} (noise={onoise}) [{fname}, {op}]'
                            r, e = guarded(f, [x, y], lab, 'K6')
                            if e is None:
                                viol('K6-length-mismatch', 'accepted', f'{lab}: returned shape {r.signal.shape}')
                            elif not isinstance(e, ValueError):
                                viol('K6-length-mismatch', 'wrong-exception', f'{lab}: {type(e).__name__}: {e}')


# ----------------------------------------------------------------------------------------------
# K8 domain transforms
# ----------------------------------------------------------------------------------------------
def k8_transform():
    rng = np.random.default_rng(808)
    for cls, npol in CONFIGS:
        for N in LENGTHS + BIG:
            for dt in DTYPES:
                for noise in (False, True):
                    x, m = make(cls, npol, N, dt, noise, rng)
                    for dom in ('t', 'w', 'f'):
                        for shift in (False, True):
                            lab = f"{desc(cls, npol, N, dt, noise)}('{dom}', shift={shift})"
                            r, e = guarded(lambda: x(dom, shift), [x], lab, 'K8')
                            if e is not None:
                                viol('K8-transform', 'raised', f'{lab}: {type(e).__name__}: {e}'); continue
                            if contract(r, cls, npol, N, lab, 'K8-transform'):
                                if (r.noise is None) != (m.n is None):
                                    viol('K8-transform', 'noise-presence', lab)
                                fn = np.fft.ifft if dom == 't' else np.fft.fft
                                sh = (np.fft.ifftshift if dom == 't' else np.fft.fftshift) if shift else (lambda a, axes=-1: a)
                                if not np.allclose(r.signal, sh(fn(m.s, axis=-1), axes=-1), rtol=1e-12, atol=1e-12):
                                    viol('K8-transform', 'values', lab)
                                if m.n is not None and not np.allclose(r.noise, sh(fn(m.n, axis=-1), axes=-1), rtol=1e-12, atol=1e-12):
                                    viol('K8-transform', 'noise-values', lab)
                    # round trip keeps contract
                    r = x('w')('t')
                    contract(r, cls, npol, N, desc(cls, npol, N, dt, noise) + " ('w')('t')", 'K8-transform')


# ----------------------------------------------------------------------------------------------
# K9 expression trees of depth <= 6
# ----------------------------------------------------------------------------------------------
class Expect(Exception):
    pass


def gen_tree(rng, depth, ctx):
    """returns a nested tuple describing an object-valued expression"""
    if depth == 0 or rng.random() < 0.12:
        return ('leaf', rng.integers(0, len(ctx['leaves'])))
    kind = rng.choice(['bin', 'bin', 'bin', 'rbin', 'slice', 'copy', 'raw'])
    if kind == 'bin':
        return ('bin', rng.choice(list('+-*')), gen_tree(rng, depth - 1, ctx), gen_tree(rng, depth - 1, ctx))
    if kind == 'raw':
        return ('bin', rng.choice(list('+-*')), gen_tree(rng, depth - 1, ctx), ('raw', rng.integers(0, 10**6)))
    if kind == 'rbin':
        return ('rbin', rng.choice(list('+-*')), ('raw', rng.integers(0, 10**6)), gen_tree(rng, depth - 1, ctx))
    if kind == 'slice':
        return ('slice', rng.integers(0, 10**6), gen_tree(rng, depth - 1, ctx))
    return ('copy', gen_tree(rng, depth - 1, ctx))


def pick_slice(seed, N):
    r = np.random.default_rng(seed)
    c = r.integers(0, 8)
    if c == 0:
        return int(r.integers(-N, N))
    if c == 1:
        return slice(None)
    if c == 2:
        return slice(int(r.integers(0, N)), None)
    if c == 3:
        return slice(None, int(r.integers(1, N + 1)))
    if c == 4:
        return slice(None, None, int(r.choice([2, 3, -1, -2])))
    if c == 5:
        return slice(-int(r.integers(1, N + 1)), None)
    if c == 6:
        a = int(r.integers(0, N)); return slice(a, int(r.integers(a + 1, N + 1)))
    return slice(None, -1) if N > 1 else slice(None)


def pick_raw(seed, N, npol, left):
    r = np.random.default_rng(seed)
    c = r.integers(0, 7 if left else 10)
    if c == 0:
        return int(r.integers(-3, 4))
    if c == 1:
        return float(r.integers(-6, 7)) / 2
    if c == 2:
        return complex(float(r.integers(-4, 5)) / 2, float(r.integers(-4, 5)) / 2)
    v = rand_vals(r, (N,), float if c % 2 else complex)
    if c == 3:
        return v.tolist()
    if c == 4:
        return tuple(v.tolist())
    if c == 5:
        return fmt_str(v) if N <= 40 else v.tolist()
    if c == 6:
        return [float(r.integers(-4, 5)) / 2]
    if c == 7:
        return v.copy()
    if c == 8:
        return np.float64(r.integers(-6, 7) / 2)
    return rand_vals(r, (2, N), float) if npol == 2 else np.int64(r.integers(-3, 4))


def raw_model(raw):
    if isinstance(raw, str):
        return M(str2array(raw))
    return M(np.asarray(raw))


def mul_noise(ma, mb, shape):
    """noise bookkeeping for * is not fixed by the statement; follow the natural 'keep what is there' rule
    only to be able to continue the tree (never reported)."""
    if ma.n is None and mb.n is None:
        return None
    if ma.n is None:
        return np.broadcast_to(mb.n, shape).copy()
    if mb.n is None:
        return np.broadcast_to(ma.n, shape).copy()
    return ma.n * mb.n


def eval_tree(t, ctx):
    """returns (object, model); raises Expect when model and code both reject (ValueError)"""
    k = t[0]
    if k == 'leaf':
        return ctx['leaves'][t[1]]
    if k == 'copy':
        x, m = eval_tree(t[1], ctx)
        r, e = guarded(lambda: x.copy(), [x], 'tree copy', 'K9')
        if e is not None:
            viol('K9-tree', 'copy raised', f'{ctx["d"]}: {type(e).__name__}: {e}'); raise Expect()
        return finish(r, M(m.s.copy(), None if m.n is None else m.n.copy()), ctx, 'copy')
    if k == 'slice':
        x, m = eval_tree(t[2], ctx)
        sl = pick_slice(t[1], m.N)
        es = m.s[..., sl]; en = None if m.n is None else m.n[..., sl]
        if es.ndim < m.s.ndim:
            es = es[..., np.newaxis]; en = None if en is None else en[..., np.newaxis]
        r, e = guarded(lambda: x[sl], [x], 'tree slice', 'K9')
        if es.shape[-1] == 0:
            if e is None or not isinstance(e, ValueError):
                viol('K9-tree', 'empty slice not rejected with ValueError', f'{ctx["d"]} [{sl}] on N={m.N}')
            raise Expect()
        if e is not None:
            viol('K9-tree', 'slice raised', f'{ctx["d"]} [{sl}] on N={m.N}: {type(e).__name__}: {e}'); raise Expect()
        return finish(r, M(es, en), ctx, f'slice {sl}')
    op = t[1]
    if k == 'bin':
        x, mx = eval_tree(t[2], ctx)
        if t[3][0] == 'raw':
            y = pick_raw(t[3][1], mx.N, ctx['npol'], False); my = raw_model(y)
        else:
            y, my = eval_tree(t[3], ctx)
        a, ma, b, mb = x, mx, y, my
    else:
        x, mx = eval_tree(t[3], ctx)
        y = pick_raw(t[2][1], mx.N, ctx['npol'], True); my = raw_model(y)
        a, ma, b, mb = y, my, x, mx
    f = {'+': lambda: a + b, '-': lambda: a - b, '*': lambda: a * b}[op]
    r, e = guarded(f, [a, b], 'tree binop', 'K9')
    la, lb = ma.N, mb.N
    if la != lb and la != 1 and lb != 1:
        if e is None or not isinstance(e, ValueError):
            viol('K9-tree', 'length mismatch not rejected with ValueError', f'{ctx["d"]} len {la} {op} len {lb}: {type(e).__name__ if e else "accepted"}')
        ctx['rejected'] += 1
        return x, mx        # correctly rejected: carry on with the object operand so the whole tree is exercised
    if e is not None:
        # classify known sub-cases so they are reported under their own heading
        selfm, otherm = (ma, mb) if k == 'bin' else (mb, ma)
        if selfm.N == 1 and otherm.N > 1:
            viol('K9-tree', 'length-1 left operand (see K7-len1-left)', f'{ctx["d"]} len {la} {op} len {lb}: {type(e).__name__}: {e}')
        elif otherm.N == 1 and selfm.N > 1 and otherm.n is not None and selfm.n is None:
            viol('K9-tree', 'length-1 noisy right operand on noise-free object (see K7-len1-right)', f'{ctx["d"]} len {la} {op} len {lb}: {type(e).__name__}: {e}')
        else:
            viol('K9-tree', 'binop raised', f'{ctx["d"]} len {la} {op} len {lb} ({type(a).__name__},{type(b).__name__}): {type(e).__name__}: {e}')
            raise Expect()
        # known pattern: substitute the result the model predicts and keep evaluating the rest of the tree
        mr = model_binop(op, ma, mb)
        if op == '*':
            mr.n = mul_noise(ma, mb, mr.s.shape)
        kw = {'n_pol': ctx['npol']} if ctx['cls'] is O else {}
        return ctx['cls'](mr.s.copy(), None if mr.n is None else mr.n.copy(), **kw), mr
    mr = model_binop(op, ma, mb)
    if op == '*':
        mr.n = mul_noise(ma, mb, mr.s.shape)
    return finish(r, mr, ctx, f'{op}', check_noise=(op != '*'))


def finish(r, m, ctx, what, check_noise=True):
    lab = f'{ctx["d"]} node {what}'
    if not contract(r, ctx['cls'], ctx['npol'], m.N, lab, 'K9-tree'):
        raise Expect()
    if not same(r.signal, m.s):
        viol('K9-tree', f'signal-values after {what[0]}', lab); raise Expect()
    if check_noise:
        if (r.noise is None) != (m.n is None):
            viol('K9-tree', f'noise-presence after {what[0]}', lab); raise Expect()
        if m.n is not None and not same(r.noise, m.n):
            viol('K9-tree', f'noise-values after {what[0]}', lab); raise Expect()
    # continue with what the code produced for * noise (unconstrained by the statement)
    if not check_noise:
        m = M(m.s, None if r.noise is None else r.noise.copy())
    return r, m


def k9_trees():
    rng = np.random.default_rng(909)
    ntree = 0
    for cls, npol in CONFIGS:
        for N in [1, 2, 3, 5, 8, 13, 31]:
            for rep in range(45):
                leaves = []
                for j in range(4):
                    dt = DTYPES[int(rng.integers(0, 3))]
                    leaves.append(make(cls, npol, N, dt, bool(rng.integers(0, 2)), rng))
                leaves.append(make(cls, npol, 1, float, bool(rng.integers(0, 2)), rng))   # a length-1 leaf
                ctx = {'rejected': 0, 'leaves': leaves, 'cls': cls, 'npol': npol, 'd': f'tree[{cls.__name__},npol={npol},N={N},#{rep}]'}
                snaps = [snap(l[0]) for l in leaves]
                t = gen_tree(rng, 6, ctx)
                ntree += 1
                try:
                    eval_tree(t, ctx)
                except Expect:
                    pass
                if [snap(l[0]) for l in leaves] != snaps:
                    viol('operands-unchanged', 'K9', f'{ctx["d"]}: a leaf was modified')
    return ntree


# ----------------------------------------------------------------------------------------------
def main():
    k1_constructors()
    k2_slicing()
    k2b_numpy_index()
    k4_binops()
    k6_rejection()
    k7_len1_objects()
    k8_transform()
    nt = k9_trees()
    print(f'# contract checks: {NCHECK[0]}, trees: {nt}')
    if not VIOL:
        print('PASS')
        return 0
    for key in ORDER:
        cnt, first = VIOL[key]
        print(f'VIOLATION [{key[0]}] {key[1]} (x{cnt}) e.g. {first}')
    return 1


if __name__ == '__main__':
    sys.exit(main())
