# C01: "scalars and length-1 operands broadcast" + "noise present on neither/either/both operands":
# a noise-free length-N object combined with a length-1 object of the same class that carries noise raises ValueError.
import sys; del sys.path[0]
import numpy as np
from opticomlib.typing import electrical_signal as E, optical_signal as O
bad = 0
for name, x, y in (('electrical', E([1., 2., 3.]), E([1.], [0.5])),
                   ('optical 1-pol', O([1., 2., 3.]), O([1.], [0.5])),
                   ('optical 2-pol', O([[1., 2., 3.], [4., 5., 6.]]), O([[1.], [2.]], [[0.5], [0.5]]))):
    for op, f in (('+', lambda: x + y), ('-', lambda: x - y), ('*', lambda: x * y)):
        try:
            r = f()
            assert r.noise is not None and r.noise.shape == r.signal.shape == x.signal.shape
            if op == '+': assert np.array_equal(r.signal + r.noise, x.signal + (y.signal + y.noise))
        except Exception as e:
            bad += 1
            print(f'{name}: x(N=3, no noise) {op} y(N=1, noise): expected a length-3 result carrying the broadcast noise '
                  f'(x {op} y works when x has noise or y has none); got {type(e).__name__}: {e}')
sys.exit(1 if bad else 0)
