# C01: "scalars and length-1 operands broadcast", "lists, tuples and strings on either side":
# a length-1 object broadcasts only when it is `other`; as the object whose method runs (left operand of obj op obj,
# right operand of container op obj) it is rejected, although the mirrored expression works.
import sys; del sys.path[0]
import numpy as np
from opticomlib.typing import electrical_signal as E, optical_signal as O
bad = 0
for cls in (E, O):
    one, many = cls([2.0]), cls([1., 2., 3.])
    assert np.array_equal((many + one).signal, [3., 4., 5.])          # broadcasts on the right
    assert np.array_equal(([2.0] + many).signal, [3., 4., 5.])        # length-1 list on the left broadcasts too
    for label, f, exp in (('len1_obj + lenN_obj', lambda: one + many, [3., 4., 5.]),
                          ('len1_obj - lenN_obj', lambda: one - many, [1., 0., -1.]),
                          ('len1_obj * lenN_obj', lambda: one * many, [2., 4., 6.]),
                          ('[1,2,3] + len1_obj', lambda: [1., 2., 3.] + one, [3., 4., 5.]),
                          ("'1.0 2.0 3.0' - len1_obj", lambda: '1.0 2.0 3.0' - one, [-1., 0., 1.])):
        try:
            r = f(); assert np.array_equal(r.signal, exp), r.signal
        except Exception as e:
            bad += 1; print(f'{cls.__name__}: {label}: expected signal {exp}; got {type(e).__name__}: {e}')
sys.exit(1 if bad else 0)
