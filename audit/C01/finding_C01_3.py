# C01: "slicing returns exactly the selected samples of signal and noise in every polarisation", slice form "int",
# "two-polarisation layouts": an integer index that is a numpy integer (np.argmax, np.int64(k), an element of an
# index array) turns a 2-polarisation optical_signal into a ONE-polarisation signal of length 2 (x-sample, y-sample).
import sys; del sys.path[0]
import numpy as np
from opticomlib.typing import optical_signal as O
x = O([[1., 2., 3.], [4., 5., 6.]], [[.1, .2, .3], [.4, .5, .6]])
ref = x[1]                       # python int: n_pol=2, shape (2, 1)
got = x[np.int64(1)]             # numpy int
print('x[1]           -> n_pol', ref.n_pol, 'signal shape', ref.signal.shape, 'len', ref.len())
print('x[np.int64(1)] -> n_pol', got.n_pol, 'signal shape', got.signal.shape, 'len', got.len())
ok = got.n_pol == 2 and got.signal.shape == (2, 1) and got.noise.shape == (2, 1) and got.len() == 1
if not ok:
    print('expected n_pol=2, shape (2, 1), len 1 (same as x[1]); the two polarisation samples became two time samples')
sys.exit(0 if ok else 1)
