"""Audit of property C02: time/frequency transforms are exact inverses on the
sampling-rate FFT grid (electrical_signal / optical_signal __call__, w(), power())."""
import sys, os
_here = os.path.dirname(os.path.abspath(__file__))
if sys.path and os.path.abspath(sys.path[0] or '.') == _here:
    del sys.path[0]

import warnings
import itertools
import numpy as np
from numpy.fft import fft, ifft, fftfreq, fftshift, ifftshift

warnings.simplefilter('ignore')

import opticomlib
from opticomlib.typing import gv, electrical_signal, optical_signal

PI = np.pi
EPS = np.finfo(np.float64).eps
violations = []
seen = set()
nchecks = 0


def bad(clause, inp, msg):
    key = (clause, inp)
    if key in seen:
        return
    seen.add(key)
    violations.append(key)
    print(f"VIOLATION [{clause}] input={inp}: {msg}")


def check(cond, clause, inp, msg):
    global nchecks
    nchecks += 1
    if not cond:
        bad(clause, inp, msg() if callable(msg) else msg)


# ---------------------------------------------------------------- inputs
LENGTHS = [1, 2, 3, 4, 5, 6, 7, 8, 9, 11, 13, 15, 16, 17, 25, 31, 32, 33, 63, 64, 65, 97, 100,
           101, 127, 128, 129, 255, 256, 257, 509, 512, 1000, 1021, 1024, 1025, 4093, 4096]
BIG_LENGTHS = [65536, 65537, 2 ** 17 - 1, 2 ** 18]
FLOAT_DTYPES = [np.float16, np.float32, np.float64, np.longdouble]
CPLX_DTYPES = [np.complex64, np.complex128, np.clongdouble]
INT_DTYPES = [np.int8, np.int16, np.int32, np.int64, np.uint8, np.uint16, np.uint32, np.uint64]
ALL_DTYPES = FLOAT_DTYPES + CPLX_DTYPES + INT_DTYPES


def draw(rng, shape, dtype):
    dtype = np.dtype(dtype)
    if dtype.kind == 'c':
        return (rng.normal(size=shape) + 1j * rng.normal(size=shape)).astype(dtype)
    if dtype.kind == 'f':
        return rng.normal(size=shape).astype(dtype)
    if dtype.kind == 'i':
        return rng.integers(-5, 6, size=shape).astype(dtype)   # |s+n|^2 <= 100: no wrap, even in int8
    if dtype.kind == 'u':
        return rng.integers(0, 6, size=shape).astype(dtype)
    raise AssertionError


def as_container(arr, kind):
    if kind == 'ndarray':
        return arr
    if kind == 'list':
        return arr.tolist()
    if kind == 'tuple':
        return tuple(map(tuple, arr.tolist())) if arr.ndim == 2 else tuple(arr.tolist())
    raise AssertionError


def build(kind, N, dtype, with_noise, rng, container='ndarray'):
    """kind: 'E' electrical, 'O1' optical one pol, 'O2' optical two pol (2D input),
    'O2dup' optical 1D input with n_pol=2, 'O2row' optical (1,N) input (duplicated)."""
    if kind in ('E', 'O1', 'O2dup'):
        shape = (N,)
    elif kind == 'O2':
        shape = (2, N)
    elif kind == 'O2row':
        shape = (1, N)
    s = draw(rng, shape, dtype)
    n = draw(rng, shape, dtype) if with_noise else None
    cs = as_container(s, container)
    cn = as_container(n, container) if with_noise else None
    kw = {}
    if container != 'ndarray':
        kw['dtype'] = dtype
    if kind == 'E':
        x = electrical_signal(cs, cn, **kw)
    elif kind == 'O1':
        x = optical_signal(cs, cn, **kw)
    elif kind == 'O2':
        x = optical_signal(cs, cn, **kw)
    elif kind == 'O2dup':
        x = optical_signal(cs, cn, n_pol=2, **kw)
        s = np.array([s, s]); n = np.array([n, n]) if with_noise else None
    elif kind == 'O2row':
        x = optical_signal(cs, cn, **kw)
        s = np.array([s[0], s[0]]); n = np.array([n[0], n[0]]) if with_noise else None
    return x, s, n


def c128(a):
    """Reference copy in double precision complex (what numpy.fft works in)."""
    return np.asarray(a).astype(np.complex128)


def exact_eq(a, b):
    a = np.asarray(a); b = np.asarray(b)
    return a.shape == b.shape and np.array_equal(a, b)


def close(a, b, tol):
    a = np.asarray(a); b = np.asarray(b)
    if a.shape != b.shape:
        return False
    return bool(np.all(np.abs(a.astype(np.clongdouble) - b.astype(np.clongdouble)) <= tol))


def in_eps(dtype):
    dtype = np.dtype(dtype)
    if dtype.kind in 'iu':
        return EPS
    return max(EPS, float(np.finfo(dtype).eps))


# ---------------------------------------------------------------- the per-object audit
def audit_object(x, s, n, inp, dtype):
    N = s.shape[-1]
    two_pol = s.ndim == 2
    cls = type(x)
    s0 = x.signal.copy(); n0 = None if x.noise is None else x.noise.copy()

    # structural sanity of the fixture
    check(x.len() == N and len(x) == N, 'len', inp, lambda: f"len()={x.len()} expected {N}")
    check(exact_eq(x.signal, s), 'fixture', inp, "signal stored differs from the input")
    check((x.noise is None) == (n is None) and (n is None or exact_eq(x.noise, n)), 'fixture', inp, "noise stored differs")

    scale = max(1.0, float(np.max(np.abs(c128(s)))), 0.0 if n is None else float(np.max(np.abs(c128(n)))))
    logN = 1 + np.log2(N)
    # values are held (and round-tripped) in double; a longdouble input is rounded to double once
    rt_tol = 32 * EPS * logN * scale
    if np.dtype(dtype) in (np.dtype(np.longdouble), np.dtype(np.clongdouble)):
        rt_tol += 4 * EPS * scale

    for dom in ('w', 'f'):
        for sh in (False, True, np.bool_(True), 1, 0, np.bool_(False)):
            tag = f"{inp} dom={dom!r} shift={sh!r}"
            X = x(dom, shift=sh) if sh is not False else x(dom)
            check(type(X) is cls, 'A.class', tag, lambda: f"class {type(X).__name__}")
            check(X.signal.shape == s.shape, 'A.shape', tag, lambda: f"shape {X.signal.shape} expected {s.shape}")
            check((X.noise is None) == (n is None), 'A.noise-presence', tag, lambda: f"noise {X.noise is None} vs {n is None}")
            if two_pol:
                check(getattr(X, 'n_pol', None) == 2, 'A.n_pol', tag, lambda: f"n_pol {getattr(X, 'n_pol', None)}")
            elif cls is optical_signal:
                check(getattr(X, 'n_pol', None) == 1, 'A.n_pol', tag, lambda: f"n_pol {getattr(X, 'n_pol', None)}")
            # forward transform row-wise, signal and noise alike
            refS = np.stack([fft(r) for r in s]) if two_pol else fft(s)
            if sh:
                refS_sh = np.stack([fftshift(r) for r in refS]) if two_pol else fftshift(refS)
            else:
                refS_sh = refS
            check(exact_eq(X.signal, refS_sh), 'A.fft-signal', tag, lambda: f"max dev {np.max(np.abs(X.signal - refS_sh)) if X.signal.shape == refS_sh.shape else 'shape'}")
            if n is not None and X.noise is not None:
                refN = np.stack([fft(r) for r in n]) if two_pol else fft(n)
                refN_sh = (np.stack([fftshift(r) for r in refN]) if two_pol else fftshift(refN)) if sh else refN
                check(exact_eq(X.noise, refN_sh), 'A.fft-noise', tag, "noise transform differs from row-wise fft")
            # shift only reorders: the opposite numpy shift recovers the unshifted transform
            if sh:
                U = x(dom)
                check(exact_eq(ifftshift(X.signal, axes=-1), U.signal), 'S.fwd-unshift', tag, "ifftshift(x(dom,shift=True)) != x(dom)")
                check(exact_eq(np.sort_complex(X.signal.ravel()), np.sort_complex(U.signal.ravel())), 'S.fwd-perm', tag, "not a permutation")
                if n is not None:
                    check(exact_eq(ifftshift(X.noise, axes=-1), U.noise), 'S.fwd-unshift-noise', tag, "ifftshift(noise) != unshifted")
            # Parseval per polarisation
            for nm, a, A in (('signal', s, X.signal), ('noise', n, X.noise)):
                if a is None:
                    continue
                lhs = np.sum(np.abs(A.astype(np.complex128)) ** 2, axis=-1)
                rhs = N * np.sum(np.abs(c128(a)) ** 2, axis=-1)
                ptol = 64 * EPS * logN * np.maximum(np.abs(rhs), 1e-300)
                check(np.shape(lhs) == ((2,) if two_pol else ()) and bool(np.all(np.abs(lhs - rhs) <= ptol)), 'P.parseval-' + nm, tag,
                      lambda: f"sum|X|^2={lhs} N*sum|x|^2={rhs}")
            if n is not None:
                lhs = np.sum(np.abs(X.signal + X.noise) ** 2, axis=-1)
                rhs = N * np.sum(np.abs(c128(s) + c128(n)) ** 2, axis=-1)
                ptol = 64 * EPS * logN * np.maximum(np.abs(rhs), scale ** 2 * N * EPS)
                check(bool(np.all(np.abs(lhs - rhs) <= ptol)), 'P.parseval-all', tag, lambda: f"{lhs} vs {rhs}")
                # Parseval through power(): power of the spectrum = N * power of the signal
                pw = np.asarray(X.power()); pr = N * np.mean(np.abs(c128(s) + c128(n)) ** 2, axis=-1)
                check(bool(np.all(np.abs(pw - pr) <= 64 * EPS * logN * np.maximum(np.abs(pr), scale ** 2 * EPS))), 'P.power-of-spectrum', tag, lambda: f"{pw} vs {pr}")
            # round trip back to time
            if not sh:
                Y = X('t')
            else:
                # undo the reordering first (the statement only promises reordering)
                Xu = cls(ifftshift(X.signal, axes=-1), None if X.noise is None else ifftshift(X.noise, axes=-1))
                Y = Xu('t')
            check(type(Y) is cls and Y.signal.shape == s.shape, 'R.shape', tag, lambda: f"{type(Y).__name__} {Y.signal.shape}")
            check(close(Y.signal, c128(s), rt_tol), 'R.roundtrip-signal', tag, lambda: f"max dev {np.max(np.abs(Y.signal - c128(s))):.3e} tol {rt_tol:.3e}")
            check((Y.noise is None) == (n is None), 'R.noise-presence', tag, "noise presence changed")
            if n is not None and Y.noise is not None:
                check(close(Y.noise, c128(n), rt_tol), 'R.roundtrip-noise', tag, lambda: f"max dev {np.max(np.abs(Y.noise - c128(n))):.3e}")

    # inverse transform and its shift, and the other round trip x('t')('w')
    for sh in (False, True, np.bool_(True), 1):
        tag = f"{inp} dom='t' shift={sh!r}"
        T = x('t', shift=sh)
        refS = np.stack([ifft(r) for r in s]) if two_pol else ifft(s)
        refS_sh = (np.stack([ifftshift(r) for r in refS]) if two_pol else ifftshift(refS)) if sh else refS
        check(type(T) is cls and T.signal.shape == s.shape, 'A.ifft-shape', tag, lambda: f"{type(T).__name__} {T.signal.shape}")
        check(exact_eq(T.signal, refS_sh), 'A.ifft-signal', tag, "signal differs from row-wise ifft (+ifftshift)")
        check((T.noise is None) == (n is None), 'A.noise-presence', tag, "noise presence changed")
        if n is not None and T.noise is not None:
            refN = np.stack([ifft(r) for r in n]) if two_pol else ifft(n)
            refN_sh = (np.stack([ifftshift(r) for r in refN]) if two_pol else ifftshift(refN)) if sh else refN
            check(exact_eq(T.noise, refN_sh), 'A.ifft-noise', tag, "noise differs from row-wise ifft")
        if sh:
            U = x('t')
            check(exact_eq(fftshift(T.signal, axes=-1), U.signal), 'S.inv-unshift', tag, "fftshift(x('t',shift=True)) != x('t')")
            if n is not None:
                check(exact_eq(fftshift(T.noise, axes=-1), U.noise), 'S.inv-unshift-noise', tag, "fftshift(noise) != unshifted")
            Tu = cls(fftshift(T.signal, axes=-1), None if T.noise is None else fftshift(T.noise, axes=-1))
        else:
            Tu = T
        for dom in ('w', 'f'):
            Y = Tu(dom)
            check(close(Y.signal, c128(s), rt_tol), 'R.roundtrip-tw-signal', tag + f" back={dom}", lambda: f"max dev {np.max(np.abs(Y.signal - c128(s))):.3e}")
            if n is not None and Y.noise is not None:
                check(close(Y.noise, c128(n), rt_tol), 'R.roundtrip-tw-noise', tag + f" back={dom}", "noise")
        # inverse Parseval: N*sum|ifft|^2 = sum|x|^2
        lhs = N * np.sum(np.abs(T.signal) ** 2, axis=-1); rhs = np.sum(np.abs(c128(s)) ** 2, axis=-1)
        check(bool(np.all(np.abs(lhs - rhs) <= 64 * EPS * logN * np.maximum(np.abs(rhs), 1e-300))), 'P.parseval-inverse', tag, lambda: f"{lhs} vs {rhs}")

    # the input object is not modified by any of the calls
    check(exact_eq(x.signal, s0) and x.signal.dtype == s0.dtype, 'M.unmodified', inp, "signal modified by __call__")
    check((x.noise is None) == (n0 is None) and (n0 is None or exact_eq(x.noise, n0)), 'M.unmodified', inp, "noise modified by __call__")

    # power(): mean of |signal+noise|^2 per polarisation
    tot = c128(s) if n is None else c128(s) + c128(n)
    pref = np.mean(np.abs(tot) ** 2, axis=-1)
    ie = in_eps(dtype)
    ptol = 16 * ie * logN * np.maximum(np.abs(pref), scale ** 2 * ie)
    for by in (None, 'all', 'ALL', 'All'):
        p = x.power() if by is None else x.power(by)
        p = np.asarray(p)
        check(p.shape == ((2,) if two_pol else ()), 'W.power-shape', f"{inp} by={by}", lambda: f"shape {p.shape}")
        check(p.shape == np.shape(pref) and bool(np.all(np.abs(p.astype(np.float64) - pref) <= ptol)), 'W.power', f"{inp} by={by}", lambda: f"power()={p} expected {pref}")
    ps = np.asarray(x.power('signal')); prs = np.mean(np.abs(c128(s)) ** 2, axis=-1)
    check(bool(np.all(np.abs(ps.astype(np.float64) - prs) <= 16 * ie * logN * np.maximum(prs, scale ** 2 * ie))), 'W.power-signal', inp, lambda: f"{ps} vs {prs}")
    if n is None:
        check(bool(np.all(np.asarray(x.power('noise')) == 0)), 'W.power-noise-none', inp, "noise power of a noiseless object not 0")
        check(bool(np.all(np.abs(np.asarray(x.power()).astype(np.float64) - prs) <= ptol)), 'W.power-all==signal', inp, "power() != power('signal') without noise")

    # w(): 2*pi*fftfreq(len)*fs for the fs currently in gv
    audit_w(x, N, inp)


def audit_w(x, N, inp):
    fs = gv.fs
    ref = 2 * PI * fftfreq(N) * fs
    for sh, r in ((False, ref), (True, fftshift(ref)), (np.bool_(True), fftshift(ref)), (1, fftshift(ref)), (0, ref)):
        w = x.w(shift=sh) if sh is not False else x.w()
        tag = f"{inp} fs={fs!r} shift={sh!r}"
        check(isinstance(w, np.ndarray) and w.shape == (N,), 'F.w-shape', tag, lambda: f"shape {np.shape(w)} expected {(N,)}")
        check(exact_eq(w, r), 'F.w-exact', tag, lambda: f"max dev {np.max(np.abs(w - r)) if np.shape(w) == r.shape else 'shape'}")
        alt = 2 * PI * (fftfreq(N) * fs)
        alt = fftshift(alt) if sh else alt
        check(np.shape(w) == alt.shape and np.allclose(w, alt, rtol=8 * EPS, atol=0), 'F.w-close', tag, "differs beyond rounding from 2*pi*(fftfreq*fs)")
        # grid facts: spacing 2*pi*fs/N, first bin 0 when not shifted, zero at N//2 when shifted
        if sh:
            check(w[N // 2] == 0, 'F.w-zero-bin', tag, lambda: f"w[N//2]={w[N // 2]}")
            check(bool(np.all(np.diff(w) > 0)) if N > 1 else True, 'F.w-monotone', tag, "shifted axis not increasing")
            check(exact_eq(ifftshift(w), ref), 'F.w-unshift', tag, "ifftshift(w(shift=True)) != w()")
        else:
            check(w[0] == 0, 'F.w-zero-bin', tag, lambda: f"w[0]={w[0]}")
    check(x.fs() == gv.fs, 'F.fs', inp, lambda: f"x.fs()={x.fs()} gv.fs={gv.fs}")


# ---------------------------------------------------------------- gv configurations
def gv_configs():
    """Yield (label, callable that configures gv). All of sps / R / fs combinations, python and numpy scalars."""
    yield 'default(clean)', lambda: gv.clean()
    for sps, R in [(1, 1e9), (2, 10e9), (8, 2.5e9), (16, 1e9), (7, 3e9), (64, 1.25e8), (np.int64(4), np.float64(5e9)), (3, 1), (4.0, 1e9), (2.6, 1e9)]:
        yield f'sps={sps!r},R={R!r}', (lambda sps=sps, R=R: gv(sps=sps, R=R))
    for sps, fs in [(1, 1e9), (2, 20e9), (8, 80e9), (5, 12.5e9), (np.int32(16), np.float32(3.2e10)), (4, 1), (3, 1e10)]:
        yield f'sps={sps!r},fs={fs!r}', (lambda sps=sps, fs=fs: gv(sps=sps, fs=fs))
    for R, fs in [(1e9, 16e9), (1e9, 2.5e9), (3e9, 10e9), (10e9, 10e9), (np.float64(2e9), 7e9), (1, 3), (1e9, 1e9 + 1)]:
        yield f'R={R!r},fs={fs!r}', (lambda R=R, fs=fs: gv(R=R, fs=fs))
    for fs in [40e9, 1e9, 123456789.0, 10 ** 10]:
        yield f'fs={fs!r}', (lambda fs=fs: gv(fs=fs))
    for sps in [1, 3, 32]:
        yield f'sps={sps!r}', (lambda sps=sps: gv(sps=sps))
    for R in [5e9, 1e6]:
        yield f'R={R!r}', (lambda R=R: gv(R=R))
    yield 'sps=8,R=1e9,N=10', lambda: gv(sps=8, R=1e9, N=10)
    yield 'fs=3e9 (N still set)', lambda: gv(fs=3e9)
    yield 'gv() no args', lambda: gv()
    yield 'sps=4,R=1e9,fs=9e9 (all three)', lambda: gv(sps=4, R=1e9, fs=9e9)
    yield 'custom kw', lambda: gv(sps=4, R=2e9, alpha=1)
    yield 'clean', lambda: gv.clean()
    yield 'attribute fs', lambda: setattr(gv, 'fs', 7.5e9)
    yield 'clean2', lambda: gv.clean()


def main():
    rng = np.random.default_rng(20202)
    gv.clean()

    # ---- 1. systematic enumeration: kind x length x noise x a dtype subset
    kinds = ['E', 'O1', 'O2', 'O2dup', 'O2row']
    for N in LENGTHS:
        for kind in kinds:
            for with_noise in (False, True):
                dts = ALL_DTYPES if N <= 33 else [np.float64, np.complex128, np.float32, np.complex64, np.int64]
                if N > 33 and kind in ('O2dup', 'O2row'):
                    dts = [np.float64, np.complex128]
                for dt in dts:
                    inp = f"{kind} N={N} dtype={np.dtype(dt).name} noise={with_noise}"
                    try:
                        x, s, n = build(kind, N, dt, with_noise, rng)
                        audit_object(x, s, n, inp, dt)
                    except Exception as e:  # any crash inside the domain is a violation too
                        bad('crash', inp, f"{type(e).__name__}: {e}")

    # ---- 2. containers (list / tuple, with explicit dtype and with the inferred one)
    for N in (1, 2, 3, 5, 8, 16):
        for kind in ('E', 'O1', 'O2', 'O2dup', 'O2row'):
            for cont in ('list', 'tuple'):
                for with_noise in (False, True):
                    for dt in (np.float64, np.complex128, np.int64, np.float32):
                        inp = f"{kind} N={N} dtype={np.dtype(dt).name} noise={with_noise} container={cont}"
                        try:
                            x, s, n = build(kind, N, dt, with_noise, rng, container=cont)
                            audit_object(x, s, n, inp, dt)
                        except Exception as e:
                            bad('crash', inp, f"{type(e).__name__}: {e}")
    # python lists without dtype (inferred), python scalars, numpy scalars, 0-d arrays
    for val, nval in [(2.5, None), (2.5, -1.0), (3, 1), (1 + 2j, None), (1 + 2j, 0.5j), (np.float64(1.5), np.float64(0.25)),
                      (np.float32(1.5), None), (np.complex64(1 - 1j), np.complex64(2j)), (np.array(4.0), np.array(1.0)), (np.int8(3), np.int8(-2)), (0.0, 0.0)]:
        for kind in ('E', 'O1', 'O2s'):
            inp = f"{kind} scalar signal={val!r} noise={nval!r}"
            try:
                if kind == 'E':
                    x = electrical_signal(val, nval); s = np.array([val]); n = None if nval is None else np.array([nval])
                elif kind == 'O1':
                    x = optical_signal(val, nval); s = np.array([val]); n = None if nval is None else np.array([nval])
                else:
                    x = optical_signal(val, nval, n_pol=2); s = np.array([[val], [val]]); n = None if nval is None else np.array([[nval], [nval]])
                if n is not None:
                    rt = np.result_type(s, n); s = s.astype(rt); n = n.astype(rt)
                audit_object(x, s, n, inp, s.dtype)
            except Exception as e:
                bad('crash', inp, f"{type(e).__name__}: {e}")
    for lst, nl in [([1.0, 2.0, 3.0], None), ([1, 2, 3], [0.5, 0.5, 0.5]), ([1 + 1j, 2, 3.5], [1, 1, 1]), ([[1, 2, 3], [4, 5, 6]], [[1j, 0, 0], [0, 0, 1]]), ([7], [1]), ([[7], [8]], None), ([[7, 1]], None)]:
        for kind in ('E', 'O'):
            a = np.array(lst)
            if kind == 'E' and a.ndim == 2:
                continue
            inp = f"{kind} list signal={lst!r} noise={nl!r}"
            try:
                x = (electrical_signal if kind == 'E' else optical_signal)(lst, nl)
                s = a; n = None if nl is None else np.array(nl)
                if s.ndim == 2 and s.shape[0] == 1:
                    s = np.array([s[0], s[0]]); n = None if n is None else np.array([n[0], n[0]])
                if n is not None:
                    rt = np.result_type(s, n); s = s.astype(rt); n = n.astype(rt)
                audit_object(x, s, n, inp, s.dtype)
            except Exception as e:
                bad('crash', inp, f"{type(e).__name__}: {e}")
    # strings (numeric, non binary) are an accepted container of the constructor
    for st, ns, ref, nref in [('1.5 2.5 3.5', None, [1.5, 2.5, 3.5], None), ('1+2j, 3+4j, 5+6j', '1 2 3', [1 + 2j, 3 + 4j, 5 + 6j], [1, 2, 3]),
                              ('2 3 4 5', '0.5 0.5 0.5 0.5', [2, 3, 4, 5], [.5, .5, .5, .5]), ('2.5', None, [2.5], None)]:
        for kind in ('E', 'O'):
            inp = f"{kind} str signal={st!r} noise={ns!r}"
            try:
                x = (electrical_signal if kind == 'E' else optical_signal)(st, ns)
                s = np.array(ref); n = None if nref is None else np.array(nref)
                if n is not None:
                    rt = np.result_type(s, n); s = s.astype(rt); n = n.astype(rt)
                if x.signal.ndim == 0 or x.signal.shape != s.shape:
                    bad('fixture', inp, f"string parsed to shape {x.signal.shape}")
                    continue
                audit_object(x, x.signal.copy(), None if x.noise is None else x.noise.copy(), inp, x.signal.dtype)
                check(np.allclose(x.signal, s), 'fixture', inp, "string parsed to other values")
            except Exception as e:
                bad('crash', inp, f"{type(e).__name__}: {e}")

    # ---- 3. special value patterns (zeros, delta at first / last sample, constant, Nyquist tone, large / tiny magnitude)
    for N in (1, 2, 3, 4, 5, 8, 9, 16, 17, 64, 101):
        pats = {
            'zeros': np.zeros(N), 'ones': np.ones(N), 'delta0': np.eye(1, N, 0)[0], 'deltaLast': np.eye(1, N, N - 1)[0],
            'nyquist': (-1.0) ** np.arange(N), 'ramp': np.arange(N, dtype=float), 'tone': np.exp(2j * PI * np.arange(N) / N),
            'negtone': np.exp(-2j * PI * np.arange(N) * (N // 2) / N), 'big': 1e150 * np.ones(N), 'tiny': 1e-150 * np.ones(N),
            'imag': 1j * np.arange(1, N + 1),
        }
        for pn, p in pats.items():
            for kind in ('E', 'O1', 'O2'):
                for with_noise in (False, True):
                    inp = f"{kind} N={N} pattern={pn} noise={with_noise}"
                    try:
                        s = p if kind != 'O2' else np.array([p, p[::-1]])
                        n = None
                        if with_noise:
                            n = (0.1 * np.max(np.abs(p)) if np.max(np.abs(p)) > 0 else 1.0) * rng.normal(size=s.shape)
                            rt = np.result_type(s, n); s = s.astype(rt); n = n.astype(rt)
                        x = (electrical_signal if kind == 'E' else optical_signal)(s, n)
                        if pn in ('big', 'tiny'):
                            # only transforms / round trip relative checks make sense; power squares out of range
                            X = x('w'); Y = X('t')
                            sc = np.max(np.abs(s))
                            check(close(Y.signal, c128(s), 64 * EPS * (1 + np.log2(N)) * sc), 'R.roundtrip-signal', inp, "extreme magnitude round trip")
                            check(exact_eq(ifftshift(x('w', True).signal, axes=-1), X.signal), 'S.fwd-unshift', inp, "unshift")
                            continue
                        audit_object(x, s, n, inp, s.dtype)
                    except Exception as e:
                        bad('crash', inp, f"{type(e).__name__}: {e}")

    # ---- 4. big lengths (prime, odd, powers of two), fewer variants
    for N in BIG_LENGTHS:
        for kind in ('E', 'O2'):
            for with_noise, dt in ((True, np.complex128), (False, np.float64)):
                inp = f"{kind} N={N} dtype={np.dtype(dt).name} noise={with_noise}"
                try:
                    x, s, n = build(kind, N, dt, with_noise, rng)
                    audit_object(x, s, n, inp, dt)
                except Exception as e:
                    bad('crash', inp, f"{type(e).__name__}: {e}")

    # ---- 5. gv sampling configurations: the same object follows the configuration currently in force
    objs = []
    for N in (1, 2, 3, 4, 5, 7, 8, 16, 17, 100, 101, 128):
        for kind in ('E', 'O1', 'O2'):
            for with_noise in (False, True):
                x, s, n = build(kind, N, np.complex128, with_noise, rng)
                objs.append((x, s, n, f"{kind} N={N} noise={with_noise}"))
    for label, conf in gv_configs():
        try:
            conf()
        except Exception as e:
            bad('crash', f"gv {label}", f"{type(e).__name__}: {e}")
            continue
        check(gv.dt == 1 / gv.fs or label == 'attribute fs', 'F.gv-dt', f"gv {label}", lambda: f"dt={gv.dt} 1/fs={1 / gv.fs}")
        for x, s, n, inp in objs:
            tag = f"{inp} gv[{label}]"
            try:
                audit_w(x, s.shape[-1], tag)
                # transforms / power do not depend on gv
                X = x('w', shift=True)
                check(exact_eq(X.signal, fftshift(fft(s, axis=-1), axes=-1)), 'A.fft-signal', tag, "fft depends on gv?")
                # w() of a transformed object follows the same grid
                audit_w(X, s.shape[-1], tag + " (of x('w'))")
                tot = s if n is None else s + n
                check(np.allclose(x.power(), np.mean(np.abs(tot) ** 2, axis=-1), rtol=1e-13, atol=0), 'W.power', tag, "power depends on gv?")
            except Exception as e:
                bad('crash', tag, f"{type(e).__name__}: {e}")
    # explicit expectations for what fs "currently configured" is
    gv.clean(); check(gv.fs == 16e9, 'F.gv-fs', 'clean', lambda: f"{gv.fs}")
    gv(sps=8, R=10e9); check(gv.fs == 80e9, 'F.gv-fs', 'sps=8,R=10e9', lambda: f"{gv.fs}")
    gv(sps=4, fs=20e9); check(gv.fs == 20e9 and gv.R == 5e9, 'F.gv-fs', 'sps=4,fs=20e9', lambda: f"{gv.fs} {gv.R}")
    gv(R=1e9, fs=2.5e9); check(gv.fs == 2.5e9, 'F.gv-fs', 'R=1e9,fs=2.5e9', lambda: f"{gv.fs}")
    gv(fs=3e9); check(gv.fs == 3e9, 'F.gv-fs', 'fs=3e9', lambda: f"{gv.fs}")
    e = electrical_signal(np.arange(5.0))
    check(exact_eq(e.w(), 2 * PI * fftfreq(5) * 3e9), 'F.w-exact', 'fs=3e9 N=5', "w")
    gv(sps=2, R=1e9)
    check(exact_eq(e.w(True), fftshift(2 * PI * fftfreq(5) * 2e9)), 'F.w-exact', 'then sps=2,R=1e9 N=5', "w does not follow gv")
    gv.clean()

    # ---- 6. repeated calls / call order: the result does not depend on history
    x, s, n = build('O2', 9, np.complex128, True, rng)
    a1 = x('w', shift=True); _ = x('t', shift=True); _ = x.w(True); _ = x.power(); a2 = x('w', shift=True)
    check(exact_eq(a1.signal, a2.signal) and exact_eq(a1.noise, a2.noise), 'M.repeat', 'O2 N=9', "second call differs")
    y = x
    for _ in range(20):
        y = y('w')('t')
    check(close(y.signal, s, 1e-12) and close(y.noise, n, 1e-12), 'R.roundtrip-x20', 'O2 N=9', "20 round trips drift")
    # slices / copies of objects keep the property (first and last element, length-1 slices)
    for kind in ('E', 'O1', 'O2'):
        for wn in (False, True):
            x, s, n = build(kind, 12, np.complex128, wn, rng)
            for sl, nm in ((slice(0, 1), '[0:1]'), (slice(11, 12), '[11:12]'), (slice(0, 5), '[0:5]'), (slice(1, None), '[1:]'), (slice(None, None, 2), '[::2]'), (slice(None, -1), '[:-1]')):
                try:
                    xs = x[sl]; ss = s[..., sl]; ns = None if n is None else n[..., sl]
                    audit_object(xs, ss, ns, f"{kind} N=12{nm} noise={wn}", np.complex128)
                except Exception as e2:
                    bad('crash', f"{kind} N=12{nm} noise={wn}", f"{type(e2).__name__}: {e2}")
            for idx in (0, 11, -1):
                try:
                    xs = x[idx]
                    ss = s[..., idx:idx + 1] if idx != -1 else s[..., -1:]
                    ns = None if n is None else (n[..., idx:idx + 1] if idx != -1 else n[..., -1:])
                    audit_object(xs, ss, ns, f"{kind} N=12[{idx}] noise={wn}", np.complex128)
                except Exception as e2:
                    bad('crash', f"{kind} N=12[{idx}] noise={wn}", f"{type(e2).__name__}: {e2}")
            xc = x.copy()
            audit_object(xc, s, n, f"{kind} N=12 copy noise={wn}", np.complex128)
    # results of arithmetic (sum of two signals) still satisfy it; linearity of the transform
    a, sa, na = build('O2', 7, np.complex128, True, rng); b, sb, nb = build('O2', 7, np.complex128, True, rng)
    c_ = a + b
    audit_object(c_, sa + sb, na + nb, 'O2 N=7 a+b', np.complex128)
    check(close(c_('w').signal, a('w').signal + b('w').signal, 1e-12), 'A.linearity', 'O2 N=7', "fft(a+b) != fft(a)+fft(b)")

    # ---- 7. integer dtypes at the end of their range (power in the input's own integer arithmetic)
    for dt, v in ((np.int8, 100), (np.int8, 12), (np.uint8, 200), (np.uint8, 16), (np.int16, 200), (np.int16, 30000), (np.int32, 50000), (np.uint16, 300)):
        for kind in ('E', 'O2'):
            for with_noise in (False, True):
                s = np.full((4,) if kind == 'E' else (2, 4), v, dtype=dt)
                n = np.zeros_like(s) if with_noise else None
                x = (electrical_signal if kind == 'E' else optical_signal)(s, n)
                exp = float(v) ** 2
                inp = f"{kind} N=4 dtype={np.dtype(dt).name} value={v} noise={with_noise}"
                try:
                    p = np.asarray(x.power())
                    check(bool(np.all(p == exp)), 'W.power-int', inp, lambda: f"power()={p} expected {exp} (mean |signal+noise|^2)")
                    X = x('w')
                    check(bool(np.allclose(np.sum(np.abs(X.signal) ** 2, axis=-1), 4 * 4 * exp)), 'P.parseval-signal', inp, "Parseval int")
                    check(close(X('t').signal, c128(s), 1e-9), 'R.roundtrip-signal', inp, "roundtrip int")
                except Exception as e2:
                    bad('crash', inp, f"{type(e2).__name__}: {e2}")

    print(f"checks run: {nchecks}")
    if violations:
        clauses = sorted({c for c, _ in violations})
        print(f"FAIL: {len(violations)} violated (clause, input) pairs; clauses: {clauses}")
        sys.exit(1)
    print("PASS")
    sys.exit(0)


if __name__ == '__main__':
    main()
