# C02 power() clause: "power() equals the mean of |signal+noise|^2 per polarisation", "complex/real dtypes".
# For a real *integer* dtype the square is taken in the input's integer type and wraps around (negative powers).
import sys; del sys.path[0]
import numpy as np
from opticomlib.typing import electrical_signal, optical_signal
bad = 0
cases = [(np.full(4, v, dtype=dt), v) for dt, v in ((np.int8, 12), (np.uint8, 16), (np.int16, 200), (np.int32, 50000))]
cases.append(([4000000000] * 4, 4000000000))         # plain python ints -> int64
for s, v in cases:                                   # constant signal, no noise: mean |s|^2 = v**2 exactly
    for x in (electrical_signal(s), optical_signal([s, s])):
        got, exp = np.asarray(x.power()), float(v)**2
        if not np.all(got == exp):
            bad = 1
            print(f"{type(x).__name__} dtype={x.signal.dtype} value={v}: expected power {exp}, got {got}")
sys.exit(bad)
