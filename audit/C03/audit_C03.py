"""Audit of property C03: a noise-free link built from the library's blocks returns the transmitted bits.

Clauses
  C1  bits -> DAC(NRZ|Gaussian) -> MZM on CW -> [FIBER|DM, |beta2 L| < 1% T^2] -> PD, sample at slot centre,
      threshold midway between the received levels  == transmitted bits (1 or 2 polarisations)
  C2  ook.DSP on >= 32 slots of random / PRBS data returns the transmitted bits
  C3  ppm.DSP(decision='soft') on PPM_ENCODER output returns the transmitted data
  C4  ppm.DSP(decision='hard', estimated threshold) on PPM_ENCODER output returns the transmitted data
  C5  BER_analizer('counter') == 0 for (tx, rx) of C2..C4 and == k/n for a sequence with k flipped bits
Lines tagged [borderline] are inside the literal wording but concern argument types / degenerate sizes.
"""
import sys, os
_here = os.path.dirname(os.path.abspath(__file__))
if sys.path and os.path.abspath(sys.path[0] or os.getcwd()) == _here:
    del sys.path[0]

import itertools, signal, time, warnings
warnings.filterwarnings('ignore')
import numpy as np

from opticomlib import gv, optical_signal, binary_sequence, idbm
from opticomlib.devices import DAC, MZM, PD, DM, FIBER, PRBS, LASER, SAMPLER
import opticomlib.ook as ook
import opticomlib.ppm as ppm

T0 = time.time()
VIOL = []


def viol(clause, desc, exp, got):
    VIOL.append(clause)
    print(f'VIOLATION {clause} :: {desc} :: expected {exp} :: got {got}', flush=True)


class _Timeout(Exception):
    pass


def _alarm(signum, frame):
    raise _Timeout()


signal.signal(signal.SIGALRM, _alarm)


def fiber_guarded(x, seconds=5, **kw):
    """FIBER is never called without a time limit."""
    signal.alarm(seconds)
    try:
        return FIBER(x, **kw)
    finally:
        signal.alarm(0)


def link(bits, sps=16, R=1e9, shape='nrz', Vpi=5.0, loss=0.0, ER=26.0, P=0.0, r=1.0, RL=50.0, bw=0.75,
         npol=1, pol='x', disp=None, dfrac=0.0, i_dark=10e-9, dackw=None, carrier='ones', invert=False):
    """noise-free link; bit 1 -> light on.  bw in units of R, dfrac = beta2*L / T^2."""
    gv(sps=sps, R=R)
    data = bits.data if isinstance(bits, binary_sequence) else np.asarray(
        binary_sequence(bits).data if isinstance(bits, str) else bits)
    n = len(data) * sps
    if invert:   # the example's convention: drive with ~bits, bias 0
        v = DAC(~binary_sequence(data), Vout=Vpi, pulse_shape=shape, **(dackw or {}))
        bias = 0.0
    else:
        v = DAC(bits, Vout=Vpi, pulse_shape=shape, **(dackw or {}))
        bias = -Vpi
    if carrier == 'laser':
        cw = LASER(np.arange(n) * gv.dt, P)          # lw, rin, df off
        if npol == 2:
            cw = optical_signal(cw.signal, n_pol=2)
    else:
        cw = optical_signal(np.ones(n) * idbm(P) ** 0.5, n_pol=npol)
    m = MZM(cw, v, bias=bias, Vpi=Vpi, loss_dB=loss, ER_dB=ER, pol=pol)
    T2 = (1 / R * 1e12) ** 2   # ps^2
    if disp == 'dm':
        m = DM(m, dfrac * T2)
    elif disp == 'fiber':
        m = fiber_guarded(m, length=10.0, alpha=0.2, beta_2=dfrac * T2 / 10.0)
    return PD(m, BW=bw * R, r=r, R_load=RL, include_noise='ase-only', i_dark=i_dark)


def decide(y):
    s = SAMPLER(y, gv.sps // 2)
    x = (s.signal + (s.noise if s.noise is not None else 0)).real
    th = (x.max() + x.min()) / 2          # midway between the received levels
    return (x > th).astype(int), x


def patterns(rs, n):
    yield 'rand', rs.randint(0, 2, n)
    yield 'alt10', np.tile([1, 0], n)[:n]
    yield 'alt01', np.tile([0, 1], n)[:n]
    for pos in sorted({0, 1, n // 2, n - 2, n - 1}):
        a = np.zeros(n, int); a[pos] = 1
        yield f'single1@{pos}', a
        a = np.ones(n, int); a[pos] = 0
        yield f'single0@{pos}', a
    yield 'runs10', np.r_[np.ones(n // 2, int), np.zeros(n - n // 2, int)]
    yield 'runs01', np.r_[np.zeros(n // 2, int), np.ones(n - n // 2, int)]
    yield 'prbs7', PRBS(7, int(n)).data


SPS = [4, 5, 6, 7, 8, 9, 15, 16, 17, 31, 32, 33, 63, 64]

# --------------------------------------------------------------------------------------------- C1
def clause1():
    n = 0
    for it in range(280):
        rs = np.random.RandomState(it)
        sps = SPS[it % len(SPS)]
        nb = int(rs.choice([2, 3, 5, 8, 17, 40]))
        while nb * sps <= 16:
            nb += 1
        R = float(10 ** rs.uniform(6, 11))
        shape = ['nrz', 'gaussian', 'rect', 'NRZ', 'GAUSSIAN'][it % 5]
        dackw = None
        if shape.lower() == 'gaussian' and it % 3 == 0:
            dackw = dict(m=int(rs.choice([1, 2, 3])), T=int(rs.choice([sps, max(2, sps // 2), max(2, 3 * sps // 4)])))
        Vpi = float(rs.uniform(1, 10)) if it % 7 else int(rs.randint(1, 10))
        loss = float(rs.choice([0, 0.5, 3, 10])); ER = float(rs.choice([10., 10., 13., 26., 40.]))
        P = float(rs.uniform(-40, 20)); r = float(rs.choice([1.0, 0.5, 0.05])); RL = float(rs.choice([50., 1e3, 1.]))
        bw = float(rs.choice([0.7, 0.7, 0.75, 1.0, min(1.5, 0.45 * sps), 0.45 * sps]))
        npol = 1 + it % 2; pol = 'xy'[(it // 2) % 2]
        disp = [None, 'dm', 'fiber'][it % 3]; dfrac = float(rs.choice([-0.0099, 0.0099, 0.005, -0.001, 0.0]))
        carrier = ['ones', 'laser'][(it // 3) % 2]; invert = bool((it // 5) % 2)
        for name, b in patterns(rs, nb):
            if b.min() == b.max():
                continue
            cont = [np.asarray, list, tuple, binary_sequence, lambda a: ''.join(map(str, a)), lambda a: np.asarray(a, bool)][n % 6]
            desc = (f'{name} n={nb} sps={sps} R={R:.3g} {shape}{dackw or ""} Vpi={Vpi:.3g} loss={loss} ER={ER} P={P:.1f}dBm r={r} RL={RL} '
                    f'BW={bw}R npol={npol}/{pol} {disp} b2L={dfrac}T^2 carrier={carrier} invert={invert}')
            n += 1
            try:
                y = link(cont(b), sps=sps, R=R, shape=shape, Vpi=Vpi, loss=loss, ER=ER, P=P, r=r, RL=RL, bw=bw, npol=npol,
                         pol=pol, disp=disp, dfrac=dfrac, i_dark=float(rs.choice([0., 10e-9])), dackw=dackw,
                         carrier=carrier, invert=invert)
                d, x = decide(y)
                if not np.array_equal(d, b):
                    viol('C1', desc, 'decided == tx', f'{int((d != b).sum())} errors')
                y2 = link(cont(b), sps=sps, R=R, shape=shape, Vpi=Vpi, loss=loss, ER=ER, P=P, r=r, RL=RL, bw=bw, npol=npol,
                          pol=pol, disp=disp, dfrac=dfrac, dackw=dackw, carrier=carrier, invert=invert) if n % 40 == 0 else None
                if y2 is not None and not np.array_equal(y2.signal, y.signal):   # repeated call, no hidden state
                    viol('C1', desc + ' (repeated call)', 'same waveform', 'different waveform')
            except Exception as ex:
                viol('C1', desc, 'decided == tx', repr(ex)[:120])
    # degenerate fibre: |beta2*L| = 0 < 1% T^2
    gv(sps=8, R=1e9)
    b = np.array([0, 1, 1, 0, 1, 0, 0, 1])
    m = MZM(optical_signal(np.ones(64) * 1e-3 ** 0.5), DAC(b, Vout=5.0), bias=-5.0)
    try:
        out = fiber_guarded(m, seconds=5, length=0.0, beta_2=-20.0)
        d, _ = decide(PD(out, BW=0.75e9, include_noise='ase-only'))
        if not np.array_equal(d, b):
            viol('C1[borderline]', 'FIBER(length=0)', 'decided == tx', 'errors')
    except _Timeout:
        viol('C1[borderline]', 'FIBER(length=0, beta_2=-20) on an 8-bit NRZ signal', 'returns the input', 'no return within 5 s (infinite loop)')
    # numpy scalars as block parameters
    for desc, f in (('DAC(Vout=np.int64(5))', lambda: DAC(b, Vout=np.int64(5))),
                    ('DAC(Vout=np.float32(5))', lambda: DAC(b, Vout=np.float32(5))),
                    ('DAC(gaussian, T=np.int64(8))', lambda: DAC(b, pulse_shape='gaussian', T=np.int64(8))),
                    ('PD(r=np.float32(0.5))', lambda: PD(m, BW=0.75e9, r=np.float32(0.5), include_noise='ase-only')),
                    ('PD(R_load=np.int64(50))', lambda: PD(m, BW=0.75e9, R_load=np.int64(50), include_noise='ase-only')),
                    ('MZM(Vpi=np.int64(5), ER_dB=np.int64(20))', lambda: MZM(optical_signal(np.ones(64)), DAC(b), Vpi=np.int64(5), ER_dB=np.int64(20)))):
        try:
            f()
        except Exception as ex:
            viol('C1[borderline]', desc, 'accepted like the python scalar', repr(ex)[:100])
    return n


# --------------------------------------------------------------------------------------------- C2 (+C5)
def run_ook(b, seed, desc, **kw):
    try:
        y = link(b, **kw)
        np.random.seed(seed)
        rx, e, rth = ook.DSP(y)
        if not (rx.len() == len(b) and np.array_equal(rx.data, b)):
            viol('C2', desc, 'ook.DSP == tx', f'{int((rx.data != b).sum()) if rx.len() == len(b) else "len %d" % rx.len()} errors, rth={rth:.4g}, mu0={e.mu0:.4g}, mu1={e.mu1:.4g}')
        ber = ook.BER_analizer('counter', Tx=binary_sequence(b), Rx=rx)
        if ber != np.sum(rx.data != b) / len(b):
            viol('C5', desc, 'BER == errors/n', ber)
    except Exception as ex:
        viol('C2', desc, 'ook.DSP == tx', repr(ex)[:120])


def clause2():
    n = 0
    for it in range(420):
        rs = np.random.RandomState(10000 + it)
        sps = int(rs.choice([4, 5, 6, 7, 8, 9, 11, 16, 17, 32, 33, 63, 64]))
        nb = int(rs.choice([32, 33, 34, 35, 48, 64, 127, 200]))
        R = float(10 ** rs.uniform(6, 11)); shape = ['nrz', 'gaussian'][it % 2]
        Vpi = float(rs.uniform(1, 10)); loss = float(rs.choice([0, 3, 10])); ER = float(rs.choice([10., 10., 13., 26., 40.]))
        P = float(rs.uniform(-40, 20)); r = float(rs.choice([1.0, 0.5, 0.05])); RL = float(rs.choice([50., 1e3, 1.]))
        bw = float(rs.choice([0.7, 0.7, 0.75, 1.0, min(1.5, 0.4 * sps)]))
        npol = 1 + it % 2; pol = 'xy'[(it // 2) % 2]
        disp = [None, 'dm', 'fiber'][it % 3]; dfrac = float(rs.choice([-0.0099, 0.0099, 0.005, 0.0]))
        b = rs.randint(0, 2, nb) if it % 4 else PRBS(int(rs.choice([7, 9, 15])), nb, seed=int(rs.randint(1, 100))).data
        if b.min() == b.max():
            continue
        desc = (f'{"rand" if it % 4 else "prbs"} n={nb} sps={sps} R={R:.3g} {shape} Vpi={Vpi:.3g} loss={loss} ER={ER} P={P:.1f}dBm '
                f'r={r} RL={RL} BW={bw}R npol={npol}/{pol} {disp} b2L={dfrac}T^2 seed={10000 + it}')
        run_ook(b, it, desc, sps=sps, R=R, shape=shape, Vpi=Vpi, loss=loss, ER=ER, P=P, r=r, RL=RL, bw=bw, npol=npol, pol=pol, disp=disp, dfrac=dfrac)
        n += 1
    # upper end of the PD bandwidth range (BW >= 0.7R, below Nyquist), smallest sps
    for sps, bws in ((4, (1.5, 1.8, 1.9, 1.95)), (5, (2.4,)), (8, (3.8, 3.96)), (16, (7.9,))):
        for bw in bws:
            for shape in ('nrz', 'gaussian'):
                for ER in (10., 26.):
                    for seed in range(6):
                        b = np.random.RandomState(seed).randint(0, 2, 32)
                        run_ook(b, seed, f'rand n=32 seed={seed} sps={sps} {shape} ER={ER} BW={bw}R (={bw / sps:.3f} fs) npol=1',
                                sps=sps, shape=shape, ER=ER, bw=bw)
                        n += 1
    # more than the 8192 slots the eye looks at
    b = np.random.RandomState(5).randint(0, 2, 9001)
    run_ook(b, 0, 'rand n=9001 sps=4 nrz BW=0.7R', sps=4, bw=0.7)
    return n + 1


# --------------------------------------------------------------------------------------------- C3, C4 (+C5)
def run_ppm(d, M, seed, desc, short=False, **kw):
    d = np.asarray(d)
    k = int(np.log2(M))
    ref = d[:len(d) // k * k]
    try:
        tx = ppm.PPM_ENCODER([d, list(d), tuple(d), binary_sequence(d), ''.join(map(str, d))][seed % 5], M)
        y = link(tx.data, **kw)
    except Exception as ex:
        viol('C3/C4', desc, 'link runs', repr(ex)[:120]); return
    for clause, dec in (('C3', 'soft'), ('C4', 'hard')):
        try:
            np.random.seed(seed)
            rx = ppm.DSP(y, M, decision=dec)
            ok = rx.len() == len(ref) and np.array_equal(rx.data, ref)
            if not ok:
                viol(clause + ('[short]' if short else ''), f'M={M} {desc}', f'ppm.DSP({dec}) == data',
                     f'{int((rx.data != ref).sum()) if rx.len() == len(ref) else "len %d" % rx.len()} bit errors of {len(ref)}')
            if rx.len() == len(ref):
                ber = ppm.BER_analizer('counter', Tx=ref, Rx=rx)
                if ber != np.sum(rx.data != ref) / len(ref):
                    viol('C5', f'M={M} {desc}', 'BER == errors/n', ber)
        except Exception as ex:
            viol(clause, f'M={M} {desc}', f'ppm.DSP({dec}) == data', repr(ex)[:120])


def clause34():
    n = 0
    for seed in range(3):
        for M in (2, 4, 8, 16):
            k = int(np.log2(M))
            for sps in (4, 5, 8, 16, 31, 64):
                for shape in ('nrz', 'gaussian'):
                    for bw in (0.7, 1.0, 0.45 * sps):
                        ER = [10., 26., 13.][(seed + sps) % 3]
                        nsym = 64 if sps <= 16 else 24
                        d = np.random.RandomState(seed * 7 + M).randint(0, 2, nsym * k + (seed % k))
                        run_ppm(d, M, seed, f'rand nbits={len(d)} sps={sps} {shape} BW={bw:.3g}R ER={ER} npol={1 + seed % 2}',
                                sps=sps, bw=bw, shape=shape, ER=ER, npol=1 + seed % 2, pol='xy'[seed % 2],
                                disp=[None, 'dm', 'fiber'][seed], dfrac=0.0099 * (-1) ** seed)
                        n += 1
    # listed corner sequences: alternating, long runs, a single 1 or 0 (first, last, every position parity)
    for M in (2, 4, 8, 16):
        k = int(np.log2(M))
        nb = 16 * k
        cases = {'alt10': np.tile([1, 0], nb)[:nb], 'alt01': np.tile([0, 1], nb)[:nb],
                 'runs01': np.r_[np.zeros(nb // 2, int), np.ones(nb // 2, int)], 'runs10': np.r_[np.ones(nb // 2, int), np.zeros(nb // 2, int)],
                 'prbs7': PRBS(7, nb).data}
        for pos in sorted({0, 1, 2, 3, nb // 2, nb // 2 + 1, nb - 2, nb - 1}):
            a = np.zeros(nb, int); a[pos] = 1; cases[f'single1@{pos}'] = a
            a = np.ones(nb, int); a[pos] = 0; cases[f'single0@{pos}'] = a
        for name, d in cases.items():
            for sps, shape in ((16, 'nrz'), (5, 'gaussian')):
                run_ppm(d, M, 1, f'{name} nbits={nb} sps={sps} {shape} BW=0.75R ER=26', sps=sps, shape=shape, bw=0.75)
                n += 1
    # short sequences, enumerated (waveform = 8*M.. slots * 8 samples > 16 samples)
    for M, nsym in ((2, 4), (4, 3)):
        k = int(np.log2(M))
        for tup in itertools.product([0, 1], repeat=nsym * k):
            if min(tup) == max(tup):
                continue
            run_ppm(np.array(tup), M, 1, f'data={"".join(map(str, tup))} sps=8 nrz BW=0.75R', short=True, sps=8, bw=0.75)
            n += 1
    return n


# --------------------------------------------------------------------------------------------- C5
def clause5():
    n = 0
    conts = {'binary_sequence': binary_sequence, 'ndarray': np.array, 'list': list, 'tuple': tuple,
             'str': lambda a: ''.join(map(str, a)), 'bool ndarray': lambda a: np.array(a, bool)}
    for mod in (ook, ppm):
        for nbits, flips in ((40, [3, 7, 20]), (1, [0]), (2, []), (33, list(range(33))), (1000, [0, 999])):
            tx = np.random.RandomState(nbits).randint(0, 2, nbits)
            rx = tx.copy(); rx[flips] ^= 1
            for (ca, fa), (cb, fb) in itertools.product(conts.items(), conts.items()):
                n += 1
                desc = f'{mod.__name__}.BER_analizer("counter", Tx={ca}, Rx={cb}) n={nbits} k={len(flips)}'
                try:
                    v = mod.BER_analizer('counter', Tx=fa(tx), Rx=fb(rx))
                    if v != len(flips) / nbits:
                        viol('C5', desc, len(flips) / nbits, v)
                except Exception as ex:
                    if nbits == 40:   # report each container pair once
                        viol('C5', desc, len(flips) / nbits, repr(ex)[:100])
    return n


if __name__ == '__main__':
    for name, fn in (('C1', clause1), ('C2', clause2), ('C3/C4', clause34), ('C5', clause5)):
        t = time.time()
        k = fn()
        print(f'# {name}: {k} inputs checked in {time.time() - t:.0f} s', flush=True)
    if VIOL:
        from collections import Counter
        print('# violations per clause:', dict(Counter(VIOL)))
        print(f'FAIL ({len(VIOL)} violated (clause, input) pairs, {time.time() - T0:.0f} s)')
        sys.exit(1)
    print('PASS')
    sys.exit(0)
