# C03 / ook.DSP: noise-free NRZ link, sps=4, PD bandwidth 1.95*R (>= 0.7*R, below Nyquist 2*R), 32 random slots
import sys, warnings; warnings.filterwarnings('ignore')
import numpy as np
from opticomlib import gv, optical_signal
from opticomlib.devices import DAC, MZM, PD
import opticomlib.ook as ook

gv(sps=4, R=1e9)
bits = np.random.RandomState(0).randint(0, 2, 32)
v = DAC(bits, Vout=5.0, pulse_shape='nrz')
cw = optical_signal(np.ones(v.len()) * 1e-3 ** 0.5)                      # 0 dBm CW carrier
y = PD(MZM(cw, v, bias=-5.0, Vpi=5.0, ER_dB=26), BW=1.95e9, include_noise='ase-only')   # every noise source off
x = (y.signal + y.noise)[gv.sps // 2::gv.sps]
print('slot-centre samples: max of the 0s %.4g V, min of the 1s %.4g V (eye wide open)' % (x[bits == 0].max(), x[bits == 1].min()))
np.random.seed(0)
rx, eye_, rth = ook.DSP(y)
errs = int(np.sum(rx.data != bits))
print('expected: ook.DSP returns the 32 transmitted bits, threshold between %.4g and %.4g' % (x[bits == 0].max(), x[bits == 1].min()))
print('got     : %d bit errors, threshold=%r, mu0=%r, mu1=%r' % (errs, rth, eye_.mu0, eye_.mu1))
sys.exit(1 if errs else 0)
