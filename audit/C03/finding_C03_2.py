# C03 / ppm.DSP(hard, estimated threshold): alternating data 1010..., M=4, through the noise-free link
import sys, warnings; warnings.filterwarnings('ignore')
import numpy as np
from opticomlib import gv, optical_signal
from opticomlib.devices import DAC, MZM, PD
import opticomlib.ppm as ppm

gv(sps=16, R=1e9)
M, data = 4, np.tile([1, 0], 16)                                          # 32 bits, both symbols present
slots = ppm.PPM_ENCODER(data, M)                                          # ON slot always at index 4k+2
v = DAC(slots, Vout=5.0, pulse_shape='nrz')
cw = optical_signal(np.ones(v.len()) * 1e-3 ** 0.5)
y = PD(MZM(cw, v, bias=-5.0, Vpi=5.0, ER_dB=26), BW=0.75e9, include_noise='ase-only')   # every noise source off
np.random.seed(0)
soft = ppm.DSP(y, M, decision='soft')
hard = ppm.DSP(y, M, decision='hard')                                     # threshold estimated from the eye
e_soft, e_hard = int(np.sum(soft.data != data)), int(np.sum(hard.data != data))
print('expected: soft and hard decisions both return the 32 data bits (BER 0)')
print('got     : soft %d errors, hard %d errors, BER(hard)=%g' % (e_soft, e_hard, ppm.BER_analizer('counter', Tx=data, Rx=hard)))
sys.exit(1 if e_soft or e_hard else 0)
