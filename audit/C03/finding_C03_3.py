# C03 / ook.BER_analizer('counter'): transmitted bits as ndarray (what was fed to DAC), received as binary_sequence (what ook.DSP returns)
import sys
import numpy as np
from opticomlib import binary_sequence
import opticomlib.ook as ook

tx = np.random.RandomState(0).randint(0, 2, 40)
rx = tx.copy(); rx[[3, 7, 20]] ^= 1                                       # k = 3 flipped bits, n = 40
print('both binary_sequence :', ook.BER_analizer('counter', Tx=binary_sequence(tx), Rx=binary_sequence(rx)))
print('both ndarray         :', ook.BER_analizer('counter', Tx=tx, Rx=rx))
try:
    ber = ook.BER_analizer('counter', Tx=tx, Rx=binary_sequence(rx))
except Exception as ex:
    ber = repr(ex)
print('expected: 0.075 (k/n = 3/40) for Tx=ndarray, Rx=binary_sequence')
print('got     :', ber)
sys.exit(0 if ber == 3 / 40 else 1)
