# C03 (borderline) / FIBER: the optional linear fibre with length 0 (|beta2*L| = 0 < 1% T^2) never returns
import sys, signal
import numpy as np
from opticomlib import gv, optical_signal
from opticomlib.devices import FIBER

def alarm(*a): raise TimeoutError
signal.signal(signal.SIGALRM, alarm)
gv(sps=8, R=1e9)
x = optical_signal(np.ones(64))
signal.alarm(5)                                                           # never call FIBER without a time limit
try:
    out = FIBER(x, length=0.0, beta_2=-20.0); got = 'returned, max |out-in| = %g' % np.abs(out.signal - x.signal).max()
except TimeoutError:
    got = 'no return within 5 s (infinite loop)'
signal.alarm(0)
print('expected: FIBER(length=0) returns the input unchanged')
print('got     :', got)
sys.exit(1 if 'loop' in got else 0)
