# C03 (borderline) / DAC, PD: numpy scalars are refused where the equal python scalar is accepted
import sys
import numpy as np
from opticomlib import gv, optical_signal
from opticomlib.devices import DAC, PD

gv(sps=8, R=1e9)
bits, cw, bad = [0, 1, 1, 0, 1, 0, 0, 1], optical_signal(np.ones(64)), []
for name, f in (('DAC(Vout=np.int64(5))', lambda: DAC(bits, Vout=np.int64(5))),
                ('DAC(Vout=np.float32(5))', lambda: DAC(bits, Vout=np.float32(5))),
                ('DAC(gaussian, T=np.int64(8))', lambda: DAC(bits, pulse_shape='gaussian', T=np.int64(8))),
                ('PD(r=np.float32(0.5))', lambda: PD(cw, BW=1e9, r=np.float32(0.5), include_noise='ase-only')),
                ('PD(R_load=np.int64(50))', lambda: PD(cw, BW=1e9, R_load=np.int64(50), include_noise='ase-only'))):
    try: f()
    except TypeError as ex: bad.append('%s -> TypeError: %s' % (name, ex))
print('expected: same result as with Vout=5 / T=8 / r=0.5 / R_load=50')
print('got     :', *bad, sep='\n   ')
sys.exit(1 if bad else 0)
