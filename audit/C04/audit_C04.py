"""Audit of property C04: PRBS emits the maximal-length sequence of its ITU polynomial and can be resumed."""
import sys, os
if sys.path and os.path.abspath(sys.path[0] or '.') == os.path.dirname(os.path.abspath(__file__)):
    del sys.path[0]
import warnings, random, time
import numpy as np
import opticomlib
from opticomlib.devices import PRBS
from opticomlib.typing import binary_sequence

TAPS = {7: 6, 9: 5, 11: 9, 15: 14, 20: 3, 23: 18, 31: 28}
ORDERS = sorted(TAPS)
FAILS = []
T0 = time.time()


def fail(clause, inp, msg):
    line = f"VIOLATION [{clause}] input={inp}: {msg}"
    if len(FAILS) < 200:
        print(line, flush=True)
    FAILS.append(line)


def quiet(*a, **k):
    with warnings.catch_warnings():
        warnings.simplefilter('ignore')
        return PRBS(*a, **k)


def ref(n, L, seed):
    """Independent reference: a[m] = a[m-n] ^ a[m-t]; bit j of seed is the output j steps before the first.
    returns (bits, state after L outputs)"""
    t = TAPS[n]
    s = seed % (1 << n)
    if s == 0:
        s = 1
    # hist[k] = a[k-(n-1)] for k = 0..n-1 ; a[0] = bit0, a[-j] = bit j
    a = [(s >> j) & 1 for j in range(n - 1, -1, -1)]  # a[-(n-1)] ... a[0]
    off = n - 1  # index of a[0]
    for m in range(1, L + 1):  # need a[1..L] (a[L..L-n+1] form the resumed state)
        a.append(a[off + m - n] ^ a[off + m - t])
    bits = a[off:off + L]
    state = 0
    for j in range(n):
        state |= a[off + L - j] << j
    return bits, state


def bits_of(out):
    return [int(v) for v in np.asarray(out.data)]


def ref_np(n, L, seed):
    """vectorised reference (blocks of t) for long sequences"""
    t = TAPS[n]
    s = seed % (1 << n) or 1
    a = np.zeros(n - 1 + L + 1, dtype=np.uint8)
    for j in range(n):
        a[n - 1 - j] = (s >> j) & 1
    pos = n  # next index to fill (a[pos] = a[pos-n]^a[pos-t])
    end = a.size
    while pos < end:
        k = min(t, end - pos)
        a[pos:pos + k] = a[pos - n:pos - n + k] ^ a[pos - t:pos - t + k]
        pos += k
    return a[n - 1:n - 1 + L]


# ---------------------------------------------------------------- polynomial arithmetic over GF(2)
def pmulmod(a, b, p, n):
    r = 0
    while b:
        if b & 1:
            r ^= a
        b >>= 1
        a <<= 1
        if (a >> n) & 1:
            a ^= p
    return r


def ppow(e, p, n):
    """x**e mod p"""
    r, base = 1, 2
    while e:
        if e & 1:
            r = pmulmod(r, base, p, n)
        base = pmulmod(base, base, p, n)
        e >>= 1
    return r


def factor(N):
    fs, d = set(), 2
    while d * d <= N:
        while N % d == 0:
            fs.add(d)
            N //= d
        d += 1
    if N > 1:
        fs.add(N)
    return fs


# ================================================================ clause M: the documented taps give primitive polynomials
def clause_math():
    for n in ORDERS:
        t = TAPS[n]
        # recurrence a[m]=a[m-n]^a[m-t]  <-> characteristic polynomial x^n + x^(n-t) + 1 (reciprocal of x^n+x^t+1, same order)
        for p in ((1 << n) | (1 << t) | 1, (1 << n) | (1 << (n - t)) | 1):
            P = (1 << n) - 1
            if ppow(P, p, n) != 1:
                fail('M period', (n, t), 'x^(2^n-1) != 1 mod polynomial')
            for q in factor(P):
                if ppow(P // q, p, n) == 1:
                    fail('M period', (n, t), f'order of x divides (2^n-1)/{q}: not maximal length')


# ================================================================ clause A: recurrence, seed bits, first output = LSB
def corner_seeds(n):
    M = 1 << n
    return [1, 2, 3, M >> 1, (M >> 1) + 1, M - 1, M - 2, M + 1, 2 * M - 1, 3 * M + 5, -1, -2, -(M - 1), -M + 1, -M - 1,
            -(M >> 1), 2 ** 64 + 7, 2 ** 200 + 3, -(2 ** 100) - 9, 1 << (n - 1), (1 << (TAPS[n] - 1)), 1 << TAPS[n] % n,
            0x55555555 % M or 1, 0xAAAAAAAA % M or 2, True]


def clause_A():
    rng = random.Random(404)
    for n in ORDERS:
        M = 1 << n
        t = TAPS[n]
        lens = sorted({1, 2, 3, 4, 5, t - 1, t, t + 1, n - 1, n, n + 1, 2 * n - 1, 2 * n, 2 * n + 1, 3 * n + 2, 97, 255, 256, 257})
        seeds = corner_seeds(n) + [rng.randrange(1, M) for _ in range(40)] + [rng.randrange(-10 ** 30, 10 ** 30) for _ in range(10)]
        for s in seeds:
            if s % M == 0:
                continue
            for L in lens:
                try:
                    with warnings.catch_warnings(record=True) as w:
                        warnings.simplefilter('always')
                        out, st = PRBS(n, len=L, seed=s, return_seed=True)
                        out2 = PRBS(order=n, len=L, seed=s)
                except Exception as e:
                    fail('A recurrence', (n, L, s), f'raised {type(e).__name__}: {e}')
                    continue
                if any(issubclass(x.category, UserWarning) for x in w):
                    fail('D warning', (n, L, s), 'warning for a seed not congruent to 0')
                if not isinstance(out, binary_sequence):
                    fail('A type', (n, L, s), f'output type {type(out).__name__}')
                b = bits_of(out)
                rb, rs = ref(n, L, s)
                if len(b) != L:
                    fail('A length', (n, L, s), f'got {len(b)} bits')
                if b != rb:
                    k = next((i for i, (x, y) in enumerate(zip(b, rb)) if x != y), None)
                    fail('A recurrence', (n, L, s), f'first mismatch at {k}: got {b[:12]} expected {rb[:12]}')
                if b and b[0] != (s % M) & 1:
                    fail('A first=LSB', (n, L, s), f'first output {b[0]}')
                if bits_of(out2) != b:
                    fail('A determinism', (n, L, s), 'return_seed=False / repeated call differs')
                if int(st) != rs:
                    fail('C state', (n, L, s), f'returned state {int(st)} expected {rs}')
        # the n virtual predecessors: for a one-hot seed 1<<j, the first output that is influenced is predictable; generic check
        # a[m] for 1 <= m: uses a[m-n], a[m-t] -> verify directly on the library output extended by the seed bits
        for s in [rng.randrange(1, M) for _ in range(20)] + [1 << j for j in range(n)]:
            L = 3 * n + 1
            b = bits_of(quiet(n, len=L, seed=s))
            ext = {-(j): (s >> j) & 1 for j in range(n)}
            ext.update({m: b[m] for m in range(L)})
            if ext[0] != b[0] or b[0] != s & 1:
                fail('A first=LSB', (n, L, s), 'first output is not seed LSB')
            for m in range(1, L):
                if ext[m] != ext[m - n] ^ ext[m - t]:
                    fail('A recurrence', (n, L, s), f'a[{m}] != a[{m - n}]^a[{m - t}]')
                    break
        # default seed: documented as 2**order-1, no warning
        with warnings.catch_warnings(record=True) as w:
            warnings.simplefilter('always')
            b = bits_of(PRBS(n, len=2 * n + 3))
        if w:
            fail('D warning', (n, 'seed=None'), 'warning with default seed')
        if b != ref(n, 2 * n + 3, M - 1)[0]:
            fail('A recurrence', (n, 'seed=None'), 'default-seed stream != stream of seed 2^n-1')
    # numpy integer scalars as seeds (signed kinds and the unsigned kinds numpy can combine with python ints)
    for T in (np.int8, np.int16, np.int32, np.int64, np.uint8, np.uint16, np.uint32, np.intp):
        for n in ORDERS:
            for s in (1, 5, 127, -3):
                if s < 0 and np.dtype(T).kind == 'u':
                    continue
                try:
                    out, st = PRBS(n, len=3 * n, seed=T(s), return_seed=True)
                    rb, rs = ref(n, 3 * n, s)
                    if bits_of(out) != rb or int(st) != rs:
                        fail('A recurrence', (n, f'{T.__name__}({s})'), 'numpy scalar seed gives a different stream')
                except Exception as e:
                    fail('A recurrence', (n, f'{T.__name__}({s})'), f'raised {type(e).__name__}: {e}')


def clause_A_exhaustive():
    """every non-zero state as a seed: n+2 outputs and the returned state, n <= 15 exhaustively; one-step for n=20 sample"""
    for n in (7, 9, 11, 15):
        M = 1 << n
        t = TAPS[n]
        mask = M - 1
        for s in range(1, M):
            out, st = PRBS(n, len=1, seed=s, return_seed=True)
            new = ((s >> (n - 1)) ^ (s >> (t - 1))) & 1
            exp = ((s << 1) | new) & mask
            if int(out.data[0]) != (s & 1) or int(st) != exp:
                fail('A/B exhaustive one-step', (n, s), f'got bit {int(out.data[0])} state {int(st)}, expected {s & 1}, {exp}')
    rng = random.Random(31)
    for n in (20, 23, 31):
        M = 1 << n
        t = TAPS[n]
        mask = M - 1
        ss = [1, M - 1, M >> 1, (M >> 1) - 1, (M >> 1) + 1, 1 << (t - 1), 1 << t, 3 << (n - 2), M - 2] + [rng.randrange(1, M) for _ in range(30000)]
        for s in ss:
            out, st = PRBS(n, len=1, seed=s, return_seed=True)
            new = ((s >> (n - 1)) ^ (s >> (t - 1))) & 1
            exp = ((s << 1) | new) & mask
            if int(out.data[0]) != (s & 1) or int(st) != exp:
                fail('A/B one-step', (n, s), f'got bit {int(out.data[0])} state {int(st)}, expected {s & 1}, {exp}')


# ================================================================ clause B: period, ones, all states visited
def clause_B():
    for n in (7, 9, 11, 15, 20, 23):
        P = (1 << n) - 1
        out = PRBS(n)  # default len = 2^n-1, default seed
        a = np.asarray(out.data).astype(np.uint8)
        if a.size != P:
            fail('B default len', n, f'default length {a.size} != 2^n-1')
            continue
        if int(a.sum()) != 1 << (n - 1):
            fail('B ones', n, f'{int(a.sum())} ones per period, expected {1 << (n - 1)}')
        if not np.array_equal(a, ref_np(n, P, P)):
            fail('A recurrence (full period)', n, 'full period differs from reference')
        # state at step m: bit j = a[m-j]; cyclic extension is legitimate only if the sequence closes: check with extra bits
        ext, st = PRBS(n, len=P + 2 * n, return_seed=True)
        e = np.asarray(ext.data).astype(np.uint8)
        if not np.array_equal(e[P:], e[:2 * n]):
            fail('B period', n, 'a[m+2^n-1] != a[m]')
        states = np.zeros(P, dtype=np.int64)
        for j in range(n):
            # state_m (m = n-1 .. n-1+P-1) bit j = e[m-j]
            states |= e[n - 1 - j:n - 1 - j + P].astype(np.int64) << j
        u = np.unique(states)
        if u.size != P or u[0] != 1 or u[-1] != P:
            fail('B all states', n, f'{u.size} distinct states visited in 2^n-1 steps, expected {P}')
        # exact period (no shorter period): follows from all states distinct; also direct check of proper divisors
        for q in factor(P):
            d = P // q
            if d < P and np.array_equal(e[:P], np.concatenate([e[d:P], e[:d]])):
                fail('B period', n, f'sequence also has period {d}')
    # other seeds, small orders: full period from every non-zero seed is a rotation with exactly the same ones count
    for n in (7, 9, 11):
        P = (1 << n) - 1
        for s in range(1, P + 1):
            a = np.asarray(PRBS(n, len=2 * P, seed=s).data)
            if int(a[:P].sum()) != 1 << (n - 1) or not np.array_equal(a[:P], a[P:]):
                fail('B period/ones', (n, s), 'period or ones count wrong for this seed')
            if n == 7:
                for d in range(1, P):
                    if np.array_equal(a[:P], a[d:d + P]):
                        fail('B period', (n, s), f'shorter period {d}')
    rng = random.Random(5)
    for n in (15, 20):
        P = (1 << n) - 1
        for s in [1, P, 1 << (n - 1)] + [rng.randrange(1, P + 1) for _ in range(3 if n == 15 else 1)]:
            a = np.asarray(PRBS(n, len=P + 64, seed=s).data)
            if int(a[:P].sum()) != 1 << (n - 1) or not np.array_equal(a[:64], a[P:]):
                fail('B period/ones', (n, s), 'period or ones count wrong for this seed')
    # PRBS31: long chunks against the reference from corner/random seeds (primitive polynomial proven in clause M,
    # state transition verified in clause_A_exhaustive -> period 2^31-1 from every non-zero state)
    n = 31
    for s in (None, 1, 1 << 30, (1 << 31) - 2, 0x5A5A5A5A % (1 << 31), 123456789):
        L = 400000
        a = np.asarray((PRBS(n, len=L) if s is None else PRBS(n, len=L, seed=s)).data).astype(np.uint8)
        if not np.array_equal(a, ref_np(n, L, (1 << 31) - 1 if s is None else s)):
            fail('A recurrence (long)', (n, s), 'long PRBS31 chunk differs from the reference')


# ================================================================ clause C: resumption, any split
def clause_C():
    rng = random.Random(2024)
    for n in ORDERS:
        M = 1 << n
        seeds = [1, M - 1, M >> 1, -1, M + 3, 2 ** 70 + 11] + [rng.randrange(1, M) for _ in range(6)]
        for s in seeds:
            for L in (2, 3, n, n + 1, 2 * n + 1, 45):
                whole, stw = quiet(n, len=L, seed=s, return_seed=True)
                wb = bits_of(whole)
                for a in range(1, L):  # every two-way split
                    o1, s1 = quiet(n, len=a, seed=s, return_seed=True)
                    o2, s2 = quiet(n, len=L - a, seed=s1, return_seed=True)
                    if bits_of(o1) + bits_of(o2) != wb:
                        fail('C resume', (n, s, a, L - a), 'two calls differ from one call')
                    if int(s2) != int(stw):
                        fail('C resume state', (n, s, a, L - a), f'final state {int(s2)} != {int(stw)}')
                    # the state passed as a plain python int too
                    o3 = quiet(n, len=L - a, seed=int(s1))
                    if bits_of(o1) + bits_of(o3) != wb:
                        fail('C resume', (n, s, a, L - a, 'int(state)'), 'two calls differ from one call')
            # many-way splits, including all-ones split
            for _ in range(6):
                L = rng.randrange(3, 200)
                parts = []
                rem = L
                while rem:
                    k = rng.choice([1, 1, 2, 3, rng.randrange(1, rem + 1)])
                    k = min(k, rem)
                    parts.append(k)
                    rem -= k
                for pp in (parts, [1] * L):
                    st, acc = s, []
                    for k in pp:
                        o, st = quiet(n, len=k, seed=st, return_seed=True)
                        acc += bits_of(o)
                    wb, stw = quiet(n, len=L, seed=s, return_seed=True)
                    if acc != bits_of(wb) or int(st) != int(stw):
                        fail('C resume multi', (n, s, pp if len(pp) < 12 else f'{len(pp)} parts'), 'resumed stream differs')
    # splits across the period boundary (state returns to the seed)
    for n in (7, 9):
        P = (1 << n) - 1
        for s in (1, P, 77):
            wb, stw = PRBS(n, len=2 * P + 5, seed=s, return_seed=True)
            wb = bits_of(wb)
            for a in (P - 1, P, P + 1, 2 * P, 2 * P + 4, 1):
                o1, s1 = PRBS(n, len=a, seed=s, return_seed=True)
                o2, s2 = PRBS(n, len=2 * P + 5 - a, seed=s1, return_seed=True)
                if bits_of(o1) + bits_of(o2) != wb or int(s2) != int(stw):
                    fail('C resume', (n, s, a), 'split across the period boundary differs')
                if a == P and int(s1) != s % (1 << n):
                    fail('B period', (n, s), f'state after 2^n-1 steps is {int(s1)}, not the seed')
    # state after one full period equals the seed (orders up to 20)
    for n in (11, 15, 20):
        P = (1 << n) - 1
        for s in (1, P, 12345 % P + 1):
            _, s1 = PRBS(n, len=P, seed=s, return_seed=True)
            if int(s1) != s:
                fail('B period', (n, s), f'state after 2^n-1 steps is {int(s1)}, not the seed')
    # large-order resume with long first part
    for n in (23, 31):
        s = 0x1234567 % (1 << n)
        wb, stw = PRBS(n, len=100001, seed=s, return_seed=True)
        o1, s1 = PRBS(n, len=99999, seed=s, return_seed=True)
        o2, s2 = PRBS(n, len=2, seed=s1, return_seed=True)
        if bits_of(o1) + bits_of(o2) != bits_of(wb) or int(s2) != int(stw):
            fail('C resume', (n, s, 99999, 2), 'long split differs')


# ================================================================ clause D: seed = 0 mod 2^n -> 1 with a warning
def clause_D():
    for n in ORDERS:
        M = 1 << n
        one, st_one = PRBS(n, len=2 * n + 5, seed=1, return_seed=True)
        for s in (0, M, -M, 2 * M, 5 * M, -7 * M, M * M, M << 100, -(M << 64), False, np.int64(0), np.int64(M)):
            with warnings.catch_warnings(record=True) as w:
                warnings.simplefilter('always')
                try:
                    out, st = PRBS(n, len=2 * n + 5, seed=s, return_seed=True)
                except Exception as e:
                    fail('D zero seed', (n, s), f'raised {type(e).__name__}: {e}')
                    continue
            uw = [x for x in w if issubclass(x.category, UserWarning)]
            if len(uw) < 1:
                fail('D warning', (n, s), 'no warning for a seed congruent to 0 mod 2^n')
            if bits_of(out) != bits_of(one) or int(st) != int(st_one):
                fail('D zero seed', (n, s), 'stream differs from the stream of seed 1')
            if not any(bits_of(out)):
                fail('D zero seed', (n, s), 'all-zero output')
        # warning turned into error must surface as the warning, not be swallowed
        with warnings.catch_warnings():
            warnings.simplefilter('error')
            try:
                PRBS(n, len=3, seed=0)
                fail('D warning', (n, 0, 'filter=error'), 'no warning raised')
            except UserWarning:
                pass
            try:
                PRBS(n, len=3, seed=M - 1)
                PRBS(n, len=3)
            except Warning as e:
                fail('D warning', (n, M - 1, 'filter=error'), f'unexpected warning {e}')


# ================================================================ clause E: len validation, unsupported orders
def clause_E():
    for n in ORDERS:
        for L in (0, -1, -2, -10 ** 12):
            for kw in ({}, {'seed': 5}, {'seed': 0}, {'return_seed': True}):
                try:
                    with warnings.catch_warnings():
                        warnings.simplefilter('ignore')
                        r = PRBS(n, len=L, **kw)
                    fail('E len', (n, L, kw), f'non-positive len accepted, returned {r!r}')
                except ValueError:
                    pass
                except Exception as e:
                    fail('E len', (n, L, kw), f'raised {type(e).__name__} instead of ValueError: {e}')
        for L in (2.0, 1.5, '5', [3], (4,), np.float64(3), 3 + 0j, float('nan')):
            try:
                r = PRBS(n, len=L)
                fail('E len', (n, L), f'non-int len accepted, returned {r!r}')
            except (TypeError, ValueError):
                pass
            except Exception as e:
                fail('E len', (n, L), f'raised {type(e).__name__}: {e}')
        for L in (1, 2, 3):
            try:
                o = PRBS(n, len=L)
                if len(bits_of(o)) != L:
                    fail('E len', (n, L), 'wrong length')
            except Exception as e:
                fail('E len', (n, L), f'positive int rejected: {type(e).__name__}: {e}')
    bad = [o for o in range(-3, 70) if o not in TAPS] + [127, 128, 1000]
    for o in bad:
        for kw in ({'len': 5}, {'len': 5, 'seed': 3}, {'len': 1, 'seed': 0}, {}, {'seed': 9}, {'len': 5, 'return_seed': True}):
            if 'len' not in kw and o > 40:
                kw = dict(kw, len=7)
            try:
                with warnings.catch_warnings():
                    warnings.simplefilter('ignore')
                    r = PRBS(o, **kw)
                fail('E order', (o, kw), f'unsupported order accepted, returned {r!r}')
            except ValueError:
                pass
            except Exception as e:
                fail('E order', (o, kw), f'raised {type(e).__name__} instead of ValueError: {e}')
    # supported orders as numpy ints are the same orders
    for n in ORDERS:
        for T in (np.int64, np.int32):
            try:
                o = PRBS(T(n), len=2 * n, seed=3)
                if bits_of(o) != ref(n, 2 * n, 3)[0]:
                    fail('A recurrence', (f'{T.__name__}({n})',), 'numpy order gives a different stream')
            except Exception as e:
                fail('E order', (f'{T.__name__}({n})',), f'supported order rejected: {type(e).__name__}: {e}')


if __name__ == '__main__':
    for f in (clause_math, clause_E, clause_D, clause_A, clause_C, clause_A_exhaustive, clause_B):
        t = time.time()
        try:
            f()
        except Exception as e:
            import traceback
            traceback.print_exc()
            fail(f.__name__, '-', f'audit section crashed: {type(e).__name__}: {e}')
        print(f'# {f.__name__} done in {time.time() - t:.1f}s, violations so far {len(FAILS)}', flush=True)
    if FAILS:
        print(f'FAIL: {len(FAILS)} violations')
        sys.exit(1)
    print('PASS')
    sys.exit(0)
