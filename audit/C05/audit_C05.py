"""Audit of property C05: DAC waveforms are slot-exact and SAMPLER inverts them."""
import sys, os
if sys.path and os.path.abspath(sys.path[0] or '.') == os.path.dirname(os.path.abspath(__file__)):
    del sys.path[0]
import warnings
warnings.simplefilter('ignore')
import collections
import numpy as np
from opticomlib import gv
from opticomlib.typing import binary_sequence, electrical_signal
from opticomlib.devices import DAC, SAMPLER

CAP = 12                      # lines printed per clause (the rest is counted)
count = collections.Counter()


def viol(clause, msg):
    count[clause] += 1
    if count[clause] <= CAP:
        print(f'VIOLATION [{clause}] {msg}')


def setsps(sps):
    gv(sps=sps, R=1e9)
    assert gv.sps == sps


def forms(bits):
    """every accepted container form of the same bit list"""
    b = [int(v) for v in bits]
    return [
        ('str', ''.join(map(str, b))),
        ('str_sp', ' '.join(map(str, b))),
        ('str_comma', ','.join(map(str, b))),
        ('list', list(b)),
        ('list_bool', [bool(v) for v in b]),
        ('tuple', tuple(b)),
        ('nd_int', np.array(b)),
        ('nd_u8', np.array(b, dtype=np.uint8)),
        ('nd_bool', np.array(b, dtype=bool)),
        ('nd_float', np.array(b, dtype=float)),
        ('binseq', binary_sequence(list(b))),
    ]


def real(sig):
    s = np.asarray(sig)
    if np.iscomplexobj(s):
        return s.real, float(np.abs(s.imag).max()) if s.size else 0.0
    return s.astype(float), 0.0


def decide(samples, Vout, bias):
    thr = bias + Vout / 2
    return (((samples - thr) * np.sign(Vout)) > 0).astype(int)


rng = np.random.default_rng(20240505)
ALL_SPS = list(range(2, 129))
CORNER_SPS = [2, 3, 4, 5, 7, 8, 9, 15, 16, 17, 31, 32, 33, 63, 64, 65, 127, 128]


def bit_corners():
    out = [[0], [1], [0, 0], [0, 1], [1, 0], [1, 1], [0, 1, 0], [1, 0, 1], [1, 1, 1], [0, 0, 0],
           [1, 0, 0, 0, 0], [0, 0, 0, 0, 1], [1, 1, 0, 1, 1, 0, 0]]
    for n in (1, 2, 3, 5, 8, 13, 31):
        out.append(list(rng.integers(0, 2, n)))
    return out


VB = [(1.0, 0.0), (1, 0), (5, 1), (-1.0, 0.0), (-3.5, 2.25), (47.999, -47.999), (-47.999, 47.999),
      (0.001, 0.0), (1e-3, 40.0), (0.1, 0.2), (3, -7), (np.float64(2.5), np.float64(-1.5))]
for _ in range(6):
    v = float(rng.uniform(-48, 48))
    VB.append((v if abs(v) > 1e-3 else 1.0, float(rng.uniform(-48, 48))))

# ---------------------------------------------------------------- C1/C2/C3/C5/C6: NRZ and RZ, exact
for sps in ALL_SPS:
    setsps(sps)
    seqs = bit_corners() if sps in CORNER_SPS else [[1], [0, 1], list(rng.integers(0, 2, 7))]
    vbs = VB if sps in CORNER_SPS else VB[:2] + [VB[int(rng.integers(2, len(VB)))]]
    for bits in seqs:
        b = np.array(bits, dtype=int)
        N = len(b)
        fl = forms(bits) if (sps in CORNER_SPS and N <= 5) else forms(bits)[::5]
        for fname, f in fl:
            for (Vout, bias) in (vbs if fname in ('str', 'binseq') else vbs[:3]):
                for shape in ('nrz', 'NRZ', 'rect', 'rz', 'RZ'):
                    tag = f'sps={sps} bits={bits} form={fname} Vout={Vout!r} bias={bias!r} shape={shape}'
                    try:
                        x = DAC(f, bias=bias, Vout=Vout, pulse_shape=shape)
                    except Exception as e:
                        viol('DAC-call', f'{tag}: raised {type(e).__name__}: {e}')
                        continue
                    if not isinstance(x, electrical_signal):
                        viol('DAC-type', f'{tag}: returned {type(x)}')
                        continue
                    y, im = real(x.signal)
                    if len(y) != N * sps or x.len() != N * sps:
                        viol('C1-length', f'{tag}: len={len(y)} expected {N*sps}')
                        continue
                    if im != 0:
                        viol('C2-exact', f'{tag}: non-zero imaginary part {im}')
                    hi = bias + Vout * b            # exact per-slot value
                    slots = y.reshape(N, sps)
                    if shape.lower() in ('nrz', 'rect'):
                        exp = np.repeat(hi[:, None], sps, axis=1)
                        if not np.array_equal(slots, exp):
                            viol('C2-NRZ', f'{tag}: got {slots.tolist()[:2]} expected {exp.tolist()[:2]}')
                        ks = range(sps) if sps <= 17 else [0, 1, sps // 2 - 1, sps // 2, sps - 2, sps - 1]
                    else:
                        h = sps // 2
                        exp = np.full((N, sps), float(bias))
                        exp[:, :h] = hi[:, None]
                        if not np.array_equal(slots, exp):
                            viol('C3-RZ', f'{tag}: got {slots.tolist()[:2]} expected {exp.tolist()[:2]}')
                        ks = range(h) if sps <= 17 else [0, 1, h - 1]
                    # SAMPLER on the waveform with an attached noise vector
                    nz = rng.normal(size=N * sps)
                    xn = electrical_signal(x.signal, nz)
                    for k in ks:
                        for kk in (k, np.int64(k)):
                            try:
                                s = SAMPLER(xn, kk)
                            except Exception as e:
                                viol('C5-SAMPLER', f'{tag} k={kk!r}: raised {type(e).__name__}: {e}')
                                continue
                            if not (np.array_equal(s.signal, x.signal[k::sps]) and s.noise is not None
                                    and np.array_equal(s.noise, nz[k::sps]) and len(s.signal) == N):
                                viol('C5-SAMPLER', f'{tag} k={kk!r}: wrong samples')
                        s0 = SAMPLER(x, k)
                        if s0.noise is not None and np.any(s0.noise != 0):
                            viol('C5-SAMPLER', f'{tag} k={k}: noise appeared from nowhere')
                        got = decide(real(s0.signal)[0], Vout, bias)
                        if not np.array_equal(got, b):
                            viol('C6-invert-' + shape.lower(), f'{tag} k={k}: decoded {got.tolist()}')
    # input not mutated, repeated calls agree
    arr = np.array([1, 0, 1, 1, 0]); keep = arr.copy()
    bs = binary_sequence(arr); keepb = bs.data.copy()
    a1 = DAC(arr, pulse_shape='rz').signal; a2 = DAC(arr, pulse_shape='rz').signal
    b1 = DAC(bs, pulse_shape='gaussian').signal; b2 = DAC(bs, pulse_shape='gaussian').signal
    if not (np.array_equal(arr, keep) and np.array_equal(bs.data, keepb)):
        viol('DAC-mutates', f'sps={sps}: input changed')
    if not (np.array_equal(a1, a2) and np.array_equal(b1, b2)):
        viol('DAC-repeat', f'sps={sps}: repeated calls differ')

# call order: sps changed between calls is honoured
setsps(16); xa = DAC('101'); setsps(5); xb = DAC('101'); setsps(16); xc = DAC('101')
if not (len(xa.signal) == 48 and len(xb.signal) == 15 and np.array_equal(xa.signal, xc.signal)):
    viol('C1-length', 'call order: gv.sps change between calls not honoured')

# ---------------------------------------------------------------- C4: Gaussian isolated 1


def fwhm(y, pk):
    h = y[pk] / 2
    l = pk
    while l > 0 and y[l - 1] >= h:
        l -= 1
    r = pk
    while r < len(y) - 1 and y[r + 1] >= h:
        r += 1
    if l == 0 or r == len(y) - 1:
        return None
    xl = l - (y[l] - h) / (y[l] - y[l - 1])
    xr = r + (y[r] - h) / (y[r] - y[r + 1])
    return xr - xl


for sps in range(8, 129):
    setsps(sps)
    lo = -(-sps // 2)
    Ts = sorted(set([lo, lo + 1, sps - 1, sps, sps + 1, 2 * sps - 1, 2 * sps] +
                    ([int(t) for t in rng.integers(lo, 2 * sps + 1, 3)])
                    + (list(range(lo, 2 * sps + 1)) if sps in (8, 9, 16, 17, 33) else [])))
    for T in Ts:
        if not (sps / 2 <= T <= 2 * sps):
            continue
        for m in (1, 2, 3, 4):
            for (n, pos) in ((9, 4), (10, 5), (7, 3), (1, 0), (2, 0), (2, 1), (6, 0), (6, 5)):
                for (Vout, bias) in ((1.0, 0.0), (-7.5, 3.0), (47.999, -20)):
                    if (Vout, bias) != (1.0, 0.0) and (n, pos) not in ((9, 4), (6, 0)):
                        continue
                    bits = [0] * n; bits[pos] = 1
                    tag = f'sps={sps} T={T} m={m} bits={"".join(map(str,bits))} Vout={Vout} bias={bias}'
                    try:
                        x = DAC(bits, bias=bias, Vout=Vout, pulse_shape='gaussian', T=T, m=m)
                    except Exception as e:
                        viol('DAC-call', f'{tag}: raised {type(e).__name__}: {e}')
                        continue
                    y, im = real(x.signal)
                    if len(y) != n * sps:
                        viol('C1-length', f'{tag}: len={len(y)}'); continue
                    if im > 1e-9:
                        viol('C4-gauss', f'{tag}: imaginary part {im} with c=0')
                    z = (y - bias) / Vout            # normalised pulse, peak should be ~1
                    pks = np.where(z >= z.max() - 1e-9)[0]
                    centre = pos * sps + (sps - 1) / 2.0      # geometric slot centre (between samples for even sps)
                    if np.min(np.abs(pks - centre)) > 1 + 1e-9:
                        viol('C4-gauss-peakpos', f'{tag}: peak at {pks.tolist()} slot centre {centre}')
                    if abs(z.max() - 1) > 0.05:
                        viol('C4-gauss-peakval', f'{tag}: peak {z.max()*Vout+bias:.5f} i.e. {z.max():.4f}*Vout')
                    room = min(pos, n - 1 - pos) * sps + sps // 2 - 1
                    if room > T / 2 + 2:
                        w = fwhm(z, int(pks[0]))
                        if w is None or abs(w - T) > 1:
                            viol('C4-gauss-fwhm', f'{tag}: FWHM {w} expected {T}+-1')
                    # inversion of an isolated 1 at k = sps//2
                    got = decide(real(SAMPLER(x, sps // 2).signal)[0], Vout, bias)
                    if not np.array_equal(got, bits):
                        viol('C6-invert-gauss-isolated', f'{tag}: decoded {got.tolist()}')

# ---------------------------------------------------------------- C6: Gaussian inversion, general sequences
# all sps 2..128, T over [sps/2, 2*sps], m 1..4; one line per (sps, m): the range of T that fails
seqs = [[1, 0, 1], [0, 1, 0], [1, 1, 0, 1, 1], [1] * 7, [0] * 4, [1], [0], [1, 0], [0, 1]] + \
       [list(rng.integers(0, 2, n)) for n in (3, 8, 33, 64)]
for sps in ALL_SPS:
    setsps(sps)
    lo = -(-sps // 2)
    if sps <= 33:
        Ts = list(range(lo, 2 * sps + 1))
    else:
        Ts = sorted(set([lo, sps, int(1.25 * sps), int(1.4 * sps), int(1.5 * sps), int(1.75 * sps), 2 * sps - 1, 2 * sps]))
    for m in (1, 2, 3, 4):
        bad = {}
        for T in Ts:
            for bits in seqs:
                for (Vout, bias) in ((1.0, 0.0), (-2.0, 5.0)):
                    x = DAC(bits, bias=bias, Vout=Vout, pulse_shape='gaussian', T=T, m=m)
                    if len(x.signal) != len(bits) * sps:
                        viol('C1-length', f'gaussian sps={sps} T={T} m={m} bits={bits}: len {len(x.signal)}')
                        continue
                    got = decide(real(SAMPLER(x, sps // 2).signal)[0], Vout, bias)
                    if not np.array_equal(got, bits) and T not in bad:
                        bad[T] = (bits, got.tolist(), Vout, bias)
        if bad:
            T0 = min(bad)
            bits, got, Vout, bias = bad[T0]
            viol('C6-invert-gauss-seq',
                 f'sps={sps} m={m}: k=sps//2 decoding wrong for T in {sorted(bad)[:4]}..{max(bad)} '
                 f'({len(bad)} of {len(Ts)} tested T); e.g. T={T0} bits={bits if len(bits)<12 else "(long)"} '
                 f'Vout={Vout} bias={bias} -> {got if len(got)<12 else "(long)"}')

# ---------------------------------------------------------------- C7: rejections and in-domain acceptance
setsps(16)


def expect(exc, label, *a, **kw):
    try:
        DAC(*a, **kw)
    except exc:
        return
    except Exception as e:
        viol('C7-reject', f'{label}: expected {exc.__name__}, got {type(e).__name__}: {e}')
        return
    viol('C7-reject', f'{label}: expected {exc.__name__}, nothing raised')


for shape in ('nrz', 'rz', 'gaussian'):
    for name in ('Vout', 'bias'):
        for v in (48, -48, 48.0, 50, -50, 1e9, float('inf'), -float('inf'), np.float64(48.0)):
            expect(ValueError, f'{shape} {name}={v!r}', '010', pulse_shape=shape, **{name: v})
        for v in ('5', [1.0], (1,), 1 + 1j, np.array([1.0, 2.0]), {'a': 1}, b'1'):
            expect(TypeError, f'{shape} {name}={v!r}', '010', pulse_shape=shape, **{name: v})
for v in (0, -1, 33, 100, -16):
    expect(ValueError, f'gaussian T={v!r}', '010', pulse_shape='gaussian', T=v)
for v in (8.0, 8.5, '8', [8], None, 8 + 0j):
    expect(TypeError, f'gaussian T={v!r}', '010', pulse_shape='gaussian', T=v)
for v in (0, -1, -4):
    expect(ValueError, f'gaussian m={v!r}', '010', pulse_shape='gaussian', m=v)
for v in (1.0, 1.5, '1', [1], None, 2 + 0j):
    expect(TypeError, f'gaussian m={v!r}', '010', pulse_shape='gaussian', m=v)
for v in ('0', [0.0], None, 1j, 1 + 1j, (0,)):
    expect(TypeError, f'gaussian c={v!r}', '010', pulse_shape='gaussian', c=v)
for v in ('triangle', '', 'gauss', 'nrz ', 'sinc', None, 5, 'n', 'r z'):
    expect(ValueError, f'pulse_shape={v!r}', '010', pulse_shape=v)

# in-domain values given as numpy scalars / python ints must be accepted and give the same waveform
ref_nrz = DAC('0110', Vout=5.0, bias=2.0).signal
ref_g = DAC('0110', pulse_shape='gaussian', T=16, m=2).signal
for name, vals, ref_kw in (('Vout', [5, 5.0, np.float64(5), np.int64(5), np.int32(5), np.float32(5)], dict(bias=2.0)),
                           ('bias', [2, 2.0, np.float64(2), np.int64(2), np.int32(2), np.float32(2)], dict(Vout=5.0))):
    for v in vals:
        try:
            y = DAC('0110', **{name: v}, **ref_kw).signal
            if not np.array_equal(y, ref_nrz):
                viol('C2-NRZ', f'{name}={v!r}: waveform differs from python-float call')
        except Exception as e:
            viol('C7-accept', f'in-range scalar {name}={v!r} ({type(v).__name__}) rejected: {type(e).__name__}: {e}')
for name, vals in (('T', [16, np.int64(16), np.int32(16)]), ('m', [2, np.int64(2), np.int32(2)])):
    for v in vals:
        kw = dict(T=16, m=2); kw[name] = v
        try:
            y = DAC('0110', pulse_shape='gaussian', **kw).signal
            if not np.array_equal(y, ref_g):
                viol('C4-gauss', f'{name}={v!r}: waveform differs from python-int call')
        except Exception as e:
            viol('C7-accept', f'in-range integer {name}={v!r} ({type(v).__name__}) rejected: {type(e).__name__}: {e}')

# ---------------------------------------------------------------- summary
if count:
    print('--- summary ---')
    for k, v in sorted(count.items()):
        print(f'{k}: {v} violation(s)')
    sys.exit(1)
print('PASS')
sys.exit(0)
