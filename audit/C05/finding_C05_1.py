# C05: "for all ... Vout/bias in (-48,48), all Gaussian T in [sps/2, 2*sps] and orders m in 1..4"
# In-range values held in numpy scalars (np.int64 from np.arange/len arithmetic, np.float32) are rejected.
import sys; del sys.path[0]
import warnings; warnings.simplefilter('ignore')
import numpy as np
from opticomlib import gv
from opticomlib.devices import DAC
gv(sps=16, R=1e9)
bad = 0
for kw in (dict(Vout=np.int64(5)), dict(bias=np.int64(2)), dict(Vout=np.float32(5)),
           dict(pulse_shape='gaussian', T=np.int64(16)), dict(pulse_shape='gaussian', m=np.int64(2))):
    try:
        n = len(DAC('0110', **kw).signal)
        print(kw, '-> ok,', n, 'samples')
    except Exception as e:
        bad += 1
        print(kw, '-> expected a 64-sample waveform, got', type(e).__name__ + ':', e)
sys.exit(1 if bad else 0)
