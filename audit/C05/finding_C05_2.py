# C05: "sampling a DAC waveform at ... k = sps//2 for Gaussian and comparing with bias+Vout/2 returns
# the input bits", quantified over "all Gaussian T in [sps/2, 2*sps] and orders m in 1..4".
# For T > 2*sps/2**(1/(2m)) (1.41*sps for m=1) the 0 between two 1s reads above Vout/2.
import sys; del sys.path[0]
import warnings; warnings.simplefilter('ignore')
import numpy as np
from opticomlib import gv
from opticomlib.devices import DAC, SAMPLER
sps = 16; gv(sps=sps, R=1e9)
bits = [1, 0, 1]; bad = 0
for T, m in ((24, 1), (32, 1), (32, 4)):
    s = SAMPLER(DAC(bits, Vout=1.0, bias=0.0, pulse_shape='gaussian', T=T, m=m), sps // 2).signal.real
    got = (s > 0.5).astype(int).tolist()
    if got != bits:
        bad += 1
        print(f'sps={sps} T={T} m={m}: expected {bits}, decoded {got} (samples {np.round(s, 3).tolist()}, threshold 0.5)')
sys.exit(1 if bad else 0)
