# C05: inversion clause at the corner "all sps in 2..128", T = sps/2 ("all Gaussian T in [sps/2, 2*sps]"):
# sps=2, T=1. A 1 never reaches bias+Vout/2 at k = sps//2 (nor anywhere else), so every bit decodes as 0.
import sys; del sys.path[0]
import warnings; warnings.simplefilter('ignore')
import numpy as np
from opticomlib import gv
from opticomlib.devices import DAC, SAMPLER
sps = 2; gv(sps=sps, R=1e9)
bits = [0, 1, 0]; bad = 0
for m in (1, 2, 3, 4):
    x = DAC(bits, Vout=1.0, bias=0.0, pulse_shape='gaussian', T=1, m=m)
    s = SAMPLER(x, sps // 2).signal.real
    got = (s > 0.5).astype(int).tolist()
    if got != bits:
        bad += 1
        print(f'sps=2 T=1 m={m}: expected {bits}, decoded {got}; waveform peak {x.signal.real.max():.4f} (Vout=1, threshold 0.5)')
sys.exit(1 if bad else 0)
