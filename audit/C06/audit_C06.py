import sys, os
_here = os.path.dirname(os.path.abspath(__file__))
if sys.path and os.path.abspath(sys.path[0] or '.') == _here:
    del sys.path[0]

import itertools
import numpy as np
from opticomlib import gv, optical_signal, electrical_signal
from opticomlib.devices import MZM, PM, LASER

viol = []
seen = set()
def bad(clause, desc, detail=''):
    key = (clause, desc)
    if key in seen:
        return
    seen.add(key)
    viol.append(key)
    print(f'VIOLATION [{clause}] {desc} {detail}')

RTOL = 1e-12

def close(a, b, scale=None):
    a = np.asarray(a); b = np.asarray(b)
    if a.shape != b.shape:
        return False
    if scale is None:
        scale = max(np.max(np.abs(a), initial=0), np.max(np.abs(b), initial=0), 1e-300)
    return bool(np.all(np.abs(a - b) <= RTOL * scale + 1e-300))

def total(o):
    return o.signal if o.noise is None else o.signal + o.noise

def mkfield(rng, N, npol, noise, kind='complex'):
    shape = (N,) if npol == 1 else (2, N)
    if kind == 'complex':
        s = rng.normal(size=shape) + 1j * rng.normal(size=shape)
    elif kind == 'real':
        s = rng.normal(size=shape)
    elif kind == 'int':
        s = rng.integers(-3, 4, size=shape)
    elif kind == 'zeros':
        s = np.zeros(shape, complex)
    elif kind == 'big':
        s = (rng.normal(size=shape) + 1j * rng.normal(size=shape)) * 1e12
    elif kind == 'tiny':
        s = (rng.normal(size=shape) + 1j * rng.normal(size=shape)) * 1e-150
    n = None
    if noise:
        n = 0.1 * (rng.normal(size=shape) + 1j * rng.normal(size=shape))
    return optical_signal(s, n)

def drives(rng, N, kind):
    """return dict container -> drive, plus the canonical ndarray u (length N)"""
    if kind == 'const':
        c = float(rng.normal() * 7)
        u = np.full(N, c)
        return u, {'pyfloat': c, 'ndarray': u.copy(), 'esig': electrical_signal(u.copy()),
                   'npfloat64': np.float64(c)}
    if kind == 'constint':
        c = int(rng.integers(-9, 10))
        u = np.full(N, float(c))
        return u, {'pyint': c, 'ndarray_int': np.full(N, c), 'esig': electrical_signal(np.full(N, c)),
                   'npint64': np.int64(c), 'npint32': np.int32(c), 'npfloat32': np.float32(c),
                   '0d-ndarray': np.array(float(c))}
    if kind == 'zero':
        u = np.zeros(N)
        return u, {'pyint0': 0, 'pyfloat0': 0.0, 'ndarray': u.copy(), 'esig': electrical_signal(u.copy())}
    if kind == 'rand':
        u = rng.normal(size=N) * 10
    elif kind == 'huge':
        u = rng.normal(size=N) * 1e4
    elif kind == 'ramp':
        u = np.linspace(-20, 20, N)
    elif kind == 'intarr':
        u = rng.integers(-12, 13, size=N).astype(float)
        return u, {'ndarray_int': u.astype(int), 'ndarray': u.copy(), 'esig': electrical_signal(u.astype(int)),
                   'esig_noise': electrical_signal(u.copy(), rng.normal(size=N))}
    elif kind == 'bool':
        b = rng.integers(0, 2, size=N).astype(bool)
        u = b.astype(float)
        return u, {'ndarray_bool': b, 'ndarray': u.copy(), 'esig': electrical_signal(b)}
    return u, {'ndarray': u.copy(), 'esig': electrical_signal(u.copy()),
               'esig_noise': electrical_signal(u.copy(), rng.normal(size=N)),
               'esig_complex': electrical_signal(u.astype(complex))}

SIZES = [1, 2, 3, 5, 8, 17, 64]
DKINDS = ['const', 'constint', 'zero', 'rand', 'huge', 'ramp', 'intarr', 'bool']
FKINDS = ['complex', 'real', 'int', 'zeros', 'big', 'tiny']

# ---------------------------------------------------------------- MZM
def mzm_ref(x, u, bias, Vpi, loss_dB, ER_dB):
    th = np.pi * (u + bias) / (2 * Vpi)
    return x * np.sqrt(10 ** (-loss_dB / 10)) * (np.cos(th) + 1j * 10 ** (-ER_dB / 20) * np.sin(th))

def check_mzm():
    rng = np.random.default_rng(6001)
    params = [
        # bias, Vpi, loss, ER
        (0.0, 5.0, 0.0, 26.0), (0, 5, 0, 0), (2.5, 5.0, 3.0, 60.0), (-7.3, 0.1, 40.0, 60),
        (1e3, 1e-3, 0.0, 0.0), (np.float64(1.2), np.int64(3), np.float32(2.0), np.int32(30)),
        (0.0, 1e6, 400.0, 10.0), (3.3, 2.2, 1e-9, 1e-9), (5, 5, 10, 20),
    ]
    for _ in range(8):
        params.append((float(rng.normal() * 10), float(10 ** rng.uniform(-2, 2)),
                       float(rng.uniform(0, 30)), float(rng.uniform(0, 60))))
    for N, npol, noise, fk, dk, pol in itertools.product(SIZES, (1, 2), (False, True), FKINDS, DKINDS, ('x', 'y')):
        x = mkfield(rng, N, npol, noise, fk)
        xs0 = x.signal.copy(); xn0 = None if x.noise is None else x.noise.copy()
        u, cont = drives(rng, N, dk)
        for (bias, Vpi, loss, ER) in [params[i] for i in rng.choice(len(params), 3, replace=False)]:
            tag = f'N={N} npol={npol} noise={noise} field={fk} drive={dk} pol={pol} bias={bias} Vpi={Vpi} loss={loss} ER={ER}'
            sl = 10 ** (-float(loss) / 20)
            ref_s = mzm_ref(xs0, u, float(bias), float(Vpi), float(loss), float(ER))
            ref_n = None if xn0 is None else mzm_ref(xn0, u, float(bias), float(Vpi), float(loss), float(ER))
            if npol == 2:
                k = 1 if pol == 'x' else 0
                ref_s[k] = 0
                if ref_n is not None: ref_n[k] = 0
            first = None
            angm = (np.max(np.abs(u)) + abs(float(bias))) / float(Vpi) * np.pi / 2
            for cname, d in cont.items():
                # float32 drives are evaluated in single precision by numpy: compare at single precision
                tolr = (1e-12 + 2e-15 * angm) if cname != 'npfloat32' else (1e-5 + 1e-6 * angm)
                try:
                    o = MZM(x, d, bias=bias, Vpi=Vpi, loss_dB=loss, ER_dB=ER, pol=pol)
                except Exception as e:
                    bad('MZM.accept', f'container={cname}', f'{type(e).__name__}: {e} | {tag}')
                    continue
                if not isinstance(o, optical_signal):
                    bad('MZM.type', f'container={cname}', tag); continue
                if o.signal.shape != xs0.shape:
                    bad('MZM.shape', f'container={cname}', f'{o.signal.shape} vs {xs0.shape} | {tag}'); continue
                sc = max(np.max(np.abs(xs0), initial=0) * sl, 1e-300)
                if np.any(np.abs(o.signal - ref_s) > tolr * sc):
                    bad('MZM.transfer', f'container={cname} field={fk} drive={dk}', tag)
                if (o.noise is None) != (xn0 is None):
                    bad('MZM.noise-presence', f'container={cname}', tag)
                elif xn0 is not None and np.any(np.abs(o.noise - ref_n) > tolr * max(np.max(np.abs(xn0)) * sl, 1e-300)):
                    bad('MZM.noise-modulated', f'container={cname}', tag)
                # never amplifies (per sample, signal, noise and total)
                for nm, a, b in (('signal', o.signal, xs0),) + ((('noise', o.noise, xn0), ('total', total(o), xs0 + xn0)) if xn0 is not None else ()):
                    if np.any(np.abs(a) > sl * np.abs(b) * (1 + (1e-12 if cname != 'npfloat32' else 1e-6))):
                        bad('MZM.passive', f'{nm} container={cname}', tag)
                # extinguished polarisation exact zero
                if npol == 2:
                    k = 1 if pol == 'x' else 0
                    if np.any(o.signal[k] != 0) or (o.noise is not None and np.any(o.noise[k] != 0)):
                        bad('MZM.pol-extinguish', f'container={cname}', tag)
                    if fk == 'complex' and loss < 100 and ER < 100 and np.all(o.signal[1 - k] == 0):
                        bad('MZM.pol-selected-kept', f'container={cname}', tag)
                # identical across containers
                if first is None:
                    first = (cname, o)
                else:
                    if np.any(np.abs(first[1].signal - o.signal) > tolr * sc):
                        bad('MZM.containers-identical', f'{first[0]} vs {cname}', tag)
                    if o.noise is not None and np.any(np.abs(first[1].noise - o.noise) > tolr * np.max(np.abs(xn0)) * sl):
                        bad('MZM.containers-identical-noise', f'{first[0]} vs {cname}', tag)
            # input not mutated
            if not np.array_equal(x.signal, xs0) or (xn0 is not None and not np.array_equal(x.noise, xn0)):
                bad('MZM.input-mutated', f'field={fk}', tag)
            # periodicity 2*Vpi in drive (power)
            if dk in ('rand', 'ramp', 'const') and fk == 'complex':
                o1 = MZM(x, cont['ndarray'], bias=bias, Vpi=Vpi, loss_dB=loss, ER_dB=ER, pol=pol)
                for m in (1, -1, 3):
                    o2 = MZM(x, cont['ndarray'] + m * 2 * float(Vpi), bias=bias, Vpi=Vpi, loss_dB=loss, ER_dB=ER, pol=pol)
                    p1, p2 = np.abs(total(o1)) ** 2, np.abs(total(o2)) ** 2
                    # angle rounding: |u+bias|/Vpi * eps
                    amp = (np.max(np.abs(u)) + abs(float(bias)) + 6 * float(Vpi)) / float(Vpi)
                    tol = 1e-14 * amp * 50 + 1e-12
                    if np.any(np.abs(p1 - p2) > tol * max(np.max(np.abs(total(x)) ** 2) * sl ** 2, 1e-300)):
                        bad('MZM.periodic', f'm={m}', tag)

    # on/off ratio == ER_dB
    for N, npol, noise in itertools.product((1, 2, 7), (1, 2), (False, True)):
        for ER in (0, 0.0, 1e-6, 3, 10.0, 26, 40, 59.999, 60, 60.0):
            for Vpi in (5, 5.0, 0.37, 123.0):
                for loss in (0, 0.0, 3.0, 20):
                    for bias in (0.0, Vpi, -Vpi, 2 * Vpi, 17 * Vpi):
                        for pol in ('x', 'y'):
                            x = mkfield(rng, N, npol, noise)
                            on = MZM(x, -bias, bias=bias, Vpi=Vpi, loss_dB=loss, ER_dB=ER, pol=pol)
                            off = MZM(x, Vpi - bias, bias=bias, Vpi=Vpi, loss_dB=loss, ER_dB=ER, pol=pol)
                            k = 0 if (npol == 1) else (0 if pol == 'x' else 1)
                            ton = total(on) if npol == 1 else total(on)[k]
                            tof = total(off) if npol == 1 else total(off)[k]
                            ratio = 10 * np.log10(np.abs(ton) ** 2 / np.abs(tof) ** 2)
                            if np.any(np.abs(ratio - ER) > 1e-6):
                                bad('MZM.ER', f'ER={ER} Vpi={Vpi} loss={loss} bias={bias}', f'ratio={ratio}')
                            # on-state power equals loss * input power
                            tin = total(x) if npol == 1 else total(x)[k]
                            if not close(np.abs(ton) ** 2, 10 ** (-loss / 10) * np.abs(tin) ** 2):
                                bad('MZM.on-loss', f'ER={ER} Vpi={Vpi} loss={loss} bias={bias}')

    # mismatched lengths raise ValueError
    for N, npol, noise in itertools.product((1, 2, 3, 5, 16), (1, 2), (False, True)):
        x = mkfield(rng, N, npol, noise)
        for M in (1, 2, 3, N - 1, N + 1, 2 * N, 4):
            if M == N or M < 1:
                continue
            for cname, d in (('ndarray', np.ones(M)), ('esig', electrical_signal(np.ones(M))),
                             ('esig_noise', electrical_signal(np.ones(M), np.ones(M)))):
                for pol in ('x', 'y'):
                    try:
                        MZM(x, d, pol=pol)
                        bad('MZM.mismatch-raises', f'container={cname} M={"1" if M == 1 else "other"}', f'N={N} M={M} npol={npol}: no exception')
                    except ValueError:
                        pass
                    except Exception as e:
                        bad('MZM.mismatch-raises', f'container={cname} wrong exc {type(e).__name__}', f'N={N} M={M} npol={npol}: {e}')

# ---------------------------------------------------------------- PM
def check_pm():
    rng = np.random.default_rng(6002)
    for N, npol, noise, fk, dk in itertools.product(SIZES, (1, 2), (False, True), FKINDS, DKINDS):
        x = mkfield(rng, N, npol, noise, fk)
        xs0 = x.signal.copy(); xn0 = None if x.noise is None else x.noise.copy()
        u, cont = drives(rng, N, dk)
        for Vpi in (5.0, 5, 0.013, 777.0, np.float64(2.0), np.int64(3)):
            tag = f'N={N} npol={npol} noise={noise} field={fk} drive={dk} Vpi={Vpi!r}'
            rot = np.exp(1j * np.pi * u / float(Vpi))
            first = None
            for cname, d in cont.items():
                try:
                    o = PM(x, d, Vpi=Vpi)
                except Exception as e:
                    bad('PM.accept', f'container={cname}', f'{type(e).__name__}: {e} | {tag}')
                    continue
                if o.signal.shape != xs0.shape:
                    bad('PM.shape', f'container={cname}', tag); continue
                # phase tolerance: angle rounding ~ eps*|u|/Vpi
                ang = np.max(np.abs(u)) * np.pi / float(Vpi)
                tol = 1e-15 * ang * 20 + 1e-12
                sc = max(np.max(np.abs(xs0), initial=0), 1e-300)
                if np.any(np.abs(o.signal - xs0 * rot) > tol * sc):
                    bad('PM.phase-shift', f'container={cname} field={fk} drive={dk}', tag)
                if (o.noise is None) != (xn0 is None):
                    bad('PM.noise-presence', f'container={cname}', tag)
                elif xn0 is not None and np.any(np.abs(o.noise - xn0 * rot) > tol * np.max(np.abs(xn0))):
                    bad('PM.noise-rotated', f'container={cname}', tag)
                # power of total field unchanged per sample
                p0 = np.abs(xs0 if xn0 is None else xs0 + xn0) ** 2
                p1 = np.abs(total(o)) ** 2
                if np.any(np.abs(p1 - p0) > 1e-12 * max(np.max(p0, initial=0), 1e-300)):
                    bad('PM.power-preserved', f'container={cname} field={fk}', tag)
                if first is None:
                    first = (cname, o)
                else:
                    if not (np.array_equal(first[1].signal, o.signal) or close(first[1].signal, o.signal)):
                        bad('PM.containers-identical', f'{first[0]} vs {cname}', tag)
                    if o.noise is not None and not (np.array_equal(first[1].noise, o.noise) or close(first[1].noise, o.noise)):
                        bad('PM.containers-identical-noise', f'{first[0]} vs {cname}', tag)
            if not np.array_equal(x.signal, xs0) or (xn0 is not None and not np.array_equal(x.noise, xn0)):
                bad('PM.input-mutated', f'field={fk}', tag)
            # additive composition
            if 'ndarray' in cont:
                a = cont['ndarray']
                for bname, b in (('arr', rng.normal(size=N) * 5), ('scalar', 1.75), ('zero', 0), ('neg', -a), ('esig', electrical_signal(rng.normal(size=N)))):
                    try:
                        o12 = PM(PM(x, a, Vpi=Vpi), b, Vpi=Vpi)
                        bb = b.signal if isinstance(b, electrical_signal) else b
                        o3 = PM(x, a + bb, Vpi=Vpi)
                    except Exception as e:
                        bad('PM.compose-accept', f'b={bname}', f'{type(e).__name__}: {e} | {tag}'); continue
                    ang = (np.max(np.abs(a)) + np.max(np.abs(bb))) * np.pi / float(Vpi)
                    tol = 1e-15 * ang * 40 + 1e-12
                    sc = max(np.max(np.abs(xs0), initial=0), 1e-300)
                    if np.any(np.abs(o12.signal - o3.signal) > tol * sc):
                        bad('PM.compose', f'b={bname} field={fk} drive={dk}', tag)
                    if xn0 is not None and np.any(np.abs(o12.noise - o3.noise) > tol * np.max(np.abs(xn0))):
                        bad('PM.compose-noise', f'b={bname}', tag)
                    if bname == 'neg' and np.any(np.abs(o12.signal - xs0) > tol * sc):
                        bad('PM.compose-inverse', f'field={fk}', tag)

    for N, npol, noise in itertools.product((1, 2, 3, 5, 16), (1, 2), (False, True)):
        x = mkfield(rng, N, npol, noise)
        for M in (1, 2, 3, N - 1, N + 1, 2 * N, 4):
            if M == N or M < 1:
                continue
            for cname, d in (('ndarray', np.ones(M)), ('esig', electrical_signal(np.ones(M))),
                             ('esig_noise', electrical_signal(np.ones(M), np.ones(M)))):
                try:
                    PM(x, d)
                    bad('PM.mismatch-raises', f'container={cname} M={"1" if M == 1 else "other"}', f'N={N} M={M} npol={npol}: no exception')
                except ValueError:
                    pass
                except Exception as e:
                    bad('PM.mismatch-raises', f'container={cname} wrong exc {type(e).__name__}', f'N={N} M={M} npol={npol}: {e}')

# ---------------------------------------------------------------- LASER
def check_laser():
    for (sps, R) in ((16, 1e9), (8, 10e9), (2, 1e9), (1, 1e9), (3, 2.5e9)):
        gv(sps=sps, R=R)
        fs = gv.fs
        for seed in range(3):
            for N in (1, 2, 3, 7, 64, 255, 1024):
                t = np.arange(N) * gv.dt
                for p in (-30, 0, 0.0, 10, 13.7, 30, np.float64(3.0), np.int64(5), -100, 60):
                    P = 10 ** (float(p) / 10 - 3)
                    for lw in (None, 0, 0.0, 1e3, 1e6, 100e6, fs / 10, fs):
                        for df in (None, 0, 0.0, fs / 64, -fs / 64, fs / 4, -fs / 4, fs / 2, -fs / 2,
                                   fs / 2 * (1 - 1e-12), 1.2345e8 if 1.2345e8 <= fs / 2 else fs / 7, np.float64(fs / 8), int(fs // 16)):
                            np.random.seed(1000 * seed + N)
                            tag = f'sps={sps} R={R} N={N} p={p!r} lw={lw!r} df={df!r} seed={seed}'
                            try:
                                l = LASER(t, p, lw=lw, df=df)
                            except Exception as e:
                                bad('LASER.accept', f'lw={lw!r} df={df!r}', f'{type(e).__name__}: {e} | {tag}'); continue
                            if not isinstance(l, optical_signal) or l.signal.shape != (N,):
                                bad('LASER.shape', f'N={N}', tag); continue
                            pw = np.abs(total(l)) ** 2
                            if np.any(np.abs(pw - P) > 1e-12 * P):
                                bad('LASER.power', f'lw={lw!r} df={df!r}', f'maxdev={np.max(np.abs(pw - P)) / P} | {tag}')
                            # spectral peak at df (no phase noise; N large enough for resolution)
                            if (lw is None or lw == 0) and N >= 64:
                                f = np.fft.fftfreq(N, d=gv.dt)
                                S = np.abs(np.fft.fft(l.signal))
                                fpk = f[np.argmax(S)]
                                d0 = 0.0 if df is None else float(df)
                                err = abs(fpk - d0)
                                err = min(err, abs(err - fs))  # +-fs/2 are the same bin
                                if err > fs / N / 2 * (1 + 1e-6) + 1e-3:
                                    # ties between two adjacent bins are allowed (within 1 bin)
                                    if err > fs / N * (1 + 1e-6):
                                        bad('LASER.peak', f'df={df!r} N={N}', f'peak={fpk} | {tag}')
            # statistical: phase noise with large lw still unit modulus (already checked), out of nyquist raises
        for df in (fs / 2 * 1.001, -fs, 10 * fs):
            try:
                LASER(np.arange(8) * gv.dt, 0, df=df)
                bad('LASER.nyquist-raises', f'df/fs={df / fs}')
            except ValueError:
                pass

    # laser through PM and MZM: power invariants on an actual laser field
    gv(sps=16, R=1e9)
    np.random.seed(7)
    t = np.arange(256) * gv.dt
    l = LASER(t, 10, lw=1e6, df=1e8)
    u = np.random.normal(size=256) * 4
    o = PM(l, u, Vpi=3.3)
    if np.any(np.abs(np.abs(o.signal) ** 2 - 10e-3) > 1e-14):
        bad('PM.laser-power', '')
    o = MZM(l, u, bias=1.0, Vpi=3.3, loss_dB=1.0, ER_dB=30)
    if np.any(np.abs(o.signal) > 10 ** (-1 / 20) * np.abs(l.signal) * (1 + 1e-12)):
        bad('MZM.laser-passive', '')

# call order / repeated calls: same result twice, gv change in between
def check_repeat():
    rng = np.random.default_rng(6003)
    x = mkfield(rng, 9, 2, True)
    u = rng.normal(size=9)
    a = MZM(x, u, bias=1, Vpi=2, loss_dB=1, ER_dB=20, pol='y')
    gv(sps=4, R=2e9)
    b = MZM(x, u, bias=1, Vpi=2, loss_dB=1, ER_dB=20, pol='y')
    c = MZM(x, u, bias=1, Vpi=2, loss_dB=1, ER_dB=20, pol='x')
    b2 = MZM(x, u, bias=1, Vpi=2, loss_dB=1, ER_dB=20, pol='y')
    if not (np.array_equal(a.signal, b.signal) and np.array_equal(a.noise, b.noise) and np.array_equal(b2.signal, b.signal)):
        bad('MZM.repeatable', '')
    if np.any(c.signal[1] != 0) or np.any(b2.signal[0] != 0):
        bad('MZM.pol-order', '')
    p1 = PM(x, u, 2.0); p2 = PM(x, u, 2.0)
    if not (np.array_equal(p1.signal, p2.signal) and np.array_equal(p1.noise, p2.noise)):
        bad('PM.repeatable', '')
    # chained MZM on the already-extinguished output
    d = MZM(a, u, pol='x')
    if np.any(d.signal != 0) and np.any(d.signal[1] != 0):
        bad('MZM.chain', '')

gv(sps=16, R=1e9)
check_mzm()
check_pm()
check_laser()
check_repeat()

if viol:
    print(f'{len(viol)} distinct violations')
    sys.exit(1)
print('PASS')
sys.exit(0)
