# C06: "Scalar, ndarray and electrical_signal drives ... are all accepted and give identical results"
# PM rejects scalar drives that are not python int/float (np.int64, np.int32, np.float32, 0-d ndarray); MZM accepts them.
import sys; sys.path.pop(0)
import numpy as np
from opticomlib import optical_signal
from opticomlib.devices import PM, MZM
x = optical_signal(np.exp(1j * np.arange(4)))
want = PM(x, 2, Vpi=5.0).signal          # python int 2 is accepted
fail = 0
for d in (np.int64(2), np.int32(2), np.float32(2.0), np.array(2.0), np.arange(5)[2]):
    MZM(x, d)                             # the same scalar is fine for MZM
    try:
        got = PM(x, d, Vpi=5.0).signal
        ok = np.allclose(got, want, rtol=1e-6)
        print(f'{type(d).__name__}: accepted, equal to python-scalar result: {ok}'); fail |= not ok
    except Exception as e:
        print(f'{type(d).__name__}({d}): expected PM to rotate by pi*2/5 like the python scalar 2, got {type(e).__name__}: {e}'); fail = 1
sys.exit(fail)
