# C06: "drives of matching length are all accepted ...; mismatched lengths raise ValueError"
# MZM accepts a length-1 ndarray / electrical_signal against a longer field (silently broadcast); PM raises for the same input.
import sys; sys.path.pop(0)
import numpy as np
from opticomlib import optical_signal, electrical_signal
from opticomlib.devices import PM, MZM
x = optical_signal(np.ones(5, complex))
fail = 0
for name, d in (('ndarray len 1', np.array([2.5])), ('electrical_signal len 1', electrical_signal([2.5]))):
    try: PM(x, d); print(f'PM  {name}: no exception'); fail = 1
    except ValueError: print(f'PM  {name} vs field len 5: ValueError (as stated)')
    try:
        o = MZM(x, d); fail = 1
        print(f'MZM {name} vs field len 5: expected ValueError, got output {np.round(o.signal, 3)}')
    except ValueError: print(f'MZM {name}: ValueError (as stated)')
sys.exit(fail)
