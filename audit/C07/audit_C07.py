import sys, os
if sys.path and os.path.abspath(sys.path[0] or '.') == os.path.dirname(os.path.abspath(__file__)):
    del sys.path[0]
import signal as _sig
import warnings
import itertools
import numpy as np
from numpy.fft import fft, ifft, fftfreq, fftshift, ifftshift

warnings.simplefilter('ignore')
import opticomlib
from opticomlib import gv, optical_signal
from opticomlib.devices import DM, FIBER

EPS = 2e-13          # rounding slack (relative to ||x||), multiplied by (1 + max |phase|)
viol = []
seen = set()


def report(clause, desc, msg):
    key = (clause, desc)
    if key in seen:
        return
    seen.add(key)
    viol.append(key)
    print(f"VIOLATION [{clause}] {desc}: {msg}")


class Timeout(Exception):
    pass


def _alarm(*a):
    raise Timeout()


_sig.signal(_sig.SIGALRM, _alarm)


def guarded(f, *a, **k):
    """every device call runs under a 20 s alarm"""
    _sig.alarm(20)
    try:
        return f(*a, **k)
    finally:
        _sig.alarm(0)


def set_fs(fs, via_call):
    if via_call:
        gv(sps=8, fs=fs)
    else:
        gv.fs = fs
        gv.dt = 1 / fs
    assert gv.fs == fs


def wps(N):  # rad/ps
    return 2 * np.pi * fftfreq(N) * gv.fs * 1e-12


def Href(N, L, alpha=0.0, b2=0.0, b3=0.0):
    w = wps(N)
    a = alpha * np.log(10) / 10  # [1/km], exact dB -> neper conversion
    return np.exp(-a * L / 2 - 1j * b2 * L * w**2 / 2 - 1j * b3 * L * w**3 / 6)


def maxphase(N, L, b2=0.0, b3=0.0):
    w = np.abs(wps(N)).max() if N else 0.0
    return abs(b2 * L) * w**2 / 2 + abs(b3 * L) * w**3 / 6


def rel(a, b):
    n = np.linalg.norm(b)
    return np.linalg.norm(np.asarray(a) - np.asarray(b)) / (n if n > 0 else 1.0)


def layout_ok(clause, desc, out, inp):
    if not isinstance(out, optical_signal):
        report(clause, desc, f"output type {type(out).__name__}, expected optical_signal")
        return False
    if out.signal.shape != inp.signal.shape or out.n_pol != inp.n_pol or out.len() != inp.len():
        report(clause, desc, f"layout changed: in shape {inp.signal.shape} n_pol {inp.n_pol} -> out shape {out.signal.shape} n_pol {out.n_pol}")
        return False
    if (inp.noise is None) != (out.noise is None) or (out.noise is not None and out.noise.shape != inp.noise.shape):
        report(clause, desc, "noise layout changed")
        return False
    return True


def make_input(rng, N, npol, kind, noise):
    if kind == 'rand':
        x = rng.standard_normal((npol, N)) + 1j * rng.standard_normal((npol, N))
    elif kind == 'impulse_first':
        x = np.zeros((npol, N), complex); x[:, 0] = 1 + 0.5j
    elif kind == 'impulse_last':
        x = np.zeros((npol, N), complex); x[:, -1] = 1 - 2j
    elif kind == 'const':
        x = np.full((npol, N), 0.3 - 0.7j)
    elif kind == 'nyquist':
        x = ((-1.0) ** np.arange(N))[None, :] * np.array([[1 + 1j]] * npol)
    elif kind == 'ypol_only':
        x = rng.standard_normal((npol, N)) + 1j * rng.standard_normal((npol, N))
        x[0] = 0
    elif kind == 'zeros':
        x = np.zeros((npol, N), complex)
    if npol == 2 and kind == 'rand':
        x[1] *= 3.0  # different power in the two polarisations
    n = None
    if noise:
        n = 0.2 * (rng.standard_normal((npol, N)) + 1j * rng.standard_normal((npol, N)))
    if npol == 1:
        return optical_signal(x[0], None if n is None else n[0])
    return optical_signal(x, n)


def field(s):
    return s.signal if s.noise is None else s.signal + s.noise


def check_all(desc, inp, D, L, alpha, b2, b3, D2, L2, Dform):
    N = inp.len()
    sig0 = inp.signal.copy()
    noi0 = None if inp.noise is None else inp.noise.copy()
    Dv = Dform(D)
    Dv_before = repr(Dv)

    # ---------------- DM -------------------------------------------------
    try:
        y = guarded(DM, inp, Dv)
        y_again = guarded(DM, inp, Dv)
        yH, H = guarded(DM, inp, Dv, retH=True)
        ym = guarded(DM, y, Dform(-D))
        y12 = guarded(DM, guarded(DM, inp, Dform(D2)), Dv)
        ysum = guarded(DM, inp, Dform(D + D2))
    except Exception as e:
        report('DM-runs', desc, f"DM raised {type(e).__name__}: {e}")
        return
    if repr(Dv) != Dv_before:
        report('DM-args', desc, f"DM changed its D argument {Dv_before} -> {Dv!r}")
    if not (np.array_equal(inp.signal, sig0) and (noi0 is None or np.array_equal(inp.noise, noi0))):
        report('DM-args', desc, "DM modified its input signal in place")
    ok = layout_ok('layout-DM', desc, y, inp) and layout_ok('layout-DM-retH', desc, yH, inp)
    if not ok:
        return
    if not np.array_equal(y.signal, y_again.signal) or not np.array_equal(y.signal, yH.signal):
        report('DM-repeat', desc, "two identical DM calls (or retH=True/False) give different outputs")

    tolD = EPS * (1 + maxphase(N, 1.0, b2=D))
    ref = ifft(fft(inp.signal, axis=-1) * Href(N, 1.0, b2=D), axis=-1)
    if rel(y.signal, ref) > tolD:
        report('DM-filter', desc, f"DM(D={D}) signal differs from exp(-jDw^2/2) filter, rel err {rel(y.signal, ref):.3g}")
    # the whole field (signal + noise) is what propagates
    reff = ifft(fft(field(inp), axis=-1) * Href(N, 1.0, b2=D), axis=-1)
    if rel(field(y), reff) > tolD:
        report('DM-filter-field', desc, f"DM(D={D}) total field (signal+noise) is not the filtered input field, rel err {rel(field(y), reff):.3g}")
    # energy, per polarisation, exact
    ein = np.sum(np.abs(np.atleast_2d(inp.signal))**2, axis=-1)
    eout = np.sum(np.abs(np.atleast_2d(y.signal))**2, axis=-1)
    if np.any(np.abs(eout - ein) > 1e-12 * np.maximum(ein, 1e-300)) and np.any(ein > 0):
        report('DM-energy', desc, f"energy in {ein} out {eout}")
    if np.any(np.abs(np.atleast_1d(y.power('signal')) - np.atleast_1d(inp.power('signal'))) > 1e-12 * np.maximum(np.atleast_1d(inp.power('signal')), 1e-300)):
        report('DM-energy', desc, "power('signal') changed")
    # inverse
    if layout_ok('layout-DM', desc + ' (inverse)', ym, inp) and rel(ym.signal, inp.signal) > 2 * tolD:
        report('DM-inverse', desc, f"DM(-D)(DM(D)(x)) != x, rel err {rel(ym.signal, inp.signal):.3g}")
    # additivity
    tol12 = EPS * (1 + maxphase(N, 1.0, b2=D) + maxphase(N, 1.0, b2=D2) + maxphase(N, 1.0, b2=D + D2))
    if layout_ok('layout-DM', desc + ' (cascade)', y12, inp) and rel(y12.signal, ysum.signal) > tol12:
        report('DM-additive', desc, f"DM(D1)DM(D2) != DM(D1+D2), rel err {rel(y12.signal, ysum.signal):.3g}")
    # retH
    H = np.asarray(H)
    if H.shape != (N,):
        report('DM-retH', desc, f"H shape {H.shape}, expected ({N},)")
    else:
        applied = ifft(fft(inp.signal, axis=-1) * ifftshift(H), axis=-1)
        if rel(applied, yH.signal) > 1e-12:
            report('DM-retH', desc, f"returned H (centred order) is not the applied filter, rel err {rel(applied, yH.signal):.3g}")
        if rel(H, fftshift(Href(N, 1.0, b2=D))) > tolD:
            report('DM-retH', desc, "returned H differs from exp(-jDw^2/2) on w(shift=True)")
        if np.abs(np.abs(H) - 1).max() > 1e-14:
            report('DM-retH', desc, "|H| != 1")

    # ---------------- FIBER, gamma = 0 ------------------------------------
    try:
        f_b2 = guarded(FIBER, inp, L, beta_2=b2)                       # defaults: alpha=0, gamma=0
        f_all = guarded(FIBER, inp, L, alpha, b2, b3, 0.0)
        f_all2 = guarded(FIBER, inp, length=L, alpha=alpha, beta_2=b2, beta_3=b3, gamma=0)
        f_a = guarded(FIBER, inp, L, alpha=alpha)
        f_two = guarded(FIBER, guarded(FIBER, inp, L, alpha, b2, b3, 0.0), L2, alpha, b2, b3, 0.0)
        f_one = guarded(FIBER, inp, L + L2, alpha, b2, b3, 0.0)
        dm_eq = guarded(DM, inp, b2 * L)
    except Exception as e:
        report('FIBER-runs', desc, f"FIBER raised {type(e).__name__}: {e}")
        return
    if not (np.array_equal(inp.signal, sig0) and (noi0 is None or np.array_equal(inp.noise, noi0))):
        report('FIBER-args', desc, "FIBER modified its input in place")
    for nm, o in (('b2', f_b2), ('all', f_all), ('alpha', f_a), ('two', f_two), ('one', f_one)):
        if not layout_ok('layout-FIBER', desc + f' ({nm})', o, inp):
            return
    if not np.array_equal(f_all.signal, f_all2.signal):
        report('FIBER-repeat', desc, "positional/keyword or int/float gamma=0 give different outputs")

    tolF = EPS * (1 + maxphase(N, L, b2, 0))
    if rel(f_b2.signal, dm_eq.signal) > 2 * tolF:
        report('FIBER=DM', desc, f"FIBER(L,beta2) != DM(beta2*L), rel err {rel(f_b2.signal, dm_eq.signal):.3g}")
    if inp.noise is not None and rel(field(f_b2), field(dm_eq)) > 2 * tolF:
        report('FIBER=DM-field', desc, "FIBER(L,beta2) and DM(beta2*L) differ in signal+noise")

    tolA = EPS * (1 + maxphase(N, L, b2, b3))
    refF = ifft(fft(inp.signal, axis=-1) * Href(N, L, alpha, b2, b3), axis=-1)
    if rel(f_all.signal, refF) > tolA:
        report('FIBER-filter', desc, f"FIBER gamma=0 signal differs from exp(-aL/2-jb2Lw^2/2-jb3Lw^3/6), rel err {rel(f_all.signal, refF):.3g}")
    # shape of the filter apart from the flat loss: normalise both to the same energy
    refU = ifft(fft(inp.signal, axis=-1) * Href(N, L, 0.0, b2, b3), axis=-1)
    nf = np.linalg.norm(f_all.signal)
    if nf > 0 and rel(f_all.signal / nf, refU / np.linalg.norm(refU)) > tolA:
        report('FIBER-filter-phase', desc, f"FIBER gamma=0 dispersive part wrong, rel err {rel(f_all.signal / nf, refU / np.linalg.norm(refU)):.3g}")
    refFf = ifft(fft(field(inp), axis=-1) * Href(N, L, alpha, b2, b3), axis=-1)
    if inp.noise is not None and rel(field(f_all), refFf) > max(tolA, 1e-3 if alpha > 0 else 0):
        report('FIBER-filter-field', desc, f"FIBER total field (signal+noise) is not the filtered/attenuated input field, rel err {rel(field(f_all), refFf):.3g}")

    # two spans = one span
    tol2 = EPS * (1 + 3 * maxphase(N, L + L2, b2, b3))
    if rel(f_two.signal, f_one.signal) > tol2:
        report('FIBER-2spans', desc, f"FIBER(L1) then FIBER(L2) != FIBER(L1+L2), rel err {rel(f_two.signal, f_one.signal):.3g}")

    # power law, per polarisation
    att = 10 ** (-alpha * L / 10)
    for nm, o in (('alpha only', f_a), ('alpha+disp', f_all)):
        pin = np.atleast_1d(inp.power('signal'))
        pout = np.atleast_1d(o.power('signal'))
        bad = np.abs(pout - pin * att) > 1e-9 * pin * att
        if np.any(bad & (pin > 0)):
            report('FIBER-power', desc + f' ({nm})', f"signal power out/in = {pout / np.where(pin > 0, pin, 1)} expected 10^(-aL/10) = {att!r}")
        if inp.noise is not None:
            pin = np.atleast_1d(inp.power('all'))
            pout = np.atleast_1d(o.power('all'))
            if np.any(np.abs(pout - pin * att) > 1e-3 * pin * att):
                report('FIBER-power-field', desc + f' ({nm})', f"power('all') out/in = {pout / pin} expected {att!r}")


def main():
    rng = np.random.default_rng(7)
    forms = {
        'float': float,
        'npf64': np.float64,
        'int': lambda v: int(v) if float(v).is_integer() else float(v),
        'npint': lambda v: np.int64(v) if float(v).is_integer() else np.float64(v),
        'arr0d': lambda v: np.array(float(v)),
    }

    # ---- systematic corners --------------------------------------------
    Ns = [1, 2, 3, 4, 5, 7, 8, 15, 16, 17, 31, 33, 64, 101]
    kinds = ['rand', 'impulse_first', 'impulse_last', 'const', 'nyquist', 'ypol_only', 'zeros']
    params = [
        # D, L, alpha, b2, b3, D2, L2
        (4000.0, 50.0, 0.2, -20.0, 0.1, -1500.0, 30.0),
        (-4000.0, 0.5, 0.0, 20.0, -0.1, 4000.0, 80.0),
        (0.0, 1.0, 0.0, 0.0, 0.0, 0.0, 1.0),
        (1.0, 100.0, 0.4, 0.0, 5.0, -1.0, 1e-3),
        (-17.0, 1e-3, 1.0, -21.7, 0.0, 17.0, 100.0),
    ]
    fss = [16e9, 1.0, 1e6, 40e9, 2.56e12]
    count = 0
    for N in Ns:
        for npol in (1, 2):
            for kind in kinds:
                if kind == 'ypol_only' and npol == 1:
                    continue
                p = params[count % len(params)]
                fs = fss[count % len(fss)]
                noise = (count % 3 == 1)
                fname = list(forms)[count % 4]  # arr0d handled separately below
                set_fs(fs, via_call=(count % 2 == 0))
                inp = make_input(rng, N, npol, kind, noise)
                desc = f"N={N} npol={npol} kind={kind} noise={noise} fs={fs:g} D={p[0]} L={p[1]} a={p[2]} b2={p[3]} b3={p[4]} D2={p[5]} L2={p[6]} Dtype={fname}"
                check_all(desc, inp, *p, Dform=forms[fname])
                count += 1

    # every parameter row x every fs at a few sizes, noise on and off
    for p, fs, N, npol, noise in itertools.product(params, fss, (1, 2, 9, 32), (1, 2), (False, True)):
        set_fs(fs, via_call=False)
        inp = make_input(rng, N, npol, 'rand', noise)
        desc = f"N={N} npol={npol} kind=rand noise={noise} fs={fs:g} D={p[0]} L={p[1]} a={p[2]} b2={p[3]} b3={p[4]} D2={p[5]} L2={p[6]} Dtype=float"
        check_all(desc, inp, *p, Dform=float)

    # D handed over in a 0-d array
    set_fs(16e9, False)
    for N, npol in ((8, 1), (9, 2)):
        inp = make_input(rng, N, npol, 'rand', False)
        check_all(f"N={N} npol={npol} D as 0-d float array", inp, *params[0], Dform=forms['arr0d'])

    # other accepted constructions of the input: strings, n_pol=2 duplication, (1,N) arrays, scalar
    set_fs(16e9, False)
    for name, inp in (
        ('str input', optical_signal('1+2j, 3+4j, 5+6j')),
        ('n_pol=2 from 1D', optical_signal(np.arange(6) * (1 + 1j), n_pol=2)),
        ('scalar 1 pol', optical_signal(1 + 1j)),
        ('scalar 2 pol', optical_signal(1 + 1j, n_pol=2)),
        ('complex64', optical_signal((np.arange(8) + 1j).astype(np.complex64), dtype=np.complex128)),
        ('list of lists', optical_signal([[1j, 2, 3], [4, 5j, 6]])),
    ):
        check_all(name, inp, *params[0], Dform=float)

    # ---- random sampling -------------------------------------------------
    for i in range(300):
        N = int(rng.integers(1, 130))
        npol = int(rng.integers(1, 3))
        fs = float(10 ** rng.uniform(0, 12.5))
        T = 1e12 / fs  # sampling period in ps
        # keep the accumulated phase moderate so that rounding tolerances stay meaningful
        scale2 = T**2 * 10 ** rng.uniform(-3, 2)
        scale3 = T**3 * 10 ** rng.uniform(-3, 2)
        L = float(10 ** rng.uniform(-3, 2.5)); L2 = float(10 ** rng.uniform(-3, 2.5))
        b2 = float(rng.choice([-1, 1]) * scale2 / L); b3 = float(rng.choice([-1, 1]) * scale3 / L)
        D = float(rng.choice([-1, 1]) * scale2 * rng.uniform(0, 3)); D2 = float(rng.choice([-1, 1]) * scale2 * rng.uniform(0, 3))
        alpha = float(rng.choice([0.0, rng.uniform(0, 2)]))
        noise = bool(rng.integers(0, 2))
        set_fs(fs, False)
        inp = make_input(rng, N, npol, 'rand', noise)
        desc = f"rnd{i} N={N} npol={npol} noise={noise} fs={fs:.6g} D={D:.6g} L={L:.6g} a={alpha:.4g} b2={b2:.6g} b3={b3:.6g} D2={D2:.6g} L2={L2:.6g}"
        check_all(desc, inp, D, L, alpha, b2, b3, D2, L2, Dform=float)

    if viol:
        byc = {}
        for c, d in viol:
            byc.setdefault(c, 0); byc[c] += 1
        print("SUMMARY", byc)
        sys.exit(1)
    print("PASS")
    sys.exit(0)


main()
