# C07 "the power leaving a fibre is the input power times 10^(-alpha*L/10) in each polarisation"
# FIBER converts dB/km to 1/km with the 4-digit constant 4.343 instead of 10/ln(10) = 4.342944819...
import sys; del sys.path[0]
import numpy as np
from opticomlib import optical_signal
from opticomlib.devices import FIBER
x = optical_signal(np.ones(8, complex), n_pol=2)           # 1 W per polarisation
y = FIBER(x, length=100, alpha=0.4, gamma=0)               # 40 dB of loss, no dispersion, linear
expected = 10 ** (-0.4 * 100 / 10)                         # 1e-4 exactly
got = y.power() / x.power()
print("expected power ratio per polarisation:", expected)
print("got                                  :", got, " relative error", got / expected - 1)
sys.exit(1 if np.any(abs(got / expected - 1) > 1e-9) else 0)
