# C07 "power leaving a fibre is the input power times 10^(-alpha*L/10)" / "act ... as the linear time-invariant filter":
# the noise component of the input field is passed through FIBER (and DM) untouched: not attenuated, not dispersed
import sys; del sys.path[0]
import numpy as np
from opticomlib import optical_signal
from opticomlib.devices import FIBER, DM
rng = np.random.default_rng(0)
s = np.ones(64, complex); n = 0.1 * (rng.standard_normal(64) + 1j * rng.standard_normal(64))
x = optical_signal(s, n)                                     # field = signal + noise, one polarisation
y = FIBER(x, length=100, alpha=0.2, gamma=0)               # 20 dB of loss
print("expected power('all') out/in: 0.01   got:", y.power() / x.power())
print("expected power('noise') out/in: 0.01 got:", y.power('noise') / x.power('noise'))
z = DM(x, 4000.0)                                            # all-pass: |H| = 1 but phase must change
print("DM: noise unchanged by the dispersive filter:", np.allclose(z.noise, x.noise))
bad = abs(y.power('noise') / x.power('noise') - 0.01) > 1e-4 or np.allclose(z.noise, x.noise)
sys.exit(1 if bad else 0)
