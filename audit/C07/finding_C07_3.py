# C07 "DM(-D) undoes DM(D)", "DM(D1) after DM(D2) equals DM(D1+D2)" for all D:
# DM rescales its D argument in place (D *= 1e-24), so a D held in a numpy array is destroyed by the first call
import sys; del sys.path[0]
import numpy as np
from opticomlib import optical_signal
from opticomlib.devices import DM
x = optical_signal(np.exp(-np.linspace(-3, 3, 16) ** 2).astype(complex))
D = np.array(4000.0)                                         # 0-d array (np.asarray of a float); np.array([4000.]) behaves alike
y1 = DM(x, D)
y2 = DM(x, D)                                                # same call again
print("D after two calls: expected 4000.0, got", D)
print("same call twice gives same output: expected True, got", np.allclose(y1.signal, y2.signal))
back = DM(DM(x, np.array(4000.0)), -np.array(4000.0))       # fresh arrays: fine
print("with fresh arrays DM(-D)DM(D)=id:", np.allclose(back.signal, x.signal))
sys.exit(1 if (D != 4000.0 or not np.allclose(y1.signal, y2.signal)) else 0)
