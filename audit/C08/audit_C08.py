"""Audit of property C08 (nonlinear FIBER: energy, SPM closed form, NLSE convergence, 1-pol == x of 2-pol)."""
import sys
del sys.path[0]
import itertools, signal, warnings
import numpy as np
from opticomlib import gv, optical_signal
from opticomlib.devices import FIBER

gv(sps=16, R=10e9)           # fs = 160 GHz
LN = np.log(10) / 10         # dB/km -> 1/km
viol = []


class Hang(Exception):
    pass


def _alarm(*a):
    raise Hang()


signal.signal(signal.SIGALRM, _alarm)


def run(x, secs=20, **k):
    """FIBER under a wall-clock guard; returns ndarray, or a string describing the failure."""
    signal.alarm(secs)
    try:
        with warnings.catch_warnings():
            warnings.simplefilter('ignore')
            return FIBER(optical_signal(x), **k).signal
    except Hang:
        return 'HANG(>%ds)' % secs
    except Exception as e:                      # noqa
        return 'RAISED %s: %s' % (type(e).__name__, e)
    finally:
        signal.alarm(0)


def bad(clause, desc, msg):
    viol.append((clause, desc))
    print('VIOLATION [%s] %s :: %s' % (clause, desc, msg))


def field(kind, N, P, npol, lead0, seed):
    """Field with peak power exactly P [W] (peak over time of the strongest polarisation)."""
    rng = np.random.default_rng(seed)
    t = np.arange(N)

    def one(s):
        if kind == 'pulse':
            c = [N * f for f in (0.3, 0.55, 0.8)]
            x = sum(np.exp(-0.5 * ((t - ci) / max(N / 20., .7)) ** 2) for ci in c).astype(complex)
        else:
            r = np.random.default_rng(s)
            x = r.normal(size=N) + 1j * r.normal(size=N)
            if N >= 16:
                x = np.convolve(x, np.ones(6) / 6, 'same')
        x = x.copy()
        x[:lead0] = 0
        return x
    x = one(seed) if npol == 1 else np.array([one(seed), 0.6 * one(seed + 1000)])
    m = np.abs(x).max()
    if m > 0:
        x = x / m * np.sqrt(P)
    return x


def energy(a):
    return np.sum(np.abs(a) ** 2, axis=-1)


# ----------------------------------------------------------------------------------------------------------
# Clause A: finite, same shape, energy per polarisation = E_in * 10^(-alpha L/10), whatever phi_max
# ----------------------------------------------------------------------------------------------------------
def check_A(desc, x, k, etol=1e-3):
    o = run(x, **k)
    if isinstance(o, str):
        bad('A-returns', desc, o)
        return None
    if o.shape != np.shape(x):
        bad('A-shape', desc, 'out shape %s != in shape %s' % (o.shape, np.shape(x)))
        return o
    if not np.isfinite(o).all():
        bad('A-finite', desc, 'output has %d non-finite samples of %d' % ((~np.isfinite(o)).sum(), o.size))
        return o
    ein = np.atleast_1d(energy(np.asarray(x)))
    eout = np.atleast_1d(energy(o))
    want = ein * 10 ** (-k.get('alpha', 0) * k['length'] / 10)
    for p in range(len(ein)):
        if abs(eout[p] - want[p]) > etol * want[p]:
            bad('A-energy', desc + ' pol%d' % p, 'energy %.6g, expected %.6g' % (eout[p], want[p]))
    return o


def clause_A():
    # systematic corners
    Ps = [0.5, 1e-3, 1e-6, 1e-9]
    Ls = [1e-3, 1, 100]
    alphas = [0, 0.2, 0.5]
    disp = [(0, 0), (-25, 0.2), (25, -0.2), (0, 0.2)]
    gammas = [0, 1e-3, 1.3, 5]
    pms = [5e-4, 0.05, 0.1]
    shapes = [(1, 1), (2, 1), (3, 1), (17, 2), (64, 1), (64, 2), (1, 2), (2, 2)]
    n = 0
    for P, L, al, (b2, b3), g, pm in itertools.product(Ps, Ls, alphas, disp, gammas, pms):
        if g * P * L > 10:
            continue
        if g * P * L / pm > 3000:      # keep the run time bounded
            continue
        N, npol = shapes[n % len(shapes)]
        kind = ('pulse', 'rnd')[n % 2]
        lead0 = (0, 1, N // 3)[n % 3] if N > 2 else 0
        n += 1
        x = field(kind, N, P, npol, lead0, seed=n)
        k = dict(length=L, alpha=al, beta_2=b2, beta_3=b3, gamma=g, phi_max=pm)
        check_A('%s N=%d npol=%d lead0=%d P=%g %s' % (kind, N, npol, lead0, P, k), x, k)
    # random sampling, log-uniform peak power "up to 0.5 W"
    rng = np.random.default_rng(8)
    for i in range(250):
        P = 0.5 * 10 ** (-rng.uniform(0, 9))
        L = 100 * 10 ** (-rng.uniform(0, 3))
        al = rng.choice([0, rng.uniform(0, 0.5), 0.5])
        b2 = rng.choice([0, rng.uniform(-25, 25), -25, 25])
        b3 = rng.choice([0, rng.uniform(-.2, .2)])
        g = min(rng.choice([0, rng.uniform(0, 5), 5]), 10 / (P * L))
        pm = 10 ** rng.uniform(np.log10(5e-4), -1)
        if g * P * L / pm > 3000:
            pm = 0.1
        N = int(rng.choice([1, 2, 5, 31, 64, 100]))
        npol = int(rng.choice([1, 2]))
        x = field(('pulse', 'rnd')[i % 2], N, P, npol, int(rng.integers(0, max(N // 2, 1))), seed=100 + i)
        k = dict(length=float(L), alpha=float(al), beta_2=float(b2), beta_3=float(b3), gamma=float(g), phi_max=float(pm))
        check_A('random#%d N=%d npol=%d P=%.3g %s' % (i, N, npol, P, k), x, k)
    # argument / container types: python ints, numpy scalars, integer and real input arrays
    x = field('pulse', 32, 0.25, 1, 3, 5)
    for k in (dict(length=10, alpha=0, beta_2=-20, beta_3=0, gamma=2, phi_max=0.1),
              dict(length=np.int64(10), alpha=np.float32(0.25), beta_2=np.int32(-20), beta_3=np.float64(0.1),
                   gamma=np.int64(2), phi_max=np.float64(0.1))):
        check_A('argtypes %s' % k, x, k)
    k = dict(length=3, alpha=0.2, beta_2=-20, beta_3=0., gamma=1, phi_max=0.05)
    check_A('real float input', np.abs(x), k)
    o = run(np.array([0, 0, 1, 0, 1, 1, 0, 0]), **dict(k, gamma=0.4))       # int dtype, |x|^2 = 1 > 0.5 W -> scale gamma only
    if isinstance(o, str) or not np.isfinite(o).all():
        bad('A-finite', 'int dtype input', str(o))
    # low received power through a standard lossy, dispersive, nonlinear span (the realistic corner)
    for dbm in (-20, -25, -30, -35, -40):
        P = 1e-3 * 10 ** (dbm / 10)
        x = field('pulse', 64, P, 1, 4, 77)
        k = dict(length=50, alpha=0.2, beta_2=-20, beta_3=0.1, gamma=1.3, phi_max=0.05)
        check_A('SMF span, peak %d dBm (%.3g W), %s' % (dbm, P, k), x, k)


# ----------------------------------------------------------------------------------------------------------
# Clause B: no dispersion -> closed-form SPM
# ----------------------------------------------------------------------------------------------------------
def clause_B():
    n = 0
    for P, L, al, g, pm, npol in itertools.product([0.5, 0.01, 1e-6], [1e-3, 2, 100], [0, 0.1, 0.5], [0, 0.2, 5],
                                                   [5e-4, 0.02, 0.1], [1, 2]):
        if g * P * L > 10 or g * P * L / pm > 3000:
            continue
        n += 1
        N = (1, 2, 7, 48)[n % 4]
        x = field(('pulse', 'rnd')[n % 2], N, P, npol, (0, 2)[n % 2] if N > 2 else 0, seed=300 + n)
        k = dict(length=L, alpha=al, beta_2=0, beta_3=0, gamma=g, phi_max=pm)
        desc = 'SPM N=%d npol=%d P=%g %s' % (N, npol, P, k)
        o = run(x, **k)
        if isinstance(o, str):
            bad('B-returns', desc, o)
            continue
        a = al * LN
        Leff = L if al == 0 else (1 - np.exp(-a * L)) / a
        want = x * np.exp(-a * L / 2) * np.exp(1j * g * np.abs(x) ** 2 * Leff)
        err = np.linalg.norm(o - want) / max(np.linalg.norm(want), 1e-300)
        tol = 1e-12 if al == 0 else 8 * pm + 2e-4          # exact for alpha = 0, first order in phi_max otherwise
        if not (err <= tol):
            bad('B-spm', desc, 'relative error %.3g > %.3g' % (err, tol))


# ----------------------------------------------------------------------------------------------------------
# Clause C: convergence to the scalar NLSE, error <= C * phi_max
# ----------------------------------------------------------------------------------------------------------
def ssfm(A, L, a, b2, b3, g, n):
    N = A.shape[-1]
    w = 2 * np.pi * np.fft.fftfreq(N) * gv.fs * 1e-12
    h = L / n
    D = np.exp((-a / 2 - 0.5j * b2 * w ** 2 - 1j / 6 * b3 * w ** 3) * h)
    for _ in range(n):
        A = A * np.exp(1j * g * h / 2 * np.abs(A) ** 2)
        A = np.fft.ifft(D * np.fft.fft(A))
        A = A * np.exp(1j * g * h / 2 * np.abs(A) ** 2)
    return A


def reference(A, L, a_db, b2, b3, g, n=2000):
    """Independent fixed-step symmetric split-step + Richardson extrapolation (4th order)."""
    a = a_db * LN
    while True:
        A1, A2 = ssfm(A, L, a, b2, b3, g, n), ssfm(A, L, a, b2, b3, g, 2 * n)
        est = np.linalg.norm(A2 - A1) / np.linalg.norm(A2)
        if est < 3e-6 or n >= 32000:
            return (4 * A2 - A1) / 3, est / 3
        n *= 4


def clause_C(C=15.):
    cfgs = [(0.5, 100, 0.2, -20, 0.1, 0.2), (0.5, 100, 0, 25, -0.2, 0.2), (0.1, 20, 0.5, -25, 0.2, 5),
            (0.5, 4, 0, -25, 0, 5), (0.01, 100, 0.2, -20, 0, 1.3), (1e-4, 100, 0.2, -20, 0, 1.3),
            (0.5, 100, 0., -25, 0, 0.2), (1e-5, 100, 0.5, 25, 0.2, 5), (0.25, 10, 0.5, 0, 0.2, 4)]
    pms = [0.1, 0.02, 5e-3, 5e-4]
    for i, (P, L, al, b2, b3, g) in enumerate(cfgs):
        for kind, npol in (('pulse', 1), ('rnd', 1), ('rnd', 2)):
            N = (128, 96, 75)[i % 3]
            x = field(kind, N, P, npol, (0, 9)[i % 2], seed=500 + i)
            X = np.atleast_2d(x)
            refs = [reference(r, L, al, b2, b3, g) for r in X]
            R = np.array([r[0] for r in refs])
            est = max(r[1] for r in refs)
            errs = []
            for pm in pms:
                k = dict(length=L, alpha=al, beta_2=b2, beta_3=b3, gamma=g, phi_max=pm)
                desc = 'NLSE %s N=%d npol=%d P=%g %s' % (kind, N, npol, P, k)
                o = run(x, secs=60, **k)
                if isinstance(o, str):
                    bad('C-returns', desc, o)
                    errs.append(np.nan)
                    continue
                e = max(np.linalg.norm(oo - rr) / np.linalg.norm(rr) for oo, rr in zip(np.atleast_2d(o), R))
                errs.append(e)
                if not (e <= C * pm + 10 * est + 2e-4):
                    bad('C-bound', desc, 'relative error %.3g > %g*phi_max' % (e, C))
            if np.isfinite(errs).all() and not (errs[-1] <= errs[0] + 1e-4):
                bad('C-converges', desc, 'error does not shrink with phi_max: %s' % errs)


# ----------------------------------------------------------------------------------------------------------
# Clause D: one polarisation == x of (x, empty y)
# ----------------------------------------------------------------------------------------------------------
def clause_D():
    n = 0
    for P, L, al, (b2, b3), g, pm, N in itertools.product([0.5, 1e-3], [0.5, 80], [0, 0.3], [(0, 0), (-25, 0.2), (13, 0)],
                                                           [0, 1.1, 5], [5e-3, 0.1], [1, 2, 9, 64]):
        if g * P * L > 10 or g * P * L / pm > 3000:
            continue
        n += 1
        x = field(('pulse', 'rnd')[n % 2], N, P, 1, (0, 1)[n % 2] if N > 2 else 0, seed=700 + n)
        k = dict(length=L, alpha=al, beta_2=b2, beta_3=b3, gamma=g, phi_max=pm)
        desc = '1pol-vs-2pol N=%d P=%g %s' % (N, P, k)
        o1, o2 = run(x, **k), run(np.array([x, np.zeros_like(x)]), **k)
        if isinstance(o1, str) or isinstance(o2, str):
            bad('D-returns', desc, '%s / %s' % (o1 if isinstance(o1, str) else 'ok', o2 if isinstance(o2, str) else 'ok'))
            continue
        if o1.shape != (N,) or o2.shape != (2, N):
            bad('D-shape', desc, '%s %s' % (o1.shape, o2.shape))
            continue
        if not np.array_equal(o1, o2[0]):
            bad('D-equal', desc, 'max |diff| = %.3g' % np.abs(o1 - o2[0]).max())
        if np.any(o2[1] != 0):
            bad('D-empty-y', desc, 'y polarisation became non-empty, max %.3g' % np.abs(o2[1]).max())


# ----------------------------------------------------------------------------------------------------------
# Clause E: degenerate ends of the domain (peak power "up to" 0.5 W -> 0 W; L "up to" 100 km -> 0 km)
# ----------------------------------------------------------------------------------------------------------
def clause_E():
    for npol in (1, 2):
        z = np.zeros(16) if npol == 1 else np.zeros((2, 16))
        for k in (dict(length=10, alpha=0.2, beta_2=-20, beta_3=0, gamma=1.3, phi_max=0.05),
                  dict(length=10, alpha=0, beta_2=0, beta_3=0, gamma=1.3, phi_max=0.05),
                  dict(length=10, alpha=0.2, beta_2=-20, beta_3=0, gamma=0, phi_max=0.05)):
            o = run(z, secs=5, **k)
            if isinstance(o, str) or not np.isfinite(o).all() or np.any(o != 0):
                bad('E-dark-input', 'all-zero field npol=%d %s' % (npol, k), o if isinstance(o, str) else 'non-finite / non-zero output')
    x = field('pulse', 16, 0.1, 1, 2, 3)
    for k in (dict(length=0, alpha=0.2, beta_2=-20, beta_3=0, gamma=1.3, phi_max=0.05),
              dict(length=0, alpha=0.2, beta_2=-20, beta_3=0, gamma=0, phi_max=0.05),
              dict(length=0, alpha=0, beta_2=0, beta_3=0, gamma=1.3, phi_max=0.05)):
        o = run(x, secs=5, **k)
        tol = 1e-12 if k['beta_2'] == 0 else 15 * k['phi_max']
        if isinstance(o, str) or not (np.linalg.norm(o - x) <= tol * np.linalg.norm(x)):
            bad('E-zero-length', 'L=0 %s' % k, o if isinstance(o, str) else
                'output differs from input by %.3g (relative)' % (np.linalg.norm(o - x) / np.linalg.norm(x)))


if __name__ == '__main__':
    for f in (clause_A, clause_B, clause_C, clause_D, clause_E):
        before = len(viol)
        f()
        print('-- %s: %d violation(s)' % (f.__name__, len(viol) - before), flush=True)
    if viol:
        print('FAIL: %d violated (clause, input) pairs' % len(viol))
        sys.exit(1)
    print('PASS')
    sys.exit(0)
