# C08: "FIBER returns a finite field ... whose energy in each polarisation is the input energy times 10^(-alpha*L/10)"
# Domain: "random fields with peak power up to 0.5 W" (here 1 uW = -30 dBm), alpha=0.2, beta2=-20, gamma=1.3, L=50, phi_max=0.05
import sys; del sys.path[0]
import signal, warnings, numpy as np
from opticomlib import gv, optical_signal
from opticomlib.devices import FIBER
warnings.simplefilter('ignore'); signal.alarm(30)            # never call FIBER without a timeout
gv(sps=16, R=10e9)
rng = np.random.default_rng(0)
x = rng.normal(size=64) + 1j * rng.normal(size=64)
x *= np.sqrt(1e-6) / np.abs(x).max()                         # peak power 1e-6 W
out = FIBER(optical_signal(x), length=50, alpha=0.2, beta_2=-20, gamma=1.3, phi_max=0.05).signal
want = np.sum(abs(x)**2) * 10**(-0.2 * 50 / 10)
print('expected: finite output with energy %.4g' % want)
print('got     : %d of %d samples non-finite, energy %s' % ((~np.isfinite(out)).sum(), out.size, np.sum(abs(out)**2)))
sys.exit(0 if np.isfinite(out).all() and abs(np.sum(abs(out)**2) / want - 1) < 1e-3 else 1)
