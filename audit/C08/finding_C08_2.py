# C08 (borderline corner): "For any input ... FIBER returns a finite field of the input's shape"
# Domain: "pulse trains ... with peak power up to 0.5 W" -> an all-'0' pulse train (dark field) has peak power 0 W.
import sys; del sys.path[0]
import signal, warnings, numpy as np
from opticomlib import gv, optical_signal
from opticomlib.devices import FIBER
warnings.simplefilter('ignore')
gv(sps=16, R=10e9)
def on_alarm(*a): raise TimeoutError
signal.signal(signal.SIGALRM, on_alarm); signal.alarm(5)
try:
    out = FIBER(optical_signal(np.zeros(16)), length=10, alpha=0.2, beta_2=-20, gamma=1.3).signal
except TimeoutError:
    print('expected: 16 zeros;  got: FIBER did not return within 5 s (infinite loop, h = NaN)'); sys.exit(1)
signal.alarm(0)
print('expected: 16 zeros;  got:', out)
sys.exit(0 if out.shape == (16,) and np.all(out == 0) else 1)
