# C08 (borderline corner): "L up to 100 km", "gamma in [0, 5]" -> L = 0 with gamma = 0 must return the input unchanged.
import sys; del sys.path[0]
import signal, warnings, numpy as np
from opticomlib import gv, optical_signal
from opticomlib.devices import FIBER
warnings.simplefilter('ignore')
gv(sps=16, R=10e9)
def on_alarm(*a): raise TimeoutError
signal.signal(signal.SIGALRM, on_alarm); signal.alarm(5)
x = np.sqrt(0.1) * np.exp(-0.5 * ((np.arange(16) - 8) / 2.) ** 2)
try:
    out = FIBER(optical_signal(x), length=0, alpha=0.2, beta_2=-20, gamma=0).signal
except TimeoutError:
    print('expected: output == input;  got: FIBER did not return within 5 s (loop never advances: x_length + 0 > 0 is False)'); sys.exit(1)
signal.alarm(0)
print('expected: output == input;  got max |diff| =', abs(out - x).max())
sys.exit(0 if np.allclose(out, x, atol=1e-12) else 1)
