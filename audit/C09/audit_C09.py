import sys
del sys.path[0]
import itertools, warnings
import numpy as np
import scipy.signal as sg
from scipy.constants import k as kB, e as qe

warnings.simplefilter("ignore")
from opticomlib import gv, optical_signal, electrical_signal
from opticomlib.devices import PD

MODES = ["ase-only", "thermal-only", "shot-only", "ase-thermal", "ase-shot", "thermal-shot", "all"]
viol = []


def bad(clause, inp, msg):
    line = f"VIOLATION [{clause}] input={inp}: {msg}"
    print(line, flush=True)
    viol.append(line)


def ref_lpf(x, BW, fs):
    sos = sg.bessel(4, BW, "low", fs=fs, output="sos", norm="mag")
    return sg.sosfiltfilt(sos, x)


def mkfield(rng, N, npol, noisy, amp=1e-2, namp=1e-3):
    shp = (N,) if npol == 1 else (2, N)
    s = amp * (rng.standard_normal(shp) + 1j * rng.standard_normal(shp))
    n = namp * (rng.standard_normal(shp) + 1j * rng.standard_normal(shp)) if noisy else None
    return optical_signal(s, n, n_pol=npol)


def close(a, b, rtol=1e-9, atol=0.0):
    a = np.asarray(a); b = np.asarray(b)
    if a.shape != b.shape:
        return False
    scale = max(np.max(np.abs(b)), 1e-300)
    return np.max(np.abs(a - b)) <= rtol * scale + atol


def case_variants(s):
    return [s, s.upper(), s.title(), "".join(c.upper() if i % 2 else c for i, c in enumerate(s))]


FS_LIST = [16e9, 1e9, 80e9, 1.0, 1234.5, 3e12]
N_LIST = [17, 18, 19, 31, 32, 33, 64, 255, 1000, 1001, 4097]

# ------------------------------------------------------------------ C1: CW -> constant r*P*R_load
rng = np.random.default_rng(1)
for fs in FS_LIST:
    gv(fs=fs, sps=16)
    for ratio in [1e-3, 0.01, 0.1, 0.25, 0.4, 0.49, 0.4999]:
        for N in [17, 18, 33, 1001]:
            for npol in (1, 2):
                for (r, RL, P) in [(1, 50, 1e-3), (1.0, 50.0, 1.0), (0.3, 1e3, 1e-6), (1e-6, 1e-3, 5.0), (0.9999, 1e6, 1e-9)]:
                    ph = rng.uniform(0, 2 * np.pi)
                    if npol == 1:
                        E = np.full(N, np.sqrt(P) * np.exp(1j * ph))
                    else:
                        a = rng.uniform(0, 1)
                        E = np.array([np.full(N, np.sqrt(a * P) * np.exp(1j * ph)), np.full(N, np.sqrt((1 - a) * P) * np.exp(-2j * ph))])
                    for noisy in (False, True):
                        nz = 1e-4 * (rng.standard_normal(E.shape) + 1j * rng.standard_normal(E.shape)) if noisy else None
                        x = optical_signal(E, nz, n_pol=npol)
                        for mode in ("all", "ase-only", "thermal-shot"):
                            y = PD(x, ratio * fs, r=r, R_load=RL, include_noise=mode)
                            exp = np.full(N, r * P * RL)
                            if not isinstance(y, electrical_signal) or not close(y.signal, exp, 1e-9):
                                bad("C1 CW->r*P*R_load", (fs, ratio, N, npol, r, RL, P, noisy, mode),
                                    f"expected const {r*P*RL}, got range [{np.min(y.signal)},{np.max(y.signal)}]")

# ------------------------------------------------------------------ C2: signal = LPF(R*r*|E|^2), deterministic; C8 length
rng = np.random.default_rng(2)
for fs in FS_LIST:
    gv(fs=fs, sps=8)
    for N in N_LIST:
        for npol in (1, 2):
            for noisy in (False, True):
                x = mkfield(rng, N, npol, noisy)
                ratio = rng.choice([0.01, 0.1, 0.3, 0.45])
                r, RL = rng.uniform(0.01, 1), 10 ** rng.uniform(0, 4)
                P = np.abs(x.signal) ** 2
                if npol == 2:
                    P = P.sum(axis=0)
                exp = ref_lpf(RL * r * P, ratio * fs, fs)
                first = None
                for k, mode in enumerate(MODES):
                    np.random.seed(k)
                    y = PD(x, ratio * fs, r=r, R_load=RL, include_noise=mode)
                    if y.signal.shape != (N,) or y.noise is None or y.noise.shape != (N,) or y.len() != N or len(y) != N:
                        bad("C8 length", (fs, N, npol, noisy, mode), f"signal shape {y.signal.shape}, noise {None if y.noise is None else y.noise.shape}")
                        continue
                    if np.iscomplexobj(y.signal) or np.iscomplexobj(y.noise):
                        bad("C2 real output", (fs, N, npol, noisy, mode), "complex output")
                    if not close(y.signal, exp, 1e-10):
                        bad("C2 signal=LPF(R*r*|E|^2)", (fs, N, npol, noisy, mode), f"max dev {np.max(np.abs(y.signal-exp))}")
                    if first is None:
                        first = y.signal.copy()
                    elif not np.array_equal(first, y.signal):
                        bad("C2 deterministic signal", (fs, N, npol, noisy, mode), "signal differs across calls/modes/seeds")

# ------------------------------------------------------------------ C3: phase / unitary invariance
rng = np.random.default_rng(3)
gv(fs=32e9, sps=16)
for N in [17, 100, 1001]:
    for npol in (1, 2):
        for noisy in (False, True):
            x = mkfield(rng, N, npol, noisy)
            np.random.seed(0)
            y0 = PD(x, 10e9, r=0.8, include_noise="ase-only")
            for phi in [0.0, np.pi / 2, np.pi, -np.pi, 1.2345, 2 * np.pi, 100.0]:
                xs = optical_signal(x.signal * np.exp(1j * phi), None if x.noise is None else x.noise * np.exp(1j * phi), n_pol=npol)
                y = PD(xs, 10e9, r=0.8, include_noise="ase-only")
                if not close(y.signal, y0.signal, 1e-11) or not close(y.noise, y0.noise, 1e-11, 1e-18):
                    bad("C3 phase rotation", (N, npol, noisy, phi), "output changed")
                # time varying phase on signal only (signal part must be unchanged)
                tv = np.exp(1j * phi * np.arange(N) ** 2 / N)
                xs = optical_signal(x.signal * tv, x.noise, n_pol=npol)
                y = PD(xs, 10e9, r=0.8, include_noise="ase-only")
                if not close(y.signal, y0.signal, 1e-11):
                    bad("C3 time-varying phase", (N, npol, noisy, phi), "signal part changed")
            if npol == 2:
                for _ in range(8):
                    A = rng.standard_normal((2, 2)) + 1j * rng.standard_normal((2, 2))
                    U, _r = np.linalg.qr(A)
                    xs = optical_signal(U @ x.signal, None if x.noise is None else U @ x.noise, n_pol=2)
                    y = PD(xs, 10e9, r=0.8, include_noise="ase-only")
                    if not close(y.signal, y0.signal, 1e-11) or not close(y.noise, y0.noise, 1e-10, 1e-18):
                        bad("C3 unitary polarisation rotation", (N, noisy), "output changed")
                # swap and pure x<->y
                xs = optical_signal(x.signal[::-1], None if x.noise is None else x.noise[::-1], n_pol=2)
                y = PD(xs, 10e9, r=0.8, include_noise="ase-only")
                if not close(y.signal, y0.signal, 1e-12):
                    bad("C3 pol swap", (N, noisy), "output changed")
            else:
                # a single-pol field E equals the two-pol field (E,0) and (0,E)
                z = np.zeros(N, complex)
                for S in ([x.signal, z], [z, x.signal]):
                    nn = None if x.noise is None else (np.array([x.noise, z]) if S[0] is x.signal else np.array([z, x.noise]))
                    xs = optical_signal(np.array(S), nn, n_pol=2)
                    y = PD(xs, 10e9, r=0.8, include_noise="ase-only")
                    if not close(y.signal, y0.signal, 1e-12) or not close(y.noise, y0.noise, 1e-12, 1e-20):
                        bad("C3 one-pol == two-pol with empty pol", (N, noisy), "output differs")

# ------------------------------------------------------------------ C4: scaling
rng = np.random.default_rng(4)
gv(fs=16e9, sps=16)
for N in [17, 500]:
    for npol in (1, 2):
        x = mkfield(rng, N, npol, True)
        y0 = PD(x, 5e9, r=0.5, R_load=50)
        for kk in [2, 0.5, 1 / 3, 1.9999]:
            if 0.5 * kk <= 1:
                y = PD(x, 5e9, r=0.5 * kk, R_load=50)
                if not close(y.signal, kk * y0.signal, 1e-12):
                    bad("C4 linear in r", (N, npol, kk), "not linear")
            y = PD(x, 5e9, r=0.5, R_load=50 * kk)
            if not close(y.signal, kk * y0.signal, 1e-12):
                bad("C4 linear in R_load", (N, npol, kk), "not linear")
            xs = optical_signal(x.signal * kk, x.noise, n_pol=npol)
            y = PD(xs, 5e9, r=0.5, R_load=50)
            if not close(y.signal, kk ** 2 * y0.signal, 1e-12):
                bad("C4 quadratic in amplitude", (N, npol, kk), "not quadratic")
        # int vs float arguments
        ya = PD(x, 5e9, r=1, T=300, R_load=50, include_noise="ase-only")
        yb = PD(x, 5e9, r=1.0, T=300.0, R_load=50.0, include_noise="ase-only")
        if not (np.array_equal(ya.signal, yb.signal) and np.array_equal(ya.noise, yb.noise)):
            bad("C4 int vs float args", (N, npol), "differ")

# ------------------------------------------------------------------ C5: noise terms exactly those selected
rng = np.random.default_rng(5)
for fs in [16e9, 2.5e9]:
    gv(fs=fs, sps=4)
    B = fs / 2
    for N in [17, 64, 1001]:
        for npol in (1, 2):
            for noisy in (False, True):
                for (r, T, RL, idk, Fn) in [(1.0, 300.0, 50.0, 10e-9, 0), (0.6, 0, 75, 0, 3.0), (0.2, 77.5, 1e3, 1e-6, 6), (1, 0.0, 50, 0.0, 0.0)]:
                    x = mkfield(rng, N, npol, noisy)
                    S, Nz = x.signal, x.noise
                    psig = np.abs(S) ** 2
                    if npol == 2:
                        psig = psig.sum(0)
                    if noisy:
                        sn = 2 * (S * Nz.conj()).real
                        nn = np.abs(Nz) ** 2
                        if npol == 2:
                            sn, nn = sn.sum(0), nn.sum(0)
                        pn_mean = nn.mean()
                    else:
                        sn = nn = np.zeros(N)
                        pn_mean = 0.0
                    vT = 4 * kB * T * 10 ** (Fn / 10) * B / RL
                    vS = 2 * qe * (r * (psig.mean() + pn_mean) + idk) * B
                    for mode in MODES:
                        for mv in case_variants(mode):
                            seed = int(rng.integers(1 << 30))
                            np.random.seed(seed)
                            y = PD(x, 0.3 * fs, r=r, T=T, R_load=RL, include_noise=mv, i_dark=idk, Fn=Fn)
                            np.random.seed(seed)
                            cur = np.full(N, float(idk))
                            if "thermal" in mode or mode == "all":
                                iT = np.random.normal(0, np.sqrt(vT), N)
                            if "shot" in mode or mode == "all":
                                iS = np.random.normal(0, np.sqrt(vS), N)
                            if "thermal" in mode or mode == "all":
                                cur = cur + iT
                            if "shot" in mode or mode == "all":
                                cur = cur + iS
                            if "ase" in mode or mode == "all":
                                cur = cur + r * (sn + nn)
                            exp = ref_lpf(cur * RL, 0.3 * fs, fs)
                            if y.noise is None or not close(y.noise, exp, 1e-9, 1e-25):
                                bad("C5 noise terms selected", (fs, N, npol, noisy, r, T, RL, idk, Fn, mv),
                                    f"max dev {None if y.noise is None else np.max(np.abs(y.noise-exp))} of scale {np.max(np.abs(exp))}")
                    # total with ase-only == r*|E+n|^2 + dark (square law on the whole field)
                    y = PD(x, 0.3 * fs, r=r, T=T, R_load=RL, include_noise="ASE-only", i_dark=idk, Fn=Fn)
                    tot = np.abs(S + (Nz if noisy else 0)) ** 2
                    if npol == 2:
                        tot = tot.sum(0)
                    exp = ref_lpf(RL * (r * tot + idk), 0.3 * fs, fs)
                    if not close(y.signal + y.noise, exp, 1e-9):
                        bad("C5 square law on signal+noise", (fs, N, npol, noisy, r), "sum differs")

# ------------------------------------------------------------------ C6: thermal / shot statistics (>=2^18 samples, 6 sigma)
def neb_and_sig(BW, fs, N):
    sos = sg.bessel(4, BW, "low", fs=fs, output="sos", norm="mag")
    _, H = sg.sosfreqz(sos, worN=N, fs=fs, whole=True)
    G = np.abs(H) ** 4            # power gain of the zero-phase (forward-backward) filter
    neb = G.mean()                # noise-equivalent bandwidth / (fs/2)
    relsd = np.sqrt(2 * (G ** 2).mean() / N) / neb   # rel. std of the sample variance
    return neb, relsd


NS = 1 << 18
for fs, ratio in [(16e9, 0.25), (40e9, 0.05), (1e9, 0.45), (5.0, 0.1)]:
    gv(fs=fs, sps=16)
    B = fs / 2
    neb, relsd = neb_and_sig(ratio * fs, fs, NS)
    rng = np.random.default_rng(6)
    for npol in (1, 2):
        for noisy in (False, True):
            x = mkfield(rng, NS, npol, noisy, amp=3e-2, namp=5e-3)
            psig = (np.abs(x.signal) ** 2).sum(0).mean() if npol == 2 else (np.abs(x.signal) ** 2).mean()
            pn = 0.0 if not noisy else ((np.abs(x.noise) ** 2).sum(0).mean() if npol == 2 else (np.abs(x.noise) ** 2).mean())
            for (r, T, RL, idk, Fn) in [(1.0, 300.0, 50.0, 10e-9, 0), (0.35, 500, 1e3, 1e-3, 4.5), (1, 0, 50, 0, 0)]:
                vT = 4 * kB * T * 10 ** (Fn / 10) * B / RL
                vS = 2 * qe * (r * (psig + pn) + idk) * B
                for mode, v in [("thermal-only", vT), ("Shot-Only", vS), ("THERMAL-SHOT", vT + vS)]:
                    fails = []
                    for seed in range(4):
                        np.random.seed(100 + seed)
                        y = PD(x, ratio * fs, r=r, T=T, R_load=RL, include_noise=mode, i_dark=idk, Fn=Fn)
                        cur = y.noise / RL - idk
                        expv = v * neb
                        m, var = cur.mean(), cur.var()
                        # the mean of N white samples has std sqrt(v/N) (filter has unit DC gain)
                        ok_m = abs(m) <= 6 * np.sqrt(v / NS) + 1e-12 * abs(idk)
                        ok_v = abs(var - expv) <= 6 * relsd * expv + 1e-30
                        if expv > 0:
                            z = (cur - m) / np.sqrt(var)
                            kurt = (z ** 4).mean() - 3
                            ok_k = abs(kurt) <= 6 * np.sqrt(24 / (NS * neb)) * 2
                        else:
                            ok_k = True
                        if not (ok_m and ok_v and ok_k):
                            fails.append((seed, m, var, expv))
                    if len(fails) >= 3:
                        bad("C6 noise statistics", (fs, ratio, npol, noisy, r, T, RL, idk, Fn, mode), f"(seed, mean, var, expected var): {fails}")

# ------------------------------------------------------------------ C7: argument validation
gv(fs=16e9, sps=16)
x = optical_signal(np.ones(64, complex) * 0.01)


def expect(exc, clause, desc, **kw):
    try:
        PD(x, 5e9, **kw)
    except exc:
        return
    except Exception as ex:
        bad(clause, desc, f"expected {exc.__name__}, got {type(ex).__name__}: {ex}")
        return
    bad(clause, desc, f"expected {exc.__name__}, no error raised")


def expect_ok(clause, desc, **kw):
    try:
        y = PD(x, 5e9, **kw)
        if y.len() != 64:
            bad(clause, desc, "wrong length")
        return y
    except Exception as ex:
        bad(clause, desc, f"valid input rejected with {type(ex).__name__}: {ex}")


for v in [0, 0.0, -0.1, -1, 1.0000001, 2, 1e9, float("inf")]:
    expect(ValueError, "C7 r out of (0,1]", f"r={v!r}", r=v)
for v in [-1e-300, -1, -300.0]:
    expect(ValueError, "C7 T negative", f"T={v!r}", T=v)
    expect(ValueError, "C7 R_load negative", f"R_load={v!r}", R_load=v)
for v in [[0.5], "0.5", None, (0.5,), 0.5 + 0j, np.array([0.5, 0.6])]:
    expect(TypeError, "C7 r not scalar", f"r={v!r}", r=v)
    expect(TypeError, "C7 T not scalar", f"T={v!r}", T=v)
    expect(TypeError, "C7 R_load not scalar", f"R_load={v!r}", R_load=v)
for v in [None, 1, ["all"], b"all", ("all",)]:
    expect(TypeError, "C7 include_noise not str", f"include_noise={v!r}", include_noise=v)
for v in ["", "none", "ase", "thermal", "shot", "shot-ase", "all ", "ase_only", "ase-thermal-shot", "al"]:
    expect(ValueError, "C7 include_noise invalid", f"include_noise={v!r}", include_noise=v)
for v in [np.ones(64, complex), electrical_signal(np.ones(64)), [1, 2, 3], None]:
    try:
        PD(v, 5e9)
        bad("C7 input type", type(v).__name__, "no TypeError")
    except TypeError:
        pass
    except Exception as ex:
        bad("C7 input type", type(v).__name__, f"{type(ex).__name__}")
# boundary / valid scalars must be accepted
for v in [1, 1.0, 1e-12, 5e-324, np.float64(0.5), np.float64(1.0), np.float32(0.5), np.float16(0.5), np.int64(1), np.int32(1)]:
    expect_ok("C7 valid r accepted", f"r={v!r} ({type(v).__name__})", r=v)
for v in [0, 0.0, 300, 1e6, np.float64(300), np.float32(300), np.int64(300), np.int32(0)]:
    expect_ok("C7 valid T accepted", f"T={v!r} ({type(v).__name__})", T=v)
for v in [50, 1e-9, 1e9, np.float64(50), np.float32(50), np.int64(50), np.int16(50)]:
    expect_ok("C7 valid R_load accepted", f"R_load={v!r} ({type(v).__name__})", R_load=v)
for v in [0, 0.0, 1e-9, np.float32(1e-9), np.int64(0)]:
    expect_ok("C7 valid i_dark accepted", f"i_dark={v!r}", i_dark=v)
for v in [0, 0.0, 3, np.float32(3), np.int64(3), 10.0]:
    expect_ok("C7 valid Fn accepted", f"Fn={v!r}", Fn=v)
for v in [5e9, np.float32(5e9), np.float64(5e9), 5000000000, np.int64(5000000000)]:
    try:
        y = PD(x, v)
        if y.len() != 64:
            bad("C8 length", f"BW={v!r}", "wrong length")
    except Exception as ex:
        bad("C7 valid BW accepted", f"BW={v!r} ({type(v).__name__})", f"{type(ex).__name__}: {ex}")
for m in MODES:
    for mv in case_variants(m) + [m.capitalize(), m.swapcase()]:
        expect_ok("C7 letter case", f"include_noise={mv!r}", include_noise=mv)

# container / dtype variants of the field
for N in [17, 33]:
    for mk in [lambda a: optical_signal(list(a)), lambda a: optical_signal(tuple(a)), lambda a: optical_signal(a.astype(np.complex64)),
               lambda a: optical_signal(a.real), lambda a: optical_signal(np.round(a.real * 1000).astype(int)),
               lambda a: optical_signal([a, a]), lambda a: optical_signal(a, n_pol=2), lambda a: optical_signal(a[None, :], n_pol=1),
               lambda a: optical_signal(a, np.zeros_like(a))]:
        a = np.random.default_rng(N).standard_normal(N) + 1j * np.random.default_rng(N + 1).standard_normal(N)
        xx = mk(a)
        for mode in MODES:
            try:
                y = PD(xx, 5e9, include_noise=mode)
                P = np.abs(xx.signal.astype(complex)) ** 2
                if xx.n_pol == 2:
                    P = P.sum(0)
                if y.len() != N:
                    bad("C8 length", (N, mode), f"{y.len()}")
                if not close(y.signal, ref_lpf(50.0 * P, 5e9, gv.fs), 1e-5 if xx.signal.dtype == np.complex64 else 1e-10):
                    bad("C2 signal (container/dtype variants)", (N, mode, str(xx.signal.dtype), xx.n_pol), "mismatch")
            except Exception as ex:
                bad("C2 container/dtype variants", (N, mode, str(xx.signal.dtype), xx.n_pol), f"{type(ex).__name__}: {ex}")

# call order / repeated calls, gv changes between calls
gv(fs=16e9, sps=16)
xx = mkfield(np.random.default_rng(9), 200, 2, True)
a1 = PD(xx, 4e9, include_noise="ase-only")
gv(fs=64e9, sps=16)
b1 = PD(xx, 4e9, include_noise="ase-only")
gv(fs=16e9, sps=16)
a2 = PD(xx, 4e9, include_noise="ase-only")
if not (np.array_equal(a1.signal, a2.signal) and np.array_equal(a1.noise, a2.noise)):
    bad("C2 repeated calls", "gv switched forth and back", "result changed")
if not close(b1.signal, ref_lpf(50.0 * (np.abs(xx.signal) ** 2).sum(0), 4e9, 64e9), 1e-10):
    bad("C2 sampling rate follows gv.fs", "fs=64e9", "mismatch")

if viol:
    print(f"{len(viol)} violations")
    sys.exit(1)
print("PASS")
sys.exit(0)
