# PD rejects valid numpy scalar values of r, T and R_load with TypeError("... must be a scalar value")
import sys
del sys.path[0]
import numpy as np
from opticomlib import gv, optical_signal
from opticomlib.devices import PD

gv(fs=16e9, sps=16)
x = optical_signal(np.full(64, 0.01 + 0j))
ref = PD(x, 5e9, r=0.5, T=300, R_load=50, include_noise="ase-only").signal
failed = 0
for kw in [dict(r=np.float32(0.5)), dict(T=np.int64(300)), dict(R_load=np.arange(50, 60, 10)[0]), dict(R_load=np.float32(50))]:
    try:
        out = PD(x, 5e9, **{**dict(r=0.5, T=300, R_load=50), **kw}, include_noise="ase-only").signal
        assert np.allclose(out, ref, rtol=1e-6), "wrong value"
    except Exception as ex:
        failed += 1
        k, v = next(iter(kw.items()))
        print(f"{k}={v!r} ({type(v).__name__}): expected the constant {ref[0]:.6g} V (valid scalar inside the domain), got {type(ex).__name__}: {ex}")
sys.exit(1 if failed else 0)
