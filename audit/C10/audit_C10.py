import sys
del sys.path[0]
import warnings
warnings.filterwarnings("ignore")
import itertools
import numpy as np
from scipy.constants import h, c
import scipy.signal as sg

import opticomlib
from opticomlib import gv, optical_signal, electrical_signal, binary_sequence
from opticomlib.devices import EDFA, BPF

assert opticomlib.__file__.startswith('/tmp/wt16/C10/'), opticomlib.__file__

viol = []
seen = set()


def bad(clause, desc, msg):
    key = (clause, desc)
    if key in seen:
        return
    seen.add(key)
    viol.append(key)
    print(f"VIOLATION [{clause}] {desc}: {msg}")


def lin(db):
    return 10 ** (np.asarray(db, dtype=float) / 10)


def close(a, b, scale=None):
    a = np.asarray(a); b = np.asarray(b)
    if a.shape != b.shape:
        return False
    if scale is None:
        scale = max(np.max(np.abs(b)) if b.size else 0, 1e-300)
    return bool(np.all(np.abs(a - b) <= 1e-12 * scale))


def make_input(kind, n, rng, container='ndarray', dtype='complex'):
    """kind in {'1', '2', '1n', '2n'}"""
    npol = 2 if kind[0] == '2' else 1
    shape = (2, n) if npol == 2 else (n,)

    def draw():
        if dtype == 'int':
            return rng.integers(-5, 6, size=shape)
        if dtype == 'float':
            return rng.standard_normal(shape) * 1e-2
        return (rng.standard_normal(shape) + 1j * rng.standard_normal(shape)) * 1e-2
    s = draw()
    nz = draw() * 1e-2 if kind.endswith('n') else None
    if dtype == 'int' and nz is not None:
        nz = rng.integers(-2, 3, size=shape)

    def wrap(a):
        if a is None:
            return None
        if container == 'list':
            return a.tolist()
        if container == 'tuple':
            return tuple(map(tuple, a.tolist())) if a.ndim == 2 else tuple(a.tolist())
        return a
    x = optical_signal(wrap(s), wrap(nz), n_pol=npol)
    return x, np.asarray(s), (None if nz is None else np.asarray(nz)), npol


def check_exact(desc, x, s, nz, npol, G, NF, seed, BW=None):
    """clauses: type/shape, signal part, noise part (with replayed RNG), input untouched"""
    n = s.shape[-1]
    s0 = np.array(x.signal, copy=True)
    n0 = None if x.noise is None else np.array(x.noise, copy=True)
    np.random.seed(seed)
    try:
        y = EDFA(x, G, NF) if BW is None else EDFA(x, G, NF, BW)
    except Exception as e:
        bad('call', desc, f"raised {type(e).__name__}: {e}")
        return None
    # replay RNG
    np.random.seed(seed)
    g = float(lin(G)); a = np.sqrt(g)
    P = float(lin(NF)) * h * gv.f0 * (g - 1) * gv.fs
    r = np.random.randn(4, n)
    ase = np.sqrt(P / 4) * (r[:2] + 1j * r[2:])

    if not isinstance(y, optical_signal) or y.n_pol != 2:
        bad('two-pol', desc, f"type={type(y).__name__} n_pol={getattr(y, 'n_pol', None)}")
        return y
    if y.signal.shape != (2, n) or y.noise is None or np.shape(y.noise) != (2, n):
        bad('two-pol', desc, f"signal shape {y.signal.shape}, noise shape {None if y.noise is None else np.shape(y.noise)} expected {(2, n)}")
        return y
    if y.len() != n:
        bad('two-pol', desc, f"len {y.len()} != {n}")

    es = np.zeros((2, n), complex)
    en = np.zeros((2, n), complex)
    if npol == 2:
        es[:] = s * a
        if nz is not None:
            en[:] = nz * a
    else:
        es[0] = s * a
        if nz is not None:
            en[0] = nz * a
    en = en + ase

    if BW is not None:
        sos = sg.bessel(N=4, Wn=BW / 2, btype='low', fs=gv.fs, output='sos', norm='mag')
        es = sg.sosfiltfilt(sos, es, axis=-1)
        en = sg.sosfiltfilt(sos, en, axis=-1)

    if not close(y.signal, es, scale=max(np.max(np.abs(es)), 1e-300)):
        bad('signal*sqrt(G)' if BW is None else 'BW-filter(signal)', desc,
            f"max dev {np.max(np.abs(y.signal - es)):.3e} (y-pol max {np.max(np.abs(y.signal[1])):.3e})")
    if npol == 1 and BW is None and np.any(y.signal[1] != 0):
        bad('y-pol no signal', desc, f"max |y.signal[1]| = {np.max(np.abs(y.signal[1])):.3e}")
    if not close(y.noise, en, scale=max(np.max(np.abs(en)), np.sqrt(P / 4), 1e-300)):
        bad('noise=sqrt(G)*n_in+ASE' if BW is None else 'BW-filter(noise)', desc,
            f"max dev {np.max(np.abs(y.noise - en)):.3e}")
    # input untouched
    if not np.array_equal(x.signal, s0) or (n0 is not None and not np.array_equal(x.noise, n0)) or (n0 is None and x.noise is not None):
        bad('input untouched', desc, "EDFA modified its input")
    return y


# ---------------------------------------------------------------- TypeError clause
gv.clean()
for name, obj in [('electrical_signal', electrical_signal([1., 2., 3.])),
                  ('electrical_signal+noise', electrical_signal([1., 2., 3.], [0., 0., 0.])),
                  ('ndarray', np.ones(8)), ('ndarray2d', np.ones((2, 8))), ('list', [1., 2.]), ('tuple', (1., 2.)),
                  ('None', None), ('float', 1.0), ('int', 1), ('complex', 1j), ('str', '1 2 3'),
                  ('binary_sequence', binary_sequence('1010')), ('np.float64', np.float64(1.0)), ('dict', {}),
                  ('class', optical_signal)]:
    for BW in (None, 5e9):
        try:
            EDFA(obj, 10, 5, BW)
            bad('TypeError', f'{name} BW={BW}', 'no exception')
        except TypeError:
            pass
        except Exception as e:
            bad('TypeError', f'{name} BW={BW}', f'raised {type(e).__name__}: {e}')

# ---------------------------------------------------------------- exact clauses, enumerated corners
rng = np.random.default_rng(1234)
Gs = [0, 0.0, 1e-9, 0.5, 3, 17.3, 40, 40.0, np.float64(40), np.int64(0), np.int32(20), np.float32(12.5)]
NFs = [3, 3.0, 4.7, 10, 10.0, np.int64(10), np.float64(3), np.float32(5.5)]
lengths = [1, 2, 3, 4, 5, 7, 15, 16, 17, 31, 64, 255, 1024]
kinds = ['1', '2', '1n', '2n']
fsf0 = [(None, None), (1e9, 1310e-9), (123.456e9, 1550.12e-9), (1.0, 850e-9), (4e12, 1625e-9)]

seed = 0
for (fs, wl) in fsf0:
    gv.clean()
    if fs is not None:
        gv(fs=fs, wavelength=wl)
        assert gv.fs == fs and abs(gv.f0 - c / wl) < 1
    for kind, n in itertools.product(kinds, lengths):
        for cont, dt in [('ndarray', 'complex'), ('list', 'float'), ('tuple', 'int'), ('ndarray', 'int'), ('ndarray', 'float')]:
            # two (G, NF) combos per input: one boundary pair and one sampled
            combos = [(Gs[seed % len(Gs)], NFs[seed % len(NFs)]),
                      (rng.uniform(0, 40), rng.uniform(3, 10)),
                      (rng.choice([0, 40]), rng.choice([3, 10]))]
            for G, NF in combos:
                seed += 1
                x, s, nz, npol = make_input(kind, n, rng, cont, dt)
                desc = f"kind={kind} n={n} {cont}/{dt} G={G!r} NF={NF!r} fs={gv.fs:g} f0={gv.f0:.4g}"
                check_exact(desc, x, s, nz, npol, G, NF, seed)

# all (G, NF) corner pairs on every kind, a few lengths
gv.clean()
for kind, n, G, NF in itertools.product(kinds, [1, 2, 9], Gs, NFs):
    seed += 1
    x, s, nz, npol = make_input(kind, n, rng)
    check_exact(f"kind={kind} n={n} G={G!r} NF={NF!r}", x, s, nz, npol, G, NF, seed)

# special constructions of the input: scalar, string, (1,n) array, n_pol=2 from 1D (duplicated), zero noise, real noise on complex signal
gv.clean()
specials = []
specials.append(('scalar 1pol', optical_signal(0.3), np.array([0.3]), None, 1))
specials.append(('scalar 2pol', optical_signal(0.3, n_pol=2), np.array([[0.3], [0.3]]), None, 2))
specials.append(('scalar 1pol+noise', optical_signal(0.3, 0.01), np.array([0.3]), np.array([0.01]), 1))
specials.append(('scalar 2pol+noise', optical_signal(0.3, 0.01, n_pol=2), np.array([[0.3], [0.3]]), np.array([[0.01], [0.01]]), 2))
specials.append(('string 1pol', optical_signal('1 2 3,4,5'), np.array([1, 2, 3, 4, 5.]), None, 1))
specials.append(('string 1pol+noise', optical_signal('1 2 3,4,5', '0 1 0 1 0'), np.array([1, 2, 3, 4, 5.]), np.array([0, 1, 0, 1, 0.]), 1))
specials.append(('string cplx', optical_signal('1+2j, 3+4j, 5+6j'), np.array([1 + 2j, 3 + 4j, 5 + 6j]), None, 1))
specials.append(('(1,n) -> 2pol', optical_signal(np.arange(6.).reshape(1, 6)), np.array([np.arange(6.)] * 2), None, 2))
specials.append(('(1,n) n_pol=1', optical_signal(np.arange(6.).reshape(1, 6), n_pol=1), np.arange(6.), None, 1))
specials.append(('1D n_pol=2', optical_signal(np.arange(6.), n_pol=2), np.array([np.arange(6.)] * 2), None, 2))
specials.append(('(2,n) n_pol=1', optical_signal(np.arange(12.).reshape(2, 6), n_pol=1), np.arange(6.), None, 1))
specials.append(('1pol len2 (shape (2,))', optical_signal([1., -2.]), np.array([1., -2.]), None, 1))
specials.append(('1pol len2 + noise', optical_signal([1., -2.], [.1, .2]), np.array([1., -2.]), np.array([.1, .2]), 1))
specials.append(('2pol len2', optical_signal([[1., -2.], [3., 4.]]), np.array([[1., -2.], [3., 4.]]), None, 2))
specials.append(('2pol len2 + noise', optical_signal([[1., -2.], [3., 4.]], [[.1, .2], [.3, .4]]), np.array([[1., -2.], [3., 4.]]), np.array([[.1, .2], [.3, .4]]), 2))
specials.append(('zero signal', optical_signal(np.zeros(8)), np.zeros(8), None, 1))
specials.append(('zero noise', optical_signal(np.ones(8), np.zeros(8)), np.ones(8), np.zeros(8), 1))
specials.append(('2pol y empty', optical_signal([np.ones(8), np.zeros(8)]), np.array([np.ones(8), np.zeros(8)]), None, 2))
specials.append(('complex64', optical_signal(np.ones(8), dtype=np.complex64), np.ones(8), None, 1))
specials.append(('float32+noise', optical_signal(np.ones(8), np.ones(8) * .5, dtype=np.float32), np.ones(8), np.ones(8) * .5, 1))
specials.append(('bool', optical_signal(np.array([True, False, True])), np.array([1., 0., 1.]), None, 1))
# noise attribute set afterwards (real signal, complex noise) - as EDFA itself produces
z = optical_signal(np.ones((2, 8)))
z.noise = (np.arange(16.).reshape(2, 8) * (1 + 1j)) * 1e-3
specials.append(('real signal complex noise attr', z, np.ones((2, 8)), np.array(z.noise), 2))
z1 = optical_signal(np.ones(8))
z1.noise = (np.arange(8.) * (1 - 1j)) * 1e-3
specials.append(('1pol real signal complex noise attr', z1, np.ones(8), np.array(z1.noise), 1))
# sliced / copied inputs
base = optical_signal(np.arange(20.).reshape(2, 10), np.arange(20.).reshape(2, 10) * 1e-2)
specials.append(('slice 2pol', base[2:7], base.signal[:, 2:7].copy(), base.noise[:, 2:7].copy(), 2))
specials.append(('int index 2pol', base[3], base.signal[:, 3:4].copy(), base.noise[:, 3:4].copy(), 2))
specials.append(('copy 2pol', base.copy(), base.signal.copy(), base.noise.copy(), 2))
for name, x, s, nz, npol in specials:
    if x.n_pol != npol:
        print(f"# note: construction '{name}' gave n_pol={x.n_pol}, audit assumed {npol}; skipped")
        continue
    for G, NF in [(0, 3), (40, 10), (13.7, 5.2), (np.int64(40), np.int64(3))]:
        seed += 1
        check_exact(f"special '{name}' G={G!r} NF={NF!r}", x, s, nz, npol, G, NF, seed)

# cascade: output of an EDFA (real signal, complex noise) into another
gv.clean()
x = optical_signal(np.cos(np.arange(64.)) * 1e-3)
np.random.seed(5)
y1 = EDFA(x, 20, 5)
seed += 1
check_exact("cascade 2nd stage", y1, np.array(y1.signal), np.array(y1.noise), 2, 15, 4, seed)

# keyword / positional call forms, repeated calls give fresh ASE
x = optical_signal(np.ones(256))
np.random.seed(1)
ya = EDFA(x, 20, 5)
yb = EDFA(x, 20, 5)
if np.array_equal(ya.noise, yb.noise):
    bad('fresh ASE', 'two consecutive calls', 'identical noise')
if not np.array_equal(ya.signal, yb.signal):
    bad('signal*sqrt(G)', 'two consecutive calls', 'signal differs between calls')
np.random.seed(1); yk = EDFA(input=x, NF=5, G=20, BW=None)
if not np.array_equal(yk.noise, ya.noise) or not np.array_equal(yk.signal, ya.signal):
    bad('call', 'keyword call form', 'differs from positional call')

# ---------------------------------------------------------------- BW clause
gv.clean()
bw_lengths = [1, 2, 3, 8, 15, 16, 17, 33, 64, 257, 4096]
for kind, n in itertools.product(kinds, bw_lengths):
    for BW in [1e9, 5e9, 10e9, 15.9e9, 1e6]:
        for G, NF in [(0, 3), (40, 10), (rng.uniform(0, 40), rng.uniform(3, 10))]:
            seed += 1
            x, s, nz, npol = make_input(kind, n, rng)
            check_exact(f"BW={BW:g} kind={kind} n={n} G={G!r} NF={NF!r}", x, s, nz, npol, G, NF, seed, BW=BW)
for (fs, wl) in fsf0[1:]:
    gv.clean(); gv(fs=fs, wavelength=wl)
    for kind in kinds:
        for BW in [fs / 100, fs / 4, 0.99 * fs, int(fs / 2) if fs > 2 else 0.5]:
            seed += 1
            x, s, nz, npol = make_input(kind, 512, rng)
            check_exact(f"BW={BW!r} fs={fs:g} kind={kind} n=512", x, s, nz, npol, 20, 5, seed, BW=BW)

# band-limitation proper: out-of-band power of the whole output (signal and noise) must be strongly attenuated
gv.clean()
n = 2 ** 14
f = np.fft.fftfreq(n, 1 / gv.fs)
for kind in kinds:
    for BW in [2e9, 6e9]:
        seed += 1
        x, s, nz, npol = make_input(kind, n, rng)
        np.random.seed(seed); y0 = EDFA(x, 20, 5)
        np.random.seed(seed); y = EDFA(x, 20, 5, BW)
        if y is None:
            continue
        oob = np.abs(f) > 2 * BW  # well outside BW/2 cutoff
        for part in ('signal', 'noise'):
            A0 = np.fft.fft(getattr(y0, part), axis=-1); A = np.fft.fft(getattr(y, part), axis=-1)
            p0 = np.sum(np.abs(A0[:, oob]) ** 2); p = np.sum(np.abs(A[:, oob]) ** 2)
            if p0 > 0 and p / p0 > 1e-2:
                bad('BW band-limited', f'kind={kind} BW={BW:g} {part}', f'out-of-band power ratio {p / p0:.3e}')
            inb = np.abs(f) < BW / 20
            q0 = np.sum(np.abs(A0[:, inb]) ** 2); q = np.sum(np.abs(A[:, inb]) ** 2)
            if q0 > 0 and abs(q / q0 - 1) > 0.05:
                bad('BW band-limited', f'kind={kind} BW={BW:g} {part}', f'in-band power ratio {q / q0:.3e}')

# ---------------------------------------------------------------- ASE statistics (>= 2^16 samples, 6 sigma)
n = 2 ** 16
for (fs, wl) in [(None, None), (40e9, 1310e-9), (2.5e12, 1600e-9)]:
    gv.clean()
    if fs is not None:
        gv(fs=fs, wavelength=wl)
    for kind in kinds:
        for G, NF in [(40, 10), (40, 3), (0.1, 3), (3, 10), (20, 5), (rng.uniform(0.5, 40), rng.uniform(3, 10))]:
            fails = {}
            nseeds = 4
            for sd in range(nseeds):
                x, s, nz, npol = make_input(kind, n, rng)
                np.random.seed(1000 + sd)
                y = EDFA(x, G, NF)
                g = float(lin(G)); a = np.sqrt(g)
                P = float(lin(NF)) * h * gv.f0 * (g - 1) * gv.fs
                inn = np.zeros((2, n), complex)
                if nz is not None:
                    if npol == 2:
                        inn[:] = nz * a
                    else:
                        inn[0] = nz * a
                ase = y.noise - inn
                # subtraction rounding: ignore when input noise dwarfs ASE (checked exactly above anyway)
                if nz is not None and np.max(np.abs(inn)) * 1e-16 * 100 > np.sqrt(P / 4):
                    continue
                tot = np.mean(np.sum(np.abs(ase) ** 2, axis=0))
                sig = 6 * P / np.sqrt(2 * n)
                if abs(tot - P) > sig:
                    fails.setdefault('total power', []).append(f"{tot:.6e} vs {P:.6e}")
                for k in range(2):
                    pk = np.mean(np.abs(ase[k]) ** 2)
                    if abs(pk - P / 2) > 6 * (P / 2) / np.sqrt(n):
                        fails.setdefault(f'pol {k} power', []).append(f"{pk:.6e} vs {P / 2:.6e}")
                    for nm, comp in (('re', ase[k].real), ('im', ase[k].imag)):
                        v = np.mean(comp ** 2)
                        if abs(v - P / 4) > 6 * (P / 4) * np.sqrt(2 / n):
                            fails.setdefault(f'pol {k} {nm} var', []).append(f"{v:.6e} vs {P / 4:.6e}")
                        m = np.mean(comp)
                        if abs(m) > 6 * np.sqrt(P / 4 / n):
                            fails.setdefault(f'pol {k} {nm} mean', []).append(f"{m:.3e}")
                        # gaussianity: kurtosis 3
                        ku = np.mean(comp ** 4) / v ** 2
                        if abs(ku - 3) > 6 * np.sqrt(96 / n):
                            fails.setdefault(f'pol {k} {nm} kurtosis', []).append(f"{ku:.4f}")
                    # circularity
                    cc = np.mean(ase[k] ** 2)
                    if abs(cc) > 6 * (P / 2) / np.sqrt(n):
                        fails.setdefault(f'pol {k} circular', []).append(f"{abs(cc):.3e}")
                    # whiteness (lag 1)
                    l1 = np.mean(ase[k][1:] * np.conj(ase[k][:-1]))
                    if abs(l1) > 6 * (P / 2) / np.sqrt(n):
                        fails.setdefault(f'pol {k} white', []).append(f"{abs(l1):.3e}")
                # independence between polarisations and from input
                for nm, u, v_ in (('x-y', ase[0], ase[1]), ('x-y*', ase[0], np.conj(ase[1]))):
                    cr = np.mean(u * np.conj(v_))
                    if abs(cr) > 6 * (P / 2) / np.sqrt(n):
                        fails.setdefault(f'indep {nm}', []).append(f"{abs(cr):.3e}")
                if nz is not None:
                    innorm = inn[0] / np.sqrt(np.mean(np.abs(inn[0]) ** 2))
                    cr = np.mean(ase[0] * np.conj(innorm))
                    if abs(cr) > 6 * np.sqrt(P / 2) / np.sqrt(n):
                        fails.setdefault('indep of input noise', []).append(f"{abs(cr):.3e}")
                # SNR clause (only meaningful with input noise)
                if nz is not None and P > 0:
                    ps_in = np.sum(np.mean(np.abs(np.atleast_2d(s)) ** 2, axis=-1)); pn_in = np.sum(np.mean(np.abs(np.atleast_2d(nz)) ** 2, axis=-1))
                    ps_out = np.sum(y.power('signal')); pn_out = np.sum(y.power('noise'))
                    # cross term sampling error
                    tol = 6 * 2 * np.sqrt(g * pn_in * P / n)
                    if pn_out + tol < g * pn_in or ps_out / (pn_out + tol) > ps_in / pn_in:
                        fails.setdefault('OSNR not increased', []).append(f"out {ps_out / pn_out:.6e} in {ps_in / pn_in:.6e}")
            for k_, v_ in fails.items():
                if len(v_) >= 2:  # several seeds
                    bad('ASE stats: ' + k_, f"kind={kind} G={G!r} NF={NF!r} fs={gv.fs:g} f0={gv.f0:.4g}", f"{len(v_)}/{nseeds} seeds: {v_[:2]}")

# no-noise input: output SNR finite, and noise power = P_ase (input SNR = inf) ; G = 0 dB: ASE exactly zero
gv.clean()
for kind in kinds:
    x, s, nz, npol = make_input(kind, 100, rng)
    y = EDFA(x, 0, 7)
    exp = np.zeros((2, 100), complex)
    if nz is not None:
        exp[:npol] = nz
    if not close(y.noise, exp, scale=1e-4 if nz is None else None):
        bad('ASE power (G=0dB -> 0)', f'kind={kind}', f"max dev {np.max(np.abs(y.noise - exp)):.3e}")

if viol:
    print(f"{len(viol)} violation(s)")
    sys.exit(1)
print("PASS")
sys.exit(0)
