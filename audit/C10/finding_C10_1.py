# C10: "With a bandwidth argument the whole output is band-limited by the optical filter"
# quantified over "for all one/two-polarisation inputs with or without a noise component".
# Inputs of 1..15 samples make EDFA(..., BW=...) raise ValueError instead of returning an output.
import sys
del sys.path[0]
import numpy as np
from opticomlib import optical_signal, gv
from opticomlib.devices import EDFA

failed = []
for n in (1, 2, 15, 16):
    for x in (optical_signal(np.ones(n)), optical_signal(np.ones((2, n)), np.zeros((2, n)))):
        EDFA(x, G=20, NF=5)                      # works without BW for every length
        try:
            y = EDFA(x, G=20, NF=5, BW=gv.fs / 4)
            assert y.n_pol == 2 and y.signal.shape == (2, n) and y.noise.shape == (2, n)
        except ValueError as e:
            failed.append((n, x.n_pol, str(e)))
print("expected: a two-polarisation band-limited output of the input's length for every n")
for f in failed:
    print("got: n=%d n_pol=%d -> ValueError: %s" % f)
sys.exit(1 if failed else 0)
