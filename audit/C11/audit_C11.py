import sys
del sys.path[0]
import warnings
warnings.simplefilter("ignore")
import numpy as np
import scipy.signal as sg
from numpy.fft import fftfreq, fftshift

from opticomlib import gv, electrical_signal, optical_signal
from opticomlib.devices import LPF, BPF

FAILS = []
SEEN = {}


def fail(clause, desc, detail):
    SEEN[clause] = SEEN.get(clause, 0) + 1
    FAILS.append(clause)
    if SEEN[clause] <= 6:
        print(f"VIOLATION [{clause}] {desc}: {detail}")
    elif SEEN[clause] == 7:
        print(f"VIOLATION [{clause}] ... further lines suppressed")


def relerr(a, b):
    a = np.asarray(a); b = np.asarray(b)
    if a.shape != b.shape:
        return np.inf
    s = max(np.abs(b).max(), 1e-300)
    return np.abs(a - b).max() / s


def set_fs(fs):
    gv.fs = fs
    gv.dt = 1 / fs


def call(clause, desc, f, *a, **k):
    try:
        return f(*a, **k)
    except Exception as e:  # any exception inside the domain is a violation of the clause under test
        fail(clause, desc, f"raised {type(e).__name__}: {str(e)[:90]}")
        return None


rng = np.random.default_rng(11)
ORDERS = list(range(1, 9))
CUTS = [0.0101, 0.02, 0.05, 0.1, 0.25, 0.4, 0.4499]
FSS = [1.0, 16e9, 3, 1e-3, 7.5e14, np.float64(2e9), 100]

# ---------------------------------------------------------------- E: length preserved / accepted, every length > 16, every order
set_fs(16e9)
for n in ORDERS:
    for L in list(range(17, 66)) + [127, 128, 129, 1000, 1001]:
        x = rng.normal(size=L)
        for c in (0.0101, 0.2, 0.4499):
            y = call("E-length-LPF", f"n={n} L={L} cut={c}fs ndarray", LPF, x, c * gv.fs, n=n)
            if y is not None and (y.signal.shape != (L,) or y.noise is not None or not isinstance(y, electrical_signal)):
                fail("E-length-LPF", f"n={n} L={L}", f"shape {y.signal.shape}")
        y = call("E-length-LPF", f"n={n} L={L} electrical_signal+noise", LPF, electrical_signal(x, x[::-1]), 0.2 * gv.fs, n=n)
        if y is not None and (y.signal.shape != (L,) or y.noise.shape != (L,)):
            fail("E-length-LPF", f"n={n} L={L} +noise", f"shape {y.signal.shape} {y.noise.shape}")
        z = x + 1j * x[::-1]
        for npol, sig in ((1, z), (2, np.array([z, z[::-1]]))):
            for nz in (None, sig * 0.5):
                y = call("E-length-BPF", f"n={n} L={L} npol={npol} noise={'y' if nz is not None else 'n'}", BPF,
                         optical_signal(sig, nz), 0.4 * gv.fs, n=n)
                if y is not None:
                    if y.signal.shape != sig.shape or y.n_pol != npol or (nz is not None and y.noise.shape != sig.shape) or (nz is None and y.noise is not None):
                        fail("E-length-BPF", f"n={n} L={L} npol={npol}", f"shape {y.signal.shape}")

# ---------------------------------------------------------------- A: linearity
for trial in range(60):
    fs = FSS[trial % len(FSS)]
    set_fs(fs)
    n = ORDERS[trial % 8]
    c = CUTS[trial % len(CUTS)]
    L = int(rng.choice([28, 29, 33, 64, 257, 1000, 4097]))
    a, b = rng.normal(size=2) * 10.0 ** rng.integers(-3, 4)
    x, y = rng.normal(size=(2, L))
    nx, ny = rng.normal(size=(2, L))
    d = f"fs={fs} n={n} cut={c} L={L}"
    try:
        F = lambda s: LPF(s, c * fs, n=n, fs=fs).signal
        if relerr(F(a * x + b * y), a * F(x) + b * F(y)) > 1e-9:
            fail("A-linear-LPF", d, relerr(F(a * x + b * y), a * F(x) + b * F(y)))
        if relerr(F(0 * x), 0 * x) != 0:
            fail("A-linear-LPF", d + " zero input", "non-zero out")
        o = LPF(electrical_signal(a * x + b * y, a * nx + b * ny), c * fs, n=n, fs=fs)
        ox = LPF(electrical_signal(x, nx), c * fs, n=n, fs=fs); oy = LPF(electrical_signal(y, ny), c * fs, n=n, fs=fs)
        if relerr(o.signal, a * ox.signal + b * oy.signal) > 1e-9 or relerr(o.noise, a * ox.noise + b * oy.noise) > 1e-9:
            fail("A-linear-LPF", d + " container", "mismatch")
        # BPF complex, 1 and 2 pol, complex coefficients
        ac, bc = a * np.exp(1j * rng.uniform(0, 6)), b * np.exp(1j * rng.uniform(0, 6))
        for npol in (1, 2):
            shp = (L,) if npol == 1 else (2, L)
            X = rng.normal(size=shp) + 1j * rng.normal(size=shp); Y = rng.normal(size=shp) + 1j * rng.normal(size=shp)
            NX = rng.normal(size=shp) + 1j * rng.normal(size=shp); NY = rng.normal(size=shp) + 1j * rng.normal(size=shp)
            B = lambda s, nn=None: BPF(optical_signal(s, nn), 2 * c * fs, n=n)
            o = B(ac * X + bc * Y, ac * NX + bc * NY); ox = B(X, NX); oy = B(Y, NY)
            if relerr(o.signal, ac * ox.signal + bc * oy.signal) > 1e-9 or relerr(o.noise, ac * ox.noise + bc * oy.noise) > 1e-9:
                fail("A-linear-BPF", d + f" npol={npol}", "mismatch")
    except Exception as e:
        fail("A-linear", d, f"raised {type(e).__name__}: {e}")

# ---------------------------------------------------------------- B/C: signal vs noise, polarisations: identical and independent (exact)
for trial in range(48):
    fs = FSS[trial % len(FSS)]; set_fs(fs)
    n = ORDERS[trial % 8]; c = CUTS[(trial // 2) % len(CUTS)]
    L = int(rng.choice([28, 31, 100, 1025]))
    d = f"fs={fs} n={n} cut={c} L={L}"
    try:
        x, nz, nz2 = rng.normal(size=(3, L))
        o = LPF(electrical_signal(x, nz), c * fs, n=n, fs=fs)
        if not np.array_equal(o.signal, LPF(x, c * fs, n=n, fs=fs).signal): fail("B-sig/noise-LPF", d, "signal depends on noise presence")
        if not np.array_equal(o.noise, LPF(nz, c * fs, n=n, fs=fs).signal): fail("B-sig/noise-LPF", d, "noise filtered differently from signal")
        if not np.array_equal(o.signal, LPF(electrical_signal(x, nz2), c * fs, n=n, fs=fs).signal): fail("B-sig/noise-LPF", d, "signal depends on noise")
        if not np.array_equal(LPF(electrical_signal(x, x), c * fs, n=n, fs=fs).noise, o.signal): fail("B-sig/noise-LPF", d, "noise==signal not filtered identically")
        # complex noise with real signal (signal promoted to complex by the container)
        oc = LPF(electrical_signal(x, nz + 0j), c * fs, n=n, fs=fs)
        if relerr(oc.signal, o.signal) > 1e-12 or relerr(oc.noise, o.noise) > 1e-12: fail("B-sig/noise-LPF", d, "complex-typed container differs")
        X = rng.normal(size=(2, L)) + 1j * rng.normal(size=(2, L)); N = rng.normal(size=(2, L)) + 1j * rng.normal(size=(2, L))
        o2 = BPF(optical_signal(X, N), 2 * c * fs, n=n)
        for p in (0, 1):
            o1 = BPF(optical_signal(X[p], N[p]), 2 * c * fs, n=n)
            if o1.n_pol != 1: fail("C-pol-BPF", d, "n_pol")
            if not (np.array_equal(o2.signal[p], o1.signal) and np.array_equal(o2.noise[p], o1.noise)): fail("C-pol-BPF", d + f" pol{p}", relerr(o2.signal[p], o1.signal))
            if not np.array_equal(BPF(optical_signal(X[p]), 2 * c * fs, n=n).signal, o1.signal): fail("B-sig/noise-BPF", d, "signal depends on noise presence")
            if not np.array_equal(BPF(optical_signal(N[p]), 2 * c * fs, n=n).signal, o1.noise): fail("B-sig/noise-BPF", d, "noise filtered differently")
        # one polarisation empty stays empty, the other unaffected
        Z = X.copy(); Z[1] = 0
        oz = BPF(optical_signal(Z, N), 2 * c * fs, n=n)
        if np.any(oz.signal[1] != 0) or not np.array_equal(oz.signal[0], o2.signal[0]) or not np.array_equal(oz.noise, o2.noise): fail("C-pol-BPF", d, "cross-talk between polarisations")
        # swap polarisations
        os_ = BPF(optical_signal(X[::-1], N[::-1]), 2 * c * fs, n=n)
        if not np.array_equal(os_.signal, o2.signal[::-1]): fail("C-pol-BPF", d, "swap")
        # real and imaginary parts independent (linear over C)
        orr = BPF(optical_signal(X.real + 0j), 2 * c * fs, n=n).signal; oi = BPF(optical_signal(X.imag + 0j), 2 * c * fs, n=n).signal
        if relerr(orr + 1j * oi, o2.signal) > 1e-12 or np.abs(orr.imag).max() != 0: fail("A-linear-BPF", d, "re/im parts")
    except Exception as e:
        fail("B/C", d, f"raised {type(e).__name__}: {e}")

# ---------------------------------------------------------------- D: constant passes unchanged
for fs in FSS:
    set_fs(fs)
    for n in ORDERS:
        for c in CUTS:
            for L in (28, 29, 100, 2001):
                for k in (1.0, -3.5e-9, 7e11, 0.0):
                    d = f"fs={fs} n={n} cut={c} L={L} const={k}"
                    try:
                        y = LPF(np.full(L, k), c * fs, n=n, fs=fs).signal
                        if relerr(y, np.full(L, k)) > 1e-9 and not (k == 0 and np.all(y == 0)): fail("D-const-LPF", d, relerr(y, np.full(L, k)))
                        if L == 100:
                            o = LPF(electrical_signal(np.full(L, k), np.full(L, 2 * k)), c * fs, n=n)  # gv.fs path
                            if k and (relerr(o.signal, np.full(L, k)) > 1e-9 or relerr(o.noise, np.full(L, 2 * k)) > 1e-9): fail("D-const-LPF", d + " container", "changed")
                            kk = np.array([[k * (1 + 2j)], [k * (-0.5j)]]) * np.ones((2, L))
                            o = BPF(optical_signal(kk, kk[::-1]), 2 * c * fs, n=n)
                            if k and (relerr(o.signal, kk) > 1e-9 or relerr(o.noise, kk[::-1]) > 1e-9): fail("D-const-BPF", d, "changed")
                            o = BPF(optical_signal(kk[0]), 2 * c * fs, n=n)
                            if k and relerr(o.signal, kk[0]) > 1e-9: fail("D-const-BPF", d + " 1pol", "changed")
                    except Exception as e:
                        fail("D-const", d, f"raised {type(e).__name__}: {e}")

# ---------------------------------------------------------------- F/G/H: tone gain: <= 1, -6.0 dB at cutoff, monotone in frequency
def tone_gain(filt, f, fs, L, cplx):
    t = np.arange(L) / fs
    x = np.exp(2j * np.pi * f * t + 0.3j) if cplx else np.cos(2 * np.pi * f * t + 0.3)
    y = filt(x)
    m = slice(L // 3, L - L // 3)
    # least-squares projection on the tone (interior only)
    if cplx:
        g = np.vdot(x[m], y[m]) / np.vdot(x[m], x[m])
        res = np.abs(y[m] - g * x[m]).max()
        return np.abs(g), np.angle(g), res, np.mean(np.abs(y) ** 2) / np.mean(np.abs(x) ** 2)
    q = np.sin(2 * np.pi * f * t + 0.3)
    A = np.array([x[m], q[m]]).T
    coef, *_ = np.linalg.lstsq(A, y[m], rcond=None)
    res = np.abs(y[m] - A @ coef).max()
    return np.hypot(*coef), np.arctan2(coef[1], coef[0]), res, np.mean(y ** 2) / np.mean(x ** 2)


L = 30000
for fs in (16e9, 1.0, 7.5e14):
    set_fs(fs)
    for n in ORDERS:
        for c in CUTS:
            d = f"fs={fs} n={n} cut={c}fs"
            try:
                lp = lambda x: LPF(x, c * fs, n=n, fs=fs).signal
                g, ph, res, pw = tone_gain(lp, c * fs, fs, L, False)
                if abs(20 * np.log10(g) + 6.0) > 0.05: fail("G-6dB-LPF", d, f"{20*np.log10(g):.4f} dB")
                if abs(ph) > 1e-6 or res > 1e-6: fail("I-zero-phase-LPF", d, f"phase {ph:.2e} residual {res:.2e}")
                for npol in (1, 2):
                    for sgn in (+1, -1):
                        def bp(x):
                            s = x if npol == 1 else np.array([0.5 * x, 2j * x])
                            o = BPF(optical_signal(s, 3 * s), 2 * c * fs, n=n)
                            bp.noise = o.noise
                            return o.signal if npol == 1 else o.signal[1] / 2j
                        g, ph, res, pw = tone_gain(bp, sgn * c * fs, fs, L, True)
                        if abs(20 * np.log10(g) + 6.0) > 0.05: fail("G-6dB-BPF", d + f" npol={npol} side={sgn}", f"{20*np.log10(g):.4f} dB")
                        if abs(ph) > 1e-6 or res > 1e-6: fail("I-zero-phase-BPF", d, f"phase {ph:.2e} residual {res:.2e}")
                        if pw > 1 + 1e-9: fail("F-power-BPF", d, pw)
                # monotone + power, a frequency sweep (fewer combos)
                if fs == 16e9 or (n in (1, 4, 8) and c in (0.0101, 0.1, 0.4499)):
                    fr = np.unique(np.concatenate([np.linspace(0.002, 0.4999, 40), c * np.array([0.5, 0.99, 1.0, 1.01, 2])]))
                    fr = fr[fr < 0.5]
                    gl = []; gb = []
                    for f in fr:
                        g, ph, res, pw = tone_gain(lp, f * fs, fs, 8000, False)
                        gl.append(g)
                        if g > 1 + 1e-9 or (pw > 1 + 1e-9): fail("F-power-LPF", d + f" f={f}fs", f"gain {g} power ratio {pw}")
                        g, ph, res, pw = tone_gain(lambda x: BPF(optical_signal(x), 2 * c * fs, n=n).signal, -f * fs, fs, 8000, True)
                        gb.append(g)
                        if g > 1 + 1e-9 or pw > 1 + 1e-9: fail("F-power-BPF", d + f" f=-{f}fs", f"gain {g} power ratio {pw}")
                    gl = np.array(gl); gb = np.array(gb)
                    for nm, gg in (("LPF", gl), ("BPF", gb)):
                        bad = np.where(np.diff(gg) > 1e-9 * np.maximum(gg[:-1], 1e-6) + 1e-12)[0]
                        if bad.size: fail(f"H-monotone-{nm}", d, f"gain rises between f={fr[bad[0]]}fs and {fr[bad[0]+1]}fs: {gg[bad[0]]} -> {gg[bad[0]+1]}")
                    # exactly Nyquist tone
                    xN = np.cos(np.pi * np.arange(8000))
                    if np.abs(lp(xN)[2000:6000]).max() > 1e-6: fail("H-monotone-LPF", d, "Nyquist tone not rejected")
            except Exception as e:
                fail("F/G/H", d, f"raised {type(e).__name__}: {e}")

# ---------------------------------------------------------------- I: symmetric pulse -> symmetric response about the same instant
for fs in (16e9, 1.0):
    set_fs(fs)
    for n in ORDERS:
        for c in CUTS:
            for L, k0 in ((8001, 4000), (8000, 4000), (8000, 3999.5)):
                d = f"fs={fs} n={n} cut={c} L={L} centre={k0}"
                try:
                    k = np.arange(L)
                    for w in (0, 3, 40):  # impulse / rect / gaussian
                        if w == 0:
                            if k0 != int(k0): continue
                            x = np.zeros(L); x[int(k0)] = 1.0
                        elif w == 3:
                            x = (np.abs(k - k0) <= 3.5).astype(float)
                        else:
                            x = np.exp(-0.5 * ((k - k0) / w) ** 2)
                        y = LPF(x, c * fs, n=n, fs=fs).signal
                        h = int(min(k0, L - 1 - k0)) - 500
                        i = np.arange(1, h)
                        lo = np.floor(k0 - i + 0.01).astype(int) if k0 != int(k0) else (int(k0) - i)
                        hi = np.ceil(k0 + i - 0.01).astype(int) if k0 != int(k0) else (int(k0) + i)
                        asym = np.abs(y[lo] - y[hi]).max() / np.abs(y).max()
                        pk = np.argmax(y)
                        if asym > 1e-8: fail("I-symmetric-LPF", d + f" pulse={w}", f"asymmetry {asym:.2e}")
                        if w != 3 and abs(pk - k0) > 0.5: fail("I-symmetric-LPF", d + f" pulse={w}", f"peak at {pk}")
                        z = BPF(optical_signal(np.array([x * (1 + 1j), x[::-1] * 1j])), 2 * c * fs, n=n).signal
                        a0 = np.abs(z[0][lo] - z[0][hi]).max() / np.abs(z[0]).max()
                        if a0 > 1e-8 or (w != 3 and abs(np.argmax(np.abs(z[0])) - k0) > 0.5): fail("I-symmetric-BPF", d + f" pulse={w}", f"asymmetry {a0:.2e}")
                except Exception as e:
                    fail("I-symmetric", d, f"raised {type(e).__name__}: {e}")

# ---------------------------------------------------------------- J: retH = single-pass prototype on the same grid
for fs in FSS:
    set_fs(fs)
    for n in ORDERS:
        for c in (0.0101, 0.1, 0.4499):
            for L in (17, 28, 29, 64, 1001, 4096):
                d = f"fs={fs} n={n} cut={c} L={L}"
                if L <= 3 * (2 * ((n + 1) // 2) + 1):  # shorter than scipy's default pad: reported by clause E already
                    continue
                try:
                    x = rng.normal(size=L)
                    for inp in (x, electrical_signal(x), electrical_signal(x, x[::-1])):
                        r = LPF(inp, c * fs, n=n, fs=fs, retH=True)
                        if not (isinstance(r, tuple) and len(r) == 2): fail("J-retH", d, "not (output, H)"); continue
                        o, H = r
                        if H.shape != (L,): fail("J-retH", d, f"H shape {H.shape}"); continue
                        if not np.array_equal(o.signal, LPF(x, c * fs, n=n, fs=fs).signal): fail("J-retH", d, "output differs with retH")
                        f = fftshift(fftfreq(L, 1 / fs))
                        sos = sg.bessel(n, c * fs, "low", fs=fs, output="sos", norm="mag")
                        _, Href = sg.sosfreqz(sos, worN=2 * np.pi * f / fs)
                        if relerr(H, Href) > 1e-9: fail("J-retH", d, f"differs from prototype on fftshift(fftfreq) grid by {relerr(H, Href):.2e}")
                        i0 = np.argmin(np.abs(f))
                        if abs(H[i0] - 1) > 1e-9: fail("J-retH", d, f"H(0)={H[i0]}")
                        # -3 dB single pass at cutoff (interpolate: grid needn't hit BW)
                        if L >= 1001:
                            gi = np.interp(c * fs, f, np.abs(H))
                            if abs(20 * np.log10(gi) + 3.0) > 0.05: fail("J-retH", d, f"|H(BW)|={20*np.log10(gi):.3f} dB")
                        if np.any(np.diff(np.abs(H[i0:])) > 1e-12) or np.any(np.diff(np.abs(H[:i0 + 1])) < -1e-12): fail("J-retH", d, "|H| not monotone")
                    # steady-state check on a periodic input: two-pass output spectrum = |H|^2 * input spectrum (interior, long record)
                    if L == 4096:
                        kbin = 37
                        xt = np.cos(2 * np.pi * kbin * np.arange(L) / L)
                        o, H = LPF(xt, c * fs, n=n, fs=fs, retH=True)
                        g = tone_gain(lambda s: LPF(s, c * fs, n=n, fs=fs).signal, kbin * fs / L, fs, L, False)[0]
                        Hs = np.fft.ifftshift(H)
                        if c > 0.05 and abs(g - np.abs(Hs[kbin]) ** 2) > 1e-6: fail("J-retH", d, f"measured gain {g} vs |H|^2 {np.abs(Hs[kbin])**2}")
                except Exception as e:
                    fail("J-retH", d, f"raised {type(e).__name__}: {e}")

# ---------------------------------------------------------------- K: input types, argument types, repeatability, no mutation
set_fs(16e9)
fs = gv.fs
for n in ORDERS:
    for L in (28, 29, 500):
        d = f"n={n} L={L}"
        try:
            base = np.round(rng.normal(size=L) * 20) + 40  # integer-valued, 0..~120
            base = np.clip(base, 0, 120)
            ref = LPF(base.astype(float), 0.1 * fs, n=n).signal
            if ref.dtype != np.float64: fail("K-types", d, f"dtype {ref.dtype}")
            bits01 = ((np.arange(L) // 4) % 2).astype(float)  # 0/1 waveform, 4 samples per bit, starts at 0
            refb = LPF(bits01, 0.1 * fs, n=n).signal
            for dt in (np.float32, np.int64, np.int32, np.int16, np.int8, np.uint8, np.uint16, np.uint32, np.uint64, np.float16, np.longdouble):
                y = call("K-dtype", d + f" dtype={np.dtype(dt).name}", LPF, base.astype(dt), 0.1 * fs, n=n)
                if y is not None and relerr(y.signal, ref) > 1e-6:
                    fail("K-dtype", d + f" ndarray dtype={np.dtype(dt).name} (same values as float64 input)", f"output differs by {np.abs(y.signal-ref).max():.3g} (rel {relerr(y.signal, ref):.2e})")
                y = call("K-dtype", d + f" 0/1 waveform dtype={np.dtype(dt).name}", LPF, bits01.astype(dt), 0.1 * fs, n=n)
                if y is not None and relerr(y.signal, refb) > 1e-6:
                    fail("K-dtype", d + f" 0/1 waveform ndarray dtype={np.dtype(dt).name} (same values as float64 input)", f"output differs by {np.abs(y.signal-refb).max():.3g}")
                y = call("K-dtype", d + f" container dtype={np.dtype(dt).name}", LPF, electrical_signal(base.astype(dt), base.astype(dt)), 0.1 * fs, n=n)
                if y is not None and (relerr(y.signal, ref) > 1e-6 or relerr(y.noise, ref) > 1e-6):
                    fail("K-dtype", d + f" electrical_signal dtype={np.dtype(dt).name}", f"output differs by {np.abs(y.signal-ref).max():.3g}")
            for dt in (np.complex64, np.complex128):
                zr = BPF(optical_signal(base + 0j), 0.2 * fs, n=n).signal
                y = call("K-dtype", d + f" BPF {dt}", BPF, optical_signal(base.astype(dt)), 0.2 * fs, n=n)
                if y is not None and relerr(y.signal, zr) > 1e-6: fail("K-dtype", d + f" BPF {dt}", relerr(y.signal, zr))
            # argument flavours
            x = rng.normal(size=L); xc = x.copy()
            es = electrical_signal(x, x[::-1].copy())
            r0 = LPF(x, 0.1 * fs, n=n).signal
            for bw, nn, ff in ((np.float64(0.1 * fs), np.int64(n), None), (int(0.1 * fs), n, int(fs)), (np.float32(0.1 * fs), np.int32(n), np.float64(fs)),
                               (0.1 * fs, n, fs), (np.array(0.1 * fs), n, np.array(fs))):
                y = call("K-args", d + f" BW={type(bw).__name__} n={type(nn).__name__} fs={type(ff).__name__}", LPF, x, bw, n=nn, fs=ff)
                if y is not None and relerr(y.signal, r0) > 1e-6: fail("K-args", d + f" BW={type(bw).__name__}", relerr(y.signal, r0))
            r1 = LPF(es, 0.1 * fs, n=n); r2 = LPF(es, 0.1 * fs, n=n)
            if not (np.array_equal(r1.signal, r2.signal) and np.array_equal(r1.noise, r2.noise) and np.array_equal(r1.signal, r0)): fail("K-repeat", d, "repeat call differs")
            if not (np.array_equal(x, xc) and np.array_equal(es.signal, xc) and np.array_equal(es.noise, xc[::-1])): fail("K-mutation", d, "input mutated")
            if r1.signal is es.signal or np.shares_memory(r1.signal, es.signal): fail("K-mutation", d, "aliasing")
            # non-contiguous / reversed views
            v = np.concatenate([x, x])[::2][:L] if False else x[::-1]
            if relerr(LPF(v, 0.1 * fs, n=n).signal, LPF(v.copy(), 0.1 * fs, n=n).signal) > 0: fail("K-types", d, "view vs copy")
            X = rng.normal(size=(2, L)) + 1j * rng.normal(size=(2, L)); Xc = X.copy()
            osg = optical_signal(X, X[::-1].copy())
            b1 = BPF(osg, 0.2 * fs, n=n); b2 = BPF(osg, np.float64(0.2 * fs), n=np.int64(n)); b3 = BPF(osg, int(0.2 * fs), n=n)
            if not (np.array_equal(b1.signal, b2.signal) and relerr(b3.signal, b1.signal) < 1e-6): fail("K-args", d, "BPF arg flavours")
            if not (np.array_equal(osg.signal, Xc) and np.array_equal(osg.noise, Xc[::-1])): fail("K-mutation", d, "BPF input mutated")
            # F-ordered / transposed 2-pol storage
            Xf = np.asfortranarray(X)
            if not np.array_equal(BPF(optical_signal(Xf), 0.2 * fs, n=n).signal, BPF(optical_signal(X), 0.2 * fs, n=n).signal): fail("K-types", d, "fortran order")
            # (1,L) input with n_pol=1 and the default (duplicated on two pols)
            o = BPF(optical_signal(X[:1], n_pol=1), 0.2 * fs, n=n)
            if o.signal.shape != (L,) or not np.array_equal(o.signal, b1.signal[0]): fail("K-types", d, "(1,L) n_pol=1")
            o = BPF(optical_signal(X[0], n_pol=2), 0.2 * fs, n=n)
            if o.signal.shape != (2, L) or not (np.array_equal(o.signal[0], b1.signal[0]) and np.array_equal(o.signal[1], b1.signal[0])): fail("K-types", d, "n_pol=2 duplicate")
        except Exception as e:
            fail("K", d, f"raised {type(e).__name__}: {e}")

# gv.fs default path vs explicit fs, after changing gv
for fs in FSS:
    set_fs(fs)
    x = rng.normal(size=200)
    try:
        if not np.array_equal(LPF(x, 0.1 * fs).signal, LPF(x, 0.1 * fs, fs=fs).signal): fail("K-fs", f"fs={fs}", "gv.fs path differs from explicit fs")
        set_fs(123.0)
        if not np.array_equal(LPF(x, 0.1 * fs, fs=fs).signal, sg.sosfiltfilt(sg.bessel(4, 0.1, "low", fs=1, output="sos", norm="mag"), x)) and \
           relerr(LPF(x, 0.1 * fs, fs=fs).signal, sg.sosfiltfilt(sg.bessel(4, 0.1, "low", fs=1, output="sos", norm="mag"), x)) > 1e-9:
            fail("K-fs", f"fs={fs}", "explicit fs not honoured")
    except Exception as e:
        fail("K-fs", f"fs={fs}", f"raised {type(e).__name__}: {e}")

if FAILS:
    print("FAILED clauses:", {k: v for k, v in SEEN.items()})
    sys.exit(1)
print("PASS")
sys.exit(0)
