# C11: "for all ... inputs longer than the 16-sample edge padding ... filter orders 1..8" LPF/BPF "preserve length".
# A 20-sample input (longer than 16) with order n=6, 7 or 8 (n=5: lengths 17, 18) is rejected instead of filtered.
import sys
del sys.path[0]
import numpy as np
from opticomlib import gv, optical_signal
from opticomlib.devices import LPF, BPF
x = np.cos(2 * np.pi * 0.05 * np.arange(20))
bad = 0
for name, f in (("LPF", lambda n: LPF(x, 0.2 * gv.fs, n=n).signal), ("BPF", lambda n: BPF(optical_signal(x + 0j), 0.4 * gv.fs, n=n).signal)):
    for n in range(1, 9):
        try:
            got = f"output of length {f(n).shape[-1]}"
        except Exception as e:
            got = f"{type(e).__name__}: {e}"; bad += 1
        print(f"{name} n={n} len(x)=20: expected output of length 20, got {got}")
sys.exit(1 if bad else 0)
