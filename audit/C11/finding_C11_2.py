# C11: "for all real (LPF) ... inputs ... ndarray and container inputs": LPF is linear, F(a*x+b*y) = a*F(x)+b*F(y).
# With a = 1.0, b = 0 and x a 0/1 waveform stored as uint8 (the dtype of binary_sequence.data):
# F(1.0*x) != 1.0*F(x): the unsigned array wraps around inside the edge extension (0 - 1 -> 255).
import sys
del sys.path[0]
import numpy as np
from opticomlib import gv, electrical_signal
from opticomlib.devices import LPF
x = np.repeat(np.array([0, 1, 1, 0, 1, 0, 0, 1], dtype=np.uint8), 8)   # 64 samples, real, starts at 0
ref = LPF(1.0 * x, 0.1 * gv.fs).signal            # F(a*x), a = 1.0
out = 1.0 * LPF(x, 0.1 * gv.fs).signal            # a*F(x)
outc = LPF(electrical_signal(x), 0.1 * gv.fs).signal
err = max(np.abs(out - ref).max(), np.abs(outc - ref).max())
print("expected (float copy of the same samples) first 6:", np.round(ref[:6], 4))
print("got      (uint8 ndarray)                  first 6:", np.round(out[:6], 4))
print("max |difference| =", err, "(expected 0)")
sys.exit(1 if err > 1e-9 else 0)
