"""Audit of property C12 (PPM encode/decode bijection, HDD/SDD emit valid codewords)."""
import sys
del sys.path[0]

import itertools
import warnings
from collections import Counter

import numpy as np

warnings.simplefilter("ignore")

from opticomlib.ppm import PPM_ENCODER, PPM_DECODER, HDD, SDD
from opticomlib.devices import DAC
from opticomlib.typing import gv, binary_sequence, electrical_signal

ORDERS = [2, 4, 8, 16, 32, 64, 128, 256]
MAX_LINES_PER_CLAUSE = 8
counts = Counter()


def viol(clause, inp, detail=""):
    counts[clause] += 1
    if counts[clause] <= MAX_LINES_PER_CLAUSE:
        print(f"VIOLATION [{clause}] input={inp} {detail}")
    elif counts[clause] == MAX_LINES_PER_CLAUSE + 1:
        print(f"VIOLATION [{clause}] ... further lines suppressed")


def call(f, *a, **k):
    """returns (value, None) or (None, exception)"""
    try:
        return f(*a, **k), None
    except Exception as e:  # noqa
        return None, e


def containers(bits):
    """every accepted container type for a 0/1 sequence given as list of ints"""
    arr = np.array(bits, dtype=int)
    out = {
        "list": list(int(v) for v in bits),
        "tuple": tuple(int(v) for v in bits),
        "list_bool": [bool(v) for v in bits],
        "nd_int": arr.copy(),
        "nd_bool": arr.astype(bool),
        "nd_u8": arr.astype(np.uint8),
        "nd_float": arr.astype(float),
    }
    if len(bits) > 0:  # '' is not a valid string anywhere in the library (str2array)
        s = "".join(str(int(v)) for v in bits)
        out["str"] = s
        out["str_spaced"] = " ".join(s)
        out["str_commas"] = ",".join(s)
        out["binary_sequence"] = binary_sequence(arr.copy())
    return out


def ref_encode(bits, M):
    k = M.bit_length() - 1
    n = len(bits) // k
    out = np.zeros(n * M, dtype=int)
    for i in range(n):
        v = 0
        for b in bits[i * k:(i + 1) * k]:
            v = 2 * v + int(b)
        out[i * M + v] = 1
    return out


def as_int_array(seq):
    if not isinstance(seq, binary_sequence):
        return None
    return np.asarray(seq.data).astype(int)


# ----------------------------------------------------------------------------------
# Clause E1/E2/D1: encoder one ON slot per block at big-endian position; decoder inverts
# exhaustively for every bit string of length <= 12 and every order
# ----------------------------------------------------------------------------------
def check_encdec(bits, M, kinds=("str",)):
    k = M.bit_length() - 1
    ref = ref_encode(bits, M)
    trunc = np.array(bits[: len(bits) // k * k], dtype=int)
    cont = containers(bits)
    for kind in kinds:
        if kind not in cont:
            continue
        inp = cont[kind]
        before = np.array(inp, copy=True) if isinstance(inp, np.ndarray) else None
        enc, e = call(PPM_ENCODER, inp, M)
        tag = f"M={M} bits={''.join(map(str, bits)) if len(bits) <= 24 else 'len%d' % len(bits)} kind={kind}"
        if e is not None:
            viol("E0 encoder accepts input", tag, f"raised {type(e).__name__}: {e}")
            continue
        ed = as_int_array(enc)
        if ed is None:
            viol("E0 encoder returns binary_sequence", tag, f"got {type(enc)}")
            continue
        if ed.size != ref.size:
            viol("E1 encoder length = nsym*M", tag, f"len {ed.size} expected {ref.size}")
            continue
        if ed.size and not np.all(ed.reshape(-1, M).sum(1) == 1):
            viol("E1 exactly one ON slot per block", tag, f"got {ed}")
        if not np.array_equal(ed, ref):
            viol("E2 ON slot at big-endian value", tag, f"got {ed} expected {ref}")
        if before is not None and not np.array_equal(before, inp):
            viol("E3 encoder does not mutate its input", tag)
        # decoder on encoder output object
        dec, e = call(PPM_DECODER, enc, M)
        if e is not None:
            viol("D1 decoder(encoder(b)) = truncated b", tag, f"raised {type(e).__name__}: {e}")
        else:
            dd = as_int_array(dec)
            if dd is None or not np.array_equal(dd, trunc):
                viol("D1 decoder(encoder(b)) = truncated b", tag, f"got {dd} expected {trunc}")


for L in range(0, 13):
    for bits in itertools.product((0, 1), repeat=L):
        for M in ORDERS:
            check_encdec(list(bits), M, kinds=("str",) if L > 0 else ("list",))

# all containers: exhaustive up to length 7, all orders, plus corners 8..12
ALLK = ("list", "tuple", "list_bool", "nd_int", "nd_bool", "nd_u8", "nd_float", "str", "str_spaced",
        "str_commas", "binary_sequence")
for L in range(0, 8):
    for bits in itertools.product((0, 1), repeat=L):
        for M in ORDERS:
            check_encdec(list(bits), M, kinds=ALLK)
rng = np.random.default_rng(12)
for L in range(8, 13):
    pats = [[0] * L, [1] * L, [1] + [0] * (L - 1), [0] * (L - 1) + [1]] + [list(rng.integers(0, 2, L)) for _ in range(20)]
    for bits in pats:
        for M in ORDERS:
            check_encdec([int(b) for b in bits], M, kinds=ALLK)

# long random sequences, lengths not multiples of k, all containers
for M in ORDERS:
    k = M.bit_length() - 1
    for L in (k * 1000, k * 1000 + 1, k * 1000 + k - 1, 12345, 99999):
        bits = [int(b) for b in rng.integers(0, 2, L)]
        check_encdec(bits, M, kinds=ALLK if L < 20000 else ("nd_int", "binary_sequence", "str"))
    # every symbol value once, in order and reversed (first and last slot)
    allsym = []
    for v in list(range(M)) + list(range(M - 1, -1, -1)):
        allsym += [int(c) for c in format(v, f"0{k}b")]
    check_encdec(allsym, M, kinds=ALLK)

# decoder: all container types of a codeword give the same bits; numpy-integer M
for M in ORDERS:
    k = M.bit_length() - 1
    bits = [int(b) for b in rng.integers(0, 2, k * 37)]
    ref = ref_encode(bits, M)
    for kind, inp in containers(list(ref)).items():
        dec, e = call(PPM_DECODER, inp, M)
        dd = None if e is not None else as_int_array(dec)
        if dd is None or not np.array_equal(dd, np.array(bits)):
            viol("D2 decoder same result for all containers", f"M={M} kind={kind}", f"exc={e!r}")
    for Mt in (np.int64(M), np.int32(M), np.uint16(M)):
        enc, e = call(PPM_ENCODER, bits, Mt)
        ed = None if e is not None else as_int_array(enc)
        if ed is None or not np.array_equal(ed, ref):
            viol("E4 encoder with numpy-integer M", f"M={Mt!r}", f"exc={e!r}")
            continue
        dec, e = call(PPM_DECODER, enc, Mt)
        dd = None if e is not None else as_int_array(dec)
        if dd is None or not np.array_equal(dd, np.array(bits)):
            viol("D3 decoder with numpy-integer M", f"M={Mt!r}", f"exc={e!r}")


# ----------------------------------------------------------------------------------
# HDD
# ----------------------------------------------------------------------------------
def check_hdd_output(pat, M, out, tag):
    """pat: int ndarray, out: result of HDD"""
    od = as_int_array(out)
    if od is None:
        viol("H0 HDD returns binary_sequence", tag, f"got {type(out)}")
        return None
    if od.size != pat.size:
        viol("H1 HDD output length", tag, f"{od.size} vs {pat.size}")
        return None
    if pat.size == 0:
        return od
    P = pat.reshape(-1, M)
    O = od.reshape(-1, M)
    s = P.sum(1)
    if not np.all(O.sum(1) == 1):
        viol("H1 exactly one ON slot per symbol", tag, f"got {od}")
    one = s == 1
    if not np.array_equal(O[one], P[one]):
        viol("H2 symbols with one ON slot unchanged", tag, f"got {od}")
    many = s > 1
    if np.any(O[many] & ~P[many].astype(bool)):
        viol("H3 kept slot was ON", tag, f"got {od}")
    return od


# exhaustive: every slot pattern of up to 16 slots, M <= 8
seed_counter = 0
for M in (2, 4, 8):
    for L in range(0, 17):
        if L % M == 0:
            for tup in itertools.product((0, 1), repeat=L):
                pat = np.array(tup, dtype=int)
                seed_counter += 1
                np.random.seed(seed_counter % 100003)
                inp = pat.astype(bool) if seed_counter % 3 else ("".join(map(str, tup)) if L else [])
                out, e = call(HDD, inp, M)
                tag = f"M={M} pattern={''.join(map(str, tup))}"
                if e is not None:
                    viol("H0 HDD accepts whole-symbol input", tag, f"raised {type(e).__name__}: {e}")
                    continue
                check_hdd_output(pat, M, out, tag)
        else:
            # not a whole number of symbols -> ValueError, for a few patterns of that length
            for tup in ((0,) * L, (1,) * L, (1,) + (0,) * (L - 1), tuple(int(v) for v in rng.integers(0, 2, L))):
                for kind, inp in containers(list(tup)).items():
                    out, e = call(HDD, inp, M)
                    if not isinstance(e, ValueError):
                        viol("H5 HDD rejects partial symbols with ValueError", f"M={M} len={L} kind={kind}",
                             f"got {('returned ' + str(as_int_array(out))) if e is None else type(e).__name__ + ': ' + str(e)}")

# all container types give the same result (same seed); all seeds; no mutation
for M in ORDERS:
    for nsym in (1, 2, 5):
        for trial in range(6):
            p_on = (0.0, 1.0, 1.0 / M, 0.5, 0.1, 0.9)[trial]
            pat = (rng.random(nsym * M) < p_on).astype(int)
            cont = containers(list(pat))
            for seed in range(12):
                ref_out = None
                for kind, inp in cont.items():
                    before = inp.copy() if isinstance(inp, np.ndarray) else (inp.data.copy() if isinstance(inp, binary_sequence) else None)
                    np.random.seed(seed)
                    out, e = call(HDD, inp, M)
                    tag = f"M={M} pattern={''.join(map(str, pat)) if pat.size <= 32 else 'len%d' % pat.size} seed={seed} kind={kind}"
                    if e is not None:
                        viol("H0 HDD accepts whole-symbol input", tag, f"raised {type(e).__name__}: {e}")
                        continue
                    od = check_hdd_output(pat, M, out, tag)
                    if od is None:
                        continue
                    if ref_out is None:
                        ref_out = od
                    elif not np.array_equal(ref_out, od):
                        viol("H6 HDD same result for all containers", tag, f"{od} vs {ref_out}")
                    after = inp if isinstance(inp, np.ndarray) else (inp.data if isinstance(inp, binary_sequence) else None)
                    if before is not None and not np.array_equal(before, after):
                        viol("H7 HDD does not mutate its input", tag)

# many seeds on the two extreme patterns (all OFF / all ON), first and last slot reachable and always valid
for M in (2, 4, 8, 256):
    for pat in (np.zeros(2 * M, int), np.ones(2 * M, int)):
        for seed in range(300):
            np.random.seed(seed)
            out, e = call(HDD, pat, M)
            if e is not None:
                viol("H0 HDD accepts whole-symbol input", f"M={M} seed={seed}", repr(e))
                continue
            check_hdd_output(pat, M, out, f"M={M} pattern=all{pat[0]} seed={seed}")

# identity on valid codewords (long random, every container) and HDD∘encoder, decoder∘HDD
for M in ORDERS:
    k = M.bit_length() - 1
    bits = [int(b) for b in rng.integers(0, 2, k * 500)]
    cw = ref_encode(bits, M)
    for kind, inp in containers(list(cw)).items():
        np.random.seed(1)
        out, e = call(HDD, inp, M)
        od = None if e is not None else as_int_array(out)
        if od is None or not np.array_equal(od, cw):
            viol("H4 HDD identity on valid codewords", f"M={M} kind={kind}", f"exc={e!r}")
    out, e = call(HDD, PPM_ENCODER(bits, M), M)
    od = None if e is not None else as_int_array(out)
    if od is None or not np.array_equal(od, cw):
        viol("H4 HDD identity on encoder output", f"M={M}", f"exc={e!r}")
    # noisy long pattern
    pat = (rng.random(1000 * M) < 1.5 / M).astype(int)
    np.random.seed(7)
    out, e = call(HDD, pat, M)
    if e is not None:
        viol("H0 HDD accepts whole-symbol input", f"M={M} long random", repr(e))
    else:
        check_hdd_output(pat, M, out, f"M={M} long random pattern")

# rejection of orders that are not powers of two (HDD and SDD)
gv(sps=4, R=1e9)
BAD_ORDERS = [3, 5, 6, 7, 9, 10, 12, 15, 17, 24, 100, 255, 257, 0, -1, -2, -3, -4, -8]
for Mb in BAD_ORDERS:
    n = abs(Mb) if Mb else 4
    for L in (n, 2 * n, 8, 16, 0):
        out, e = call(HDD, [0] * L, Mb)
        if not isinstance(e, ValueError):
            viol("R1 HDD rejects non-power-of-two order with ValueError", f"M={Mb} len={L}",
                 f"got {('returned ' + str(as_int_array(out))) if e is None else type(e).__name__ + ': ' + str(e)}")
        out, e = call(SDD, np.zeros(L * gv.sps), Mb)
        if not isinstance(e, ValueError):
            viol("R2 SDD rejects non-power-of-two order with ValueError", f"M={Mb} len={L}*sps",
                 f"got {('returned ' + str(as_int_array(out))) if e is None else type(e).__name__ + ': ' + str(e)}")
        out, e = call(SDD, electrical_signal(np.zeros(max(L, 1) * gv.sps)), Mb)
        if not isinstance(e, ValueError):
            viol("R2 SDD rejects non-power-of-two order with ValueError", f"M={Mb} electrical_signal len={max(L,1)}*sps",
                 f"got {('returned ' + str(as_int_array(out))) if e is None else type(e).__name__ + ': ' + str(e)}")


# ----------------------------------------------------------------------------------
# SDD
# ----------------------------------------------------------------------------------
def check_sdd(x_total, M, sps, out, tag, want=None, sub=""):
    od = as_int_array(out)
    if od is None:
        viol("S0 SDD returns binary_sequence", tag, f"got {type(out)}")
        return
    E = np.asarray(x_total).reshape(-1, sps).sum(1).reshape(-1, M)
    if od.size != E.size:
        viol("S1 SDD output length", tag, f"{od.size} vs {E.size}")
        return
    O = od.reshape(-1, M)
    if not np.all(O.sum(1) == 1):
        viol("S1 SDD exactly one ON slot per symbol", tag, f"got {od}")
        return
    chosen = E[np.arange(E.shape[0]), O.argmax(1)]
    if not np.all(chosen == E.max(1)):
        viol("S2 SDD ON slot has the largest integrated energy", tag, f"got {od}")
    if want is not None and not np.array_equal(od, want):
        bad = np.where((O != want.reshape(-1, M)).any(1))[0]
        viol("S3 SDD identity on noiseless waveform" + sub, tag, f"wrong symbols {bad[:5]} of {E.shape[0]}")


SPS_LIST = [1, 2, 3, 4, 5, 7, 8, 15, 16, 17, 32, 33, 64]
for sps in SPS_LIST:
    gv(sps=sps, R=1e9)
    for M in ORDERS:
        k = M.bit_length() - 1
        nsym = 30 if M <= 32 else 6
        # random energies, with and without noise, every container
        x = rng.normal(0, 1, nsym * M * sps)
        nz = rng.normal(0, 1, nsym * M * sps)
        for kind, inp, tot in (("ndarray", x, x), ("list", list(x), x), ("tuple", tuple(x), x),
                               ("esig", electrical_signal(x), x), ("esig+noise", electrical_signal(x, nz), x + nz),
                               ("esig+zero noise", electrical_signal(x, np.zeros_like(x)), x)):
            out, e = call(SDD, inp, M)
            tag = f"M={M} sps={sps} kind={kind} random"
            if e is not None:
                viol("S0 SDD accepts whole-symbol input", tag, f"raised {type(e).__name__}: {e}")
                continue
            check_sdd(tot, M, sps, out, tag)
        # integer-valued input with ties and a single symbol
        xi = rng.integers(0, 3, M * sps)
        out, e = call(SDD, xi, M)
        if e is not None:
            viol("S0 SDD accepts whole-symbol input", f"M={M} sps={sps} integer one symbol", repr(e))
        else:
            check_sdd(xi, M, sps, out, f"M={M} sps={sps} integer one symbol")
        # partial symbols -> ValueError
        for n in (1, sps, M * sps - 1, M * sps + 1, M * sps + sps, (M + 1) * sps, 3 * M * sps - sps):
            if n % (M * sps) == 0:
                continue
            for inp in (np.zeros(n), electrical_signal(np.zeros(n)), electrical_signal(np.zeros(n), np.zeros(n))):
                out, e = call(SDD, inp, M)
                if not isinstance(e, ValueError):
                    viol("S5 SDD rejects partial symbols with ValueError", f"M={M} sps={sps} n={n} {type(inp).__name__}",
                         f"got {('returned ' + str(as_int_array(out))) if e is None else type(e).__name__ + ': ' + str(e)}")
        # identity on valid codewords' noiseless waveforms, every pulse shape
        syms = list(rng.integers(0, M, nsym)) + [0, M - 1, M - 1, 0, 0, 0, M - 1, M - 1, 1 % M, M - 1, 0, M - 2]
        cw = np.zeros(len(syms) * M, dtype=int)
        cw[np.arange(len(syms)) * M + np.array(syms)] = 1
        # the codeword itself, one sample per slot repeated (ideal rectangular waveform built by hand)
        out, e = call(SDD, np.kron(cw, np.ones(sps)), M)
        if e is not None:
            viol("S0 SDD accepts whole-symbol input", f"M={M} sps={sps} kron", repr(e))
        else:
            check_sdd(np.kron(cw, np.ones(sps)), M, sps, out, f"M={M} sps={sps} hand-made rectangular waveform", want=cw)
        shapes = [("nrz", {}), ("rect", {}), ("NRZ", {}), ("rz", {}), ("RZ", {}),
                  ("gaussian", {}), ("GAUSSIAN", {}), ("gaussian", {"m": 2}), ("gaussian", {"m": 4}),
                  ("gaussian", {"T": 1}), ("gaussian", {"T": max(1, sps // 2)}),
                  ("gaussian", {"T": 2 * sps}), ("gaussian", {"T": 2 * sps, "m": 2}), ("gaussian", {"T": 2 * sps - 1})]
        for shape, kw in shapes:
            for extra in ({}, {"Vout": 3.5, "bias": 0.25}):
                tag = f"M={M} sps={sps} DAC(pulse_shape={shape!r}, {dict(kw, **extra)})"
                wf, e = call(DAC, cw, pulse_shape=shape, **kw, **extra)
                if e is not None:
                    # DAC cannot build this waveform (not part of C12): nothing to decode
                    continue
                out, e = call(SDD, wf, M)
                if e is not None:
                    viol("S0 SDD accepts DAC waveform", tag, f"raised {type(e).__name__}: {e}")
                    continue
                check_sdd(wf.signal, M, sps, out, tag, want=cw, sub=f" [{shape.lower()}{', T=2*sps' if kw.get('T') == 2 * sps else ''}{', sps=1' if sps == 1 else ''}]")
gv(sps=16, R=1e9)

# ----------------------------------------------------------------------------------
total = sum(counts.values())
if total:
    print(f"FAIL: {total} violations in {len(counts)} clauses")
    for c, n in counts.items():
        print(f"   {n:6d}  {c}")
    sys.exit(1)
print("PASS")
sys.exit(0)
