# C12: "Orders that are not powers of two ... are rejected by HDD/SDD with ValueError."
# M = 0 is not a power of two, but 0 & (0-1) == 0 passes the guard and the length test divides by zero.
import sys; del sys.path[0]
import numpy as np
from opticomlib.ppm import HDD, SDD
bad = 0
for name, f in (("HDD", lambda: HDD("0000", 0)), ("SDD", lambda: SDD(np.zeros(64), 0))):
    try:
        r = f(); got = f"returned {r.data}"
    except ValueError:
        continue
    except Exception as e:
        got = f"{type(e).__name__}: {e}"
    print(f"{name}(..., M=0): expected ValueError('`M` must be a power of 2.'), got {got}")
    bad = 1
sys.exit(bad)
