# C12: SDD is "the identity ... on their noiseless waveforms" for "all sps and pulse shapes".
# Gaussian pulse of the widest allowed FWHM (T = 2*sps) at a small even sps: the DAC pulse sits half a
# sample late, so the slot AFTER the ON slot integrates more than the ON slot itself.
import sys, warnings; del sys.path[0]
warnings.simplefilter("ignore")
import numpy as np
from opticomlib.ppm import PPM_ENCODER, SDD
from opticomlib.devices import DAC
from opticomlib.typing import gv
gv(sps=2, R=1e9)
cw = PPM_ENCODER("000", 2)                       # 10 10 10
x = DAC(cw, pulse_shape="gaussian", T=2 * gv.sps)  # noiseless waveform of a valid codeword
y = SDD(x, 2)
print("slot energies:", np.round(x.signal.real.reshape(-1, gv.sps).sum(1), 4))
print("expected:", cw.data, " got:", y.data)
sys.exit(0 if np.array_equal(cw.data, y.data) else 1)
