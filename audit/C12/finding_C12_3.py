# C12 (borderline): SDD identity on noiseless waveforms, "all sps and pulse shapes": sps = 1 with 'rz'.
# DAC's RZ mask is rz_pulse[:sps//2] = rz_pulse[:0] -> the whole waveform is 0, SDD always answers slot 0.
import sys, warnings; del sys.path[0]
warnings.simplefilter("ignore")
import numpy as np
from opticomlib.ppm import PPM_ENCODER, SDD
from opticomlib.devices import DAC
from opticomlib.typing import gv
gv(sps=1, R=1e9)
cw = PPM_ENCODER("0110", 4)                      # 0100 0010
x = DAC(cw, pulse_shape="rz")
y = SDD(x, 4)
print("waveform:", x.signal, " expected:", cw.data, " got:", y.data)
sys.exit(0 if np.array_equal(cw.data, y.data) else 1)
