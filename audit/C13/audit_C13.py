"""Audit of property C13 (analytic BER / receiver-noise formulas) for opticomlib.
Prints one line per violated (clause, input); exit 1 if anything is violated, else PASS / exit 0."""
import sys
del sys.path[0]
import warnings, itertools
import numpy as np
from scipy.integrate import quad
from scipy.optimize import minimize_scalar
from scipy.constants import h, c, e, k as kB

warnings.simplefilter('ignore')

import opticomlib.devices as dev
from opticomlib import ook, ppm, utils, gv, optical_signal
from opticomlib.typing import eye
from opticomlib.utils import Q, idb, idbm, dbm

VIOL = {}
TALLY = {}
def bad(clause, inp, msg, cap=6):
    VIOL.setdefault(clause, 0)
    VIOL[clause] += 1
    if VIOL[clause] <= cap:
        print(f'VIOLATION [{clause}] input={inp}: {msg}')
    elif VIOL[clause] == cap + 1:
        print(f'VIOLATION [{clause}] ... further lines suppressed')

def call(clause, inp, f, *a, **k):
    try:
        return f(*a, **k)
    except Exception as ex:
        bad(clause, inp, f'raised {type(ex).__name__}: {ex}')
        return None

REL, ABS = 1e-3, 1e-14          # generous: only gross disagreement is reported
def close(a, b, rel=REL, ab=ABS):
    return np.all(np.abs(np.asarray(a, float) - np.asarray(b, float)) <= rel*np.abs(b) + ab)

# ----------------------------------------------------------------- references
def f_ook(r, mu0, mu1, s0, s1):
    return 0.5*(Q((mu1-r)/s1) + Q((r-mu0)/s0))

def ref_soft_ser(d, s0, s1, M):
    """accurate symbol error probability (complement integrated directly, break points at the step)"""
    x0, w = -d/s1, s0/s1
    pts = sorted(set([x0+k*w for k in (-40, -12, -6, -3, 0, 3, 6, 12, 40)] + [-40.0, 40.0]))
    pts = [p for p in pts if -40 <= p <= 40]
    f = lambda x: -np.expm1((M-1)*np.log1p(-Q((d+s1*x)/s0)))*np.exp(-x*x/2)
    tot = sum(quad(f, a, b, epsabs=0, epsrel=1e-12, limit=200)[0] for a, b in zip(pts[:-1], pts[1:]))
    return tot/np.sqrt(2*np.pi)

def ref_soft(d, s0, s1, M):
    return ref_soft_ser(d, s0, s1, M)*0.5*M/(M-1)

def hard_ser(r, mu0, mu1, s0, s1, M):
    return 1 - Q((r-mu1)/s1)*(1-Q((r-mu0)/s0))**(M-1)

def root_threshold(mu0, mu1, s0, s1, M):
    """root of (M-1) N(r;mu0,s0) = N(r;mu1,s1) between the levels (None if it is not inside)"""
    g = lambda r: (np.log(M-1) - np.log(s0) - 0.5*((r-mu0)/s0)**2) - (-np.log(s1) - 0.5*((r-mu1)/s1)**2)
    if not (g(mu0) > 0 and g(mu1) < 0):
        return None
    a, b = mu0, mu1
    for _ in range(200):
        m = 0.5*(a+b)
        if g(m) > 0: a = m
        else: b = m
    return 0.5*(a+b)

Ms = [2, 4, 8, 16, 32, 64, 128, 256]
rng = np.random.default_rng(13)

# =========================================================== 1. ook.theory_BER
for k in [1e-3, 0.1, 0.5, 1, 2, 3, 5, 7, 10, 12, 15, 19.999, 20]:
    for s in [1e-6, 0.1, 1, 1.0, 37.5, 1e4]:
        mu = k*s
        v = call('ook.theory_BER equal sigma', (mu, s), ook.theory_BER, mu, s, s)
        if v is None: continue
        a, d = mu/(2*s), mu/1998/s
        lo, hi = Q(a), 0.5*(Q(a-d)+Q(a+d))
        if not (lo*(1-1e-9) <= v <= hi*(1+1e-9)):
            bad('ook.theory_BER(mu,s,s)=Q(mu/2s) within grid error', (mu, s), f'got {v}, Q(mu/2s)={lo}, grid bound {hi}')

def check_ook_general(mu, s0, s1):
    v = call('ook.theory_BER general', (mu, s0, s1), ook.theory_BER, mu, s0, s1)
    if v is None: return
    rr = np.linspace(0, mu, 400001)
    ff = f_ook(rr, 0, mu, s0, s1)
    i = ff.argmin(); dr = mu/999
    res = minimize_scalar(lambda r: f_ook(r, 0, mu, s0, s1), bounds=(rr[max(i-1, 0)], rr[min(i+1, rr.size-1)]), method='bounded', options=dict(xatol=1e-14*mu))
    tmin = min(ff[i], float(res.fun))
    up = max(f_ook(np.clip(rr[i]-dr/2, 0, mu), 0, mu, s0, s1), f_ook(np.clip(rr[i]+dr/2, 0, mu), 0, mu, s0, s1))
    if v < tmin*(1-1e-9) - 1e-300:
        bad('ook.theory_BER never below true minimum', (mu, s0, s1), f'got {v} < min {tmin}')
    if v > up*(1+1e-6) + 1e-300:
        bad('ook.theory_BER within 1000-point grid error of minimum', (mu, s0, s1), f'got {v}, min {tmin}, grid bound {up}')
    if not (0 <= v <= 0.5*(1+1e-12)):
        bad('ook.theory_BER bounded by M/(2(M-1))=1 (and by 1/2)', (mu, s0, s1), f'got {v}')

for s0, s1 in itertools.product([1e-3, 0.03, 0.1, 0.5, 1, 2, 10, 1e3], repeat=2):
    for k in [0.01, 0.3, 1, 3, 6, 10, 16, 20]:
        check_ook_general(k*max(s0, s1), s0, s1)
for _ in range(300):
    s0, s1 = 10**rng.uniform(-3, 3, 2)
    check_ook_general(rng.uniform(0, 20)*max(s0, s1) + 1e-9, s0, s1)

# monotone in mu, vectorisation
for s0, s1 in [(1, 1), (0.1, 1), (1, 0.1), (0.01, 1), (3, 2)]:
    mu = np.linspace(1e-3, 20*max(s0, s1), 401)
    v = call('ook.theory_BER vectorise', (s0, s1), ook.theory_BER, mu, s0, s1)
    if v is None: continue
    if np.shape(v) != mu.shape:
        bad('ook.theory_BER vectorises element-wise', (s0, s1), f'shape {np.shape(v)}')
    else:
        sc = np.array([float(ook.theory_BER(m, s0, s1)) for m in mu])
        if not np.array_equal(sc, v): bad('ook.theory_BER vectorises element-wise', (s0, s1), 'array call != scalar calls')
        inc = np.where(v[1:] > v[:-1]*(1+1e-9) + ABS)[0]
        for i in inc[:2]: bad('ook.theory_BER non-increasing in mu', (mu[i], mu[i+1], s0, s1), f'{v[i]} -> {v[i+1]}')
A = rng.uniform(0.5, 5, (2, 3)); B = rng.uniform(0.1, 1, (2, 3)); C = rng.uniform(0.1, 1, (2, 3))
v = call('ook vec', '2x3', ook.theory_BER, A, B, C)
if v is not None and (np.shape(v) != (2, 3) or not all(v[i, j] == ook.theory_BER(A[i, j], B[i, j], C[i, j]) for i in range(2) for j in range(3))):
    bad('ook.theory_BER vectorises element-wise', '2x3 arrays', 'mismatch')
for args in [(1, 1, 1), (np.int64(2), np.float32(0.5), 0.5), ([1, 2, 3], 0.5, [0.5, 0.4, 0.3]), ((1.0, 2.0), (0.5, 0.5), 0.1), (np.array([1.5]), 0.2, 0.2)]:
    v = call('ook.theory_BER container/scalar types', args, ook.theory_BER, *args)
    if v is not None:
        ref = np.vectorize(lambda m, a, b: float(ook.theory_BER(float(m), float(a), float(b))))(*args)
        if np.shape(v) != np.shape(ref) or not close(v, ref, 1e-12, 0):
            bad('ook.theory_BER vectorises element-wise', args, f'{v} vs {ref}')

# =========================================================== 2. ppm.theory_BER
def check_ppm_point(mu, s0, s1, M):
    inp = (mu, s0, s1, M)
    vs = call('ppm.theory_BER soft', inp, ppm.theory_BER, mu, s0, s1, M, 'soft')
    vh = call('ppm.theory_BER hard', inp, ppm.theory_BER, mu, s0, s1, M, 'hard')
    if vs is None or vh is None: return
    vs, vh = float(vs), float(vh)
    bound = M/(2*(M-1))
    for nm, v in (('soft', vs), ('hard', vh)):
        if not (-ABS <= v <= bound*(1+1e-12)) or not np.isfinite(v):
            bad(f'ppm.theory_BER {nm} bounded by M/(2(M-1))', inp, f'got {v}, bound {bound}')
    if M == 2:
        ex = float(Q(mu/np.hypot(s0, s1)))
        if not close(vs, ex):
            bad('ppm.theory_BER soft M=2 equals Q(mu/sqrt(s0^2+s1^2))', inp, f'got {vs}, closed form {ex} (rel err {vs/ex-1:+.2e})')
    else:
        ex = ref_soft(mu, s0, s1, M)
        if not close(vs, ex):
            bad('ppm.theory_BER soft equals the soft-decision integral', inp, f'got {vs}, accurate integral {ex} (rel err {vs/ex-1:+.2e})')
    if vs > vh*(1+1e-9) + ABS:
        bad('ppm.theory_BER soft <= hard', inp, f'soft {vs} > hard {vh}')

for M in Ms:
    for s0, s1 in [(1, 1), (0.1, 1), (1, 0.1), (0.07, 1), (0.3, 1), (1, 0.3), (1e-3, 1), (1, 1e-3), (25.0, 25.0)]:
        for k in [1e-3, 0.5, 1, 2, 4, 5.26, 5.8, 6, 6.2, 7, 8, 9, 10, 12, 16, 20]:
            check_ppm_point(k*max(s0, s1), s0, s1, M)
for _ in range(400):
    M = int(rng.choice(Ms)); s0, s1 = 10**rng.uniform(-2, 2, 2)
    check_ppm_point(rng.uniform(0, 20)*max(s0, s1) + 1e-9, s0, s1, M)

for M in [2, 4, 16, 256]:
    for dec in ('soft', 'hard'):
        for s0, s1 in [(1, 1), (0.07, 1), (0.1, 1), (1, 0.1), (0.3, 1)]:
            mu = np.linspace(0.01, 20*max(s0, s1), 2000)
            v = call('ppm.theory_BER vectorise', (s0, s1, M, dec), ppm.theory_BER, mu, s0, s1, M, dec)
            if v is None: continue
            if np.shape(v) != mu.shape:
                bad('ppm.theory_BER vectorises element-wise', (s0, s1, M, dec), f'shape {np.shape(v)}'); continue
            idx = np.arange(0, mu.size, 97)
            sc = np.array([float(ppm.theory_BER(float(mu[i]), s0, s1, M, dec)) for i in idx])
            if not np.array_equal(sc, v[idx]): bad('ppm.theory_BER vectorises element-wise', (s0, s1, M, dec), 'array call != scalar calls')
            inc = np.where(v[1:] > v[:-1]*(1+1e-9) + ABS)[0]
            for i in inc[:2]:
                bad(f'ppm.theory_BER {dec} non-increasing in mu', (float(mu[i]), float(mu[i+1]), s0, s1, M), f'{v[i]} -> {v[i+1]}')
for dec in ('soft', 'hard'):
    v = call('ppm vec', '2x3', ppm.theory_BER, A, B, C, 4, dec)
    if v is not None and (np.shape(v) != (2, 3) or not all(v[i, j] == ppm.theory_BER(A[i, j], B[i, j], C[i, j], 4, dec) for i in range(2) for j in range(3))):
        bad('ppm.theory_BER vectorises element-wise', ('2x3 arrays', dec), 'mismatch')
    for args in [(1, 1, 1), (np.int64(2), np.float32(0.5), 0.5), ([1, 2, 3], 0.5, [0.5, 0.4, 0.3]), (np.array([1.5]), 0.2, 0.2)]:
        for M in (2, np.int64(8)):
            v = call('ppm.theory_BER container/scalar types', (args, M, dec), ppm.theory_BER, *args, M, dec)
            if v is not None:
                ref = np.vectorize(lambda m, a, b: float(ppm.theory_BER(float(m), float(a), float(b), int(M), dec)))(*args)
                if np.shape(v) != np.shape(ref) or not close(v, ref, 1e-9, 1e-15):
                    bad('ppm.theory_BER vectorises element-wise', (args, M, dec), f'{v} vs {ref}')

# ================================= 3. estimators / THRESHOLD_EST / optimum_threshold
def mk(mu0, mu1, s0, s1): return eye(mu0=mu0, mu1=mu1, s0=s0, s1=s1)

for mu0 in [0.0, 0.3, -1.0, 2.5]:
    for s0, s1 in [(1, 1), (0.5, 0.5), (0.1, 1), (1, 0.1), (0.3, 0.7), (2, 1)]:
        for k in [0.1, 1, 3, 6, 8, 10, 14, 16, 17, 18, 20]:
            d = k*max(s0, s1); mu1 = mu0 + d; E = mk(mu0, mu1, s0, s1); dr = d/999
            inp = (mu0, mu1, s0, s1)
            th = call('ook.THRESHOLD_EST', inp, ook.THRESHOLD_EST, E)
            if th is not None:
                if not (mu0 <= th <= mu1): bad('ook.THRESHOLD_EST in [mu0,mu1]', inp, f'{th}')
                if s0 == s1 and abs(th - 0.5*(mu0+mu1)) > dr*0.5*(1+1e-6) + 1e-12*abs(mu0):
                    bad('ook.THRESHOLD_EST midpoint for equal sigmas', inp, f'got {th}, midpoint {0.5*(mu0+mu1)}, half grid step {dr/2}')
                th0 = ook.THRESHOLD_EST(mk(0.0, d, s0, s1))
                if abs((th-mu0) - th0) > 1.01*dr + 1e-12:
                    bad('ook.THRESHOLD_EST depends only on mu1-mu0', inp, f'{th-mu0} vs {th0}')
            b = call('ook.BER_analizer estimator', inp, ook.BER_analizer, 'estimator', eye_obj=E)
            if b is not None:
                t = float(ook.theory_BER(d, s0, s1))
                if not close(b, t, 1e-6, 1e-300): bad('ook.BER_analizer estimator == ook.theory_BER(mu1-mu0,s0,s1)', inp, f'{b} vs {t}')
            for M in [2, 4, 64, 256]:
                inpM = inp + (M,)
                th = call('ppm.THRESHOLD_EST', inpM, ppm.THRESHOLD_EST, E, M)
                if th is not None:
                    if not (mu0 <= th <= mu1): bad('ppm.THRESHOLD_EST in [mu0,mu1]', inpM, f'{th}')
                    rg = np.linspace(mu0, mu1, 1000)
                    acc = -np.expm1(np.log1p(-Q((mu1-rg)/s1)) + (M-1)*np.log1p(-Q((rg-mu0)/s0)))   # hard-decision SER without cancellation
                    tref = rg[acc.argmin()]
                    if abs(th - tref) > 1.01*dr + 1e-9:
                        TALLY.setdefault('thr', set()).add(k)
                        bad('ppm.THRESHOLD_EST minimises the hard-decision error (to grid error)', inpM, f'got {th}, minimiser {tref} (MAP root {root_threshold(mu0, mu1, s0, s1, M)}), grid step {dr}; error prob at returned threshold {float(-np.expm1(np.log1p(-Q((mu1-th)/s1)) + (M-1)*np.log1p(-Q((th-mu0)/s0)))):.3e} vs {acc.min():.3e}')
                    if M == 2 and s0 == s1 and abs(th - 0.5*(mu0+mu1)) > 1.01*dr:
                        bad('ppm.THRESHOLD_EST midpoint for equal sigmas, M=2', inpM, f'got {th}, midpoint {0.5*(mu0+mu1)}')
                    th0 = ppm.THRESHOLD_EST(mk(0.0, d, s0, s1), M)
                    if abs((th-mu0) - th0) > 2*dr + 1e-9:
                        bad('ppm.THRESHOLD_EST depends only on mu1-mu0', inpM, f'{th-mu0} vs {th0}')
                for dec in ('hard', 'soft'):
                    b = call(f'ppm.BER_analizer estimator {dec}', inpM, ppm.BER_analizer, 'estimator', eye_obj=E, M=M, decision=dec)
                    if b is not None:
                        t = float(ppm.theory_BER(d, s0, s1, M, dec))
                        if not close(b, t, 1e-6, 1e-12): bad(f'ppm.BER_analizer estimator {dec} == ppm.theory_BER(mu1-mu0,...)', inpM, f'{b} vs {t}')

# every spelling of `decision` that BER_analizer's own validation (decision.lower()) accepts
E = mk(0.0, 1.0, 0.1, 0.1)
for dec in ['hard', 'soft', 'Hard', 'HARD', 'Soft', 'SOFT']:
    b = call('ppm.BER_analizer estimator accepts decision spelling', dec, ppm.BER_analizer, 'estimator', eye_obj=E, M=4, decision=dec)
    if b is not None and not close(b, float(ppm.theory_BER(1.0, 0.1, 0.1, 4, dec.lower())), 1e-6, 1e-15):
        bad('ppm.BER_analizer estimator accepts decision spelling', dec, f'{b}')
for mode in ['estimator', 'Estimator', 'ESTIMATOR']:
    call('ppm.BER_analizer mode spelling', mode, ppm.BER_analizer, mode, eye_obj=E, M=4, decision='hard')

# optimum_threshold
def check_opt(mu0, mu1, S0, S1, mod, M, conv=float):
    inp = (mu0, mu1, S0, S1, mod, M, conv.__name__)
    Mi = 2 if mod.lower() == 'ook' else M
    s0, s1 = S0**0.5, S1**0.5
    root = root_threshold(mu0, mu1, s0, s1, Mi)
    if root is None: return      # no solution between the levels: nothing to compare with
    a = [conv(x) for x in (mu0, mu1, S0, S1)]
    th = call('utils.optimum_threshold', inp, utils.optimum_threshold, *a, mod, M)
    if th is None: return
    if not np.isfinite(th):
        bad('utils.optimum_threshold finite', inp, f'got {th}, expected {root}'); return
    if not (mu0 <= th <= mu1): bad('utils.optimum_threshold in [mu0,mu1]', inp, f'{th}')
    if abs(th-root) > 1e-6*(mu1-mu0): bad('utils.optimum_threshold solves (M-1)N0=N1', inp, f'got {th}, root {root}')
    if mod.lower() == 'ook' and S0 == S1 and abs(th-0.5*(mu0+mu1)) > 1e-9*(mu1-mu0):
        bad('utils.optimum_threshold midpoint for equal sigmas (OOK)', inp, f'{th}')
    th0 = utils.optimum_threshold(conv(0.0), conv(mu1-mu0), conv(S0), conv(S1), mod, M)
    if abs((th-mu0)-th0) > 1e-6*(mu1-mu0): bad('utils.optimum_threshold depends only on mu1-mu0', inp, f'{th-mu0} vs {th0}')

for conv in (float, np.float64):
    for mu0 in (0.0, 0.2):
        for S0, S1 in [(1, 1), (0.01, 0.01), (1e-6, 1e-6), (1, 4), (4, 1), (0.01, 1), (1, 0.01), (1, 1+1e-9)]:
            for k in [4, 6, 10, 16, 20]:
                d = k*max(S0, S1)**0.5
                check_opt(mu0, mu0+d, S0, S1, 'ook', None, conv)
                check_opt(mu0, mu0+d, S0, S1, 'OOK', None, conv)
                for M in (2, 4, 256):
                    check_opt(mu0, mu0+d, S0, S1, 'ppm', M, conv)

# ======================================================= 4. receiver model (utils)
def model(P_avg, mod, M, ER, amplify, wavelength, G, NF, BW_opt, r, BW_el, R_L, T, NF_el):
    Mi = 2 if mod.lower() == 'ook' else M
    er = 10**(ER/10) if np.isfinite(ER) else np.inf
    p = 1e-3*10**(P_avg/10)
    p_on = p*Mi/(1+(Mi-1)/er); p_off = p_on/er
    if amplify:
        g = 10**(G/10); pase = 10**(NF/10)*h*(c/wavelength)*(g-1)*BW_opt; l = BW_el/BW_opt
    else:
        g, pase, l = 1.0, 0.0, 1.0
    muA = r*pase*R_L
    mu = np.array([r*g*p_off*R_L + muA, r*g*p_on*R_L + muA])
    S = 4*kB*T*BW_el*R_L*10**(NF_el/10) + 2*e*mu*BW_el*R_L + 2*muA*(mu-muA)*l + muA**2*(1-l/2)*l
    return p_on, p_off, pase, muA, mu, S

def model_ber(mu, S, mod, M, dec):
    s = S**0.5
    if mod.lower() == 'ook':
        return f_ook(np.linspace(mu[0], mu[1], 5000), mu[0], mu[1], s[0], s[1]).min()
    if dec.lower() == 'hard':
        return hard_ser(np.linspace(mu[0], mu[1], 5000), mu[0], mu[1], s[0], s[1], M).min()*M/2/(M-1)
    return ref_soft(mu[1]-mu[0], s[0], s[1], M)

def check_rx(P, mod, M, dec, ER, amplify, G, NF, BW_opt, r, BW_el, R_L, T, NF_el, wl=1550e-9):
    inp = dict(P_avg=P, mod=mod, M=M, dec=dec, ER=ER, amplify=amplify, G=G, NF=NF, BW_opt=BW_opt, r=r, BW_el=BW_el, R_L=R_L, T=T, NF_el=NF_el)
    p_on, p_off, pase, muA, mu, S = model(P, mod, M, ER, amplify, wl, G, NF, BW_opt, r, BW_el, R_L, T, NF_el)
    Mi = 2 if mod.lower() == 'ook' else M
    if abs((p_on + (Mi-1)*p_off)/Mi - idbm(P)) > 1e-12*idbm(P): bad('reference self-check', inp, 'avg power')
    pa = call('utils.p_ase', inp, utils.p_ase, amplify, wl, G, NF, BW_opt)
    if pa is not None and not close(pa, pase, 1e-12, 0): bad('utils.p_ase = nf*h*f0*(g-1)*BW_opt', inp, f'{pa} vs {pase}')
    av = call('utils.average_voltages', inp, utils.average_voltages, P, mod, M, ER, amplify, wl, G, NF, BW_opt, r, R_L)
    if av is not None:
        if not close(av[0], mu, 1e-12, 0) or not close(av[1], muA, 1e-12, 0):
            bad('utils.average_voltages = ON/OFF levels from P_avg, M, ER', inp, f'{av} vs {mu},{muA}')
    nv = call('utils.noise_variances', inp, utils.noise_variances, P, mod, M, ER, amplify, wl, G, NF, BW_opt, r, BW_el, R_L, T, NF_el)
    if nv is not None and not close(nv, S, 1e-12, 0):
        bad('utils.noise_variances = thermal+shot+sig-ASE+ASE-ASE', inp, f'{nv} vs {S}')
    b = call('utils.theory_BER', inp, utils.theory_BER, P, mod, M=M, decision=dec, ER=ER, amplify=amplify, f0=c/wl, G=G, NF=NF, BW_opt=BW_opt, r=r, BW_el=BW_el, R_L=R_L, T=T, NF_el=NF_el)
    if b is None: return
    b = float(b)
    if not np.isfinite(b) or not (-ABS <= b <= Mi/(2*(Mi-1))*(1+1e-12)):
        TALLY.setdefault('nan', set()).add((T, ER, amplify, G if amplify else None, mod.lower(), str(dec).lower()))
        bad('utils.theory_BER is a finite probability <= M/(2(M-1))', inp, f'got {b}'); return
    if np.all(S > 0):
        ref = model_ber(mu, S, mod, M, dec)
        if not close(b, ref, REL if str(dec).lower() == 'soft' else 1e-6, ABS):
            bad(f'utils.theory_BER == error integral on model levels/variances ({mod} {dec})', inp, f'got {b}, reference {ref} (rel err {b/ref-1 if ref else np.inf:+.2e})')

if abs(193.4145e12 - c/1550e-9)/193.4145e12 > 1e-6:
    bad('utils.theory_BER default f0 == c/1550nm (p_ase default wavelength)', '', 'defaults disagree')

mods = [('ook', None, None), ('OOK', None, None), ('ppm', 2, 'hard'), ('ppm', 4, 'hard'), ('ppm', 4, 'soft'), ('ppm', 256, 'soft'), ('PPM', 16, 'Hard'), ('ppm', 64, 'SOFT')]
# systematic corners
for mod, M, dec in mods:
    for P in (-50, -30, 0):
        for ER in (3, 20, np.inf):
            for T in (0, 300, 400):
                for R_L in (10, 50, 1e4):
                    check_rx(P, mod, M, dec, ER, False, None, None, None, 1.0, 5e9, R_L, T, 0)
            for (G, NF) in [(0, 3), (0, 10), (40, 3), (40, 10), (20, 5)]:
                for T in (0, 300):
                    for r in (1e-3, 1.0):
                        check_rx(P, mod, M, dec, ER, True, G, NF, 50e9, r, 5e9, 50, T, 0)
                        check_rx(P, mod, M, dec, ER, True, G, NF, 5e9*(1+1e-9), r, 5e9, 50, T, 7)
# random
for _ in range(400):
    mod, M, dec = mods[rng.integers(len(mods))]
    BW_el = 10**rng.uniform(8, 10.5)
    check_rx(rng.uniform(-50, 0), mod, M, dec, rng.choice([np.inf, rng.uniform(3, 40)]), bool(rng.integers(2)), rng.uniform(0, 40), rng.uniform(3, 10),
             BW_el*rng.uniform(1.01, 50), rng.uniform(1e-3, 1), BW_el, 10**rng.uniform(1, 4), rng.uniform(0, 400), rng.uniform(0, 10))

# monotone in P_avg + vectorisation
Pg = np.linspace(-50, 0, 401)
cfgs = [dict(), dict(ER=10), dict(amplify=True, G=30, NF=5, BW_opt=50e9), dict(amplify=True, G=40, NF=3, BW_opt=20e9, ER=13), dict(amplify=True, G=10, NF=10, BW_opt=100e9, r=0.5, R_L=1e3, T=100, NF_el=3),
        dict(T=0, ER=20), dict(R_L=1e4, T=400, NF_el=10), dict(amplify=True, G=0, NF=3, BW_opt=6e9)]
for mod, M, dec in [('ook', None, None), ('ppm', 4, 'hard'), ('ppm', 4, 'soft'), ('ppm', 256, 'soft'), ('ppm', 2, 'soft'), ('ppm', 256, 'hard')]:
    for cfg in cfgs:
        inp = (mod, M, dec, cfg)
        v = call('utils.theory_BER vectorise over P_avg', inp, utils.theory_BER, Pg, mod, M=M, decision=dec, **cfg)
        if v is None: continue
        if np.shape(v) != Pg.shape: bad('utils.theory_BER vectorises over P_avg', inp, f'shape {np.shape(v)}'); continue
        for i in (0, 137, 400):
            if float(utils.theory_BER(float(Pg[i]), mod, M=M, decision=dec, **cfg)) != v[i]: bad('utils.theory_BER vectorises over P_avg', inp, 'array != scalar')
        if not np.all(np.isfinite(v)): bad('utils.theory_BER finite', inp, 'nan/inf'); continue
        inc = np.where(v[1:] > v[:-1]*(1+1e-9) + ABS)[0]
        for i in inc[:2]:
            bad(f'utils.theory_BER decreases monotonically with received power ({mod} {dec})', (float(Pg[i]), float(Pg[i+1]), M, cfg), f'{v[i]} -> {v[i+1]}')
        Mb = 2 if mod == 'ook' else M
        flat = np.where((v[1:] >= v[:-1]) & (v[:-1] > 1e-9) & (v[:-1] < Mb/(2*(Mb-1))*(1-1e-9)))[0]
        for i in flat[:2]:
            bad(f'utils.theory_BER strictly decreasing where BER > 1e-9 ({mod} {dec})', (float(Pg[i]), float(Pg[i+1]), M, cfg), f'{v[i]} -> {v[i+1]}')

# array P_avg in the helper functions
mu_a, muA_a = utils.average_voltages(Pg, 'ppm', 8, 15, True, 1550e-9, 25, 5, 50e9, 0.8, 75)
S_a = utils.noise_variances(Pg, 'ppm', 8, 15, True, 1550e-9, 25, 5, 50e9, 0.8, 5e9, 75, 290, 2)
for i in (0, 200, 400):
    m1, _ = utils.average_voltages(float(Pg[i]), 'ppm', 8, 15, True, 1550e-9, 25, 5, 50e9, 0.8, 75)
    S1 = utils.noise_variances(float(Pg[i]), 'ppm', 8, 15, True, 1550e-9, 25, 5, 50e9, 0.8, 5e9, 75, 290, 2)
    if not (np.shape(mu_a) == (2, Pg.size) and close(mu_a[:, i], m1, 1e-13, 0) and close(S_a[:, i], S1, 1e-13, 0)):
        bad('average_voltages/noise_variances vectorise over P_avg', i, 'mismatch')

# explicit threshold argument = error integral at that threshold
for th in (0.1, 0.5, 0.9):
    p_on, p_off, pase, muA, mu, S = model(-28, 'ook', None, 12, True, 1550e-9, 20, 5, 50e9, 1.0, 5e9, 50, 300, 0)
    b = float(utils.theory_BER(-28, 'ook', threshold=th, ER=12, amplify=True, f0=c/1550e-9, G=20, NF=5, BW_opt=50e9))
    ref = f_ook(th*mu[1]+(1-th)*mu[0], mu[0], mu[1], S[0]**0.5, S[1]**0.5)
    if not close(b, ref, 1e-9, 0): bad('utils.theory_BER(threshold=) == error integral at that threshold', th, f'{b} vs {ref}')

# ============================================ 5. device models' noise powers (statistical)
_LPF = dev.LPF
try:
    dev.LPF = lambda inp, BW, *a, **k: inp          # look at the noise before the electrical filter: B = fs/2
    for seed in (1, 2, 3):
        np.random.seed(seed)
        gv(sps=16, R=1e9, N=4096)
        n = gv.t.size; tol = 6*np.sqrt(2/n)
        Pin = 1e-5
        x = optical_signal(np.full(n, np.sqrt(Pin)))
        y = dev.EDFA(x, G=30, NF=5)
        pn = (np.abs(y.noise)**2).mean(axis=1).sum(); pm = utils.p_ase(True, gv.wavelength, 30, 5, gv.fs)
        if abs(pn/pm-1) > tol: bad('EDFA ASE power == utils.p_ase(BW_opt=fs)', seed, f'{pn} vs {pm}')
        z = dev.PD(y, BW=5e9, include_noise='ase-only', i_dark=0)
        S = utils.noise_variances(dbm(Pin/2), 'ook', ER=np.inf, amplify=True, G=30, NF=5, BW_opt=gv.fs, BW_el=gv.fs/2, T=0)[1]
        if abs(np.var(z.noise)/S-1) > 2*tol + 2e-3: bad('PD signal-ASE beating variance == noise_variances', seed, f'{np.var(z.noise)} vs {S}')
        z = dev.PD(x, BW=5e9, include_noise='thermal-only', i_dark=0, T=350.0, Fn=3, R_load=75.0)
        S = utils.noise_variances(-300, 'ook', amplify=False, BW_el=gv.fs/2, T=350, NF_el=3, R_L=75)[0]
        if abs(np.var(z.noise)/S-1) > tol: bad('PD thermal variance == 4kB*T*B*R_L*Fn', seed, f'{np.var(z.noise)} vs {S}')
        x2 = optical_signal(np.full(n, np.sqrt(1e-3)))
        z = dev.PD(x2, BW=5e9, include_noise='shot-only', i_dark=0, r=0.7, R_load=100.0)
        S = utils.noise_variances(dbm(1e-3/2), 'ook', amplify=False, BW_el=gv.fs/2, T=0, r=0.7, R_L=100)[1]
        if abs(np.var(z.noise)/S-1) > tol: bad('PD shot variance == 2e*mu*B*R_L', seed, f'{np.var(z.noise)} vs {S}')
finally:
    dev.LPF = _LPF

# ------------------------------------------------------------------ summary
if VIOL:
    for k_, v_ in TALLY.items(): print('TALLY', k_, sorted(v_, key=str))
    print('\nSUMMARY of violated clauses:')
    for k_, n_ in VIOL.items(): print(f'  {n_:5d}  {k_}')
    sys.exit(1)
print('PASS')
sys.exit(0)
