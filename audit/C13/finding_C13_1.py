# C13: "ppm.theory_BER with soft decision equals Q(mu/sqrt(s0^2+s1^2)) for M = 2, is never larger than the
# hard-decision value for any M, and all of them are non-increasing in mu" -- for all mu in (0, 20*s], s0, s1 > 0.
import sys; del sys.path[0]
import numpy as np
from opticomlib.ppm import theory_BER
from opticomlib.utils import Q
fail = 0
got, exp = float(theory_BER(6.0, 0.1, 1.0, 2, 'soft')), float(Q(6.0/np.hypot(0.1, 1.0)))
print(f'M=2 mu=6 s0=0.1 s1=1: expected Q(mu/sqrt(s0^2+s1^2)) = {exp:.6e}, got {got:.6e} (rel. error {got/exp-1:+.1%})')
fail |= abs(got/exp-1) > 1e-3
a, b = float(theory_BER(5.26, 0.07, 1.0, 2, 'soft')), float(theory_BER(5.27, 0.07, 1.0, 2, 'soft'))
print(f'M=2 s0=0.07 s1=1: BER(mu=5.26) = {a:.4e}, BER(mu=5.27) = {b:.4e}; expected non-increasing in mu')
fail |= b > a
s, h = float(theory_BER(6.0, 0.001, 1.0, 4, 'soft')), float(theory_BER(6.0, 0.001, 1.0, 4, 'hard'))
print(f'M=4 mu=6 s0=0.001 s1=1: soft {s:.4e}, hard {h:.4e}; expected soft <= hard')
fail |= s > h
sys.exit(1 if fail else 0)
