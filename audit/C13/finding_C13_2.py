# C13: THRESHOLD_EST "consistent with those formulas ... solves (M-1)*N(r;mu0,S0) = N(r;mu1,S1)", mu in (0, 20*s].
# For M = 2 and equal sigmas that threshold is the midpoint; for mu1-mu0 > ~16.5 s ppm.THRESHOLD_EST returns the
# first grid point at which 1 - Q(.)*(1-Q(.))**(M-1) rounds to 0.0 instead of the minimiser.
import sys; del sys.path[0]
import numpy as np
from opticomlib.ppm import THRESHOLD_EST
from opticomlib.typing import eye
from opticomlib.utils import Q
fail = 0
for mu1, s0, s1, M, expected in [(20.0, 1.0, 1.0, 2, 10.0), (14.0, 0.3, 0.7, 2, 4.2188)]:
    th = THRESHOLD_EST(eye(mu0=0.0, mu1=mu1, s0=s0, s1=s1), M)
    err = lambda r: (M-1)*Q(r/s0) + Q((mu1-r)/s1)     # symbol error probability (union form, no cancellation)
    print(f'mu0=0 mu1={mu1} s0={s0} s1={s1} M={M}: expected threshold {expected} +- {mu1/999:.3f} (error prob {err(expected):.2e}), '
          f'got {th:.4f} (error prob {err(th):.2e})')
    fail |= abs(th-expected) > 2*mu1/999
sys.exit(1 if fail else 0)
