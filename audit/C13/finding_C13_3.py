# C13: optimum_threshold "... lies in [mu0, mu1], is the midpoint for equal sigmas (OOK) and solves
# (M-1)*N(r;mu0,S0) = N(r;mu1,S1)" -- for all s0, s1 > 0 (s0 == s1 included).
import sys; del sys.path[0]
import numpy as np
from opticomlib.utils import optimum_threshold
fail = 0
for args, expected in [((0.0, 1.0, 0.01, 0.01, 'ook'), 0.5),
                       ((np.float64(0.0), np.float64(1.0), np.float64(0.01), np.float64(0.01), 'ook'), 0.5),
                       ((0.0, 1.0, 0.01, 0.01, 'ppm', 4), 0.5 + 0.01*np.log(3))]:
    try:
        got = optimum_threshold(*args)
    except Exception as ex:
        got = f'{type(ex).__name__}: {ex}'
    ok = isinstance(got, float) and abs(got-expected) < 1e-9
    print(f'optimum_threshold{args}: expected {expected:.6f}, got {got}')
    fail |= not ok
sys.exit(1 if fail else 0)
