# C13: "The 'estimator' modes of BER_analizer ... are consistent with those formulas", both decisions.
# ppm.BER_analizer validates `decision.lower()` but dispatches on the raw string.
import sys; del sys.path[0]
from opticomlib.ppm import BER_analizer, theory_BER
from opticomlib.typing import eye
E = eye(mu0=0.0, mu1=1.0, s0=0.1, s1=0.1)
fail = 0
for dec in ('Hard', 'SOFT'):
    expected = float(theory_BER(1.0, 0.1, 0.1, 4, dec.lower()))
    try:
        got = BER_analizer('estimator', eye_obj=E, M=4, decision=dec)
    except ValueError as ex:
        got = f'clean rejection ({ex})'; print(dec, got); continue
    except Exception as ex:
        got = f'{type(ex).__name__}: {ex}'; fail = 1
    print(f"decision={dec!r}: expected {expected:.6e} (or a ValueError from the validation), got {got}")
sys.exit(fail)
