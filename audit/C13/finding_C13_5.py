# C13: utils.theory_BER "equals the error integral evaluated on the levels and variances of that model, decreases
# monotonically with received power" -- for T in [0,400], ER in [3, inf] dB, amplified/unamplified (G in [0,40] dB).
# T = 0 with ER = inf (no EDFA, or G = 0 dB): sigma_OFF = 0 and the threshold grid contains 0/0.
import sys; del sys.path[0]
import numpy as np
from opticomlib.utils import theory_BER, average_voltages, noise_variances, Q
kw = dict(ER=np.inf, r=0.01, BW_el=5e9, R_L=50, T=0)
mu, _ = average_voltages(-50, 'ook', ER=np.inf, amplify=False, r=0.01, R_L=50)
S = noise_variances(-50, 'ook', ER=np.inf, amplify=False, r=0.01, BW_el=5e9, R_L=50, T=0)
expected = 0.5*float(Q(mu[1]/S[1]**0.5))        # sigma_OFF = 0: only the ON level is ever mistaken (threshold -> 0+)
fail = 0
for name, call in [('ook', lambda T: theory_BER(-50, 'ook', **{**kw, 'T': T})),
                   ('ook, EDFA with G=0 dB', lambda T: theory_BER(-50, 'ook', amplify=True, G=0, NF=5, BW_opt=50e9, **{**kw, 'T': T})),
                   ('4-ppm hard', lambda T: theory_BER(-50, 'ppm', M=4, decision='hard', **{**kw, 'T': T}))]:
    got, near = float(call(0)), float(call(1e-9))
    print(f'{name}: T=0 -> {got}; T=1e-9 K -> {near:.6f}' + (f'; error integral with sigma_OFF=0: {expected:.6f}' if name == 'ook' else ''))
    fail |= not np.isfinite(got)
sys.exit(1 if fail else 0)
