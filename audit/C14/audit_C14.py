"""Audit of property C14: global grid consistency over any gv call history; devices pure and seedable."""
import sys
del sys.path[0]

import copy
import itertools
import signal as _signal
import warnings

import numpy as np
from scipy.constants import c, pi

warnings.simplefilter("ignore")

import opticomlib
from opticomlib import gv, binary_sequence, electrical_signal, optical_signal, eye
from opticomlib import devices as dv
from opticomlib import ook, ppm, utils

print('library under audit:', opticomlib.__file__)

try:
    from opticomlib import lab
except Exception:  # pyvisa missing
    lab = None

VIOL = []
SEEN = set()


def report(clause, what):
    key = (clause, what)
    if key in SEEN:
        return
    SEEN.add(key)
    VIOL.append(key)
    print(f"VIOLATION [{clause}] {what}")


RESERVED = ['sps', 'R', 'fs', 'dt', 'wavelength', 'f0', 'N', 't', 'dw', 'w']


def hard_reset():
    """reset gv without relying on clean() (which is itself under test)"""
    for a in list(vars(gv)):
        if a not in RESERVED:
            delattr(gv, a)
    gv.sps = 16; gv.R = 1e9; gv.fs = 16e9; gv.dt = 1 / 16e9
    gv.wavelength = 1550e-9; gv.f0 = c / 1550e-9
    gv.N = None; gv.t = None; gv.dw = None; gv.w = None


# --------------------------------------------------------------------------------------
# Part 1: gv call histories
# --------------------------------------------------------------------------------------

def check_grid(tag, expect_custom):
    d = vars(gv)
    sps, R, fs = d['sps'], d['R'], d['fs']
    if not (isinstance(sps, (int, np.integer)) and not isinstance(sps, bool)):
        report('G1 sps integer', f'{tag}: sps={sps!r} type {type(sps).__name__}')
    if sps < 1:
        report('G1 sps integer', f'{tag}: sps={sps!r} < 1')
    if not np.isclose(fs, R * sps, rtol=1e-12, atol=0):
        report('G1 fs=R*sps', f'{tag}: fs={fs!r} R={R!r} sps={sps!r}')
    if d['dt'] != 1 / fs:
        report('G2 dt=1/fs', f'{tag}: dt={d["dt"]!r} 1/fs={1/fs!r}')
    if d['f0'] != c / d['wavelength']:
        report('G3 f0=c/wavelength', f'{tag}: f0={d["f0"]!r} wavelength={d["wavelength"]!r}')
    N = d['N']
    if N is not None:
        n = N * sps
        t, w, dw = d['t'], d['w'], d['dw']
        if t is None or w is None or dw is None:
            report('G4 t/w/dw present', f'{tag}: N={N} but t/w/dw is None')
        else:
            if t.size != n or w.size != n:
                report('G4 t,w have N*sps points', f'{tag}: N*sps={n} t.size={t.size} w.size={w.size}')
            if dw != 2 * pi * fs / n:
                report('G4 dw', f'{tag}: dw={dw!r} expected {2*pi*fs/n!r}')
            if t.size == n and n > 0:
                # the library's documented time axis: N*sps points spanning [0, N*sps*dt] on the current fs
                if not (t[0] == 0 and np.isclose(t[-1], n * d['dt'], rtol=1e-12) if n > 1 else t[0] == 0):
                    report('G4 t on current fs', f'{tag}: t[0]={t[0]!r} t[-1]={t[-1]!r} N*sps*dt={n*d["dt"]!r}')
            if w.size == n and n > 0:
                wexp = 2 * pi * np.fft.fftshift(np.fft.fftfreq(n)) * fs
                if not np.allclose(w, wexp, rtol=1e-12, atol=0):
                    report('G4 w on current fs', f'{tag}: w differs from 2*pi*fftshift(fftfreq(N*sps))*fs')
                if n > 1 and not np.isclose(w[1] - w[0], dw, rtol=1e-9):
                    report('G4 w step = dw', f'{tag}: w step {w[1]-w[0]!r} dw={dw!r}')
    else:
        if d['t'] is not None or d['w'] is not None or d['dw'] is not None:
            report('G4 no N -> no t/w/dw', f'{tag}: N None but t/w/dw set')
    # custom attributes
    have = {k: v for k, v in d.items() if k not in RESERVED}
    if set(have) != set(expect_custom):
        report('G5 custom attributes persist until clean()', f'{tag}: custom now {sorted(have)} expected {sorted(expect_custom)}')
    else:
        for k, v in expect_custom.items():
            if have[k] is not v:
                report('G5 custom attributes persist until clean()', f'{tag}: custom {k} changed')


def check_defaults(tag, dedupe=False):
    d = vars(gv)
    exp = dict(sps=16, R=1e9, fs=16e9, dt=1 / 16e9, wavelength=1550e-9, f0=c / 1550e-9, N=None, t=None, dw=None, w=None)
    for k, v in exp.items():
        if k not in d or not (d[k] is v or d[k] == v):
            report('G6 clean restores every default', f'{tag}: {k}={d.get(k)!r} expected {v!r}')
    extra = [k for k in d if k not in exp]
    if extra:
        kinds = sorted({type(d[k]).__name__ for k in extra})
        if dedupe:
            if ('G6kinds', tuple(kinds)) in SEEN:
                return
            SEEN.add(('G6kinds', tuple(kinds)))
        report('G6 clean restores every default', f'{tag}: attributes survive clean(): {[(k, type(d[k]).__name__) for k in extra]}')


def _ident(x):
    return x


CUSTOM_VALUES = [0.5, 0, None, 'abc', [1, 2], (3,), {'a': 1}, np.arange(3), np.float64(2.5), True,
                 _ident, np.float32, len, complex, 20, -3.0]
CUSTOM_NAMES = ['alpha', 'beta', 'G', 'NF', 'BW', 'x1', 'Vpi', 'M', 'name', 'window']


def random_gv_call(rng, cur_custom):
    """build kwargs for one gv() call with commensurate rates. Returns kwargs."""
    kw = {}
    sps = int(rng.choice([1, 2, 3, 4, 7, 8, 16, 32, 64, 128]))
    R = float(rng.choice([1e6, 1e9, 2.5e9, 10e9, 0.3e9, 12.5e9, 100e9, 7.0]))
    fs = R * sps
    mode = rng.integers(0, 8)
    if mode == 0:
        kw.update(sps=sps, R=R)
    elif mode == 1:
        kw.update(sps=sps, fs=fs)
    elif mode == 2:
        kw.update(R=R, fs=fs)
    elif mode == 3:
        kw.update(sps=sps, R=R, fs=fs)
    elif mode == 4:
        kw.update(sps=sps)
    elif mode == 5:
        kw.update(R=R)
    elif mode == 6:
        kw.update(fs=gv.R * sps)  # fs alone: commensurate with the R in force
    # mode 7: none
    # scalar type variants
    if 'sps' in kw:
        kw['sps'] = rng.choice([int, float, np.int64, np.int32, np.float64])(kw['sps'])
    if 'R' in kw and rng.random() < 0.3 and float(kw['R']).is_integer():
        kw['R'] = rng.choice([int, np.float64])(kw['R'])
        if 'fs' in kw:
            kw['fs'] = kw['R'] * int(kw.get('sps', sps))
    if rng.random() < 0.3:
        kw['wavelength'] = float(rng.choice([1550e-9, 1310e-9, 850e-9, 1.0]))
    if rng.random() < 0.4:
        kw['N'] = rng.choice([int, np.int64])(rng.choice([1, 2, 3, 5, 10, 100, 127]))
    if rng.random() < 0.4:
        for _ in range(int(rng.integers(1, 3))):
            name = str(rng.choice(CUSTOM_NAMES))
            kw[name] = CUSTOM_VALUES[int(rng.integers(len(CUSTOM_VALUES)))]
    return kw


def expected_after(kw, prev):
    """expected (sps,R,fs,N,wavelength) from the documented rules, given previous"""
    return None


def audit_gv():
    # 1a. systematic: every subset of {sps,R,fs,wavelength,N,custom} as a first call and as a later call omitting N
    base = dict(sps=8, R=10e9, fs=80e9, wavelength=1310e-9, N=6, custom=None)
    keys = list(base)
    for r in range(len(keys) + 1):
        for sub in itertools.combinations(keys, r):
            for preN in (None, 1, 5):
                hard_reset()
                custom = {}
                if preN is not None:
                    gv(sps=4, R=1e9, N=preN, keep='k')
                    custom['keep'] = vars(gv)['keep']
                kw = {k: base[k] for k in sub if k != 'custom'}
                if 'fs' in kw and 'R' not in kw and 'sps' not in kw:
                    kw['fs'] = gv.R * 8
                if 'custom' in sub:
                    kw['alpha'] = 0.5
                    custom['alpha'] = 0.5
                tag = f'gv({kw}) after preN={preN}'
                try:
                    ret = gv(**kw)
                except Exception as e:
                    report('G0 gv call raises', f'{tag}: {e!r}')
                    continue
                if ret is not gv:
                    report('G0 gv returns self', tag)
                check_grid(tag, custom)
                # the values passed are the ones now in force
                if 'sps' in kw and gv.sps != kw['sps']:
                    report('G1 values now in force', f'{tag}: sps={gv.sps}')
                if 'R' in kw and gv.R != kw['R']:
                    report('G1 values now in force', f'{tag}: R={gv.R}')
                if 'fs' in kw and not np.isclose(gv.fs, kw['fs'], rtol=1e-12):
                    report('G1 values now in force', f'{tag}: fs={gv.fs}')
                if 'wavelength' in kw and gv.wavelength != kw['wavelength']:
                    report('G3 values now in force', f'{tag}: wavelength={gv.wavelength}')
                expN = kw.get('N', preN)
                if gv.N != expN:
                    report('G4 N in effect', f'{tag}: N={gv.N} expected {expN}')
                gv.clean()
                check_defaults(tag + ' then clean()')

    # 1b. random histories
    rng = np.random.default_rng(1234)
    for h in range(300):
        hard_reset()
        custom = {}
        Nexp = None
        hist = []
        for step in range(int(rng.integers(1, 9))):
            if rng.random() < 0.15:
                hist.append('clean()')
                try:
                    gv.clean()
                except Exception as e:
                    report('G6 clean raises', f'{hist}: {e!r}')
                    hard_reset()
                check_defaults(' ; '.join(hist), dedupe=True)
                # continue the history from a truly clean state so one defect is reported once per kind
                leftovers = [k for k in vars(gv) if k not in RESERVED]
                for k in leftovers:
                    delattr(gv, k)
                custom = {}
                Nexp = None
                continue
            kw = random_gv_call(rng, custom)
            hist.append('gv(' + ', '.join(f'{k}={v!r}' if not callable(v) else f'{k}=<callable {getattr(v, "__name__", v)}>' for k, v in kw.items()) + ')')
            tag = ' ; '.join(hist)
            try:
                gv(**kw)
            except Exception as e:
                report('G0 gv call raises', f'{tag}: {e!r}')
                break
            for k, v in kw.items():
                if k not in ('sps', 'R', 'fs', 'wavelength', 'N'):
                    custom[k] = v
            if 'N' in kw:
                Nexp = kw['N']
            check_grid(tag, custom)
            if gv.N != Nexp:
                report('G4 N in effect', f'{tag}: N={gv.N} expected {Nexp}')
            if 'sps' in kw and gv.sps != int(kw['sps']):
                report('G1 values now in force', f'{tag}: sps={gv.sps}')
            if 'R' in kw and gv.R != kw['R']:
                report('G1 values now in force', f'{tag}: R={gv.R}')
            if 'fs' in kw and not np.isclose(gv.fs, kw['fs'], rtol=1e-12):
                report('G1 values now in force', f'{tag}: fs={gv.fs}')
            if 'wavelength' in kw and gv.wavelength != kw['wavelength']:
                report('G3 values now in force', f'{tag}: wavelength={gv.wavelength}')

    # 1c. every kind of custom value, one at a time: persists over later calls, gone after clean()
    for i, val in enumerate(CUSTOM_VALUES):
        hard_reset()
        name = f'c{i}'
        desc = getattr(val, '__name__', None) or repr(val)
        gv(sps=8, R=1e9, **{name: val})
        gv(R=2e9)
        gv(N=3)
        check_grid(f'custom {name}={desc} over later calls', {name: val})
        gv.clean()
        check_defaults(f'gv(sps=8, R=1e9, {name}={desc}); gv.clean()')
    hard_reset()


# --------------------------------------------------------------------------------------
# Part 2: purity / seedability / aliasing / order independence
# --------------------------------------------------------------------------------------

class Timeout(Exception):
    pass


def _alarm(signum, frame):
    raise Timeout()


_signal.signal(_signal.SIGALRM, _alarm)


def with_timeout(f, secs=20):
    def g():
        _signal.setitimer(_signal.ITIMER_REAL, secs)
        try:
            return f()
        finally:
            _signal.setitimer(_signal.ITIMER_REAL, 0)
    return g


def arrays_of(obj, out=None, depth=0):
    """collect every ndarray reachable from obj"""
    if out is None:
        out = []
    if depth > 4:
        return out
    if isinstance(obj, np.ndarray):
        out.append(obj)
    elif isinstance(obj, binary_sequence):
        out.append(obj.data)
    elif isinstance(obj, electrical_signal):
        out.append(obj.signal)
        if obj.noise is not None:
            out.append(obj.noise)
    elif isinstance(obj, eye):
        for k, v in vars(obj).items():
            arrays_of(v, out, depth + 1)
    elif isinstance(obj, (list, tuple)):
        for v in obj:
            arrays_of(v, out, depth + 1)
    elif isinstance(obj, dict):
        for v in obj.values():
            arrays_of(v, out, depth + 1)
    return out


def freeze(obj, depth=0):
    """bit-exact, hashable-ish snapshot of a result / argument"""
    if depth > 5:
        return ('deep',)
    if isinstance(obj, np.ndarray):
        return ('nd', obj.shape, str(obj.dtype), np.ascontiguousarray(obj).tobytes())
    if isinstance(obj, np.generic):
        return ('ng', str(obj.dtype), obj.tobytes())
    if isinstance(obj, binary_sequence):
        return ('bs', freeze(obj.data))
    if isinstance(obj, optical_signal):
        return ('os', obj.n_pol, freeze(obj.signal), freeze(obj.noise))
    if isinstance(obj, electrical_signal):
        return ('es', freeze(obj.signal), freeze(obj.noise))
    if isinstance(obj, eye):
        return ('eye', tuple((k, freeze(v, depth + 1)) for k, v in sorted(vars(obj).items()) if k != 'execution_time'))
    if isinstance(obj, (list, tuple)):
        return (type(obj).__name__, tuple(freeze(v, depth + 1) for v in obj))
    if isinstance(obj, dict):
        return ('dict', tuple((k, freeze(v, depth + 1)) for k, v in sorted(obj.items())))
    if isinstance(obj, float):
        return ('f', np.float64(obj).tobytes())
    if isinstance(obj, complex):
        return ('c', np.complex128(obj).tobytes())
    if isinstance(obj, (int, str, bool, type(None))):
        return (type(obj).__name__, obj)
    if callable(obj):
        return ('callable', id(obj))
    return ('other', repr(obj))


def gv_snapshot():
    return freeze({k: v for k, v in vars(gv).items()})


class Block:
    def __init__(self, name, fn, args, det, timeout=None):
        self.name, self.fn, self.args, self.det = name, fn, args, det
        self.timeout = timeout

    def run(self):
        f = lambda: self.fn(*self.args)
        if self.timeout:
            f = with_timeout(f, self.timeout)
        try:
            return ('ok', f())
        except Timeout:
            return ('timeout', None)
        except Exception as e:
            return ('exc', f'{type(e).__name__}: {e}')


def make_blocks(cfgname):
    """build the blocks on shared inputs for the gv now in force"""
    sps = gv.sps
    rs = np.random.RandomState(7)
    B = []

    def add(name, fn, *args, det=True, timeout=None):
        B.append(Block(f'{cfgname}:{name}', fn, args, det, timeout))

    bits_arr = rs.randint(0, 2, 64).astype(np.uint8)
    bits_arr[:4] = [0, 1, 1, 0]
    bits_list = bits_arr.tolist()
    bits_tuple = tuple(bits_list)
    bits_str = ''.join(map(str, bits_list))
    bits_bool = bits_arr.astype(bool)
    bits_bs = binary_sequence(bits_arr)
    containers = dict(str=bits_str, list=bits_list, tuple=bits_tuple, nd_u8=bits_arr, nd_bool=bits_bool, bs=bits_bs)

    n = bits_arr.size * sps
    v_clean = np.kron(bits_arr, np.ones(sps)) * 0.8 + 0.1
    e_nonoise = electrical_signal(v_clean)
    e_noise = electrical_signal(v_clean, rs.normal(0, 0.03, n))
    e_cplx = electrical_signal(v_clean * np.exp(1j * 0.3), rs.normal(0, 0.03, n) + 1j * rs.normal(0, 0.03, n))
    arr_f = v_clean + rs.normal(0, 0.03, n)
    arr_i = np.kron(bits_arr, np.ones(sps)).astype(int)
    e_one = electrical_signal([0.5])
    e_two = electrical_signal([0.5, 1.0])

    amp = np.sqrt(1e-3) * (0.2 + 0.8 * np.kron(bits_arr, np.ones(sps)))
    o1 = optical_signal(amp)
    o1n = optical_signal(amp.astype(complex), (rs.normal(0, 1e-4, n) + 1j * rs.normal(0, 1e-4, n)))
    o2 = optical_signal(np.array([amp, 0.5 * amp]))
    o2n = optical_signal(np.array([amp, 0.5j * amp]), rs.normal(0, 1e-4, (2, n)) + 1j * rs.normal(0, 1e-4, (2, n)))
    o_len1 = optical_signal([1.0])
    opticals = dict(o1=o1, o1n=o1n, o2=o2, o2n=o2n)
    tvec = np.arange(n) * gv.dt
    tvec_i = np.arange(16)

    # ---- PRBS
    for order in (7, 9, 11, 15, 20, 23, 31):
        add(f'PRBS({order},len=33)', dv.PRBS, order, 33)
    add('PRBS(7)', dv.PRBS, 7)
    add('PRBS(7,len=1)', dv.PRBS, 7, 1)
    add('PRBS(7,len=20,seed=0)', dv.PRBS, 7, 20, 0)
    add('PRBS(9,len=20,seed=124,ret)', dv.PRBS, 9, 20, 124, True)

    # ---- DAC
    for cname, cval in containers.items():
        for ps in ('nrz', 'NRZ', 'rect', 'rz', 'RZ', 'gaussian', 'GAUSSIAN'):
            add(f'DAC({cname},{ps})', lambda x, p: dv.DAC(x, pulse_shape=p), cval, ps)
    add('DAC(bs,nrz,BW)', lambda x: dv.DAC(x, bias=0.5, Vout=2, BW=gv.R * 0.75), bits_bs)
    add('DAC(bs,gauss,c,m,T)', lambda x: dv.DAC(x, pulse_shape='gaussian', c=1.5, m=2, T=max(1, sps // 2)), bits_bs)
    add('DAC("1")', dv.DAC, '1')
    add('DAC([0])', dv.DAC, [0])
    add('DAC(Vout=None,bias=None)', lambda x: dv.DAC(x, bias=None, Vout=None), bits_arr)

    # ---- LASER
    add('LASER(t,p)', dv.LASER, tvec, 10.0)
    add('LASER(t_int,p)', dv.LASER, tvec_i, 0)
    add('LASER(t,p,df)', lambda t: dv.LASER(t, 3, df=gv.fs / 8), tvec)
    add('LASER(t,p,lw)', lambda t: dv.LASER(t, 3, lw=1e6), tvec, det=False)
    add('LASER(t,p,rin)', lambda t: dv.LASER(t, 3, rin=-150), tvec, det=False)
    add('LASER(t,p,lw,rin,df)', lambda t: dv.LASER(t, 3, lw=1e6, rin=-150, df=-gv.fs / 2), tvec, det=False)

    # ---- PM / MZM / BPF / EDFA / DM / FIBER / PD / FBG on every optical input
    drive_nd = np.linspace(0, 5, n)
    drive_es = electrical_signal(np.linspace(-2, 2, n), rs.normal(0, 0.1, n))
    for oname, o in opticals.items():
        add(f'PM({oname},2.5)', dv.PM, o, 2.5)
        add(f'PM({oname},int)', dv.PM, o, 2)
        add(f'PM({oname},nd)', dv.PM, o, drive_nd)
        add(f'PM({oname},es)', lambda a, b: dv.PM(a, b, Vpi=3.0), o, drive_es)
        for pol in ('x', 'y'):
            add(f'MZM({oname},es,{pol})', lambda a, b, p: dv.MZM(a, b, bias=2.5, Vpi=5, loss_dB=2, ER_dB=30, pol=p), o, drive_es, pol)
        add(f'MZM({oname},float)', dv.MZM, o, 1.0)
        add(f'MZM({oname},nd,BW)', lambda a, b: dv.MZM(a, b, BW=gv.R * 1.5), o, drive_nd)
        add(f'MZM({oname},list)', dv.MZM, o, drive_nd.tolist())
        add(f'BPF({oname})', lambda a: dv.BPF(a, gv.R * 1.5), o)
        add(f'BPF({oname},n=2)', lambda a: dv.BPF(a, gv.R, 2), o)
        add(f'EDFA({oname})', lambda a: dv.EDFA(a, 20, 5), o, det=False)
        add(f'EDFA({oname},BW)', lambda a: dv.EDFA(a, 20.0, 5.0, gv.R * 1.5), o, det=False)
        add(f'EDFA({oname},G=0)', lambda a: dv.EDFA(a, 0, 5), o, det=False)
        add(f'DM({oname})', dv.DM, o, 4000.0)
        add(f'DM({oname},int D)', dv.DM, o, 4000)
        add(f'DM({oname},np.float64 D)', dv.DM, o, np.float64(-4000))
        if cfgname == 'default' and oname in ('o1', 'o2n'):
            add(f'DM({oname},0-d ndarray D)', dv.DM, o, np.array(4000.0))
            add(f'DM({oname},1-elem ndarray D)', dv.DM, o, np.array([4000.0]))
        add(f'DM({oname},retH)', lambda a: dv.DM(a, 0.0, True), o)
        add(f'FIBER({oname},lin)', lambda a: dv.FIBER(a, 10, alpha=0.2, beta_2=-20, beta_3=0.1), o, timeout=20)
        add(f'FIBER({oname},nl)', lambda a: dv.FIBER(a, 5.0, alpha=0.2, beta_2=-20, gamma=1.5, phi_max=0.05), o, timeout=30)
        for inc in ('all', 'ALL', 'ase-only', 'thermal-only', 'shot-only', 'ase-thermal', 'ase-shot', 'thermal-shot', 'Thermal-Shot'):
            add(f'PD({oname},{inc})', lambda a, i: dv.PD(a, gv.R * 0.75, r=0.9, include_noise=i), o, inc, det=(inc == 'ase-only'))
    add('PM(len1)', dv.PM, o_len1, 1.0)
    add('MZM(len1)', dv.MZM, o_len1, 1.0)
    add('EDFA(len1)', lambda a: dv.EDFA(a, 10, 4), o_len1, det=False)
    add('DM(len1)', dv.DM, o_len1, 100.0)

    o_small = optical_signal(amp[:64])
    o_small2 = optical_signal(np.array([amp[:64], amp[:64] * 0.5]))
    for apo in ('uniform', 'rcos', 'gaussian', 'parabolic'):
        add(f'FBG(o_small,{apo})', lambda a, ap: dv.FBG(a, fc=gv.f0, vdneff=1e-4, kL=4, apodization=ap, print_params=False), o_small, apo, timeout=60)
    add('FBG(o_small,retH,F)', lambda a: dv.FBG(a, landa_D=gv.wavelength, dneff=1e-4, N=5000, F=2.0, print_params=False, retH=True, filtfilt=False), o_small, timeout=60)

    # ---- LPF
    for ename, e in dict(e_nonoise=e_nonoise, e_noise=e_noise, e_cplx=e_cplx, arr_f=arr_f, arr_i=arr_i).items():
        add(f'LPF({ename})', lambda a: dv.LPF(a, gv.R * 0.75), e)
        add(f'LPF({ename},n=2,fs,retH)', lambda a: dv.LPF(a, gv.R * 0.5, 2, gv.fs, True), e)
        add(f'ADC({ename})', dv.ADC, e)
        add(f'ADC({ename},n=1,otype n)', lambda a: dv.ADC(a, None, 1, 'n'), e)
        add(f'ADC({ename},n=3)', lambda a: dv.ADC(a, n=3), e)
        add(f'GET_EYE({ename})', dv.GET_EYE, e, det=False, timeout=60)
        add(f'GET_EYE({ename},nslots=16,resamp)', lambda a: dv.GET_EYE(a, 16, 4 * sps), e, det=False, timeout=60)
    for ename, e in dict(e_nonoise=e_nonoise, e_noise=e_noise).items():
        add(f'ADC({ename},fs)', lambda a: dv.ADC(a, fs=gv.fs / 2), e)
        for inst in (0, sps // 2, sps - 1, sps):
            add(f'SAMPLER({ename},{inst})', dv.SAMPLER, e, inst)
        add(f'ook.DSP({ename})', ook.DSP, e, det=False, timeout=60)
        add(f'ook.DSP({ename},BW)', lambda a: ook.DSP(a, gv.R * 0.75), e, det=False, timeout=60)
        for M in (2, 4, 8):
            add(f'ppm.DSP({ename},{M},hard)', lambda a, m: ppm.DSP(a, m, 'hard'), e, M, det=False, timeout=60)
            add(f'ppm.DSP({ename},{M},HARD,thr)', lambda a, m: ppm.DSP(a, m, 'HARD', 0.5), e, M, det=False, timeout=60)
            add(f'ppm.DSP({ename},{M},soft)', lambda a, m: ppm.DSP(a, m, 'soft'), e, M)
            add(f'SDD({ename},{M})', ppm.SDD, e, M)
    add('ppm.DSP(arr_f,4,soft)', lambda a: ppm.DSP(a, 4, 'Soft'), arr_f)
    add('SDD(arr_f,4)', ppm.SDD, arr_f, 4)
    add('SDD(list,4)', ppm.SDD, arr_f.tolist(), 4)
    add('SAMPLER(e_one,0)', dv.SAMPLER, e_one, 0)
    add('LPF(e_two)', lambda a: dv.LPF(a, gv.R * 0.5), e_two)

    # ---- codecs
    for cname, cval in containers.items():
        for M in (2, 4, 8, 64):
            add(f'PPM_ENCODER({cname},{M})', ppm.PPM_ENCODER, cval, M)
            add(f'HDD({cname},{M})', ppm.HDD, cval, M, det=False)
    for M in (2, 4, 16):
        enc = ppm.PPM_ENCODER(bits_bs, M)
        for cname, cval in dict(bs=enc, nd=enc.data.copy(), lst=enc.data.tolist(), st=''.join(map(str, enc.data.tolist()))).items():
            add(f'PPM_DECODER({cname},{M})', ppm.PPM_DECODER, cval, M)
    add('HDD(zeros,4)', ppm.HDD, np.zeros(16, bool), 4, det=False)
    add('HDD(ones,4)', ppm.HDD, np.ones(16, np.uint8), 4, det=False)
    add('HDD(ones bs,1)', ppm.HDD, binary_sequence(np.ones(4)), 1, det=False)

    eo = eye(mu0=0.1, mu1=0.9, s0=0.05, s1=0.08, execution_time=0)
    add('ook.THRESHOLD_EST', ook.THRESHOLD_EST, eo)
    add('ppm.THRESHOLD_EST', ppm.THRESHOLD_EST, eo, 4)
    add('ook.BER(est)', lambda e_: ook.BER_analizer('estimator', eye_obj=e_), eo)
    add('ppm.BER(est,hard)', lambda e_: ppm.BER_analizer('estimator', eye_obj=e_, M=4, decision='hard'), eo)
    add('ppm.BER(est,soft)', lambda e_: ppm.BER_analizer('estimator', eye_obj=e_, M=4), eo)
    add('ook.BER(cnt)', lambda a, b: ook.BER_analizer('counter', Tx=a, Rx=b), bits_bs, ~bits_bs)
    add('ook.BER(cnt,nd)', lambda a, b: ook.BER_analizer('counter', Tx=a, Rx=b), bits_arr, bits_arr[:10])
    add('ppm.BER(cnt)', lambda a, b: ppm.BER_analizer('counter', Tx=a, Rx=b), bits_bs, bits_list)
    mu_arr = np.array([0.5, 1.0])
    add('ook.theory_BER', ook.theory_BER, mu_arr, 0.1, 0.1)
    add('ppm.theory_BER(soft)', ppm.theory_BER, mu_arr, 0.1, 0.1, 4)
    add('ppm.theory_BER(hard)', ppm.theory_BER, mu_arr, 0.1, 0.1, 4, 'hard')
    p_arr = np.linspace(-35, -25, 3)
    add('utils.theory_BER(ook)', lambda p: utils.theory_BER(p, 'ook'), p_arr)
    add('utils.theory_BER(ppm)', lambda p: utils.theory_BER(p, 'ppm', M=4, decision='hard', amplify=True, G=20, NF=5, BW_opt=50e9), p_arr)

    # ---- utils
    data = rs.normal(0, 1, 101)
    add('shortest_int(50)', utils.shortest_int, data)
    add('shortest_int(99.99)', utils.shortest_int, data, 99.99)
    add('shortest_int(0.5)', utils.shortest_int, data, 0.5)
    Hc = np.exp(1j * np.linspace(-3, 3, 64) ** 2)
    add('phase', utils.phase, Hc)
    add('tau_g', utils.tau_g, Hc, 1e9)
    add('dispersion', utils.dispersion, Hc, 1e9, 193e12)
    add('rcos(nd)', utils.rcos, np.linspace(-1, 1, 21), 0.5, 1)
    add('rcos(list)', utils.rcos, list(np.linspace(-1, 1, 21)), 1, 2)
    add('norm(nd)', utils.norm, data)
    add('nearest(nd)', utils.nearest, data, 0.3)
    for f in ('db', 'dbm'):
        add(f'{f}(nd)', getattr(utils, f), np.abs(data) + 1)
        add(f'{f}(list)', getattr(utils, f), list(np.abs(data) + 1))
    for f in ('idb', 'idbm', 'gaus', 'Q'):
        add(f'{f}(nd)', getattr(utils, f), data)
    add('str2array', utils.str2array, '1 2 3;4 5 6')
    add('dec2bin', utils.dec2bin, 5, 4)
    add('dec2bin(np.int64)', utils.dec2bin, np.int64(5), 4)

    # ---- class methods used as DSP steps
    for ename, e in dict(e_noise=e_noise, e_nonoise=e_nonoise, o1n=o1n, o2=o2, o2n=o2n).items():
        add(f'{ename}("w")', lambda a: a('w'), e)
        add(f'{ename}("t",shift)', lambda a: a('t', True), e)
        add(f'{ename}[:]', lambda a: a[:], e)
        add(f'{ename}[3]', lambda a: a[3], e)
        add(f'{ename}.copy()', lambda a: a.copy(), e)
        add(f'{ename}.copy(5)', lambda a: a.copy(5), e)
        add(f'{ename}.abs', lambda a: [a.abs(b) for b in ('signal', 'noise', 'all')], e)
        add(f'{ename}.power', lambda a: [a.power(b) for b in ('signal', 'noise', 'all')], e)
        add(f'{ename}.phase', lambda a: a.phase(), e)
        add(f'{ename}.t/w', lambda a: [a.t(), a.w(), a.w(True)], e)
        add(f'{ename}+1', lambda a: a + 1, e)
        add(f'{ename}*2', lambda a: 2 * a, e)
        add(f'{ename}-self', lambda a: a - a, e)
        add(f'{ename}+0 (len-1 operand)', lambda a: a + 0.0, e)
    add('e_noise>0.5', lambda a: a > 0.5, e_noise)
    add('e_noise<arr', lambda a, b: a < b, e_noise, arr_f)
    add('bs+bs', lambda a: a + a, bits_bs)
    add('"01"+bs', lambda a: '01' + a, bits_bs)
    add('~bs', lambda a: ~a, bits_bs)
    add('bs[:]', lambda a: a[:], bits_bs)
    add('bs[::-1]', lambda a: a[::-1], bits_bs)

    # ---- lab
    if lab is not None:
        rx = np.concatenate([v_clean[3 * sps + 2:], v_clean, v_clean[:3 * sps + 2]]) + rs.normal(0, 0.01, 2 * n)
        add('SYNC(es)', lab.SYNC, electrical_signal(rx), bits_bs)
        add('SYNC(nd)', lab.SYNC, rx, bits_arr, sps)
        add('GET_EYE_v2', lab.GET_EYE_v2, e_noise, bits_bs, timeout=60)
        add('GET_EYE_v2(nd)', lab.GET_EYE_v2, arr_f, bits_arr, timeout=60)
    return B


def audit_blocks(cfgname, cfg, seeds, n_perm):
    hard_reset()
    gv(**cfg)
    blocks = make_blocks(cfgname)
    ref = {}
    status = {}
    for b in blocks:
        arg_snap = freeze(b.args)
        arg_arrays = arrays_of(list(b.args))
        gsnap = gv_snapshot()
        outs = []
        tainted = False
        for s in seeds:
            np.random.seed(s)
            st, out = b.run()
            # P1: gv untouched
            if gv_snapshot() != gsnap:
                report('P1 device modifies gv', f'{b.name} (seed {s}, status {st})')
                hard_reset(); gv(**cfg); gsnap = gv_snapshot()
            # P2: arguments untouched
            if freeze(b.args) != arg_snap:
                np.random.seed(s)
                st2, out2 = b.run()
                differs = (st2 != st) or (st == 'ok' and freeze(out2) != freeze(out))
                report('P2 device modifies its arguments (shared with later calls)', f'{b.name} (status {st}); the repeated identical call then '
                       + ('returns a DIFFERENT result' if differs else 'still returns the same result'))
                outs = []
                tainted = True
                break
            if st == 'timeout':
                print(f'note: {b.name} timed out (not a C14 clause)')
                break
            # P3: no aliasing
            if st == 'ok':
                for oa in arrays_of(out):
                    for ia in arg_arrays:
                        if oa.size and ia.size and np.shares_memory(oa, ia):
                            report('P3 output aliases an input buffer', f'{b.name}')
            # P4: reseeding reproduces bit for bit
            np.random.seed(s)
            st2, out2 = b.run()
            f1 = (st, freeze(out) if st == 'ok' else out)
            f2 = (st2, freeze(out2) if st2 == 'ok' else out2)
            if f1 != f2:
                report('P4 repeat after np.random.seed(s) not bit-identical', f'{b.name} seed {s} ({st}/{st2})')
            # two results of two calls must not share memory with each other either
            if st == 'ok' and st2 == 'ok':
                for oa in arrays_of(out):
                    for ob in arrays_of(out2):
                        if oa.size and ob.size and np.shares_memory(oa, ob):
                            report('P3 outputs of two calls share a buffer', f'{b.name}')
            outs.append(f1)
        status[b.name] = outs[0][0] if outs else ('modified-args' if tainted else 'timeout')
        if b.det and outs:
            if any(o != outs[0] for o in outs):
                report('P5 deterministic block depends on the numpy seed', f'{b.name}')
            ref[b.name] = outs[0]
        if gv_snapshot() != gsnap:
            hard_reset(); gv(**cfg)

    # order independence
    rng = np.random.default_rng(99)
    runnable = [b for b in blocks if status.get(b.name) not in ('timeout', 'modified-args')]
    for p in range(n_perm):
        order = rng.permutation(len(runnable))
        gsnap = gv_snapshot()
        np.random.seed(int(rng.integers(0, 2**32 - 1)))
        for i in order:
            b = runnable[i]
            if not b.det:
                s = int(rng.integers(0, 2**32 - 1))
                np.random.seed(s)
                st, out = b.run()
                f1 = (st, freeze(out) if st == 'ok' else out)
                np.random.seed(s)
                st2, out2 = b.run()
                f2 = (st2, freeze(out2) if st2 == 'ok' else out2)
                if f1 != f2:
                    report('P4 repeat after np.random.seed(s) not bit-identical', f'{b.name} seed {s} in permutation {p}')
            else:
                st, out = b.run()
                f1 = (st, freeze(out) if st == 'ok' else out)
                if f1 != ref[b.name]:
                    report('P6 deterministic block result depends on what was called before', f'{b.name} in permutation {p}')
        if gv_snapshot() != gsnap:
            report('P1 device modifies gv', f'{cfgname}: gv changed over permutation {p}')
            hard_reset(); gv(**cfg)
    n_ok = sum(1 for v in status.values() if v == 'ok')
    print(f'[{cfgname}] {len(blocks)} blocks, {n_ok} ran ok, {sum(1 for v in status.values() if v == "exc")} raised, {sum(1 for v in status.values() if v == "timeout")} timed out, {sum(1 for v in status.values() if v == "modified-args")} modified their arguments')
    return status


def audit_gv_dependence():
    """result depends on the *current* gv: same call after a gv change must equal a fresh process-like evaluation
    (no stale cached grid). We compare against the result obtained by configuring gv directly from a hard reset."""
    bits = '0110100111010001'
    calls = {
        'DAC': lambda: dv.DAC(bits, pulse_shape='gaussian'),
        'DAC+LPF': lambda: dv.LPF(dv.DAC(bits), gv.R * 0.7),
        'LASER df': lambda: dv.LASER(np.arange(32) * gv.dt, 0, df=gv.fs / 16),
        'DM': lambda: dv.DM(optical_signal(dv.DAC(bits, pulse_shape='gaussian').signal), 500.0),
        'SAMPLER': lambda: dv.SAMPLER(dv.DAC(bits), gv.sps // 2),
        'SDD': lambda: ppm.SDD(dv.DAC(bits), 4),
        'es.t/w': lambda: [dv.DAC(bits).t(), dv.DAC(bits).w()],
    }
    cfgs = [dict(sps=8, R=1e9), dict(sps=16, R=10e9), dict(sps=4, R=2.5e9, N=16), dict(sps=32, R=1e9, wavelength=1310e-9)]
    fresh = {}
    for i, cfg in enumerate(cfgs):
        hard_reset(); gv(**cfg)
        for k, f in calls.items():
            fresh[(i, k)] = freeze(f())
    rng = np.random.default_rng(5)
    hard_reset()
    for _ in range(30):
        i = int(rng.integers(len(cfgs)))
        if rng.random() < 0.3:
            gv.clean()
            for a in [k for k in vars(gv) if k not in RESERVED]:
                delattr(gv, a)
        gv(**cfgs[i])
        # N omitted in later calls keeps the previous N: only sample-rate dependent results are compared
        for k, f in calls.items():
            if freeze(f()) != fresh[(i, k)]:
                report('P7 result depends on gv history, not only on the current gv', f'{k} under {cfgs[i]}')
    hard_reset()


def main():
    audit_gv()
    audit_gv_dependence()
    cfgs = [
        ('default', dict(sps=16, R=1e9), [0, 1, 2**32 - 1], 2),
        ('sps8_N', dict(sps=8, R=10e9, N=64, wavelength=1310e-9, G=20), [3, 12345], 2),
        ('sps2', dict(sps=2, R=1e9), [4], 1),
        ('sps1', dict(sps=1, R=1e9), [5], 1),
        ('sps3', dict(sps=3, fs=7.5e9), [6], 1),
    ]
    for name, cfg, seeds, nperm in cfgs:
        audit_blocks(name, cfg, seeds, nperm)
    hard_reset()
    if VIOL:
        print(f'{len(VIOL)} violation line(s)')
        sys.exit(1)
    print('PASS')
    sys.exit(0)


if __name__ == '__main__':
    main()
