# C14 clause: "custom attributes persist until clean(), which restores every default"
# gv.clean() skips every custom attribute whose VALUE is callable (functions, types, and
# opticomlib's own electrical_signal/optical_signal objects, which define __call__).
import sys; del sys.path[0]
import warnings; warnings.simplefilter('ignore')
import numpy as np
from opticomlib import gv, electrical_signal

gv.clean()
gv(sps=8, R=1e9, alpha=0.5, window=np.hanning, dtype=np.float32, ref=electrical_signal([0., 1., 0.]))
gv.clean()
reserved = {'sps', 'R', 'fs', 'dt', 'wavelength', 'f0', 'N', 't', 'dw', 'w'}
left = sorted(set(vars(gv)) - reserved)
print('expected after clean(): no custom attributes (alpha, window, dtype, ref all removed)')
print('got                   :', left)
sys.exit(1 if left else 0)
