# C14 clauses: "No device ... modifies ... its arguments ... repeating a call reproduces the output
# bit-for-bit, deterministic blocks give identical results whatever was called before".
# DM scales its parameter D IN PLACE (D *= 1e-24): a 0-d / 1-element ndarray D shared between calls
# is overwritten, so the second identical call DM(x, D) uses D*1e-24 and returns something else.
import sys; del sys.path[0]
import warnings; warnings.simplefilter('ignore')
import numpy as np
from opticomlib import gv, optical_signal
from opticomlib.devices import DM

gv.clean()
x = optical_signal(np.exp(-np.linspace(-3, 3, 64) ** 2))
D = np.array(4000.0)                 # ps^2, e.g. the result of np.squeeze / np.asarray(beta2*L)
y1 = DM(x, D)
y2 = DM(x, D)
same = np.array_equal(y1.signal, y2.signal)
print('expected: D still 4000.0 and DM(x, D) == DM(x, D) bit for bit')
print(f'got     : D = {D!r}, two calls equal: {same}, max|y1-y2| = {np.abs(y1.signal - y2.signal).max():.3g}')
sys.exit(0 if (same and D == 4000.0) else 1)
