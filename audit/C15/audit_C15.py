"""Audit of property C15: binary_sequence is a closed, immutable-by-operation algebra over {0,1}.

Prints one line per violated (clause, input) (at most CAP lines per clause, then a count) and exits 1,
or prints PASS and exits 0.
"""
import sys, os
_here = os.path.dirname(os.path.abspath(__file__))
if sys.path and os.path.abspath(sys.path[0] or '.') == _here:
    del sys.path[0]

import itertools, warnings, collections
import numpy as np

warnings.simplefilter('ignore')

from opticomlib.typing import binary_sequence as B, electrical_signal as E

CAP = 8
viol = collections.OrderedDict()


def report(clause, inp, msg):
    lst = viol.setdefault(clause, [])
    lst.append((inp, msg))
    if len(lst) <= CAP:
        print(f"VIOLATION [{clause}] input={inp} :: {msg}", flush=True)


def valid(x):
    """x is a valid binary_sequence: 1-D uint8 ndarray with only 0/1."""
    return (isinstance(x, B) and isinstance(x.data, np.ndarray) and x.data.ndim == 1
            and x.data.dtype == np.uint8 and bool(np.all((x.data == 0) | (x.data == 1))))


def bits_of(x):
    return [int(v) for v in x.data]


def all_bitlists(maxlen, minlen=0):
    for n in range(minlen, maxlen + 1):
        for t in itertools.product((0, 1), repeat=n):
            yield list(t)


# ---------- container forms ----------
def forms(bits):
    """Every accepted container form of the bit list `bits` -> list of (name, factory)."""
    n = len(bits)
    out = [
        ('list_int', lambda: list(bits)),
        ('list_bool', lambda: [bool(b) for b in bits]),
        ('list_float', lambda: [float(b) for b in bits]),
        ('list_npuint8', lambda: [np.uint8(b) for b in bits]),
        ('tuple_int', lambda: tuple(bits)),
        ('tuple_bool', lambda: tuple(bool(b) for b in bits)),
        ('arr_bool', lambda: np.array(bits, dtype=bool)),
        ('arr_uint8', lambda: np.array(bits, dtype=np.uint8)),
        ('arr_int8', lambda: np.array(bits, dtype=np.int8)),
        ('arr_int64', lambda: np.array(bits, dtype=np.int64)),
        ('arr_float32', lambda: np.array(bits, dtype=np.float32)),
        ('arr_float64', lambda: np.array(bits, dtype=np.float64)),
        ('arr_strided', lambda: np.array([v for b in bits for v in (b, 1 - b)], dtype=np.int64)[::2]),
        ('arr_reversed_view', lambda: np.array(bits[::-1], dtype=np.uint8)[::-1]),
    ]
    if n >= 1:
        s = ''.join(map(str, bits))
        out += [
            ('str', lambda: s),
            ('str_spaces', lambda: ' '.join(s)),
            ('str_commas', lambda: ','.join(s)),
            ('str_comma_space', lambda: ', '.join(s)),
            ('str_groups4', lambda: ' '.join(s[i:i + 4] for i in range(0, n, 4))),
        ]
    return out


def snapshot(obj):
    if isinstance(obj, B):
        return ('B', obj.data.copy(), obj.data.dtype)
    if isinstance(obj, np.ndarray):
        return ('A', obj.copy(), obj.dtype)
    return ('O', repr(obj), type(obj))


def same_snapshot(obj, snap):
    kind, val, dt = snap
    if kind == 'B':
        return isinstance(obj, B) and obj.data.dtype == dt and np.array_equal(obj.data, val)
    if kind == 'A':
        return isinstance(obj, np.ndarray) and obj.dtype == dt and np.array_equal(obj, val)
    return repr(obj) == val and type(obj) == dt


def attempt(clause, inp, f):
    try:
        return True, f()
    except Exception as e:  # noqa
        report(clause, inp, f"raised {type(e).__name__}: {str(e)[:90]}")
        return False, None


# =====================================================================
# K1  construction from every accepted form -> 1-D uint8 with the same bits
# =====================================================================
def k1():
    for bits in all_bitlists(12):
        fl = forms(bits) if len(bits) <= 6 or len(bits) == 12 else forms(bits)[:1] + forms(bits)[-5:-4] + forms(bits)[6:8]
        for name, mk in fl:
            src = mk()
            snap = snapshot(src)
            ok, x = attempt('K1 construct', f"{name}:{bits}", lambda: B(src))
            if not ok:
                continue
            if not valid(x):
                report('K1 construct', f"{name}:{bits}", f"invalid stored data {x.data!r}")
            elif bits_of(x) != bits:
                report('K1 construct', f"{name}:{bits}", f"stored {bits_of(x)}")
            if not same_snapshot(src, snap):
                report('K1 construct', f"{name}:{bits}", "source mutated")
            if isinstance(src, np.ndarray) and np.shares_memory(src, x.data):
                report('K1 construct', f"{name}:{bits}", "data aliases the source array")
    # scalars / bools / 0-d
    for v, exp in [(0, 0), (1, 1), (True, 1), (False, 0), (0.0, 0), (1.0, 1), (np.uint8(1), 1), (np.int64(0), 0),
                   (np.bool_(True), 1), (np.bool_(False), 0), (np.float64(1.0), 1), (np.array(1), 1),
                   (np.array(False), 0), ('0', 0), ('1', 1), (np.float32(0), 0)]:
        ok, x = attempt('K1 scalar', repr(v), lambda: B(v))
        if ok and (not valid(x) or bits_of(x) != [exp]):
            report('K1 scalar', repr(v), f"got {x.data!r}")
    # long random
    rng = np.random.default_rng(15)
    for n in (13, 255, 256, 257, 1000, 65537, 300000):
        bits = rng.integers(0, 2, n)
        for name, src in [('arr', bits), ('list', bits.tolist()), ('tuple', tuple(bits.tolist())),
                          ('str', ''.join(map(str, bits.tolist()))), ('bool', bits.astype(bool))]:
            ok, x = attempt('K1 long', f"{name}:n={n}", lambda: B(src))
            if ok and (not valid(x) or not np.array_equal(x.data, bits)):
                report('K1 long', f"{name}:n={n}", "wrong data")


# =====================================================================
# K2  anything else raises ValueError/TypeError
# =====================================================================
def k2():
    bad = [
        ('two', [0, 2]), ('neg', [0, -1]), ('half', [0.5]), ('nan', [np.nan, 1]), ('inf', [np.inf]),
        ('scalar2', 2), ('scalar-1', -1), ('scalar.5', 0.5), ('npnan', np.nan), ('256+1', [257, 1]), ('256', [256]),
        ('-255', [-255]), ('1+1j', [1 + 1j]), ('1j', 1j), ('2d', [[0, 1], [1, 0]]), ('2d_1xn', [[0, 1, 1]]),
        ('2d_nx1', [[0], [1]]), ('2d_arr', np.zeros((2, 3), dtype=np.uint8)), ('3d', np.ones((1, 1, 1))),
        ('2d_empty', np.zeros((0, 2))), ('2d_empty2', np.zeros((2, 0))), ('2d_1x1', [[1]]),
        ('str_2', '102'), ('str_abc', 'abc'), ('str_2rows', '10;01'), ('str_neg', '-1 0'), ('str_.5', '0.5 1'),
        ('str_1j', '1j'), ('str_mixed', '1 0 2'), ('None', None), ('list_None', [None]), ('list_str_x', ['a', 'b']),
        ('dict', {0: 1}), ('1.0000001', [1.0000001]), ('uint8_255', np.array([255], dtype=np.uint8)),
        ('int8_-1', np.array([-1], dtype=np.int8)), ('eps', [np.finfo(float).eps]), ('tiny', [5e-324]),
        ('list 2 in middle', [0, 1] * 5 + [2] + [1, 0] * 5), ('last bad', [0] * 11 + [3]), ('first bad', [3] + [0] * 11),
    ]
    for name, v in bad:
        try:
            x = B(v)
        except (ValueError, TypeError):
            continue
        except Exception as e:
            report('K2 reject', name, f"raised {type(e).__name__} instead of ValueError/TypeError")
            continue
        report('K2 reject', name, f"accepted -> {x.data!r}")
    # rejected concatenation operands must also raise and leave a unchanged
    a = B('1011')
    for name, v in bad:
        if isinstance(v, (str, list, tuple, np.ndarray)):
            for order in ('a+v', 'v+a'):
                before = a.data.copy()
                try:
                    r = (a + v) if order == 'a+v' else (v + a)
                except (ValueError, TypeError):
                    pass
                except Exception as e:
                    report('K2 reject concat', f"{order} {name}", f"raised {type(e).__name__}")
                else:
                    report('K2 reject concat', f"{order} {name}", f"accepted -> {getattr(r, 'data', r)!r}")
                if not np.array_equal(a.data, before):
                    report('K2 reject concat', f"{order} {name}", "operand mutated")


# =====================================================================
# K3  concatenation, both orders, every container
# =====================================================================
def check_concat(abits, bbits, clause, containers=True):
    a = B(abits)
    exp = abits + bbits
    cand = [('B', lambda: B(bbits))]
    if containers:
        cand += forms(bbits)
    for name, mk in cand:
        # a + other
        other = mk()
        sa, so = snapshot(a), snapshot(other)
        tag = f"a={abits} + {name}:{bbits}"
        ok, r = attempt(clause + ' a+other', tag, lambda: a + other)
        if ok:
            if not valid(r):
                report(clause + ' a+other', tag, f"invalid result {getattr(r, 'data', r)!r}")
            else:
                if bits_of(r) != exp:
                    report(clause + ' a+other', tag, f"got {bits_of(r)} expected {exp}")
                if len(r) != len(a) + len(bbits):
                    report(clause + ' len', tag, f"len {len(r)}")
                ok2, pre = attempt(clause + ' prefix', tag, lambda: r[:len(a)])
                if ok2 and not (pre == a):
                    report(clause + ' prefix', tag, f"(a+b)[:len(a)] = {bits_of(pre)}")
                if r is a or np.shares_memory(r.data, a.data) or (isinstance(other, B) and np.shares_memory(r.data, other.data)) \
                        or (isinstance(other, np.ndarray) and np.shares_memory(r.data, other)):
                    report(clause + ' new', tag, "result shares memory with an operand")
        if not same_snapshot(a, sa) or not same_snapshot(other, so):
            report(clause + ' operands unchanged', tag, "operand changed")
        # other + a
        other = mk()
        so = snapshot(other)
        tag = f"{name}:{bbits} + a={abits}"
        ok, r = attempt(clause + ' other+a', tag, lambda: other + a)
        if ok:
            if not valid(r):
                report(clause + ' other+a', tag, f"invalid result {type(r).__name__} {getattr(r, 'data', r)!r}")
            else:
                if bits_of(r) != bbits + abits:
                    report(clause + ' other+a', tag, f"got {bits_of(r)} expected {bbits + abits}")
                if len(r) != len(a) + len(bbits):
                    report(clause + ' len', tag, f"len {len(r)}")
                if not (r[:len(bbits)] == B(bbits)):
                    report(clause + ' prefix', tag, "(b+a)[:len(b)] != b")
                if np.shares_memory(r.data, a.data):
                    report(clause + ' new', tag, "result shares memory with an operand")
        if not same_snapshot(a, sa) or not same_snapshot(other, so):
            report(clause + ' operands unchanged', tag, "operand changed")


def k3():
    small = list(all_bitlists(3))
    for abits in small:
        for bbits in small:
            check_concat(abits, bbits, 'K3 concat')
    rng = np.random.default_rng(3)
    # every bit string up to 12 as left operand against a few right operands (binary_sequence only + str + arr)
    for abits in all_bitlists(12, 4):
        n = int(rng.integers(0, 13))
        bbits = rng.integers(0, 2, n).tolist()
        check_concat(abits, bbits, 'K3 concat', containers=(len(abits) in (4, 12) and rng.random() < 0.05))
    for n, m in [(1000, 1), (1, 1000), (257, 255), (100000, 100001), (65536, 0)]:
        check_concat(rng.integers(0, 2, n).tolist(), rng.integers(0, 2, m).tolist(), 'K3 concat long', containers=False)
    # self concatenation and augmented assignment
    for abits in all_bitlists(5):
        a = B(abits)
        keep = a
        r = a + a
        if not valid(r) or bits_of(r) != abits * 2 or bits_of(a) != abits:
            report('K3 a+a', abits, f"{bits_of(r)}")
        a += a
        if bits_of(keep) != abits:
            report('K3 a+=a mutates', abits, f"{bits_of(keep)}")
        if not valid(a) or bits_of(a) != abits * 2:
            report('K3 a+=a', abits, f"{bits_of(a)}")


# =====================================================================
# K4  inversion, ones/zeros
# =====================================================================
def k4():
    rng = np.random.default_rng(4)
    seqs = list(all_bitlists(12)) + [rng.integers(0, 2, n).tolist() for n in (13, 255, 256, 257, 4097, 70000, 300000)]
    for bits in seqs:
        tag = bits if len(bits) <= 12 else f"random n={len(bits)}"
        a = B(bits)
        before = a.data.copy()
        ok, na = attempt('K4 invert', tag, lambda: ~a)
        if not ok:
            continue
        if not valid(na) or bits_of(na) != [1 - b for b in bits]:
            report('K4 invert', tag, f"~a = {na.data!r}")
            continue
        if na is a or np.shares_memory(na.data, a.data):
            report('K4 invert new', tag, "shares memory")
        nna = ~na
        if not valid(nna) or not (nna == a) or bits_of(nna) != bits:
            report('K4 ~~a==a', tag, f"{nna.data!r}")
        if not np.array_equal(a.data, before) or a.data.dtype != np.uint8:
            report('K4 operand unchanged', tag, "a changed")
        o, z, L = a.ones(), a.zeros(), a.len()
        if not (o + z == L) or L != len(bits) or len(a) != len(bits):
            report('K4 ones+zeros==len', tag, f"ones={o!r} zeros={z!r} len={L!r}")
        if o != sum(bits) or z != len(bits) - sum(bits):
            report('K4 ones/zeros value', tag, f"ones={o!r} zeros={z!r}")
        if not (na.ones() == z) or not (na.zeros() == o):
            report('K4 ones(~a)==zeros(a)', tag, f"ones(~a)={na.ones()!r} zeros(a)={z!r}")
        for v in (o, z, L):
            if float(v) != int(v) or int(v) < 0:
                report('K4 counts integral', tag, f"{v!r}")


# =====================================================================
# K5  indexing / slicing
# =====================================================================
def check_slice(a, bits, sl, clause):
    tag = f"{bits if len(bits) <= 12 else 'n=%d' % len(bits)}[{sl}]"
    before = a.data.copy()
    try:
        exp = bits[sl]
    except IndexError:
        try:
            a[sl]
        except IndexError:
            return
        except Exception as e:
            report(clause, tag, f"raised {type(e).__name__} (IndexError expected)")
            return
        report(clause, tag, "no IndexError for out-of-range index")
        return
    if isinstance(exp, int):
        exp = [exp]
    ok, r = attempt(clause, tag, lambda: a[sl])
    if not ok:
        return
    if not valid(r):
        report(clause, tag, f"invalid result {getattr(r, 'data', r)!r}")
        return
    if bits_of(r) != exp:
        report(clause, tag, f"got {bits_of(r)} expected {exp}")
    if np.shares_memory(r.data, a.data):
        report(clause + ' new', tag, "result is a view of the operand")
    if len(r.data):
        r.data[0] ^= 1
        if not np.array_equal(a.data, before):
            report(clause + ' new', tag, "writing to the result changed the operand")
    if not np.array_equal(a.data, before):
        report(clause + ' operand unchanged', tag, "a changed")


def k5():
    rng = np.random.default_rng(5)
    for bits in all_bitlists(12):
        n = len(bits)
        a = B(bits)
        if n <= 5:
            rngv = [None] + list(range(-n - 2, n + 3))
            steps = [None, 1, 2, 3, -1, -2, -3, n + 1, -(n + 1)]
            for st, sp, step in itertools.product(rngv, rngv, steps):
                check_slice(a, bits, slice(st, sp, step), 'K5 slice')
        else:
            # a sample of slices + corner slices for every string
            corner = [slice(None), slice(0, 0), slice(n, n), slice(0, n), slice(None, -0), slice(-n, None), slice(n - 1, None),
                      slice(None, None, -1), slice(None, 1), slice(-1, None), slice(1, -1), slice(None, None, 2), slice(n, 0, -1),
                      slice(-1, -n - 1, -1), slice(n + 5, None), slice(None, -n - 5)]
            if n in (6, 7, 12) or rng.random() < 0.1:
                for sl in corner:
                    check_slice(a, bits, sl, 'K5 slice')
            for _ in range(2):
                st, sp = (int(v) for v in rng.integers(-n - 2, n + 3, 2))
                step = int(rng.choice([1, 1, 2, -1, -2, 3, -5]))
                check_slice(a, bits, slice(st, sp, step), 'K5 slice')
        if n <= 6 or n == 12:
            for i in range(-n - 1, n + 1):
                check_slice(a, bits, i, 'K5 index')
            for i in (np.int64(0), np.int32(-1), np.uint8(n - 1 if n else 0)):
                check_slice(a, bits, int(i), 'K5 index')
                try:
                    exp = [bits[int(i)]]
                except IndexError:
                    continue
                ok, r = attempt('K5 index numpy int', f"{bits}[{i!r}]", lambda: a[i])
                if ok and (not valid(r) or bits_of(r) != exp):
                    report('K5 index numpy int', f"{bits}[{i!r}]", f"{getattr(r, 'data', r)!r}")
    for n in (13, 256, 257, 100003):
        bits = rng.integers(0, 2, n).tolist()
        a = B(bits)
        for sl in [slice(None), slice(0, 0), slice(1, None), slice(None, -1), slice(None, None, -1), slice(n // 2, None, 7),
                   slice(-3, None), slice(None, 3), slice(n - 1, n), slice(n, n + 1), slice(None, None, n - 1), slice(None, -0)]:
            check_slice(a, bits, sl, 'K5 slice long')
        for i in (0, 1, n - 1, -1, -n, n // 2):
            check_slice(a, bits, i, 'K5 index long')


# =====================================================================
# K7  random expressions over +, ~ and slicing against a list model
# =====================================================================
def k7():
    rng = np.random.default_rng(7)

    def rand_leaf():
        n = int(rng.choice([0, 1, 1, 2, 3, 5, 8, 12]))
        return rng.integers(0, 2, n).tolist()

    def build(depth):
        """returns (callable producing B, model list, description, leaves)"""
        if depth == 0 or rng.random() < 0.2:
            bits = rand_leaf()
            obj = B(bits)
            return obj, bits, f"B({bits})", [(obj, list(bits))]
        op = rng.choice(['+', '~', '[]', '+c', 'c+'])
        x, mx, dx, lx = build(depth - 1)
        if op == '~':
            return ~x, [1 - b for b in mx], f"~({dx})", lx
        if op == '[]':
            n = len(mx)
            st = None if rng.random() < 0.2 else int(rng.integers(-n - 1, n + 2))
            sp = None if rng.random() < 0.2 else int(rng.integers(-n - 1, n + 2))
            step = int(rng.choice([1, 1, 1, 2, -1, -2, 3]))
            if rng.random() < 0.5:
                step = None
            sl = slice(st, sp, step)
            return x[sl], mx[sl], f"({dx})[{st}:{sp}:{step}]", lx
        if op == '+':
            y, my, dy, ly = build(depth - 1)
            return x + y, mx + my, f"({dx})+({dy})", lx + ly
        bits = rand_leaf()
        fl = forms(bits)
        name, mk = fl[int(rng.integers(0, len(fl)))]
        if name.startswith('arr') and op == 'c+':
            name, mk = 'list_int', (lambda b=bits: list(b))   # ndarray on the left is audited separately in K3
        if op == '+c':
            return x + mk(), mx + bits, f"({dx})+{name}:{bits}", lx
        return mk() + x, bits + mx, f"{name}:{bits}+({dx})", lx

    for it in range(3000):
        try:
            r, model, desc, leaves = build(int(rng.integers(1, 6)))
        except Exception as e:
            report('K7 expression', f"iteration {it}", f"raised {type(e).__name__}: {str(e)[:90]}")
            continue
        if not valid(r) or bits_of(r) != model:
            report('K7 expression', desc, f"got {getattr(r, 'data', r)!r} expected {model}")
        for obj, bits in leaves:
            if not valid(obj) or bits_of(obj) != bits:
                report('K7 leaves unchanged', desc, f"leaf {bits} became {obj.data!r}")


# =====================================================================
# K8  electrical_signal > / < threshold
# =====================================================================
def k8():
    rng = np.random.default_rng(8)

    def thr_forms(thr):
        thr = np.atleast_1d(np.asarray(thr))
        out = [('arr', thr), ('list', thr.tolist()), ('tuple', tuple(thr.tolist()))]
        if thr.size == 1:
            v = thr[0]
            out += [('pyscalar', v.item()), ('npscalar', v), ('0d', np.array(v))]
        return out

    def check(sig, noise, thr, exact, tag):
        n = len(sig)
        for tname, t in thr_forms(thr):
            for opname in ('>', '<'):
                x = E(sig) if noise is None else E(sig, noise)
                s0 = x.signal.copy()
                n0 = None if noise is None else x.noise.copy()
                full = f"{tag} {opname} {tname}:{np.asarray(thr).tolist() if np.size(thr) <= 6 else 'array'}"
                ok, r = attempt('K8 compare', full, (lambda: x > t) if opname == '>' else (lambda: x < t))
                if not ok:
                    continue
                if not valid(r):
                    report('K8 valid', full, f"{getattr(r, 'data', r)!r}")
                    continue
                if len(r) != n:
                    report('K8 same length', full, f"len {len(r)} != {n}")
                    continue
                if exact is not None:
                    z = np.asarray(sig) if noise is None else (x.signal + x.noise)
                    tt = np.asarray(thr)
                    e = (z > tt) if opname == '>' else (z < tt)
                    e = np.broadcast_to(e, (n,)).astype(np.uint8)
                    if not np.array_equal(r.data, e):
                        report(exact, full, f"sig={np.asarray(sig).tolist()[:6]} noise={None if noise is None else np.asarray(noise).tolist()[:6]} got {r.data.tolist()[:12]} expected {e.tolist()[:12]}")
                if not np.array_equal(x.signal, s0, equal_nan=True) or (n0 is not None and not np.array_equal(x.noise, n0, equal_nan=True)):
                    report('K8 operand unchanged', full, "signal/noise changed")

    NN = 'K8 nonneg real == elementwise (signal+noise >= 0)'
    # systematic corners: lengths 1,2,3,odd; equality at the boundary; int and float dtypes
    grid = [0, 0.0, 0.5, 1, 1.0, 2, 3.5]
    for n in (1, 2, 3, 5):
        for sig in itertools.islice(itertools.product(grid, repeat=n), 0, None, max(1, len(grid) ** n // 60)):
            sig = list(sig)
            for thr in (0, 0.0, 0.5, 1, 1.0, 2, np.float32(0.5), True):
                check(sig, None, thr, NN, f"sig={sig}")
            check(sig, None, sig, NN, f"sig={sig} thr=self")
            check(sig, None, [s + 0.5 * (i % 2) for i, s in enumerate(sig)], NN, f"sig={sig} thr=alt")
            check(sig, None, [1.0], NN, f"sig={sig} thr=[1.0]")
            check(sig, [0.25] * n, 1.25, NN, f"sig={sig} noise=.25")
            check(sig, [0] * n, 1, NN, f"sig={sig} noise=0")
    for dt in (np.uint8, np.int8, np.int32, np.int64, np.float32, np.float64, bool):
        sig = np.array([0, 1, 1, 0, 1], dtype=dt)
        check(sig, None, 0.5, NN, f"dtype={np.dtype(dt).name}")
        check(sig, None, np.array([0, 1, 0, 1, 1], dtype=dt), NN, f"dtype={np.dtype(dt).name} arr-thr")
    # sampled: non-negative signal, noise such that signal+noise stays >= 0 (noise may be negative)
    for seed in range(40):
        r = np.random.default_rng(1000 + seed)
        n = int(r.choice([1, 2, 3, 7, 64, 1001]))
        sig = r.uniform(0, 2, n)
        noise = r.normal(0, 0.3, n)
        noise = np.maximum(noise, -sig)          # keeps signal+noise >= 0
        thr = float(r.uniform(0, 2))
        check(sig, None, thr, NN, f"seed={seed} n={n} no-noise")
        check(sig, noise, thr, NN, f"seed={seed} n={n} noise")
        check(sig, noise, r.uniform(0, 2, n), NN, f"seed={seed} n={n} noise arr-thr")
        check(sig, noise, sig + noise, NN, f"seed={seed} n={n} thr==signal+noise")
        check(sig, np.zeros(n), sig, NN, f"seed={seed} n={n} thr==signal")
    # non-negative signal and threshold, real noise of either sign (signal+noise may be negative)
    NB = 'K8 nonneg real signal, real noise of either sign == elementwise'
    for seed in range(6):
        r = np.random.default_rng(2000 + seed)
        n = int(r.choice([1, 3, 64]))
        sig = r.integers(0, 2, n).astype(float)
        noise = r.normal(0, 0.8, n)
        check(sig, noise, 0.5, NB, f"seed={seed} n={n} on-off + gaussian noise")
    check([0.1], [-0.5], 0.3, NB, "sig=[0.1] noise=[-0.5]")
    # validity + same length for general real / complex signals and thresholds (no value claim)
    for seed in range(40):
        r = np.random.default_rng(3000 + seed)
        n = int(r.choice([1, 2, 3, 9, 500]))
        cs = r.normal(size=n) + 1j * r.normal(size=n)
        rs = r.normal(size=n)
        for sig, noise in [(cs, None), (cs, r.normal(size=n) + 1j * r.normal(size=n)), (rs, None), (rs, r.normal(size=n)),
                           (rs, 1j * r.normal(size=n))]:
            for thr in (0, -1.0, 0.7, 1 + 1j, -2j, r.normal(size=n), r.normal(size=n) + 1j * r.normal(size=n), [0.3], np.nan, np.inf):
                check(sig, noise, thr, None, f"seed={seed} n={n} general")
    check([np.nan, np.inf, -np.inf, 0.0, -0.0], None, 0.0, None, "nan/inf signal")
    check([np.nan, 1.0], [np.nan, np.nan], [1.0, np.nan], None, "nan noise")
    # mismatched lengths must raise (never a wrong-length sequence)
    for sn, tn in [(1, 3), (3, 2), (2, 3), (5, 4)]:
        for op in ('>', '<'):
            x = E(np.ones(sn))
            try:
                r_ = (x > np.ones(tn)) if op == '>' else (x < np.ones(tn))
            except (ValueError, TypeError):
                continue
            except Exception as e:
                report('K8 length mismatch', f"{sn} {op} {tn}", f"raised {type(e).__name__}")
                continue
            if not valid(r_) or len(r_) != sn:
                report('K8 same length', f"{sn} {op} {tn}", f"returned {getattr(r_, 'data', r_)!r}")


for f in (k1, k2, k3, k4, k5, k7, k8):
    try:
        f()
    except Exception as e:  # an audit-script crash must be visible
        import traceback
        traceback.print_exc()
        report('AUDIT ' + f.__name__, '-', f"audit block crashed: {type(e).__name__}: {e}")

if viol:
    print()
    for c, lst in viol.items():
        print(f"  {len(lst):6d} violation(s) of clause: {c}")
    print("FAIL")
    sys.exit(1)
print("PASS")
sys.exit(0)
