# C15: "Concatenation (+ in both orders, with any accepted container)" -- a numpy array is an accepted
# container (a + arr works), but arr + a never reaches binary_sequence.__radd__.
import sys
import numpy as np
from opticomlib.typing import binary_sequence

a = binary_sequence('1011')
arr = np.array([1, 0], dtype=np.uint8)
print('a + arr  ->', (a + arr).data)                      # fine: [1 0 1 1 1 0]
try:
    r = arr + a
except Exception as e:
    print('arr + a  -> raised %s: %s' % (type(e).__name__, e))
    print('expected binary_sequence([1 0 1 0 1 1])')
    sys.exit(1)
ok = isinstance(r, binary_sequence) and r.data.tolist() == [1, 0, 1, 0, 1, 1]
print('arr + a  ->', repr(r), 'OK' if ok else 'expected binary_sequence([1 0 1 0 1 1])')
# empty operands do not even raise: np.array([]) + binary_sequence([]) is a float64 ndarray
sys.exit(0 if ok else 1)
