# C15: "for non-negative real signals and thresholds, equals the element-wise comparison of
# signal+noise with the threshold" -- signal >= 0, threshold >= 0, real noise of either sign.
import sys
import numpy as np
from opticomlib.typing import electrical_signal

x = electrical_signal([0.0, 1.0, 0.0], noise=[-0.9, 0.1, 0.2])   # a '0' slot with noise -0.9
thr = 0.5
z = x.signal + x.noise
got_gt, got_lt = (x > thr).data, (x < thr).data
exp_gt, exp_lt = (z > thr).astype(np.uint8), (z < thr).astype(np.uint8)
print('signal+noise =', z, 'threshold =', thr)
print('x > thr : got', got_gt, 'expected', exp_gt)
print('x < thr : got', got_lt, 'expected', exp_lt)
sys.exit(0 if (np.array_equal(got_gt, exp_gt) and np.array_equal(got_lt, exp_lt)) else 1)
