"""Audit of property C16 (FBG is a passive reflector matching coupled-mode closed forms).

Prints one line per violated (clause, input); exits 1 if any clause is violated,
prints PASS and exits 0 otherwise.
"""
import sys
del sys.path[0]

import io
import contextlib
import functools
import itertools
import time
import warnings

import numpy as np
from scipy.constants import c, pi
from scipy.integrate import quad

warnings.simplefilter("ignore")

from opticomlib import gv, optical_signal  # noqa: E402
from opticomlib.devices import FBG  # noqa: E402

NEFF = 1.45
TOL_H = 1e-3       # |H| <= 1 "within the ODE solver's tolerance" (solve_ivp default rtol = 1e-3)
TOL_BRAGG = 1e-2   # reflectivity at Bragg frequency vs tanh^2 (worst seen on sound inputs ~2e-3)
TOL_SPEC = 2e-2    # uniform spectrum vs closed form (worst seen ~5e-3 at the steep band edge, kL = 8)
TOL_ROUTE = 1e-6   # same grating specified in a different way
TOL_FILT = 1e-10   # "exactly the input filtered by H" (FFT round-off only)

violations = []


def report(clause, desc, msg):
    line = f"VIOLATION [{clause}] {desc}: {msg}"
    violations.append(line)
    print(line, flush=True)


def fbg(x, **kw):
    kw.setdefault("print_params", False)
    kw.setdefault("retH", True)
    return FBG(x, **kw)


def set_fs(fs):
    gv(fs=fs, sps=16)


def make_input(rng, n, npol, kind="complex"):
    shape = n if npol == 1 else (2, n)
    if kind == "complex":
        return optical_signal(rng.normal(size=shape) + 1j * rng.normal(size=shape))
    if kind == "real":
        return optical_signal(rng.normal(size=shape))
    if kind == "int":
        return optical_signal(rng.integers(0, 3, size=shape))
    if kind == "list":
        return optical_signal(rng.normal(size=shape).tolist())
    raise ValueError(kind)


# ---- apodisation profiles (as implemented / as documented) -------------------------------
BUILTIN = {
    "uniform": lambda z: 1.0 + 0 * z,
    "rcos": lambda z: 0.5 * (1 + np.cos(2 * pi * z)),     # Erdogan raised cosine: rcos(z, alpha=1, T=2)
    "gaussian": lambda z: np.exp(-4 * np.log(2) * (3 * z) ** 2),
    "parabolic": lambda z: 1 - (2 * z) ** 2,
}


def integral(f):
    return quad(lambda z: float(np.asarray(f(z)).ravel()[0]), -0.5, 0.5, limit=200)[0]


class CallableObj:
    """plain callable object"""
    def __init__(self, a):
        self.a = a

    def __call__(self, z):
        return self.a * (1 + 0.3 * np.cos(3 * z))


class SizedCallable(CallableObj):
    """callable object that also has a length (like np.poly1d): len 0 -> falsy"""
    def __len__(self):
        return 0


def _pfun(z, a, b):
    return a + b * z ** 2


def fixed_callables():
    return [
        ("lambda const 0.5", lambda z: 0.5),
        ("lambda exp(z)", lambda z: np.exp(z)),
        ("np.poly1d([0.5]) (constant)", np.poly1d([0.5])),
        ("np.poly1d([-1,0,1])", np.poly1d([-1.0, 0.0, 1.0])),
        ("np.polynomial.Polynomial([0.5])", np.polynomial.Polynomial([0.5])),
        ("np.vectorize(const 0.5)", np.vectorize(lambda z: 0.5)),
        ("functools.partial", functools.partial(_pfun, a=0.4, b=1.0)),
        ("callable object", CallableObj(0.6)),
        ("callable object with __len__ == 0", SizedCallable(0.6)),
        ("np.cosh ufunc", np.cosh),
    ]


def random_callable(rng):
    a = rng.uniform(0.05, 1.5, size=4)
    ph = rng.uniform(0, 2 * pi, size=2)

    def f(z, a=a, ph=ph):
        return (a[0] + 0.3 * a[1] * np.sin(2 * pi * z + ph[0]) ** 2
                + 0.3 * a[2] * np.cos(5 * z + ph[1]) ** 2) * np.exp(-a[3] * z ** 2)
    return f


# ---- the per-call checks (clauses A, B, C, D, E) -------------------------------------------
def closed_form_uniform(x, kL, vd):
    f = x.w(shift=True) / 2 / pi
    lam = c / (f + gv.f0)
    lD = c / gv.f0
    L = kL / (pi * vd / lD)
    d = 2 * pi * NEFF * (1 / lam - 1 / lD) * L
    k = pi * vd / lam * L          # coupling coefficient at each wavelength (= kL at the Bragg wavelength)
    g = np.sqrt((k ** 2 - d ** 2).astype(complex))
    return (np.sinh(g) ** 2 / (np.cosh(g) ** 2 - d ** 2 / k ** 2)).real


def check_call(x, desc, kL, vd, F, apo, apo_name, profile=None, filtfilt=True):
    try:
        y, H = fbg(x, fc=gv.f0, vdneff=vd, kL=kL, F=F, apodization=apo, filtfilt=filtfilt)
    except Exception as e:  # a valid design must not raise
        report("A valid design computes", desc, f"raised {e!r}")
        return None
    n = x.len()
    if H.shape != (n,) or not np.isfinite(H).all():
        report("A |H|<=1", desc, f"H has shape {H.shape} / non-finite entries")
        return None
    a = np.abs(H).max()
    if a > 1 + TOL_H:
        report("A |H|<=1", desc, f"max|H| = {a:.6f}")
    # B: output is the input filtered by H in every polarisation
    sig = np.asarray(x.signal)
    ref = np.fft.ifft(np.fft.fft(sig, axis=-1) * np.fft.ifftshift(H), axis=-1)
    out = np.asarray(y.signal)
    if out.shape != sig.shape:
        report("B output = input filtered by H", desc, f"output shape {out.shape} != input shape {sig.shape}")
    else:
        err = np.abs(out - ref).max() / max(np.abs(ref).max(), 1e-300)
        if err > TOL_FILT:
            report("B output = input filtered by H", desc, f"relative deviation {err:.3e}")
        # C: energy per polarisation
        Ein = np.sum(np.abs(sig) ** 2, axis=-1)
        Eout = np.sum(np.abs(out) ** 2, axis=-1)
        if np.any(Eout > Ein * (1 + 2 * TOL_H) + 1e-300):
            report("C energy", desc, f"Eout/Ein = {Eout / Ein}")
    # D: Bragg reflectivity
    if F == 0 and profile is not None:
        I = integral(profile)
        got = np.abs(H[n // 2]) ** 2
        exp = np.tanh(kL * I) ** 2
        if abs(got - exp) > TOL_BRAGG:
            report("D Bragg reflectivity = tanh^2(kL*int p)", desc,
                   f"expected {exp:.6f} (integral {I:.4f}), got {got:.6f}")
    # E: uniform spectrum
    if F == 0 and apo_name == "uniform":
        Rcf = closed_form_uniform(x, kL, vd)
        e = np.abs(np.abs(H) ** 2 - Rcf).max()
        if e > TOL_SPEC:
            i = int(np.argmax(np.abs(np.abs(H) ** 2 - Rcf)))
            report("E uniform spectrum closed form", desc,
                   f"max |R - R_cf| = {e:.4f} at bin {i} (R={np.abs(H[i])**2:.4f}, R_cf={Rcf[i]:.4f})")
    return y, H


def run_numeric(deadline):
    rng = np.random.default_rng(16)
    # --- systematic corners -------------------------------------------------------------
    for fs in (20e9, 400e9):
        set_fs(fs)
        for n, npol in ((2 ** 8, 1), (2 ** 8, 2), (2 ** 12, 1)):
            x = make_input(rng, n, npol)
            for kL in (0.1, 8):
                for vd in (1e-5, 1e-3):
                    if n == 2 ** 12 and fs == 400e9 and vd == 1e-5:
                        Fs = (0,)            # ~5 s per call: keep one
                    else:
                        Fs = (-20, 0, 20)
                    for F in Fs:
                        for name, prof in BUILTIN.items():
                            if n == 2 ** 12 and name in ("rcos", "parabolic"):
                                continue
                            desc = f"fs={fs:.0e} n={n} npol={npol} kL={kL} vdneff={vd:.0e} F={F} apod={name!r}"
                            check_call(x, desc, kL, vd, F, name, name, prof)
    # integer / numpy-scalar arguments, odd containers, filtfilt off
    set_fs(100e9)
    for kind in ("real", "int", "list"):
        for npol in (1, 2):
            x = make_input(rng, 2 ** 9, npol, kind)
            for filt in (True, False):
                desc = f"fs=1e11 n=512 npol={npol} input={kind} kL=8(int) vdneff=np.float64(1e-4) F=np.int64(20) filtfilt={filt}"
                check_call(x, desc, 8, np.float64(1e-4), np.int64(20), "gaussian", "gaussian", None, filt)
                desc = f"fs=1e11 n=512 npol={npol} input={kind} kL=1(int) vdneff=1e-4 F=0 filtfilt={filt}"
                check_call(x, desc, 1, 1e-4, 0, "uniform", "uniform", BUILTIN["uniform"], filt)
    # --- user callables --------------------------------------------------------------------
    x = make_input(rng, 2 ** 8, 1)
    for fs in (20e9, 400e9):
        set_fs(fs)
        for kL in (0.1, 2.0, 8):
            for vd in (1e-5, 1e-3):
                for cname, f in fixed_callables():
                    for F in (0, 20):
                        desc = f"fs={fs:.0e} n=256 kL={kL} vdneff={vd:.0e} F={F} apod=callable[{cname}]"
                        check_call(x, desc, kL, vd, F, f, "callable", f)
    # --- random sampling ---------------------------------------------------------------------
    k = 0
    while time.time() < deadline:
        k += 1
        fs = float(rng.choice([20e9, 400e9, 10 ** rng.uniform(np.log10(20e9), np.log10(400e9))]))
        set_fs(fs)
        n = int(2 ** rng.integers(8, 13))
        kL = float(rng.choice([0.1, 8, rng.uniform(0.1, 8)]))
        vd = float(rng.choice([1e-5, 1e-3, 10 ** rng.uniform(-5, -3)]))
        if fs / 1e9 / (vd * 1e5) > 100 and n > 1024:
            n = 1024   # keep the stiff cases cheap
        F = float(rng.choice([0, 0, -20, 20, rng.uniform(-20, 20)]))
        npol = int(rng.integers(1, 3))
        x = make_input(rng, n, npol)
        if rng.random() < 0.5:
            name = str(rng.choice(list(BUILTIN)))
            apo, prof = name, BUILTIN[name]
        else:
            name = "callable"
            apo = prof = random_callable(rng)
        desc = f"random#{k} fs={fs:.4g} n={n} npol={npol} kL={kL:.4g} vdneff={vd:.4g} F={F:.4g} apod={name}"
        check_call(x, desc, kL, vd, F, apo, name, prof)
    return k


# ---- B (continued): return paths, noise-carrying input, purity ------------------------------
def run_paths():
    rng = np.random.default_rng(161)
    set_fs(100e9)
    for npol in (1, 2):
        n = 2 ** 8
        x = make_input(rng, n, npol)
        sig0 = np.array(x.signal, copy=True)
        kw = dict(fc=gv.f0, vdneff=1e-4, kL=3.0, F=5.0, apodization="gaussian", print_params=False)
        y1, H1 = FBG(x, retH=True, **kw)
        y2 = FBG(x, retH=False, **kw)
        y3, H3 = FBG(x, retH=True, **kw)
        desc = f"fs=1e11 n=256 npol={npol} kL=3 vdneff=1e-4 F=5 gaussian"
        if not np.array_equal(sig0, x.signal):
            report("B input untouched", desc, "FBG modified its input signal")
        if not (np.array_equal(y1.signal, y2.signal) and np.array_equal(y1.signal, y3.signal)
                and np.array_equal(H1, H3)):
            report("B repeated calls / retH paths agree", desc, "outputs differ between calls")
        # default print path must not fail either
        try:
            with contextlib.redirect_stdout(io.StringIO()):
                y4 = FBG(x, fc=gv.f0, vdneff=1e-4, kL=3.0, F=5.0, apodization="gaussian")
            if not np.array_equal(y4.signal, y1.signal):
                report("B repeated calls / retH paths agree", desc, "print_params=True output differs")
        except Exception as e:
            report("A valid design computes", desc + " print_params=True", f"raised {e!r}")

        # input that carries a noise component: the field is signal + noise
        shape = n if npol == 1 else (2, n)
        s = rng.normal(size=shape) + 1j * rng.normal(size=shape)
        w = 0.1 * (rng.normal(size=shape) + 1j * rng.normal(size=shape))
        xn = optical_signal(s, w)
        y, H = FBG(xn, retH=True, **kw)
        total_out = np.asarray(y.signal) + (0 if y.noise is None else np.asarray(y.noise))
        ref = np.fft.ifft(np.fft.fft(s + w, axis=-1) * np.fft.ifftshift(H), axis=-1)
        err = np.abs(total_out - ref).max() / np.abs(ref).max()
        if err > TOL_FILT:
            report("B output = input filtered by H (input with noise component)", desc,
                   f"output field deviates from H-filtered input field by {err:.3e} "
                   f"(output.noise is {'None' if y.noise is None else 'set'})")


# ---- F: equivalent specifications -----------------------------------------------------------
def run_routes():
    rng = np.random.default_rng(162)
    cases = []
    for fs in (20e9, 400e9):
        for vd in (1e-5, 1e-4, 1e-3):
            for kL in (0.1, 1.0, 8.0):
                for F, apo in ((0, "uniform"), (-20, "gaussian")):
                    cases.append((fs, vd, kL, F, apo))
    for _ in range(15):
        cases.append((float(10 ** rng.uniform(np.log10(20e9), np.log10(400e9))), float(10 ** rng.uniform(-5, -3)),
                      float(rng.uniform(0.1, 8)), float(rng.uniform(-20, 20)),
                      str(rng.choice(list(BUILTIN)))))
    for fs, vd, kL, F, apo in cases:
        set_fs(fs)
        x = make_input(rng, 2 ** 8, 1)
        lD = c / gv.f0
        L = kL / (pi * vd / lD)
        Np = L / (lD / (2 * NEFF))
        res = {}
        for cname, ckw in (("fc", dict(fc=gv.f0)), ("landa_D", dict(landa_D=lD))):
            for lname, lkw in (("kL", dict(kL=kL)), ("L", dict(L=L)), ("N", dict(N=Np))):
                desc = f"fs={fs:.4g} vdneff={vd:.4g} kL={kL:.4g} F={F:.4g} apod={apo} route=({cname},{lname})"
                try:
                    res[cname, lname] = fbg(x, vdneff=vd, F=F, apodization=apo, **ckw, **lkw)
                except Exception as e:
                    report("F equivalent specifications", desc, f"raised {e!r}")
        ref = res.get(("fc", "kL"))
        if ref is None:
            continue
        for key, (y, H) in res.items():
            dH = np.abs(H - ref[1]).max()
            dy = np.abs(y.signal - ref[0].signal).max() / np.abs(ref[0].signal).max()
            if dH > TOL_ROUTE or dy > TOL_ROUTE:
                report("F equivalent specifications",
                       f"fs={fs:.4g} vdneff={vd:.4g} kL={kL:.4g} F={F:.4g} apod={apo} route={key}",
                       f"max|dH| = {dH:.3e}, output deviation {dy:.3e} vs route (fc,kL)")
    # integer period counts (python int, numpy int, float)
    set_fs(100e9)
    x = make_input(rng, 2 ** 8, 1)
    lD = c / gv.f0
    for vd, Ni in ((1e-3, 100), (1e-4, 10000), (1e-4, np.int64(60000)), (1e-5, 700000), (1e-3, 93), (1e-5, 738000)):
        L = int(Ni) * lD / (2 * NEFF)
        kL = pi * vd / lD * L
        assert 0.1 <= kL <= 8, kL
        Hs = {}
        for nm, kw in (("N int", dict(N=Ni)), ("N float", dict(N=float(Ni))), ("L", dict(L=L)), ("kL", dict(kL=kL)),
                       ("landa_D+N", dict(N=Ni))):
            ckw = dict(landa_D=lD) if nm == "landa_D+N" else dict(fc=gv.f0)
            try:
                Hs[nm] = fbg(x, vdneff=vd, **ckw, **kw)[1]
            except Exception as e:
                report("F equivalent specifications", f"vdneff={vd} N={Ni!r} route={nm}", f"raised {e!r}")
        for nm, H in Hs.items():
            d = np.abs(H - Hs["L"]).max()
            if d > TOL_ROUTE:
                report("F equivalent specifications", f"vdneff={vd} N={Ni!r} (kL={kL:.4g}) route={nm}",
                       f"max|dH| = {d:.3e} vs route L")
        got = np.abs(Hs["N int"][len(x.signal) // 2]) ** 2 if "N int" in Hs else None
        if got is not None and abs(got - np.tanh(kL) ** 2) > TOL_BRAGG:
            report("D Bragg reflectivity = tanh^2(kL*int p)", f"vdneff={vd} N={Ni!r}",
                   f"expected {np.tanh(kL)**2:.6f}, got {got:.6f}")


# ---- G: incomplete specifications raise ValueError -------------------------------------------
def is_complete(keys):
    keys = set(keys)
    length = keys & {"kL", "L", "N"}
    index = keys & {"dneff", "vdneff"}
    if "fc" in keys:
        return bool(index and length)
    if "landa_D" in keys:
        if index:
            return bool(length)
        return "kL" in keys and bool(keys & {"L", "N"})
    return False


def run_incomplete():
    set_fs(100e9)
    rng = np.random.default_rng(163)
    for npol in (1, 2):
        x = make_input(rng, 2 ** 8, npol)
        lD = c / gv.f0
        vd = 1e-4
        kL = 2.0
        L = kL / (pi * vd / lD)
        vals = dict(fc=gv.f0, landa_D=lD, kL=kL, L=L, N=L / (lD / (2 * NEFF)), dneff=vd, vdneff=vd)
        names = list(vals)
        for r in range(len(names) + 1):
            for keys in itertools.combinations(names, r):
                kw = {k: vals[k] for k in keys}
                for extra in (dict(), dict(apodization="gaussian", F=3.0)):
                    desc = f"npol={npol} given={list(keys)} extra={extra}"
                    try:
                        fbg(x, **kw, **extra)
                        raised = None
                    except ValueError:
                        raised = ValueError
                    except Exception as e:
                        raised = e
                    if is_complete(keys):
                        if raised is not None:
                            report("G complete specification accepted", desc, f"raised {raised!r}")
                    else:
                        if raised is None:
                            report("G incomplete specification raises ValueError", desc, "no exception")
                        elif raised is not ValueError:
                            report("G incomplete specification raises ValueError", desc, f"raised {raised!r} instead")
        # incomplete via explicit None / positional defaults
        for kw in (dict(fc=gv.f0, vdneff=vd, kL=None, L=None, N=None), dict(fc=None, landa_D=None, vdneff=vd, kL=kL)):
            try:
                fbg(x, **kw)
                report("G incomplete specification raises ValueError", f"npol={npol} {kw}", "no exception")
            except ValueError:
                pass
            except Exception as e:
                report("G incomplete specification raises ValueError", f"npol={npol} {kw}", f"raised {e!r} instead")


def main():
    t0 = time.time()
    run_incomplete()
    run_routes()
    run_paths()
    k = run_numeric(deadline=t0 + 600)
    print(f"# random cases run: {k}; elapsed {time.time() - t0:.0f} s")
    if violations:
        print(f"FAIL: {len(violations)} violation line(s)")
        sys.exit(1)
    print("PASS")
    sys.exit(0)


if __name__ == "__main__":
    main()
