# C16: "reflectivity at the Bragg frequency equals tanh^2(kL*integral of the apodisation profile)
# for any apodisation (built-in or user callable)".  A user callable that is falsy (has __len__ == 0,
# e.g. the constant polynomial np.poly1d([0.5])) is silently ignored: FBG tests `if apo_func:`.
import sys; del sys.path[0]
import numpy as np, warnings; warnings.simplefilter("ignore")
from opticomlib import gv, optical_signal
from opticomlib.devices import FBG
gv(fs=100e9, sps=16)
x = optical_signal(np.ones(2**8))
kL, p = 2.0, np.poly1d([0.5])                       # p(z) = 0.5 on [-0.5, 0.5]: smooth, positive, callable
_, H1 = FBG(x, fc=gv.f0, vdneff=1e-4, kL=kL, apodization=p, retH=True, print_params=False)
_, H2 = FBG(x, fc=gv.f0, vdneff=1e-4, kL=kL, apodization=lambda z: 0.5, retH=True, print_params=False)
got, same, exp = abs(H1[128])**2, abs(H2[128])**2, np.tanh(kL*0.5)**2
print(f"expected R(Bragg) = tanh^2(kL*0.5) = {exp:.6f}; lambda z: 0.5 gives {same:.6f}; np.poly1d([0.5]) gives {got:.6f}"
      f" (= tanh^2(kL) = {np.tanh(kL)**2:.6f}, profile ignored)")
sys.exit(1 if abs(got - exp) > 1e-2 else 0)
