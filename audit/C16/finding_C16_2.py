# C16: "the output field is exactly the input filtered by H in every polarisation".
# An optical_signal carries its field in two parts, .signal and .noise (BPF, DM, EDFA, MZM ... propagate
# both).  FBG filters only .signal and silently drops .noise, so the output field is not H * input field.
import sys; del sys.path[0]
import numpy as np, warnings; warnings.simplefilter("ignore")
from opticomlib import gv, optical_signal
from opticomlib.devices import FBG
gv(fs=100e9, sps=16)
rng = np.random.default_rng(0); n = 2**8
s = rng.normal(size=(2, n)) + 1j*rng.normal(size=(2, n)); w = 0.1*(rng.normal(size=(2, n)) + 1j*rng.normal(size=(2, n)))
y, H = FBG(optical_signal(s, w), fc=gv.f0, vdneff=1e-4, kL=3.0, retH=True, print_params=False)
out = y.signal + (0 if y.noise is None else y.noise)
ref = np.fft.ifft(np.fft.fft(s + w, axis=-1)*np.fft.ifftshift(H), axis=-1)
err = np.abs(out - ref).max()/np.abs(ref).max()
print(f"expected output field = ifft(fft(signal+noise)*H) with a filtered noise part; got output.noise = {y.noise}, "
      f"relative deviation of the output field {err:.3e}")
sys.exit(1 if (y.noise is None or err > 1e-10) else 0)
