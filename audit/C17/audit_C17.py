"""Audit of property C17 (GET_EYE recovers the levels of a clean two-level signal in any unit).

Prints one line per violated (clause, input); exit 1 if any in-domain clause is violated, else PASS / exit 0.
Two families of inputs that are NOT among the quantified variables are reported as NOTE lines and only count
when AUDIT_C17_WIDE=1 is set: structured (non random, non PRBS) patterns, and a causal band-limiting filter
whose group delay is about half a slot.
"""
import sys, os
del sys.path[0]
import warnings
import numpy as np

warnings.simplefilter("ignore")

from opticomlib import gv, electrical_signal
from opticomlib.devices import GET_EYE, LPF, PRBS, DAC

SPS_RESAMP = 128
VIOL = []
NOTES = []


def clean(bits, sps, bwf):
    """unit two-level NRZ (0/1), zero-phase Bessel band-limiting at bwf*R (mild: >= 0.75 R)"""
    gv(sps=sps, R=1e9)
    x = np.kron(np.asarray(bits), np.ones(sps)).astype(float)
    return LPF(x, bwf * 1e9).signal.real


def wave(bits, sps, a, b, sf, bwf, rng):
    x = a + (b - a) * clean(bits, sps, bwf)
    return x + rng.normal(0, sf * (b - a), x.size)


def run(x, seed, sps_resamp=SPS_RESAMP):
    np.random.seed(seed)
    return GET_EYE(x, sps_resamp=sps_resamp)


def clauses(e, a, b, sigma, sps):
    """return list of (clause, detail) violated by eye `e` for levels a<b, noise sigma"""
    d = b - a
    bad = []
    names = ["mu0", "mu1", "s0", "s1", "threshold", "t_left", "t_right", "t_opt", "i"]
    for nm in names:
        v = getattr(e, nm, None)
        if v is None or not np.isfinite(v):
            bad.append(("finite", "%s=%r" % (nm, v)))
    if bad:
        return bad
    if not abs(e.mu0 - a) <= 0.08 * d:
        bad.append(("mu0", "(mu0-a)/(b-a)=%.4g" % ((e.mu0 - a) / d)))
    if not abs(e.mu1 - b) <= 0.08 * d:
        bad.append(("mu1", "(mu1-b)/(b-a)=%.4g" % ((e.mu1 - b) / d)))
    for nm in ("s0", "s1"):
        s = getattr(e, nm)
        if not (sigma / 2 <= s <= 2 * sigma + 0.03 * d):
            bad.append((nm, "%s/sigma=%.4g (allowed [0.5, %.4g])" % (nm, s / sigma, 2 + 0.03 * d / sigma)))
    if not (e.mu0 < e.threshold < e.mu1):
        bad.append(("threshold", "mu0=%g thr=%g mu1=%g" % (e.mu0, e.threshold, e.mu1)))
    if not abs((e.t_right - e.t_left) - 1) <= 0.1:
        bad.append(("t_dist", "t_right-t_left=%g" % (e.t_right - e.t_left)))
    if not abs(e.t_opt - (e.t_left + e.t_right) / 2) <= 1 / SPS_RESAMP + 1e-12:
        bad.append(("t_opt midway", "t_opt=%g mid=%g" % (e.t_opt, (e.t_left + e.t_right) / 2)))
    if not (isinstance(e.i, (int, np.integer)) and not isinstance(e.i, bool) and 0 <= e.i < sps):
        bad.append(("index", "i=%r (%s) sps=%d" % (e.i, type(e.i).__name__, sps)))
    return bad


def equivariance(e, e2, al, be, d, xmax):
    bad = []
    tol = 1e-6 * al * d + 32 * np.finfo(float).eps * xmax  # the second term: ulp of the scaled input itself
    for nm, off in (("mu0", be), ("mu1", be), ("s0", 0.0), ("s1", 0.0)):
        v, v2 = getattr(e, nm), getattr(e2, nm)
        if not (np.isfinite(v) and np.isfinite(v2)) or abs(v2 - (al * v + off)) > tol:
            bad.append(("equiv " + nm, "got %r expected %r" % (v2, al * v + off)))
    for nm in ("t_left", "t_right", "t_opt", "i"):
        if getattr(e, nm) != getattr(e2, nm):
            bad.append(("equiv " + nm, "base %r scaled %r" % (getattr(e, nm), getattr(e2, nm))))
    return bad


def report(bad, tag, sink=VIOL):
    for c, det in bad:
        sink.append((c, tag, det))
        print("%s clause=%s input=%s :: %s" % ("VIOLATION" if sink is VIOL else "NOTE(outside strict domain)", c, tag, det), flush=True)


def one_case(bits, sps, a, d, sf, bwf, seed, rng, scalings, tag, sink=VIOL):
    b = a + d
    x = wave(bits, sps, a, b, sf, bwf, rng)
    try:
        e = run(x, seed)
    except Exception as ex:
        report([("no exception", "%s: %s" % (type(ex).__name__, ex))], tag, sink)
        return
    report(clauses(e, a, b, sf * d, sps), tag, sink)
    for al, be in scalings:
        x2 = al * x + be
        t2 = tag + " alpha=%g beta=%g" % (al, be)
        try:
            e2 = run(x2, seed)
        except Exception as ex:
            report([("no exception", "%s: %s" % (type(ex).__name__, ex))], t2, sink)
            continue
        report(clauses(e2, al * a + be, al * b + be, al * sf * d, sps), t2, sink)
        report(equivariance(e, e2, al, be, d, np.abs(x2).max()), t2, sink)


# ---------------------------------------------------------------- A. sampled inputs
rng = np.random.default_rng(20240917)
for k in range(700):
    sps = int(rng.choice([8, 16, 32]))
    n = int(rng.choice([64, 65, 66, 67, 96, 127, 128, 200, 511]))
    bits = rng.integers(0, 2, n)
    if bits.min() == bits.max():
        continue
    d = float(10 ** rng.uniform(-3, 2))
    a = float(rng.choice([0.0, -d / 2, d * rng.uniform(-3, 3), -d]))
    sf = float(rng.choice([0.005, 0.05, rng.uniform(0.005, 0.05)]))
    bwf = float(rng.choice([0.75, 1.0, 1.5, 3.0]))
    seed = int(rng.integers(0, 1000))
    al = float(rng.choice([1e-3, 1e3, 10 ** rng.uniform(-3, 3)]))
    be = float(rng.choice([0.0, -al * a, al * d * rng.uniform(-5, 5), rng.uniform(-10, 10)]))
    one_case(bits, sps, a, d, sf, bwf, seed, rng, [(al, be)],
             "A%d sps=%d n=%d a=%g d=%g sf=%g bw=%gR seed=%d" % (k, sps, n, a, d, sf, bwf, seed))

# ---------------------------------------------------------------- B. enumerated corners of the domain
rng = np.random.default_rng(7)
k = 0
for sps in (8, 16, 32):
    for n in (64, 65, 66, 127, 128):
        bits = rng.integers(0, 2, n)
        for d in (1e-3, 100.0):
            for sf in (0.005, 0.05):
                for bwf in (0.75, 3.0):
                    a = (0.0, -d / 2, d)[k % 3]
                    scal = [(1e-3, 0.0), (1e3, -1e3 * a)] if k % 2 else [(1e3, 1.0), (1e-3, -5e-3 * d)]
                    one_case(bits, sps, a, d, sf, bwf, k, rng, scal,
                             "B%d sps=%d n=%d a=%g d=%g sf=%g bw=%gR seed=%d" % (k, sps, n, a, d, sf, bwf, k))
                    k += 1

# ---------------------------------------------------------------- C. PRBS, containers, long signals, call order
rng = np.random.default_rng(11)
for order, spss in ((7, (8, 16, 32)), (9, (8, 16, 32)), (11, (8, 32)), (15, (8,))):
    for sps in spss:
        gv(sps=sps, R=1e9)
        bits = PRBS(order=order).data
        one_case(bits, sps, 2e-3, 1e-3, 0.03, 0.75, order, rng, [(1e3, 0.0)], "C prbs%d sps=%d" % (order, sps))

for n in (4096, 4097, 8191):  # more slots than the default nslots=4096
    bits = rng.integers(0, 2, n)
    one_case(bits, 8, -1.0, 2.0, 0.05, 1.0, n, rng, [], "C long n=%d sps=8" % n)

sps = 16
bits = rng.integers(0, 2, 64)
sig0 = clean(bits, sps, 0.75) * 5 - 2.5
noise = rng.normal(0, 0.02 * 5, sig0.size)
x = sig0 + noise
ref = run(x, 3)
report(clauses(ref, -2.5, 2.5, 0.1, sps), "C container ndarray")
conts = {"list": list(x), "tuple": tuple(x), "electrical_signal": electrical_signal(x),
         "electrical_signal(signal,noise)": electrical_signal(sig0, noise), "float32": x.astype(np.float32),
         "np.int64 sps_resamp": x, "second call (call order)": x}
for name, v in conts.items():
    try:
        e = run(v, 3, sps_resamp=np.int64(128) if name.startswith("np.int64") else 128)
    except Exception as ex:
        report([("no exception", "%s: %s" % (type(ex).__name__, ex))], "C container " + name)
        continue
    report(clauses(e, -2.5, 2.5, 0.1, sps), "C container " + name)
    rtol = 1e-5 if name == "float32" else 1e-12
    for nm in ("mu0", "mu1", "s0", "s1", "t_left", "t_right", "t_opt", "i"):
        if abs(getattr(e, nm) - getattr(ref, nm)) > rtol * 5:
            report([("same result for every container", "%s %r vs %r" % (nm, getattr(e, nm), getattr(ref, nm)))],
                   "C container " + name)

# library DAC: NRZ with its own bandwidth limit, levels -1 / +1
for sps in (8, 16, 32):
    gv(sps=sps, R=1e9)
    y = DAC(PRBS(order=7), Vout=2.0, bias=-1.0, pulse_shape="nrz", BW=0.8e9)
    y.noise = rng.normal(0, 0.03 * 2, y.len())
    np.random.seed(0)
    report(clauses(GET_EYE(y, sps_resamp=128), -1.0, 1.0, 0.06, sps), "C DAC nrz BW=0.8R sps=%d" % sps)

# ---------------------------------------------------------------- D. statistical check of the s clauses (many seeds)
rng = np.random.default_rng(5)
for sps, bwf, sf in ((8, 3.0, 0.05), (32, 0.75, 0.005)):
    fails = 0
    N = 200
    for k in range(N):
        bits = rng.integers(0, 2, 64)
        e = run(wave(bits, sps, 0.0, 1.0, sf, bwf, rng), k)
        fails += any(c in ("s0", "s1", "mu0", "mu1") for c, _ in clauses(e, 0.0, 1.0, sf, sps))
    if fails > 8:  # far outside sampling error for a clause meant to hold always
        report([("s/mu statistical", "%d of %d random 64-slot patterns fail" % (fails, N))], "D sps=%d bw=%gR sf=%g" % (sps, bwf, sf))

# ---------------------------------------------------------------- E. structured patterns with both symbols present
strict = os.environ.get("AUDIT_C17_WIDE") == "1"
sink = VIOL if strict else NOTES
rng = np.random.default_rng(9)
pats = {}
z = np.zeros(64, int); z[33] = 1; pats["single 1 in an odd slot"] = z
z = np.zeros(64, int); z[32] = 1; pats["single 1 in an even slot"] = z
z = np.zeros(64, int); z[1::2] = 1; pats["alternating 0101"] = z
pats["0011 repeated"] = np.tile([0, 0, 1, 1], 16)
z = np.zeros(64, int); z[0::2] = rng.integers(0, 2, 32); z[0] = 1; pats["ones only in even slots"] = z
for name, bits in pats.items():
    one_case(bits, 16, 0.0, 1.0, 0.02, 1.0, 0, rng, [], "E pattern '%s' sps=16" % name, sink)

# ---------------------------------------------------------------- F. causal band-limiting (delay ~ half a slot)
import scipy.signal as sg
for sps in (8, 16, 32):
    gv(sps=sps, R=1e9)
    rng = np.random.default_rng(sps)
    xb = np.kron(rng.integers(0, 2, 128), np.ones(sps))
    for bwf in (0.75, 1.0, 3.0):
        sos = sg.bessel(4, bwf * 1e9, fs=gv.fs, output="sos", norm="mag")
        y = sg.sosfilt(sos, xb) + rng.normal(0, 0.02, xb.size)
        try:
            report(clauses(run(y, 0), 0.0, 1.0, 0.02, sps), "F causal Bessel-4 bw=%gR sps=%d" % (bwf, sps), sink)
        except Exception as ex:
            report([("no exception", "%s: %s" % (type(ex).__name__, ex))], "F causal bw=%gR sps=%d" % (bwf, sps), sink)

if NOTES:
    print("%d NOTE lines (inputs outside the strictly quantified domain, not counted; set AUDIT_C17_WIDE=1 to count them)" % len(NOTES))
if VIOL:
    print("FAIL: %d violated (clause, input) pairs" % len(VIOL))
    sys.exit(1)
print("PASS")
sys.exit(0)
