# C17 (conditional): a causal "mild band-limiting" filter whose group delay is ~half a slot puts the eye
# crossings on the edge (t = +-1) of GET_EYE's two-slot window; the crossing cluster is split by the wrap
# and t_right - t_left comes out ~1.2 instead of 1 +- 10%.
import sys; del sys.path[0]
import numpy as np, scipy.signal as sg
from opticomlib import gv
from opticomlib.devices import GET_EYE
bad = 0
for sps in (8, 16, 32):
    for seed in range(4):
        gv(sps=sps, R=1e9)
        rng = np.random.default_rng(seed)
        x = np.kron(rng.integers(0, 2, 128), np.ones(sps))            # random NRZ, levels 0 / 1
        sos = sg.bessel(4, 0.75e9, fs=gv.fs, output='sos', norm='mag')  # -3 dB at 0.75 R, causal (delay ~0.45 slot)
        y = sg.sosfilt(sos, x) + rng.normal(0, 0.02, x.size)          # sigma = 2 % of b-a
        np.random.seed(seed)
        e = GET_EYE(y, sps_resamp=128)
        ok = abs((e.t_right - e.t_left) - 1) <= 0.1
        bad += not ok
        print(f"sps={sps} seed={seed}: expected t_right-t_left in [0.9, 1.1], got {e.t_right - e.t_left:.4f} "
              f"(t_left={e.t_left}, t_right={e.t_right}, mu0={e.mu0:.3f}, mu1={e.mu1:.3f})", "" if ok else "<-- VIOLATION")
sys.exit(1 if bad else 0)
