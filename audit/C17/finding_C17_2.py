# C17 (conditional): GET_EYE takes mu/s only from the slot centred at t=0 of every 2-slot trace, i.e. from the
# odd-numbered slots.  A 64-slot pattern with both symbols present whose ones (or zeros) all sit in even slots
# gives nan / None instead of finite estimates.
import sys; del sys.path[0]
import warnings; warnings.simplefilter("ignore")
import numpy as np
from opticomlib import gv
from opticomlib.devices import GET_EYE, LPF
gv(sps=16, R=1e9)
rng = np.random.default_rng(0)
bits = np.zeros(64, int); bits[0::2] = rng.integers(0, 2, 32); bits[0] = 1   # ones only in even slots
x = LPF(np.kron(bits, np.ones(16)).astype(float), 1e9).signal.real + rng.normal(0, 0.02, 64 * 16)
np.random.seed(0)
e = GET_EYE(x, sps_resamp=128)
print("pattern:", "".join(map(str, bits)))
print("expected finite mu1 ~ 1, s1 ~ 0.02, threshold in (mu0, mu1); got mu1=%r s1=%r threshold=%r (mu0=%.4f)" % (e.mu1, e.s1, e.threshold, e.mu0))
sys.exit(0 if (e.threshold is not None and np.isfinite([e.mu1, e.s1]).all()) else 1)
