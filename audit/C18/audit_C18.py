import sys, os
if sys.path and os.path.abspath(sys.path[0] or '.') == os.path.dirname(os.path.abspath(__file__)):
    del sys.path[0]
import warnings
import numpy as np
from opticomlib import electrical_signal
from opticomlib.devices import ADC
from opticomlib.utils import shortest_int

warnings.simplefilter('ignore')
viol = []
seen = set()


def V(clause, desc):
    key = (clause, desc)
    if key in seen:
        return
    seen.add(key)
    if len([v for v in viol if v[0] == clause]) < 25:
        print(f'VIOLATION {clause}: {desc}')
    viol.append(key)


# ---------------------------------------------------------------- shortest_int
def check_si(data, p, tag):
    try:
        out = shortest_int(data, p)
    except Exception as e:
        V('S0 returns', f'{tag} p={p!r}: raised {type(e).__name__}: {e}')
        return
    d = np.sort(np.asarray(data).astype(object))  # exact python arithmetic reference
    N = len(d)
    lag = int(np.floor(p * N / 100))
    if len(out) != 2:
        V('S0 returns', f'{tag} p={p!r}: not a pair')
        return
    lo, hi = out[0], out[1]
    if not lo <= hi:
        V('S1 lo<=hi', f'{tag} p={p!r}: lo={lo} hi={hi}')
    # lo, hi are data values `lag` order statistics apart
    idx = [i for i in range(N - lag) if d[i] == lo and d[i + lag] == hi]
    if not idx:
        V('S2 lag apart', f'{tag} p={p!r}: ({lo},{hi}) is no pair of order statistics {lag} apart')
        return
    # closed interval contains >= lag+1 samples
    cnt = sum(1 for v in d if lo <= v <= hi)
    if cnt < lag + 1:
        V('S3 coverage', f'{tag} p={p!r}: contains {cnt} < {lag + 1}')
    # minimal width
    widths = [d[i + lag] - d[i] for i in range(N - lag)]
    wmin = min(widths)
    w = d[idx[0] + lag] - d[idx[0]]
    if w != wmin:
        V('S4 shortest', f'{tag} p={p!r}: width {w} but a pair with width {wmin} exists')


def si_suite():
    rng = np.random.default_rng(1801)
    ps = [1e-9, 0.01, 0.5, 1, 5, 10, 25, 33, 100 / 3, 49.9, 50, 50.0, 66, 75, 90, 95, 99, 99.9, 99.99, 99.9999,
          np.float64(50), np.float32(50), np.int64(50), 50, 1, 99]
    # enumerated tiny data sets, with ties
    import itertools
    for N in (1, 2, 3, 4, 5):
        for tup in itertools.product([0, 1, 2], repeat=N):
            for p in (1, 20, 25, 34, 50, 51, 67, 75, 80, 99):
                check_si(np.array(tup, float), p, f'enum{tup}')
    for N in (2, 3, 4, 5, 7, 8, 9, 10, 11, 16, 31, 100, 101, 257, 1000):
        for trial in range(6):
            kinds = {
                'gauss': rng.normal(size=N),
                'unif': rng.uniform(-1, 1, N),
                'quantf': np.round(rng.normal(size=N) * 2) / 2,
                'quanti': rng.integers(-3, 4, N),
                'const': np.full(N, 2.5),
                'two': rng.integers(0, 2, N).astype(float),
                'big': rng.normal(size=N) * 1e12 + 1e15,
                'tiny': rng.normal(size=N) * 1e-12,
                'sin': np.sin(2 * np.pi * np.arange(N) / max(N, 1) * 3.3),
            }
            for k, dat in kinds.items():
                for p in ps:
                    check_si(dat, p, f'{k}N{N}t{trial}')
            # containers
            q = kinds['quanti']
            for p in (10, 50, 90, 99.99):
                check_si(list(q), p, f'listN{N}t{trial}')
                check_si(tuple(q.tolist()), p, f'tupleN{N}t{trial}')
                check_si(q[::-1], p, f'revN{N}t{trial}')
                check_si(q.astype(np.float32), p, f'f32N{N}t{trial}')
                check_si(q.astype(np.int32), p, f'i32N{N}t{trial}')
                check_si((q * 30).astype(np.int8), p, f'i8N{N}t{trial}')      # codes of a signed 8-bit converter
                check_si((q * 9000).astype(np.int16), p, f'i16N{N}t{trial}')  # signed 16-bit codes
                check_si((q + 3).astype(np.uint8) * 40, p, f'u8N{N}t{trial}')
                check_si((q + 3).astype(np.uint16), p, f'u16N{N}t{trial}')
    # percent just below 100, just above 0, for many lengths
    for N in list(range(1, 200)) + [2 ** k for k in range(8, 18)] + [10 ** 4, 10 ** 5]:
        dat = rng.integers(0, 16, N).astype(float)
        for p in (np.nextafter(100, 0), 100 - 1e-12, 99.999999, np.nextafter(0, 1), 1e-300, 100 / N, 100 * (N - 1) / N if N > 1 else 50):
            if 0 < p < 100:
                if N <= 2000:
                    check_si(dat, p, f'edgeN{N}')
                else:
                    try:
                        lo, hi = shortest_int(dat, p)
                        d = np.sort(dat); lag = int(np.floor(p * N / 100))
                        w = (d[lag:] - d[:N - lag])
                        if hi - lo != w.min() or not np.any((d[:N - lag] == lo) & (d[lag:] == hi)):
                            V('S4 shortest', f'edgeN{N} p={p!r}')
                    except Exception as e:
                        V('S0 returns', f'edgeN{N} p={p!r}: raised {type(e).__name__}: {e}')
    # big sets (vectorised reference)
    for N in (10 ** 4, 2 ** 17):
        for k in range(3):
            dat = [rng.normal(size=N), np.round(rng.normal(size=N) * 4), rng.integers(0, 4, N)][k]
            for p in (0.0001, 1, 50, 99.99, 99.9999):
                lo, hi = shortest_int(dat, p)
                d = np.sort(dat); lag = int(np.floor(p * N / 100))
                w = (d[lag:] - d[:N - lag])
                if hi - lo != w.min() or not np.any((d[:N - lag] == lo) & (d[lag:] == hi)) or not lo <= hi:
                    V('S4 shortest', f'bigN{N}k{k} p={p!r}')


# ---------------------------------------------------------------- ADC
def ref_range(x):
    d = np.sort(np.asarray(x, dtype=float))
    N = len(d)
    lag = int(np.floor(99.99 * N / 100))
    w = d[lag:] - d[:N - lag]
    return w.min(), d, lag


def check_adc(x, n, tag, raw=None):
    """x: what is passed; raw: the real samples as float array"""
    if raw is None:
        raw = np.asarray(x, dtype=float)
    N = len(raw)
    outs = {}
    for ot in ('v', 'n'):
        try:
            y = ADC(x, n=n, otype=ot)
        except Exception as e:
            V('A0 returns', f'{tag} n={n!r} otype={ot}: raised {type(e).__name__}: {e}')
            return
        s = np.asarray(y.signal)
        if y.noise is not None:
            s = s + y.noise
        outs[ot] = s
        if s.shape != (N,):
            V('A1 length', f'{tag} n={n} otype={ot}: shape {s.shape} != ({N},)')
            return
        if np.iscomplexobj(s) and np.any(s.imag != 0):
            V('A1 length', f'{tag} n={n} otype={ot}: complex output')
        if len(np.unique(s)) > 2 ** n:
            V('A2 levels', f'{tag} n={n} otype={ot}: {len(np.unique(s))} distinct values')
    v = np.real(outs['v']).astype(float)
    c = np.real(outs['n'])
    # codes
    if not np.all(c == np.round(c)) or c.min() < 0 or c.max() > 2 ** n - 1:
        V('A4 codes', f'{tag} n={n}: codes not integers in [0,{2 ** n - 1}] (min {c.min()}, max {c.max()})')
        return
    c = c.astype(np.int64)
    # full-scale range: the shortest interval covering 99.99% (checked separately); take the library estimate
    Vmin, Vmax = shortest_int(raw, 99.99)
    wref, d, lag = ref_range(raw)
    if Vmax - Vmin != wref:
        V('A3 range', f'{tag}: full-scale estimate ({Vmin},{Vmax}) is not a shortest 99.99% interval (width {wref})')
    if N < 10 ** 4 and (Vmin != raw.min() or Vmax != raw.max()):
        V('A3 range', f'{tag}: N<1e4 but range != [min,max]')
    span = Vmax - Vmin
    dt = getattr(x, 'dtype', None)
    rel = max(1e-9, 16 * np.finfo(dt).eps) if dt is not None and dt.kind == 'f' else 1e-9  # float32 input: float32 accuracy
    tol = rel * max(abs(Vmin), abs(Vmax), span) + 1e-300
    if v.min() < Vmin - tol or v.max() > Vmax + tol:
        V('A3 range', f'{tag} n={n}: output [{v.min()},{v.max()}] outside [{Vmin},{Vmax}]')
    if span > 0:
        step = span / (2 ** n - 1)
        inside = (raw >= Vmin) & (raw <= Vmax)
        err = np.abs(v - raw)[inside]
        if err.size and err.max() > step / 2 * (1 + rel) + tol:
            j = np.argmax(np.abs(v - raw) * inside)
            V('A5 half step', f'{tag} n={n}: sample {raw[j]} -> {v[j]} moved {err.max()} > step/2={step / 2}')
        # codes consistent with voltages
        vc = Vmin + c * step
        if np.max(np.abs(vc - v)) > tol + rel * step:
            V('A5 half step', f'{tag} n={n}: otype n and v disagree')
        ce = np.abs(Vmin + c * step - raw)[inside]
        if ce.size and ce.max() > step / 2 * (1 + rel) + tol:
            V('A5 half step', f'{tag} n={n}: code error {ce.max()} > step/2')
        if np.any(c[raw > Vmax] != 2 ** n - 1):
            V('A6 saturate', f'{tag} n={n}: sample above V_max got code {c[raw > Vmax][c[raw > Vmax] != 2 ** n - 1][:3]}')
        if np.any(c[raw < Vmin] != 0):
            V('A6 saturate', f'{tag} n={n}: sample below V_min got code {c[raw < Vmin][c[raw < Vmin] != 0][:3]}')
        # end codes are reached by the end points of the range
        if np.any(c[raw == Vmax] != 2 ** n - 1) or np.any(c[raw == Vmin] != 0):
            V('A6 saturate', f'{tag} n={n}: V_min/V_max samples not at end codes')
    else:
        # degenerate range: every in-range sample must stay, others saturate
        if np.any(v[raw == Vmin] != Vmin):
            V('A5 half step', f'{tag} n={n}: zero-width range, in-range sample moved')
        if np.any(c[raw > Vmax] != 2 ** n - 1) or np.any(c[raw < Vmin] != 0):
            V('A6 saturate', f'{tag} n={n}: zero-width range, outside samples got codes '
                             f'{np.unique(c[raw > Vmax])} (above) {np.unique(c[raw < Vmin])} (below)')


def adc_suite():
    rng = np.random.default_rng(1802)
    ns_all = list(range(1, 13))
    lens_small = [2, 3, 4, 5, 7, 8, 16, 17, 100, 255, 1000, 9999]
    lens_big = [10 ** 4, 10 ** 4 + 1, 20001, 2 ** 15, 10 ** 5, 2 ** 17]

    def dists(N, r):
        t = np.arange(N)
        g = r.normal(size=N)
        return {
            'gauss': g,
            'gauss_off': 3 + 0.01 * g,
            'gauss_neg': -5 + 2 * g,
            'gauss_out': np.where(r.random(N) < 3e-5, 40 * np.sign(g), g),   # rare outliers
            'unif': r.uniform(-1, 1, N),
            'unif_pos': r.uniform(0, 1e-3, N),
            'sin': np.sin(2 * np.pi * t * 0.01234 + 0.3),
            'sin_int': np.sin(2 * np.pi * t / 8),
            'quant4': np.round(g * 2).clip(-3, 3),
            'quant_codes': r.integers(0, 256, N).astype(float),
            'two': r.integers(0, 2, N).astype(float),
            'int': r.integers(-100, 100, N),
            'big': 1e9 + 1e6 * g,
            'small': 1e-9 * g,
        }

    for N in lens_small:
        for trial in range(2):
            for k, x in dists(N, rng).items():
                for n in ns_all:
                    check_adc(x, n, f'{k}N{N}t{trial}')
    for N in lens_big:
        for k, x in dists(N, rng).items():
            for n in (1, 2, 3, 8, 11, 12):
                check_adc(x, n, f'{k}N{N}')
    # containers / argument types
    for N in (2, 5, 64, 10 ** 4):
        g = rng.normal(size=N)
        q = np.round(g * 20)
        for n in (1, 4, 12, np.int64(3), np.int32(8), np.uint8(5)):
            check_adc(electrical_signal(g), n, f'esigN{N}', raw=g)
            nz = 0.1 * rng.normal(size=N)
            check_adc(electrical_signal(g, nz), n, f'esig+noiseN{N}', raw=g + nz)
            check_adc(electrical_signal(g, np.zeros(N)), n, f'esig+0noiseN{N}', raw=g)
            check_adc(list(g), n, f'listN{N}', raw=g)
            check_adc(tuple(g), n, f'tupleN{N}', raw=g)
            check_adc(g.astype(np.float32), n, f'f32N{N}')
            check_adc(q.astype(np.int64), n, f'i64N{N}')
            check_adc(q.astype(np.int32), n, f'i32N{N}')
            check_adc(q.astype(np.int16) * 300, n, f'i16N{N}')   # 16-bit instrument codes
            check_adc(q.clip(-127, 127).astype(np.int8), n, f'i8N{N}')
            check_adc((q.clip(-127, 127) + 127).astype(np.uint8), n, f'u8N{N}')
            check_adc(electrical_signal(q.astype(int)), n, f'esig-intN{N}', raw=q)
            check_adc(g[::-1], n, f'negstrideN{N}')
            check_adc(g[::2] if N > 3 else g, n, f'stridedN{N}')
    # string constructed signal
    check_adc(electrical_signal('1 2 3,4,5'), 2, 'esig-str', raw=np.array([1., 2, 3, 4, 5]))
    # exact half-way and boundary samples
    for n in ns_all:
        L = 2 ** n - 1
        x = np.concatenate([np.arange(0, L + 1), np.arange(0, L) + 0.5, [0.0, float(L)]])
        check_adc(x, n, f'halfway')
        check_adc(-x, n, f'halfway-neg')
    # quantised sparse signals (two levels, the rare one below 0.01%)
    for N in (10 ** 4, 2 ** 15, 2 ** 17):
        for npk in (0, 1, 3):
            x = np.zeros(N)
            x[rng.choice(N, npk, replace=False)] = 1.0
            for n in (1, 8):
                check_adc(x, n, f'sparseN{N}k{npk}')
    # constant signals
    for N in (2, 3, 10 ** 4):
        for c0 in (0.0, 1.5, -2.0):
            check_adc(np.full(N, c0), 3, f'const{c0}N{N}')
    # input must not be modified, repeated calls agree
    g = rng.normal(size=1000); g0 = g.copy()
    a = ADC(g, n=4).signal; b = ADC(g, n=4).signal
    if not np.array_equal(g, g0):
        V('A0 returns', 'input modified')
    if not np.array_equal(a, b):
        V('A0 returns', 'repeated calls differ')
    e = electrical_signal(g, 0.1 * g0); s0, n0 = e.signal.copy(), e.noise.copy()
    ADC(e, n=4)
    if not (np.array_equal(e.signal, s0) and np.array_equal(e.noise, n0)):
        V('A0 returns', 'electrical_signal input modified')
    # default n and default otype
    y = ADC(g)
    if len(np.unique(y.signal)) > 256 or not np.array_equal(y.signal, ADC(g, n=8, otype='v').signal):
        V('A2 levels', 'defaults')


si_suite()
adc_suite()
if viol:
    print(f'{len(viol)} violations')
    sys.exit(1)
print('PASS')
