# shortest_int on quantised data stored in a narrow signed integer dtype (8-bit converter codes):
# the lag-differences are taken in int8 and wrap around, so a wider pair wins the minimum.
import sys; del sys.path[0]
import numpy as np
from opticomlib.utils import shortest_int

data = np.array([-100, -90, 20, 50], dtype=np.int8)   # lag = floor(50*4/100) = 2
lo, hi = shortest_int(data, 50)
# pairs 2 order statistics apart: (-100, 20) width 120, (-90, 50) width 140
print('expected (-100, 20) width 120; got', (int(lo), int(hi)), 'width', int(hi) - int(lo))
sys.exit(0 if (int(lo), int(hi)) == (-100, 20) else 1)
