# ADC of a real signal held as 16-bit integer samples: `signal - V_min` wraps in int16,
# so in-range samples land on code 0 and the 'v' output leaves [V_min, V_max].
import sys; del sys.path[0]
import numpy as np
from opticomlib.devices import ADC

x = np.array([-20000, -10000, 0, 10000, 20000], dtype=np.int16)   # full scale = [-20000, 20000]
codes = np.real(ADC(x, n=2, otype='n').signal)
volts = np.real(ADC(x, n=2, otype='v').signal)
print('expected codes [0 1 2 2 3] (or [0 1 1 2 3]), all outputs within [-20000, 20000]')
print('got codes', codes, 'outputs', volts)
ok = codes[0] == 0 and codes[-1] == 3 and volts.min() >= -20000 and volts.max() <= 20000 \
     and np.all(np.abs(volts - x) <= 40000 / 3 / 2 + 1e-6)
sys.exit(0 if ok else 1)
