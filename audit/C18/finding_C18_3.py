# Quantised two-level signal whose upper level is rarer than 0.01 %: the 99.99 % range is [0, 0],
# (signal - V_min)/(V_max - V_min) is 0/0 and 1/0, and the outlier ABOVE the range gets code 0
# (inf -> int is INT_MIN, clipped to 0) instead of saturating at the top code 2**n - 1.
import sys; del sys.path[0]
import warnings; warnings.simplefilter('ignore')
import numpy as np
from opticomlib.devices import ADC
from opticomlib.utils import shortest_int

x = np.zeros(2**15); x[100] = 1.0
print('full-scale range', shortest_int(x, 99.99))
c = np.real(ADC(x, n=8, otype='n').signal)
print('sample above V_max: expected code 255, got', c[100])
sys.exit(0 if c[100] == 255 else 1)
