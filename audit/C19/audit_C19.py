import sys
del sys.path[0]
import itertools, math, warnings
import numpy as np
import opticomlib
from opticomlib.utils import db, dbm, idb, idbm, Q, gaus, rcos, dec2bin, str2array, si

viol = []
seen = set()
def bad(clause, inp, msg):
    n = viol.count(clause)
    if n < 4:  # cap the lines printed per clause (all are counted)
        print(f'VIOLATION [{clause}] input={inp!r}: {msg}')
    viol.append(clause)

def call(clause, f, *a, **k):
    """call f, report any exception as violation, return (ok, value)"""
    try:
        return True, f(*a, **k)
    except Exception as e:
        bad(clause, tuple(f'{type(v).__name__}:{v!r}' for v in a) + tuple(k.items()), f'raised {type(e).__name__}: {e}')
        return False, None

rng = np.random.default_rng(19)
RT = 1e-12  # relative tolerance for round trips

# ---------------------------------------------------------------- db / dbm
pos = np.concatenate([10.0 ** np.arange(-15, 16), 10 ** rng.uniform(-15, 15, 400)])
dbs = np.concatenate([np.arange(-300, 301, 10.0), rng.uniform(-300, 300, 400), [0.0, -300.0, 300.0]])

def close(a, b, rt=RT, at=0.0):
    a = np.asarray(a, dtype=float); b = np.asarray(b, dtype=float)
    return a.shape == b.shape and bool(np.all(np.abs(a - b) <= rt * np.abs(b) + at))

def containers(arr):
    """every accepted container type for a 1-D float array"""
    yield 'ndarray', np.array(arr)
    yield 'list', list(map(float, arr))
    yield 'tuple', tuple(map(float, arr))
    yield '2-D', np.array(arr)[: len(arr) // 2 * 2].reshape(2, -1)
    yield 'len1', np.array(arr[:1])
    yield '0-d', np.array(arr[0])

for name, x in containers(pos):
    ok, y = call('idb(db(x))=x', lambda v: idb(db(v)), x)
    if ok and not close(y, x): bad('idb(db(x))=x', name, 'round trip differs')
    ok, y = call('idbm(dbm(x))=x', lambda v: idbm(dbm(v)), x)
    if ok and not close(y, x): bad('idbm(dbm(x))=x', name, 'round trip differs')
    ok, y = call('dbm=db+30', lambda v: dbm(v), x)
    if ok and not close(y, np.asarray(db(x)) + 30, at=1e-11): bad('dbm=db+30', name, 'differs')
for name, x in containers(dbs):
    ok, y = call('db(idb(x))=x', lambda v: db(idb(v)), x)
    if ok and not close(y, x, at=1e-11): bad('db(idb(x))=x', name, 'round trip differs')
    ok, y = call('dbm(idbm(x))=x', lambda v: dbm(idbm(v)), x)
    if ok and not close(y, x, at=1e-11): bad('dbm(idbm(x))=x', name, 'round trip differs')

# scalars: python float, python int, numpy scalars of every common kind
for x in list(pos[:31]) + list(pos[31:80]):
    x = float(x)
    for nm, v in [('float', x), ('np.float64', np.float64(x))]:
        ok, y = call('idb(db(x))=x scalar', lambda v: idb(db(v)), v)
        if ok and not close(y, x): bad('idb(db(x))=x scalar', (nm, x), f'got {y!r}')
        ok, y = call('idbm(dbm(x))=x scalar', lambda v: idbm(dbm(v)), v)
        if ok and not close(y, x): bad('idbm(dbm(x))=x scalar', (nm, x), f'got {y!r}')
        ok, y = call('dbm=db+30 scalar', dbm, v)
        if ok and not close(y, db(v) + 30, at=1e-11): bad('dbm=db+30 scalar', (nm, x), f'got {y!r}')
for xi in [1, 2, 3, 10, 1000, 10 ** 15]:
    for nm, v in [('int', xi), ('np.int64', np.int64(xi)), ('np.int32', np.int32(min(xi, 2 ** 31 - 1))),
                  ('np.uint8', np.uint8(min(xi, 255))), ('np.float32', np.float32(xi)), ('np.float16', np.float16(min(xi, 1000)))]:
        ref = float(v)
        rt = RT if 'float' not in nm or nm == 'float' else 1e-2
        ok, y = call('idb(db(x))=x numpy/python scalar', lambda v: idb(db(v)), v)
        if ok and not close(y, ref, rt): bad('idb(db(x))=x numpy/python scalar', (nm, xi), f'got {y!r}')
        ok, y = call('idbm(dbm(x))=x numpy/python scalar', lambda v: idbm(dbm(v)), v)
        if ok and not close(y, ref, rt): bad('idbm(dbm(x))=x numpy/python scalar', (nm, xi), f'got {y!r}')
for nm, arr in [('int list', [1, 2, 3, 1000]), ('int64 array', np.array([1, 2, 3, 10 ** 15])), ('int32 array', np.array([1, 5, 7], np.int32)),
                ('uint8 array', np.array([1, 5, 200], np.uint8)), ('float32 array', np.array([1, 5, 200], np.float32))]:
    ok, y = call('idb(db(x))=x int arrays', lambda v: idb(db(v)), arr)
    if ok and not close(y, np.asarray(arr, float), 1e-6): bad('idb(db(x))=x int arrays', nm, f'got {y!r}')
    ok, y = call('idbm(dbm(x))=x int arrays', lambda v: idbm(dbm(v)), arr)
    if ok and not close(y, np.asarray(arr, float), 1e-6): bad('idbm(dbm(x))=x int arrays', nm, f'got {y!r}')
for d in [-300, -30, -3, 0, 3, 30, 300]:
    for nm, v in [('int', d), ('float', float(d)), ('np.int64', np.int64(d)), ('np.float32', np.float32(d)), ('list', [d]), ('tuple', (d, d))]:
        ok, y = call('db(idb(x))=x dB kinds', lambda v: db(idb(v)), v)
        if ok and not close(y, np.asarray(v, float), 1e-6, 1e-9): bad('db(idb(x))=x dB kinds', (nm, d), f'got {y!r}')
        ok, y = call('dbm(idbm(x))=x dB kinds', lambda v: dbm(idbm(v)), v)
        if ok and not close(y, np.asarray(v, float), 1e-6, 1e-9): bad('dbm(idbm(x))=x dB kinds', (nm, d), f'got {y!r}')

# db(x*y) = db(x)+db(y)
xs = 10 ** rng.uniform(-15, 15, 300); ys = 10 ** rng.uniform(-15, 15, 300)
if not close(db(xs * ys), db(xs) + db(ys), at=1e-10): bad('db(xy)=db(x)+db(y)', 'arrays', 'differs')
for a, b in zip(xs[:50], ys[:50]):
    if not close(db(float(a * b)), db(float(a)) + db(float(b)), at=1e-10): bad('db(xy)=db(x)+db(y)', (a, b), 'differs')

# negative inputs raise ValueError
negs = [-1, -1.0, -1e-15, -1e15, -1e-300, np.float64(-2.0), np.int64(-2), np.float32(-2), [-1], [1, -1], (1.0, -2.0), np.array([-1.0]),
        np.array(-1.0), np.array([[1.0, 2.0], [3.0, -1e-9]]), np.array([-3]), [1, 2, 3, -4], np.array([1, -1], np.int8), -5]
for f in (db, dbm):
    for v in negs:
        try:
            r = f(v)
            bad(f'{f.__name__} negative -> ValueError', v, f'returned {r!r}')
        except ValueError:
            pass
        except Exception as e:
            bad(f'{f.__name__} negative -> ValueError', v, f'raised {type(e).__name__}: {e}')

# ---------------------------------------------------------------- Q
xq = np.concatenate([np.linspace(-40, 40, 2001), rng.normal(0, 5, 500), [0.0]])
if not close(np.asarray(Q(xq)) + np.asarray(Q(-xq)), np.ones_like(xq), 1e-14): bad('Q(x)+Q(-x)=1', 'array', 'differs')
for v in [0, 0.0, np.float64(0), np.int64(0), np.float32(0)]:
    if Q(v) != 0.5: bad('Q(0)=1/2', v, f'got {Q(v)!r}')
for v in ([0], (0.0,), np.array([0.0]), np.array([[0, 0]])):
    if not np.all(np.asarray(Q(v)) == 0.5): bad('Q(0)=1/2', v, f'got {Q(v)!r}')
xsrt = np.sort(xq)
qv = np.asarray(Q(xsrt))
if np.any(np.diff(qv) > 0): bad('Q decreasing', 'sorted array', 'increase found')
xg = np.linspace(-5, 8, 1301)
if np.any(np.diff(np.asarray(Q(xg))) >= 0): bad('Q strictly decreasing on [-5,8]', 'grid step 0.01', 'not strict')
for v in [-3, -1, 0, 1, 2, 3, 7]:
    for kind in (int, float, np.int64, np.float32):
        a = Q(kind(v)); b = Q(kind(-v))
        if abs(a + b - 1) > 1e-6: bad('Q(x)+Q(-x)=1', (kind.__name__, v), f'{a}+{b}')
        if abs(Q(kind(v)) - 0.5 * math.erfc(v / 2 ** 0.5)) > 1e-7: bad('Q value', (kind.__name__, v), 'differs from erfc form')
if not close(Q([0, 1, 2, 3]), [0.5 * math.erfc(v / 2 ** 0.5) for v in range(4)]): bad('Q value', 'int list', 'differs')

# ---------------------------------------------------------------- gaus
for mu, std in [(None, None), (0, 1), (0.0, 1.0), (3, 2), (-5.5, 0.1), (1e3, 1e-3), (0, 1e6), (2, None), (None, 3), (np.float64(1), np.int64(2)), (7, 5)]:
    m = 0 if mu is None else float(mu); s = 1 if std is None else float(std)
    x = np.linspace(m - 12 * s, m + 12 * s, 24001)
    ok, y = call('gaus integrates to 1', gaus, x, mu, std)
    if ok:
        I = np.trapz(y, x)
        if abs(I - 1) > 1e-9: bad('gaus integrates to 1', (mu, std), f'integral {I!r}')
    ok, y = call('gaus integrates to 1', gaus, x, mu=mu, std=std)
    if ok and abs(np.trapz(y, x) - 1) > 1e-9: bad('gaus integrates to 1 (kw)', (mu, std), 'integral != 1')
# integer grids (integer x, integer mu/std)
for mu, std in [(0, 3), (4, 5), (-7, 10)]:
    for nm, x in [('int array', np.arange(mu - 15 * std, mu + 15 * std + 1)), ('int list', list(range(mu - 15 * std, mu + 15 * std + 1))),
                  ('int32', np.arange(mu - 15 * std, mu + 15 * std + 1, dtype=np.int32))]:
        ok, y = call('gaus integrates to 1 integer grid', gaus, x, mu, std)
        if ok:
            I = float(np.sum(y))  # step 1 rectangle rule; exact to ~1e-15 for std>=3
            if abs(I - 1) > 1e-9: bad('gaus integrates to 1 integer grid', (nm, mu, std), f'sum {I!r}')
for v in [0, 0.0, 1, np.float64(0.5), np.int64(1)]:
    ok, y = call('gaus scalar', gaus, v)
    if ok and abs(y - math.exp(-0.5 * float(v) ** 2) / math.sqrt(2 * math.pi)) > 1e-15: bad('gaus scalar', v, f'got {y!r}')

# ---------------------------------------------------------------- rcos
alphas = [0, 0.0, 1e-6, 1e-3, 0.1, 0.25, 0.5, 0.75, 0.999, 1, 1.0]
Ts = [1, 1.0, 0.25, 0.5, 2, 4, 1e-9, 1e-10, 3.7, 1e3]
for alpha, T in itertools.product(alphas, Ts):
    fN = 1 / (2 * T); f1 = (1 - alpha) / (2 * T); f2 = (1 + alpha) / (2 * T)
    grid = np.concatenate([np.linspace(-2 * f2, 2 * f2, 801), [0.0, f1, -f1, f2, -f2, fN, -fN, np.nextafter(f2, np.inf), np.nextafter(f2, 0),
                                                               np.nextafter(f1, np.inf), np.nextafter(f1, 0)]])
    for nm, x in [('ndarray', grid), ('list', list(map(float, grid))), ('tuple', tuple(map(float, grid))), ('2-D', grid[:810].reshape(2, -1))]:
        ok, H = call('rcos array', rcos, x, alpha, T)
        if not ok: continue
        H = np.asarray(H, float); xa = np.asarray(x, float)
        if H.shape != xa.shape: bad('rcos shape', (nm, alpha, T), f'{H.shape}'); continue
        if np.any(H < 0) or np.any(H > 1) or np.any(np.isnan(H)): bad('rcos in [0,1]', (nm, alpha, T), 'out of range')
        ok2, Hm = call('rcos even', rcos, -np.asarray(x), alpha, T)
        if ok2 and not np.array_equal(np.asarray(Hm, float), H): bad('rcos even', (nm, alpha, T), 'H(-x)!=H(x)')
        if np.any(H[np.abs(xa) > f2] != 0): bad('rcos vanishes beyond (1+a)/2T', (nm, alpha, T), 'nonzero')
        if np.any(H[np.abs(xa) <= f1] != 1): bad('rcos flat top', (nm, alpha, T), 'not 1')
    # scalars
    for v in [0.0, f1, f2, fN, np.nextafter(f2, np.inf), 1.5 * f2, 0.3 * fN, (f1 + f2) / 2]:
        for kind in (float, np.float64):
            ok, h = call('rcos scalar', rcos, kind(v), alpha, T)
            ok2, hm = call('rcos scalar', rcos, kind(-v), alpha, T)
            if not (ok and ok2): continue
            if not (0 <= h <= 1): bad('rcos in [0,1]', (v, alpha, T), f'{h!r}')
            if h != hm: bad('rcos even', (v, alpha, T), f'{h!r} vs {hm!r}')
            if abs(v) > f2 and h != 0: bad('rcos vanishes beyond (1+a)/2T', (v, alpha, T), f'{h!r}')
    if alpha > 0:
        for nm, v in [('float', fN), ('np.float64', np.float64(fN)), ('list', [fN]), ('array', np.array([fN])), ('neg array', np.array([-fN, fN])), ('tuple', (fN,))]:
            ok, h = call('rcos(1/2T)=1/2', rcos, v, alpha, T)
            if ok and not np.all(np.abs(np.asarray(h, float) - 0.5) <= 1e-6): bad('rcos(1/2T)=1/2', (nm, alpha, T), f'got {h!r}')
# integer-valued frequencies: 1/(2T) an integer, integer x given as int / int list / int array / numpy int scalar
for alpha, T in [(0.5, 0.25), (1, 0.5), (0.25, 0.125), (0.5, 0.5), (1.0, 0.25)]:
    fN = round(1 / (2 * T))
    xi = list(range(-3 * fN, 3 * fN + 1))
    ref = np.array([rcos(float(v), alpha, T) for v in xi], float)
    for nm, x in [('int list', xi), ('int tuple', tuple(xi)), ('int64 array', np.array(xi)), ('int32 array', np.array(xi, np.int32)), ('float32 array', np.array(xi, np.float32))]:
        ok, H = call('rcos integer x', rcos, x, alpha, T)
        if ok and not close(H, ref, 1e-6, 1e-6): bad('rcos integer x (value / 1/2 at 1/2T)', (nm, alpha, T), f'got {np.asarray(H)!r} expected {ref!r}')
    for nm, v in [('int', fN), ('np.int64', np.int64(fN)), ('np.int32', np.int32(fN)), ('np.float32', np.float32(fN)), ('[int]', [fN]), ('array([int])', np.array([fN]))]:
        ok, h = call('rcos(1/2T)=1/2 integer', rcos, v, alpha, T)
        if ok and not np.all(np.abs(np.asarray(h, float) - 0.5) <= 1e-6): bad('rcos(1/2T)=1/2 integer', (nm, alpha, T), f'got {h!r}')

# ---------------------------------------------------------------- dec2bin
for d in range(0, 17):
    for v in range(2 ** d):
        b = dec2bin(v, d)
        exp = [int(c) for c in format(v, f'0{d}b')] if d else []
        if list(b) != exp or len(b) != d: bad('dec2bin expansion', (v, d), f'got {b!r}')
    for v in [2 ** d, 2 ** d + 1, 2 ** (d + 1), 2 ** 20, 10 ** 9]:
        try:
            r = dec2bin(v, d); bad('dec2bin too large -> ValueError', (v, d), f'returned {r!r}')
        except ValueError: pass
        except Exception as e: bad('dec2bin too large -> ValueError', (v, d), f'raised {type(e).__name__}')
for kind in (np.int64, np.int32, np.uint8, np.uint16, np.int8, np.int16, np.uint32, np.uint64):
    info = np.iinfo(kind)
    for d in range(0, 17):
        for dk in (int, np.int64, np.uint8):
            for v in {0, 1, 2 ** d - 1, 2 ** d // 2, 5 % max(2 ** d, 1)}:
                if not (0 <= v < 2 ** d) or v > info.max: continue
                ok, b = call('dec2bin numpy ints', dec2bin, kind(v), dk(d))
                exp = [int(c) for c in format(v, f'0{d}b')] if d else []
                if ok and list(b) != exp: bad('dec2bin numpy ints', (kind.__name__, v, dk.__name__, d), f'got {b!r}')
            for v in (2 ** d, 2 ** d + 3):
                if v > info.max: continue
                try:
                    r = dec2bin(kind(v), dk(d)); bad('dec2bin numpy too large -> ValueError', (kind.__name__, v, d), f'returned {r!r}')
                except ValueError: pass
                except Exception as e: bad('dec2bin numpy too large -> ValueError', (kind.__name__, v, d), f'raised {type(e).__name__}')
ok, b = call('dec2bin default digits', dec2bin, 5)
if ok and list(b) != [0, 0, 0, 0, 0, 1, 0, 1]: bad('dec2bin default digits', 5, f'{b!r}')

# ---------------------------------------------------------------- str2array
elem_seps = [',', ' ', ', ', '  ', ' , ']
row_seps = [';', '; ', ' ; ', ' ;']
def render(arr, fmt, es, rs):
    arr = np.asarray(arr)
    if arr.ndim == 1: return es.join(fmt(v) for v in arr)
    return rs.join(es.join(fmt(v) for v in row) for row in arr)
def fmt_int(v): return str(int(v))
def mk_fmt_float(nd): return lambda v: f'{float(v):.{nd}f}'
def mk_fmt_cplx(nd, unit, plus_real=False):
    def f(z):
        z = complex(z)
        return f'{z.real:.{nd}f}{z.imag:+.{nd}f}{unit}'
    return f
def mk_fmt_cplx_int(unit):
    def f(z):
        z = complex(z)
        return f'{int(z.real)}{int(z.imag):+d}{unit}'
    return f

shapes = [(n,) for n in range(1, 7)] + [(r, c) for r in (2, 3) for c in range(1, 7)]
def only01(s): return all(ch in '01,; ' for ch in s)

def check_s2a(clause, text, expected, dtype=None, exact=True):
    try:
        got = str2array(text) if dtype is None else str2array(text, dtype=dtype)
    except Exception as e:
        bad(clause, (text, dtype), f'raised {type(e).__name__}: {e}'); return
    expected = np.asarray(expected)
    if got.shape != expected.shape:
        bad(clause, (text, dtype), f'shape {got.shape} expected {expected.shape}'); return
    if exact:
        same = np.array_equal(got, expected)
    else:
        same = np.allclose(got, expected, rtol=1e-15, atol=0)
    if not same: bad(clause, (text, dtype), f'got {got!r} expected {expected!r}'); return
    if got.dtype != expected.dtype: bad(clause + ' dtype', (text, dtype), f'dtype {got.dtype} expected {expected.dtype}')

def bits_of(text):
    rows = text.split(';')
    m = [[c == '1' for c in r if c in '01'] for r in rows]
    if len({len(r) for r in m}) > 1: return None  # ragged bit rows: no array to compare with
    return np.array(m[0] if len(m) == 1 else m, dtype=bool)

for shape in shapes:
    for trial in range(6):
        ints = [rng.integers(-50, 50, shape), rng.integers(0, 2, shape), rng.integers(0, 4, shape) * 0 + rng.choice([0, 1, 10, 11, 100, 101], shape),
                rng.integers(-10 ** 12, 10 ** 12, shape), np.zeros(shape, int), np.ones(shape, int), -rng.integers(0, 3, shape)][trial % 7:] [:2]
        for A in ints:
            for es, rs in itertools.product(elem_seps, row_seps):
                text = render(A, fmt_int, es, rs)
                if only01(text):
                    if bits_of(text) is not None:
                        check_s2a('str2array 0/1 text is a bit pattern', text, bits_of(text))
                        check_s2a('str2array 0/1 text, dtype=bool', text, bits_of(text), bool)
                    check_s2a('str2array 0/1 text with dtype=int', text, A.astype(int), int)
                    check_s2a('str2array 0/1 text with dtype=float', text, A.astype(float), float)
                    check_s2a('str2array 0/1 text with dtype=complex', text, A.astype(complex), complex)
                else:
                    check_s2a('str2array inverts int text', text, A.astype(int))
                    check_s2a('str2array int text dtype=int', text, A.astype(int), int)
                    check_s2a('str2array int text dtype=float', text, A.astype(float), float)
                    check_s2a('str2array int text dtype=complex', text, A.astype(complex), complex)
                    check_s2a('str2array int text dtype=bool', text, A.astype(bool), bool)
        for nd in (1, 3, 6, 12)[trial % 4:][:1]:
            F = np.round(rng.choice([1, 1e-3, 1e3, 1e6], shape) * rng.normal(0, 1, shape), nd)
            if trial == 0: F = rng.integers(0, 2, shape).astype(float)  # 0.0 / 1.0 entries
            if trial == 1: F = -np.abs(F)
            for es, rs in itertools.product(elem_seps, row_seps):
                text = render(F, mk_fmt_float(nd), es, rs)
                expected = np.array([[float(f'{v:.{nd}f}') for v in row] for row in np.atleast_2d(F)]).reshape(shape)
                check_s2a('str2array inverts float text', text, expected)
                check_s2a('str2array float text dtype=float', text, expected, float)
                check_s2a('str2array float text dtype=complex', text, expected.astype(complex), complex)
                check_s2a('str2array float text dtype=int', text, expected.astype(int), int)
            Z = np.round(rng.normal(0, 10, shape), nd) + 1j * np.round(rng.normal(0, 10, shape), nd)
            if trial == 0: Z = rng.integers(0, 2, shape) + 1j * rng.integers(0, 2, shape)
            if trial == 2: Z = Z.real * 0 + 1j * Z.imag
            for unit in 'ij':
                for es, rs in itertools.product(elem_seps, row_seps):
                    text = render(Z, mk_fmt_cplx(nd, unit), es, rs)
                    expected = np.array([[complex(float(f'{z.real:.{nd}f}'), float(f'{z.imag:+.{nd}f}')) for z in row] for row in np.atleast_2d(Z)]).reshape(shape)
                    check_s2a('str2array inverts complex text', text, expected)
                    check_s2a('str2array complex text dtype=complex', text, expected, complex)
                    if trial in (0, 3):
                        Zi = np.round(Z.real) + 1j * np.round(Z.imag)
                        text = render(Zi, mk_fmt_cplx_int(unit), es, rs)
                        check_s2a('str2array inverts complex int-part text', text, Zi.astype(complex))
# mixed / special complex forms
for text, exp in [('1+2j 3-4i', [1 + 2j, 3 - 4j]), ('2j', [2j]), ('-1i', [-1j]), ('1+2j, 3', [1 + 2j, 3]), ('1.5j 2', [1.5j, 2]), ('1+1j', [1 + 1j]),
                  ('0+1i; 1+0j', [[1j], [1]]), ('1j 0 1', [1j, 0, 1]), ('-0.5-0.25i', [-0.5 - 0.25j]), ('+1.0+1.0j', [1 + 1j])]:
    check_s2a('str2array complex forms', text, np.array(exp, complex))
# numeric numpy dtypes given explicitly on 0/1 text
for dt in (np.int64, np.int32, np.float64, np.float32, np.complex128, 'int', 'float', np.dtype(int), np.dtype(float)):
    check_s2a('str2array 0/1 text with explicit numeric dtype (numpy spelling)', '1 0 1 10', np.array([1, 0, 1, 10]).astype(dt), dt)
    check_s2a('str2array 0/1 text with explicit numeric dtype (numpy spelling)', '10,11;1,0', np.array([[10, 11], [1, 0]]).astype(dt), dt)
    check_s2a('str2array int text with explicit numpy dtype', '1 2 3', np.array([1, 2, 3]).astype(dt), dt)
# whitespace other than the blank as separator (tab) - bit text vs number text
for text, exp in [('1\t2\t3', np.array([1, 2, 3])), ('1.5\t2.5', np.array([1.5, 2.5]))]:
    check_s2a('str2array tab separated numbers', text, exp)
check_s2a('str2array tab separated bits', '1\t0\t1', np.array([True, False, True]))
# invalid characters
for ch in 'abcdefghklmnopqrstuvwxyzABCDEFGHIJKLMNOPQRSTUVWXYZ_()[]{}:!?*/=<>|&%$#@~^\'"\\':
    for tmpl in ['1 2 {} 3', '1 0 {}', '{}', '1.5 {}2', '1+2j {}', '1 2; 3 {}', '1{}0']:
        text = tmpl.format(ch)
        for dt in (None, int, float, complex, bool):
            try:
                r = str2array(text) if dt is None else str2array(text, dtype=dt)
                bad('str2array invalid char -> ValueError', (text, dt), f'returned {r!r}')
            except ValueError: pass
            except Exception as e: bad('str2array invalid char -> ValueError', (text, dt), f'raised {type(e).__name__}: {e}')

# ---------------------------------------------------------------- si
PREF = {'f': -15, 'p': -12, 'n': -9, 'u': -6, 'μ': -6, 'µ': -6, 'm': -3, '': 0, 'k': 3, 'M': 6, 'G': 9, 'T': 12}
from fractions import Fraction
def check_si(x, unit, k=None):
    clause = 'si'
    try:
        s = si(x, unit) if k is None else si(x, unit, k)
    except Exception as e:
        bad(clause, (x, unit, k), f'raised {type(e).__name__}: {e}'); return
    kk = 1 if k is None else k
    if not isinstance(s, str): bad(clause, (x, unit, k), f'returned {s!r}'); return
    if not s.endswith(unit) or ' ' not in s: bad(clause, (x, unit, k), f'bad layout {s!r}'); return
    mant, tail = s.split(' ', 1)
    pre = tail[:len(tail) - len(unit)]
    if pre not in PREF: bad(clause, (x, unit, k), f'unknown prefix in {s!r}'); return
    p = PREF[pre]
    try:
        m = Fraction(mant)
    except Exception:
        bad(clause, (x, unit, k), f'mantissa not numeric {s!r}'); return
    if '.' in mant and len(mant.split('.')[1]) != kk or ('.' not in mant and kk != 0): bad('si precision k', (x, unit, k), s)
    xf = Fraction(float(x))
    scale = Fraction(10) ** p
    err = abs(m * scale - xf)
    tol = Fraction(1, 2) * Fraction(10) ** (-kk) * scale + xf * Fraction(1, 10 ** 13)
    if err > tol: bad('si mantissa*prefix = x to printed precision', (x, unit, k), f'{s!r}')
    if float(x) < 1e15:
        um = xf / scale
        if not (Fraction(1) - Fraction(1, 10 ** 12) <= um < 1000): bad('si unrounded mantissa in [1,1000)', (x, unit, k), f'{s!r}')
    expect_p = min(12, 3 * math.floor(math.log10(float(x)) / 3 + 1e-12))
    if p != expect_p and not (xf < Fraction(10) ** (p + 3) and xf >= Fraction(10) ** p * (1 - Fraction(1, 10 ** 12))):
        bad('si prefix', (x, unit, k), f'{s!r}')

units = ['s', 'm', 'Hz', 'W', 'bit', 'Ohm', '']
sx = []
for e in range(-15, 16):
    b = float(f'1e{e}')
    sx += [b, np.nextafter(b, np.inf), 2 * b, 5.5 * b, 9.99 * b, 9.999999 * b]
    if e > -15: sx.append(np.nextafter(b, 0))
sx += list(10 ** rng.uniform(-15, 15.5, 600))
sx += [1e15, 5e15, 1e18, 999.96, 999.94, 0.99996e-3, 999.9999e-9, 1.05, 1.25, 1.35, 2.5e-7]
for i, x in enumerate(sx):
    check_si(float(x), units[i % len(units)])
    for k in (0, 1, 2, 3, 6):
        check_si(float(x), 's', k)
    check_si(np.float64(x), 'Hz')
for e in range(0, 16):
    check_si(10 ** e, 'Hz'); check_si(np.int64(10 ** e), 'Hz', 2); check_si(3 * 10 ** e, 'bit', 0)
    if e: check_si(10 ** e - 1, 'm', 3)
for x in [1e-15, 1e-12, 1e-9, 1e-6, 1e-3, 1, 1e3, 1e6, 1e9, 1e12, 2.5e-14, 3.3e4]:
    v = np.float32(x)
    if float(v) >= 1e-15: check_si(v, 'V')

# ----------------------------------------------------------------
if viol:
    print(f'FAIL: {len(viol)} violations in {len(set(viol))} clauses:')
    for c in sorted(set(viol)): print('   ', c, viol.count(c))
    sys.exit(1)
print('PASS')
sys.exit(0)
