# rcos on integer-typed x (list / tuple / ndarray of ints) truncates the roll-off region to 0:
# the clause "equals 1/2 at 1/(2T) when alpha > 0" fails, and array and scalar calls disagree.
import sys
del sys.path[0]
import numpy as np
from opticomlib.utils import rcos
alpha, T = 0.5, 0.25                 # 1/(2T) = 2, an integer frequency
x = [0, 1, 2, 3, 4]                  # same for tuple(x), np.array(x), np.array(x, np.int32)
got = rcos(x, alpha, T)
expected = np.array([rcos(float(v), alpha, T) for v in x])   # scalar path: [1, 1, 0.5, 0, 0]
print('expected', expected, ' (rcos(1/(2T)) = 0.5)')
print('got     ', got, got.dtype)
sys.exit(0 if np.allclose(got, expected) else 1)
