# db / dbm reject positive numpy scalars other than np.float64 with TypeError (np.float64 subclasses float,
# the others do not), so idb(db(x)) = x fails for them and a negative one raises TypeError instead of ValueError.
# rcos rejects the same scalars with ValueError.
import sys
del sys.path[0]
import numpy as np
from opticomlib.utils import db, dbm, idb, idbm, rcos
fails = 0
for f, g in ((db, idb), (dbm, idbm)):
    for x in (np.int64(5), np.int32(5), np.float32(5), np.array([5, 7]).sum()):
        try:
            y = g(f(x)); ok = abs(y - 5) < 1e-5 or abs(y - 12) < 1e-5
        except Exception as e:
            y = f'{type(e).__name__}: {e}'; ok = False
        if not ok: fails += 1; print(f'{g.__name__}({f.__name__}({type(x).__name__}({x}))): expected {float(x)}, got {y}')
    try: f(np.int64(-1)); print(f.__name__, 'negative: no exception'); fails += 1
    except ValueError: pass
    except Exception as e: fails += 1; print(f'{f.__name__}(np.int64(-1)): expected ValueError, got {type(e).__name__}')
try: rcos(np.float32(2), 0.5, 0.25)
except Exception as e: fails += 1; print(f'rcos(np.float32(2), 0.5, 0.25): expected 0.5, got {type(e).__name__}: {e}')
sys.exit(1 if fails else 0)
