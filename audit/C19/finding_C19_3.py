# str2array: 0/1-only text is still read digit by digit when the explicit numeric dtype is a numpy
# type (np.int64, np.int32, np.float64, np.float32, np.complex128) instead of the builtin int/float/complex.
import sys
del sys.path[0]
import numpy as np
from opticomlib.utils import str2array
fails = 0
for dt in (int, np.int64, np.float64, np.complex128):
    for text, exp in (('1 0 1 10', [1, 0, 1, 10]), ('10,11;1,0', [[10, 11], [1, 0]])):
        try: got = str2array(text, dtype=dt)
        except Exception as e: got = f'{type(e).__name__}: {e}'
        if not (isinstance(got, np.ndarray) and got.shape == np.shape(exp) and np.array_equal(got, np.array(exp, dt))):
            fails += 1; print(f'str2array({text!r}, dtype={dt.__name__}): expected {np.array(exp, dt)!r}, got {got!r}')
sys.exit(1 if fails else 0)
