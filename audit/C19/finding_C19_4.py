# db keeps a small integer dtype (np.array(x)), so np.log10 computes in float16 (uint8/int8) or
# float32 (uint16/int16): idb(db(x)) is off by 1e-3 relative for a positive uint8 array. dbm is not affected (x*1e3).
import sys
del sys.path[0]
import numpy as np
from opticomlib.utils import db, idb
x = np.array([1, 5, 200], np.uint8)
y = idb(db(x))
print('db(x) dtype:', db(x).dtype, ' expected float64')
print('expected idb(db(x)) =', x.astype(float), ' got', y)
sys.exit(0 if np.allclose(y, x, rtol=1e-9) else 1)
