import sys, os
if sys.path and os.path.abspath(sys.path[0] or '.') == os.path.dirname(os.path.abspath(__file__)):
    del sys.path[0]
import re, warnings, itertools, io, contextlib
import numpy as np
import opticomlib
from opticomlib.lab import PPG3204, SYNC
from opticomlib.typing import gv, binary_sequence, electrical_signal
from opticomlib.devices import PRBS

VIOL = []
SEEN = set()
def viol(clause, inp, what):
    n = sum(1 for v in VIOL if v[0] == clause)
    VIOL.append((clause, inp, what))
    if n < 15:
        print(f'VIOLATION [{clause}] input={inp} :: {what}')

MAXMEM = 2**21
NUM = r'[-+]?(?:\d+\.?\d*(?:[eE][-+]?\d+)?|\.\d+(?:[eE][-+]?\d+)?)'

class FakeInst:
    """Simulated PPG3204: records every command, checks it, stores settings and pattern memory."""
    def __init__(self):
        self.log = []
        self.problems = []
        self.mem = {ch: np.zeros(MAXMEM + 1, dtype=np.uint8) for ch in range(1, 5)}
        self.state = {}
        self.timeout = 0
    def clear(self): pass
    def close(self): pass
    def bad(self, cmd, why):
        self.problems.append((cmd if len(cmd) < 80 else cmd[:77] + '...', why))
    def chan(self, cmd, s):
        if not re.fullmatch(r'\d+', s) or not (1 <= int(s) <= 4):
            self.bad(cmd, f'channel {s!r} not in 1..4')
            return None
        return int(s)
    def rng(self, cmd, s, lo, hi, name, integer=False):
        if not re.fullmatch(NUM, s):
            self.bad(cmd, f'{name} value {s!r} is not a number')
            return None
        v = float(s)
        if not (lo <= v <= hi):
            self.bad(cmd, f'{name} value {s} outside [{lo}, {hi}]')
        if integer and not re.fullmatch(r'[-+]?\d+', s):
            # integral-valued float literals are tolerated, fractional ones are not
            if v != int(v):
                self.bad(cmd, f'{name} value {s} is not an integer')
        return v
    def query(self, cmd):
        self.log.append(cmd)
        m = re.fullmatch(r':DIG(\S+?):PATT:DATA (\S+?),(\S+?),#(\d)(.*)', cmd)
        if m:
            ch = self.chan(cmd, m.group(1))
            p, n, k, rest = m.group(2), m.group(3), int(m.group(4)), m.group(5)
            if not re.fullmatch(r'\d+', p) or not re.fullmatch(r'\d+', n):
                self.bad(cmd, 'address/length not integer'); return '\n'
            p, n = int(p), int(n)
            hdr, bits = rest[:k], rest[k:]
            if not re.fullmatch(r'\d+', hdr or 'x') or int(hdr) != len(bits) or len(str(int(hdr))) != k:
                self.bad(cmd, f'IEEE-488.2 header #{k}{hdr} does not describe {len(bits)} data bytes')
            if n != len(bits):
                self.bad(cmd, f'declared length {n} != {len(bits)} data bytes')
            if not (1 <= len(bits) <= 1024):
                self.bad(cmd, f'block of {len(bits)} bits (allowed 1..1024)')
            if not re.fullmatch(r'[01]*', bits):
                self.bad(cmd, 'data bytes are not 0/1 characters')
            if p < 1 or p + len(bits) - 1 > MAXMEM:
                self.bad(cmd, f'address range {p}..{p+len(bits)-1} outside memory 1..{MAXMEM}')
            elif ch and re.fullmatch(r'[01]*', bits):
                self.mem[ch][p:p + len(bits)] = np.frombuffer(bits.encode(), dtype=np.uint8) - 48
            return '\n'
        m = re.fullmatch(r':DIG(\S+?):PATT:DATA\? (\S+?),(\S+)', cmd)
        if m:
            ch = self.chan(cmd, m.group(1)) or 1
            if not re.fullmatch(r'\d+', m.group(2)) or not re.fullmatch(r'\d+', m.group(3)):
                self.bad(cmd, 'address/length not integer'); return '#10\n'
            p, n = int(m.group(2)), int(m.group(3))
            if not (1 <= n <= 1024):
                self.bad(cmd, f'read block of {n} bits (allowed 1..1024)')
            if p < 1 or p + n - 1 > MAXMEM:
                self.bad(cmd, f'read range {p}..{p+n-1} outside memory')
                return '#10\n'
            bits = ''.join(map(str, self.mem[ch][p:p + n]))
            return f'#{len(str(len(bits)))}{len(bits)}{bits}\n'
        m = re.fullmatch(r':DIG(\S+?):PATT:LENG (.*)', cmd)
        if m:
            ch = self.chan(cmd, m.group(1)); v = self.rng(cmd, m.group(2), 2, 2**21, 'pattern length', integer=True)
            self.state[('LENG', ch)] = v; return '\n'
        m = re.fullmatch(r':DIG(\S+?):PATT:PLEN (.*)', cmd)
        if m:
            ch = self.chan(cmd, m.group(1)); s = m.group(2)
            if not re.fullmatch(NUM, s) or float(s) not in (7, 9, 11, 15, 23, 31):
                self.bad(cmd, f'PRBS order {s!r} not in supported list')
            else:
                self.state[('PLEN', ch)] = float(s)
            return '\n'
        m = re.fullmatch(r':DIG(\S+?):PATT:TYPE (.*)', cmd)
        if m:
            ch = self.chan(cmd, m.group(1))
            if m.group(2) not in ('DATA', 'PRBS'): self.bad(cmd, 'bad type')
            self.state[('TYPE', ch)] = m.group(2); return '\n'
        m = re.fullmatch(r':DIG(\S+?):PATT:BSH (.*)', cmd)
        if m:
            ch = self.chan(cmd, m.group(1)); self.state[('BSH', ch)] = m.group(2); return '\n'
        m = re.fullmatch(r':DIG(\S+?):PATT:(LENG|PLEN|TYPE|BSH)\?', cmd)
        if m:
            ch = self.chan(cmd, m.group(1)) or 1
            d = {'LENG': 2, 'PLEN': 7, 'TYPE': 'DATA', 'BSH': 0}[m.group(2)]
            v = self.state.get((m.group(2), ch), d)
            if m.group(2) != 'TYPE': v = int(float(v))
            return f'{v}\n'
        m = re.fullmatch(r':OUTP(\S+?) (ON|OFF)', cmd)
        if m:
            self.chan(cmd, m.group(1)); return '\n'
        m = re.fullmatch(r':FREQ (.*)', cmd)
        if m:
            self.state['FREQ'] = self.rng(cmd, m.group(1), 1.5e9, 32e9, 'frequency'); return '\n'
        if cmd == ':FREQ?':
            return f"{self.state.get('FREQ', 1.5e9)}\n"
        m = re.fullmatch(r':SKEW(\S+?) (.*)', cmd)
        if m:
            ch = self.chan(cmd, m.group(1)); self.state[('SKEW', ch)] = self.rng(cmd, m.group(2), -25e-12, 25e-12, 'skew'); return '\n'
        m = re.fullmatch(r':VOLT(\S+?):POS (.*)v', cmd)
        if m:
            ch = self.chan(cmd, m.group(1)); self.state[('AMP', ch)] = self.rng(cmd, m.group(2), 0.3, 2, 'amplitude'); return '\n'
        m = re.fullmatch(r':VOLT(\S+?):(?:POS|NEG):OFFS (.*)v', cmd)
        if m:
            ch = self.chan(cmd, m.group(1)); self.state[('OFFS', ch)] = self.rng(cmd, m.group(2), -2, 3, 'offset'); return '\n'
        m = re.fullmatch(r':(SKEW|VOLT)(\S+?)(:POS|:OFFS)?\?', cmd)
        if m:
            ch = self.chan(cmd, m.group(2)) or 1
            key = 'SKEW' if m.group(1) == 'SKEW' else ('AMP' if m.group(3) == ':POS' else 'OFFS')
            return f"{self.state.get((key, ch), 0.0) or 0.0}\n"
        if cmd in ('*RST', '*IDN?'):
            return '\n' if cmd == '*RST' else 'FAKE\n'
        self.bad(cmd, 'unrecognised command')
        return '\n'

def new_ppg():
    p = PPG3204()
    p.inst = FakeInst()
    return p

def run(clause, inp, fn, expect_warn=None):
    """Run fn(ppg); report exceptions, bad commands, missing warning. Returns (ppg, result)."""
    ppg = new_ppg()
    res = None
    with warnings.catch_warnings(record=True) as w:
        warnings.simplefilter('always')
        try:
            res = fn(ppg)
        except Exception as e:
            viol(clause, inp, f'raised {type(e).__name__}: {str(e)[:90]}')
            return ppg, None
    for cmd, why in ppg.inst.problems:
        viol(clause, inp, f'emitted {cmd!r}: {why}')
    if expect_warn is True and not any(issubclass(x.category, Warning) for x in w):
        viol(clause, inp, 'out-of-range request but no warning issued')
    return ppg, res

def vals_of(cmds, pat):
    out = []
    for c in cmds:
        m = re.fullmatch(pat, c)
        if m: out.append((int(m.group(1)) if m.group(1).isdigit() else m.group(1), float(m.group(2))))
    return out

rng = np.random.default_rng(20)

# ---------------------------------------------------------------- channel selections
CH_SEL = [None, 1, 2, 3, 4, 0, 5, -1, 100, -100, True, [1], [4], [1, 2], [2, 4], [4, 3, 2, 1], [1, 2, 3, 4], (1, 3), (2,),
          np.array([1, 4]), np.array([3]), [0], [5], [0, 5], [-3, 9], [1, 2, 3, 4, 5], [1, 2, 3, 4, 1, 2], [7, 8, 9, 10, 11, 12],
          (0, 1, 2), np.array([0, 2, 9]), [1, 1], [4, 4, 4, 4], [], np.array([], dtype=int), [1.0, 2.0], np.arange(1, 5), np.arange(0, 8),
          [10**6], [-10**6, 10**6]]

def n_ch(ch):
    if ch is None: return 4
    if isinstance(ch, (int, bool)): return 1
    return min(len(ch), 4)

def ch_out_of_range(ch):
    if ch is None: return False
    a = np.atleast_1d(np.array(ch, dtype=int))
    return bool((a < 1).any() or (a > 4).any() or a.size > 4)

for ch in CH_SEL:
    tag = f'CHs={ch!r}'
    ow = ch_out_of_range(ch)
    run('C1 channel 1..4 (set_patt_len)', tag, lambda p: p.set_patt_len(100, ch), ow)
    run('C1 channel 1..4 (get_patt_len)', tag, lambda p: p.get_patt_len(ch), ow)
    run('C1 channel 1..4 (set_mode)', tag, lambda p: p.set_mode('prbs', ch), ow)
    run('C1 channel 1..4 (get_mode)', tag, lambda p: p.get_mode(ch), ow)
    run('C1 channel 1..4 (set_prbs_order)', tag, lambda p: p.set_prbs_order(7, ch), ow)
    run('C1 channel 1..4 (get_prbs_order)', tag, lambda p: p.get_prbs_order(ch), ow)
    run('C1 channel 1..4 (set_data)', tag, lambda p: p.set_data('0110', 1, ch), ow)
    run('C1 channel 1..4 (get_data)', tag, lambda p: p.get_data(4, 1, ch), ow)
    run('C1 channel 1..4 (set_bits_shift)', tag, lambda p: p.set_bits_shift(3, ch), ow)
    run('C1 channel 1..4 (get_bits_shift)', tag, lambda p: p.get_bits_shift(ch), ow)
    run('C1 channel 1..4 (enable)', tag, lambda p: p.enable_outputs(ch), ow)
    run('C1 channel 1..4 (disable)', tag, lambda p: p.disable_outputs(ch), ow)
    run('C1 channel 1..4 (set_skew)', tag, lambda p: p.set_skew(1e-12, ch), ow)
    run('C1 channel 1..4 (get_skew)', tag, lambda p: p.get_skew(ch), ow)
    run('C1 channel 1..4 (set_output_voltage)', tag, lambda p: p.set_output_voltage(1.0, ch), ow)
    run('C1 channel 1..4 (get_output_voltage)', tag, lambda p: p.get_output_voltage(ch), ow)
    run('C1 channel 1..4 (set_offset)', tag, lambda p: p.set_offset(0.5, ch), ow)
    run('C1 channel 1..4 (get_offset)', tag, lambda p: p.get_offset(ch), ow)
    run('C1 channel 1..4 (__call__)', tag, lambda p: p(freq=1e10, patt_len=10, Vout=1, offset=0, bsh=1, skew=0, mode='PRBS', order=7, CHs=ch), ow)
    run('C1 channel 1..4 (config DATA)', tag, lambda p: p.config(mode='DATA', data='0101', CHs=ch), ow)

# ---------------------------------------------------------------- limits
def around(lo, hi, neg=False, integer=False):
    vs = set()
    for lim in (lo, hi):
        for f in (1e-6, 1e-3, 1e-2, 0.1, 0.5, 0.9, 0.99, 0.999999, 1, 1.000001, 1.01, 1.1, 2, 10, 100, 1e3, 1e6):
            vs.add(lim * f)
            if lim != 0: vs.add(-lim * f) if neg else None
        vs.add(np.nextafter(lim, -np.inf)); vs.add(np.nextafter(lim, np.inf))
    vs.update([0, 0.0, (lo + hi) / 2, lo, hi])
    if neg: vs.update([-1e-15, 1e-15, -1, 1, -1e6])
    if integer:
        vs = {int(round(v)) for v in vs} | {lo - 1, lo + 1, hi - 1, hi + 1, 0, 1, -1, -5, 10**9, 10**12}
    return sorted(vs)

def check_scalar_and_lists(clause, method, pat, lo, hi, values, tol, integer=False):
    """method(ppg, value, CHs); pat has groups (channel, value)."""
    def one(inp, v, ch):
        arr = np.atleast_1d(np.asarray(v, dtype=object if integer else float)).astype(float)
        nch = n_ch(ch)
        used = arr if arr.size == 1 and not isinstance(v, (list, tuple, np.ndarray)) else arr[:nch]
        out = bool(((used < lo) | (used > hi)).any())
        ppg, _ = run(clause, inp, lambda p: method(p, v, ch), True if out else None)
        got = vals_of(ppg.inst.log, pat)
        if not isinstance(v, (list, tuple, np.ndarray)):
            want = [float(np.clip(float(v), lo, hi))] * nch
        else:
            want = [float(np.clip(x, lo, hi)) for x in used]
        if ppg.inst.log and len(got) == len(want):
            for (c, g), wv in zip(got, want):
                if abs(g - wv) > tol(wv):
                    viol(clause, inp, f'channel {c}: emitted {g}, expected clamp(request)={wv}')
        elif ppg.inst.log and len(got) != len(want):
            viol(clause, inp, f'{len(got)} commands emitted, expected {len(want)}')
    for v in values:
        for ch in (None, 2, [1, 3], 7):
            one(f'value={v!r}, CHs={ch}', v, ch)
        if not integer:
            one(f'value=np.float64({v!r})', np.float64(v), None)
    # per-channel containers
    vals = list(values)
    for trial in range(200):
        k = int(rng.integers(1, 5))
        chs = [None, [1, 2, 3, 4], [4, 2], [3], (1, 2, 3), np.array([2, 3, 4, 1])][trial % 6]
        k = n_ch(chs)
        pick = [vals[i] for i in rng.integers(0, len(vals), k)]
        for cont in (list, tuple, np.array):
            if integer and cont is np.array and any(abs(x) > 2**62 for x in pick): continue
            v = cont(pick)
            one(f'value={v!r}, CHs={chs!r}', v, chs)
    # integer-typed containers for float quantities
    if not integer:
        for pick in ([0, 1, 2, 3], [-5, 5, 1, 0], [1, 1, 1, 1], [100, -100, 0, 2]):
            for cont in (list, np.array):
                v = cont(pick)
                one(f'value={v!r} (ints)', v, None)
        for s in (0, 1, 2, 3, -3, 5, 100, -100):
            one(f'value={s!r} (int scalar)', s, None)

# frequency (scalar only: one clock for the instrument)
for f in around(1.5e9, 32e9) + [1, 1e3, 1e15, 1.5e9, 32e9, int(1.5e9), int(32e9), 31999999999, 32000000001, 1499999999, 10**12, 0, -1e9,
                                 31.9999999e9, 1.4999999e9, 1.49999999999e9, 32.0000001e9]:
    for conv in (lambda x: x, np.float64):
        v = conv(f)
        out = not (1.5e9 <= float(v) <= 32e9)
        ppg, _ = run('C2 frequency 1.5-32 GHz', f'freq={v!r}', lambda p: p.set_freq(v), True if out else None)
        got = vals_of(ppg.inst.log, r':(FREQ) (.*)')
        want = float(np.clip(float(v), 1.5e9, 32e9))
        if got and abs(got[0][1] - want) > 1e-5 * want:
            viol('C2 frequency 1.5-32 GHz', f'freq={v!r}', f'emitted {got[0][1]}, expected {want}')

check_scalar_and_lists('C3 amplitude 0.3-2 V', lambda p, v, ch: p.set_output_voltage(v, ch), r':VOLT(\S+?):POS (.*)v', 0.3, 2.0,
                       around(0.3, 2.0) + [0.25, 0.26, 0.29, 0.31, 0.34, 0.35, 1.94, 1.95, 1.96, 2.04, 2.05, -1.0, 1.25], lambda w: 0.0500001)
check_scalar_and_lists('C4 offset -2..3 V', lambda p, v, ch: p.set_offset(v, ch), r':VOLT(\S+?):(?:POS|NEG):OFFS (.*)v', -2.0, 3.0,
                       around(-2.0, 3.0, neg=True) + [-2.04, -2.05, -2.06, -1.96, -0.04, -0.05, -0.06, 0.04, 2.95, 2.96, 3.04, 3.05, 3.06], lambda w: 0.0500001)
check_scalar_and_lists('C5 skew +-25 ps', lambda p, v, ch: p.set_skew(v, ch), r':SKEW(\S+?) (.*)', -25e-12, 25e-12,
                       around(-25e-12, 25e-12, neg=True) + [24.9e-12, 25.1e-12, -24.9e-12, -25.1e-12, 1e-13, 1e-9, -1e-9], lambda w: 1e-18)
check_scalar_and_lists('C6 pattern length 2..2^21', lambda p, v, ch: p.set_patt_len(v, ch), r':DIG(\S+?):PATT:LENG (.*)', 2, 2**21,
                       around(2, 2**21, integer=True), lambda w: 0.5, integer=True)

# PRBS order
ORD = [7, 9, 11, 15, 23, 31]
def near_ok(req, got):
    d = min(abs(o - req) for o in ORD)
    return got in ORD and abs(got - req) == d
for o in list(range(-40, 80)) + [100, 1000, 10**6, 10**9, -10**6, 10**12]:
    for ch in (None, 3, [1, 4]):
        ppg, _ = run('C7 PRBS order from list', f'order={o}, CHs={ch}', lambda p: p.set_prbs_order(o, ch), True if o not in ORD else None)
        for c, g in vals_of(ppg.inst.log, r':DIG(\S+?):PATT:PLEN (.*)'):
            if not near_ok(o, g): viol('C7 PRBS order from list', f'order={o}', f'emitted {g}')
for trial in range(150):
    k = [4, 4, 2, 1][trial % 4]
    chs = [None, [1, 2, 3, 4], [4, 2], [3]][trial % 4]
    pick = [int(x) for x in rng.integers(-5, 45, k)]
    for cont in (list, tuple, np.array):
        v = cont(pick)
        ppg, _ = run('C7 PRBS order from list', f'order={v!r}, CHs={chs}', lambda p: p.set_prbs_order(v, chs), True if any(x not in ORD for x in pick) else None)
        got = vals_of(ppg.inst.log, r':DIG(\S+?):PATT:PLEN (.*)')
        if len(got) != k: viol('C7 PRBS order from list', f'order={v!r}', f'{len(got)} commands')
        for (c, g), r_ in zip(got, pick):
            if not near_ok(r_, g): viol('C7 PRBS order from list', f'order={v!r}', f'emitted {g} for request {r_}')
for v in ([7.0, 9.0], [8.5, 12.2, 30.9, 6.1], np.array([7.5, 100.0])):
    run('C7 PRBS order from list', f'order={v!r}', lambda p: p.set_prbs_order(v), None)

# whole-configuration calls
for trial in range(300):
    kw = dict(freq=float(10 ** rng.uniform(7, 12)), patt_len=int(10 ** rng.uniform(0, 8)), Vout=float(10 ** rng.uniform(-2, 1.5)),
              offset=float(rng.choice([-1, 1]) * 10 ** rng.uniform(-2, 2)), bsh=int(rng.integers(-100, 100)),
              skew=float(rng.choice([-1, 1]) * 10 ** rng.uniform(-13, -9)), mode=str(rng.choice(['PRBS', 'DATA'])),
              order=int(rng.integers(0, 40)), data=rng.integers(0, 2, int(rng.integers(1, 3000))),
              CHs=[None, 1, 4, [1, 2], [0, 5], 9, [1, 2, 3, 4, 5]][trial % 7])
    run('C8 __call__/config', f'trial {trial} {dict((k, v) for k, v in kw.items() if k != "data")}', lambda p: p(**kw), None)

# ---------------------------------------------------------------- set_data / get_data
def expected_blocks(n, start):
    out = []; a = start
    while n > 0:
        b = min(1024, n); out.append((a, b)); a += b; n -= b
    return out

def data_test(n, start, ch, kind, twoD=False):
    inp = f'len={n}, start={start}, CHs={ch!r}, type={kind}{", per-channel rows" if twoD else ""}'
    nch = n_ch(ch)
    bits = rng.integers(0, 2, (nch, n) if twoD else n).astype(np.uint8)
    if kind == 'str': d = ''.join(map(str, bits))
    elif kind == 'list': d = bits.tolist()
    elif kind == 'tuple': d = tuple(map(tuple, bits.tolist())) if twoD else tuple(bits.tolist())
    elif kind == 'bool': d = bits.astype(bool)
    elif kind == 'int64': d = bits.astype(np.int64)
    else: d = bits
    ppg = new_ppg()
    with warnings.catch_warnings(record=True) as w:
        warnings.simplefilter('always')
        try:
            ppg.set_data(d, start, ch)
        except Exception as e:
            viol('C9 set_data blocks/header/addresses', inp, f'raised {type(e).__name__}: {str(e)[:80]}'); return
        wset = len(w)
    for cmd, why in ppg.inst.problems:
        viol('C9 set_data blocks/header/addresses', inp, f'emitted {cmd!r}: {why}')
    fits = start >= 1 and start + n - 1 <= MAXMEM
    chans = np.atleast_1d(np.arange(1, 5) if ch is None else np.clip(np.array(ch, dtype=int), 1, 4))[:4]
    if fits:
        # consecutive addresses, block sizes
        per = {}
        for c in ppg.inst.log:
            m = re.fullmatch(r':DIG(\d+):PATT:DATA (\d+),(\d+),#.*', c)
            if m: per.setdefault(int(m.group(1)), []).append((int(m.group(2)), int(m.group(3))))
        want = expected_blocks(n, start)
        for c in dict.fromkeys(chans.tolist()):
            got = per.get(c, [])
            reps = list(chans).count(c)
            if got != want * reps:
                viol('C9 set_data blocks/header/addresses', inp, f'channel {c}: blocks (addr,len) {got[:4]}{"..." if len(got)>4 else ""} expected {want[:4]}{"..." if len(want)>4 else ""}')
        if wset and not ch_out_of_range(ch):
            viol('C9 set_data blocks/header/addresses', inp, 'data fits in memory but a warning was issued')
        ppg.inst.problems.clear()
        with warnings.catch_warnings(record=True):
            warnings.simplefilter('always')
            try:
                back = ppg.get_data(n, start, ch)
            except Exception as e:
                viol('C10 get_data round trip', inp, f'raised {type(e).__name__}: {str(e)[:80]}'); return
        for cmd, why in ppg.inst.problems:
            viol('C10 get_data round trip', inp, f'emitted {cmd!r}: {why}')
        back = np.asarray(back)
        if back.shape != (len(chans), n):
            viol('C10 get_data round trip', inp, f'returned shape {back.shape}, expected {(len(chans), n)}'); return
        # what a channel finally holds: last row written to it
        for i, c in enumerate(chans):
            if twoD:
                j = max(jj for jj, cc in enumerate(chans) if cc == c)
                wantbits = bits[j]
            else:
                wantbits = bits
            if not np.array_equal(back[i], wantbits):
                viol('C10 get_data round trip', inp, f'channel {c}: read back differs from written bits ({int((back[i]!=wantbits).sum())} of {n})')

LENS = [1, 2, 3, 4, 5, 7, 8, 9, 10, 99, 100, 101, 999, 1000, 1023, 1024, 1025, 1026, 2047, 2048, 2049, 3071, 3072, 3073, 4096, 5000, 8191, 8192, 8193, 9999, 10000]
STARTS = [1, 2, 3, 1000, 1023, 1024, 1025, 2048, 2049, 99999, 2**20, 2**21 - 10000, 'end']
KINDS = ['str', 'list', 'tuple', 'uint8', 'bool', 'int64']
cnt = 0
for n in LENS:
    for s in STARTS:
        st = 2**21 - n + 1 if s == 'end' else s
        for ch in ([None, 1, 4, [2, 3]] if s in (1, 'end', 1024) else [[None, 1, 2, 3, 4, [1, 4]][cnt % 6]]):
            data_test(n, st, ch, KINDS[cnt % len(KINDS)]); cnt += 1
for n in range(1, 130):                       # every small length
    data_test(n, 1 + (n * 37) % 3000, [None, 1, 2, 3, 4][n % 5], KINDS[n % 6])
for n in range(1015, 1035):                   # every length around the block boundary
    data_test(n, 1, None, 'uint8'); data_test(n, 2**21 - n + 1, 3, 'str')
for n in range(2040, 2056):
    data_test(n, 5, [1, 4], 'list')
for t in range(150):                          # sampled
    n = int(rng.integers(1, 10001)); st = int(rng.integers(1, 2**21 - n + 2))
    ch = [None, 1, 2, 3, 4, [1, 2], (3, 4), np.array([4, 1]), [1, 2, 3, 4], 0, 6, [0, 9]][t % 12]
    data_test(n, st, ch, KINDS[t % 6])
# per-channel rows (documented: set_data([[1,0,1,0],[0,1,0,1]], CHs=[3,4]))
for n in (1, 2, 3, 4, 5, 8, 100, 1023, 1024, 1025, 2048, 5000, 10000):
    for ch in ([1], [3, 4], [1, 2, 3], None, [4, 3, 2, 1], 2):
        for s in (1, 1024, 2**20, 'end'):
            st = 2**21 - n + 1 if s == 'end' else s
            for kind in ('list', 'uint8', 'tuple'):
                data_test(n, st, ch, kind, twoD=True)

# data that does NOT fit between start address and the end of the memory: clamp + warning expected, nothing beyond 2^21 sent
for n, st in ((6, 2**21 - 2), (1025, 2**21 - 1023), (5000, 2**21 - 999), (10000, 2**21), (2, 2**21)):
    for twoD in (False, True):
        for ch in ([1, 2], None, 3):
            nch = n_ch(ch)
            for kind in ('list', 'uint8') + (() if twoD else ('str',)):
                bits = rng.integers(0, 2, (nch, n) if twoD else n).astype(np.uint8)
                d = bits.tolist() if kind == 'list' else (''.join(map(str, bits)) if kind == 'str' else bits)
                inp = f'len={n}, start={st} (only {2**21-st+1} addresses left), CHs={ch}, type={kind}{", per-channel rows" if twoD else ""}'
                ppg, _ = run('C9b set_data stays inside the 2^21-bit memory', inp, lambda p: p.set_data(d, st, ch), True)
                tot = {}
                for c in ppg.inst.log:
                    m = re.fullmatch(r':DIG(\d+):PATT:DATA (\d+),(\d+),#.*', c)
                    if m: tot[int(m.group(1))] = tot.get(int(m.group(1)), 0) + int(m.group(3))
                if not ppg.inst.problems and any(v != 2**21 - st + 1 for v in tot.values()):
                    viol('C9b set_data stays inside the 2^21-bit memory', inp, f'bits written per channel {tot}, expected {2**21-st+1}')

# arbitrary sequences of every set_*/get_* method
for t in range(60):
    ppg = new_ppg()
    with warnings.catch_warnings():
        warnings.simplefilter('ignore')
        for step in range(25):
            ch = [None, 1, 2, 3, 4, [1, 3], [2, 4], 0, 5, [0, 1, 2, 3, 4, 5]][int(rng.integers(0, 10))]
            k = int(rng.integers(0, 16)); desc = f'sequence {t} step {step} op {k} CHs={ch}'
            try:
                if k == 0:
                    v = int(10 ** rng.uniform(0, 8)); ppg.set_patt_len(v, ch); g = ppg.get_patt_len(ch)
                    if (g != np.clip(v, 2, 2**21)).any(): viol('C11 call sequences', desc, f'patt_len {v} read back {g}')
                elif k == 1:
                    v = float(10 ** rng.uniform(-2, 2)); ppg.set_output_voltage(v, ch); g = ppg.get_output_voltage(ch)
                    if (abs(g - np.clip(v, 0.3, 2)) > 0.0500001).any(): viol('C11 call sequences', desc, f'amplitude {v} read back {g}')
                elif k == 2:
                    v = float(rng.choice([-1, 1]) * 10 ** rng.uniform(-2, 2)); ppg.set_offset(v, ch); g = ppg.get_offset(ch)
                    if (abs(g - np.clip(v, -2, 3)) > 0.0500001).any(): viol('C11 call sequences', desc, f'offset {v} read back {g}')
                elif k == 3:
                    v = float(rng.choice([-1, 1]) * 10 ** rng.uniform(-13, -9)); ppg.set_skew(v, ch); g = ppg.get_skew(ch)
                    if (abs(g - np.clip(v, -25e-12, 25e-12)) > 1e-18).any(): viol('C11 call sequences', desc, f'skew {v} read back {g}')
                elif k == 4:
                    v = float(10 ** rng.uniform(8, 12)); ppg.set_freq(v); g = ppg.get_freq()
                    if abs(g - np.clip(v, 1.5e9, 32e9)) > 1e-5 * g: viol('C11 call sequences', desc, f'freq {v} read back {g}')
                elif k == 5:
                    v = int(rng.integers(-5, 50)); ppg.set_prbs_order(v, ch); g = ppg.get_prbs_order(ch)
                    if not all(near_ok(v, x) for x in g): viol('C11 call sequences', desc, f'order {v} read back {g}')
                elif k == 6: ppg.set_mode(['data', 'PRBS', 'Data', 'prbs'][step % 4], ch); ppg.get_mode(ch)
                elif k == 7: ppg.set_bits_shift(int(rng.integers(-1000, 1000)), ch); ppg.get_bits_shift(ch)
                elif k == 8: ppg.enable_outputs(ch)
                elif k == 9: ppg.disable_outputs(ch)
                elif k == 10: ppg.reset()
                else:
                    n = int(rng.integers(1, 4000)); st = int(rng.integers(1, 2**21 - n + 2)); b = rng.integers(0, 2, n)
                    ppg.set_data(b, st, ch); g = ppg.get_data(n, st, ch)
                    if not (g == b).all(): viol('C11 call sequences', desc, 'data read back differs')
            except Exception as e:
                viol('C11 call sequences', desc, f'raised {type(e).__name__}: {e}')
    for cmd, why in ppg.inst.problems: viol('C11 call sequences', f'sequence {t}', f'emitted {cmd!r}: {why}')

# arbitrary sequences of set_data at different places, then full read-back of the touched region
for t in range(40):
    ppg = new_ppg(); ref = {c: np.zeros(30001, np.uint8) for c in range(1, 5)}
    ok = True
    with warnings.catch_warnings():
        warnings.simplefilter('ignore')
        try:
            for step in range(6):
                n = int(rng.integers(1, 6000)); st = int(rng.integers(1, 20000)); ch = [None, 1, 2, 3, 4, [1, 3], [2, 4]][int(rng.integers(0, 7))]
                b = rng.integers(0, 2, n).astype(np.uint8)
                ppg.set_data(b, st, ch)
                for c in (range(1, 5) if ch is None else np.atleast_1d(ch)): ref[int(c)][st:st + n] = b
                ppg.set_patt_len(int(rng.integers(-5, 10**7)), ch); ppg.get_patt_len(ch)
            back = ppg.get_data(30000, 1)
        except Exception as e:
            viol('C11 call sequences', f'sequence {t}', f'raised {type(e).__name__}: {e}'); ok = False
    for cmd, why in ppg.inst.problems: viol('C11 call sequences', f'sequence {t}', f'emitted {cmd!r}: {why}')
    if ok:
        for c in range(1, 5):
            if not np.array_equal(back[c - 1], ref[c][1:]): viol('C11 call sequences', f'sequence {t}', f'channel {c} read back differs')

# ---------------------------------------------------------------- SYNC
def sync_case(order, plen, sps, d, sigma, reps, mode, rxtype, seed, extra=0):
    inp = f'PRBS{order} len={plen} sps={sps} d={d} sigma={sigma} reps={reps} delay={mode} rx={rxtype} seed={seed} extra={extra}'
    with warnings.catch_warnings():
        warnings.simplefilter('ignore')
        slots = PRBS(order=order, len=plen, seed=seed)
    tx = np.kron(slots.data, np.ones(sps))
    l = tx.size
    g = np.random.default_rng(seed * 7919 + d)
    if mode == 'circular':
        rx = np.roll(np.tile(tx, reps), d)
        if extra: rx = np.concatenate((rx, rx[:extra]))
    else:  # idle (zeros) before the first pattern starts
        rx = np.concatenate((np.zeros(d), np.tile(tx, reps)))
        if extra: rx = np.concatenate((rx, tx[:extra]))
    rx = rx + sigma * g.standard_normal(rx.size)
    try:
        gv(sps=sps)
        if rxtype == 'ndarray':
            out, i = SYNC(rx, slots.data, sps)
        elif rxtype == 'ndarray+binseq':
            out, i = SYNC(rx, slots, sps)
        else:
            out, i = SYNC(electrical_signal(rx), slots)
    except Exception as e:
        viol('C12 SYNC returns d', inp, f'raised {type(e).__name__}: {str(e)[:80]}'); return
    if i != d:
        viol('C12 SYNC returns d', inp, f'returned index {i}')
    sig = np.asarray(out.signal)
    if sig.size == 0 or not np.array_equal(sig, rx[i:i + sig.size]):
        viol('C13 SYNC signal starts at returned sample', inp, f'signal of {sig.size} samples does not equal rx[{i}:...]')
    if i == d and sig.size < l and reps >= 2:
        viol('C13 SYNC signal starts at returned sample', inp, f'only {sig.size} samples (< one pattern {l}) returned')

# every delay for short PRBS7 patterns, several sps
for sps in (1, 2, 3, 8):
    l = 127 * sps
    for d in range(l):
        sync_case(7, 127, sps, d, [0, 0.1, 0.3][d % 3], 2 + d % 2, ['circular', 'idle'][d % 2], ['ndarray', 'esignal', 'ndarray+binseq'][d % 3], 1 + d % 5)
    for d in (0, 1, sps - 1, sps, sps + 1, l // 2, l - sps, l - 2, l - 1):
        for sigma in (0, 0.05, 0.2, 0.4):
            for reps in (2, 3, 5):
                for mode in ('circular', 'idle'):
                    for seed in (1, 2, 3):
                        sync_case(7, 127, sps, d, sigma, reps, mode, 'ndarray', seed, extra=[0, 1, 5][seed % 3])
# d = 0 with noise, many seeds (lag 0 / lag l tie)
for seed in range(1, 60):
    sync_case(7, 127, 4, 0, 0.3, 2, 'circular', 'ndarray', seed)
    sync_case(7, 127, 1, 0, 0.3, 3, 'circular', 'esignal', seed)
    sync_case(7, 127, 2, 127 * 2 - 1, 0.3, 2, 'circular', 'ndarray', seed)
# other orders / truncated patterns
for order, plen in ((9, 511), (11, 2047), (7, 64), (7, 100), (9, 200), (15, 500), (15, 1000), (20, 300), (23, 256), (31, 333), (7, 16), (7, 32)):   # patterns are at most one PRBS period long (a pattern holding two periods is ambiguous)
    for sps in (1, 4):
        l = plen * sps
        for d in sorted({0, 1, 2, sps, l // 3, l // 2, l - sps, l - 2, l - 1}):
            for sigma in (0, 0.2):
                for seed in (1, 5):
                    sync_case(order, plen, sps, d, sigma, 2, 'circular', 'ndarray', seed)
                    sync_case(order, plen, sps, d, sigma, 3, 'idle', 'esignal', seed)

# rejection of short records
for sps in (1, 2, 8):
    with warnings.catch_warnings():
        warnings.simplefilter('ignore')
        slots = PRBS(order=7, len=127)
    tx = np.kron(slots.data, np.ones(sps)); l = tx.size
    for L in (1, 2, sps, l // 2, l - sps, l - 2, l - 1):
        for typ in ('ndarray', 'esignal'):
            gv(sps=sps)
            try:
                r = SYNC(tx[:L].copy(), slots.data, sps) if typ == 'ndarray' else SYNC(electrical_signal(tx[:L].copy()), slots)
                viol('C14 short record rejected', f'sps={sps} record length {L} < pattern {l} ({typ})', f'accepted, returned index {r[1]}')
            except (BufferError, ValueError) as e:
                if not isinstance(e, BufferError):
                    viol('C14 short record rejected', f'sps={sps} record length {L} ({typ})', f'rejected with {type(e).__name__}: {e} (not BufferError)')
            except Exception as e:
                viol('C14 short record rejected', f'sps={sps} record length {L} ({typ})', f'raised {type(e).__name__}: {e}')

if VIOL:
    print(f'{len(VIOL)} violations in clauses: ' + '; '.join(sorted({v[0] for v in VIOL})))
    sys.exit(1)
print('PASS')
sys.exit(0)
