# C20 finding 1: set_data with per-channel rows measures len(data) = number of ROWS against the free memory,
# so near the end of the 2^21-bit memory whole channels are dropped (and over-long rows are not clamped).
import sys; sys.path[:] = [p for p in sys.path if p != "/tmp/wt16/C20"], os
sys.path[:] = [p for p in sys.path if os.path.abspath(p or '.') != os.path.dirname(os.path.abspath(__file__))]
import warnings
from opticomlib.lab import PPG3204
sent = []
ppg = PPG3204()
ppg._query = lambda cmd: sent.append(cmd) or True          # record instead of sending
rows = [[1, 0], [0, 1], [1, 1]]                            # 2 bits per channel, documented 2-D form
with warnings.catch_warnings(record=True) as w:
    warnings.simplefilter('always')
    ppg.set_data(rows, start_addrs=2**21 - 1, CHs=[1, 2, 3])   # addresses 2097151..2097152: the data fits
expected = [f':DIG{c}:PATT:DATA 2097151,2,#12{r[0]}{r[1]}' for c, r in zip((1, 2, 3), rows)]
print('expected:', expected, '(no warning)')
print('got     :', sent, '| warnings:', [str(x.message)[:60] for x in w])
sys.exit(0 if sent == expected and not w else 1)
