"""Audit of property C01 (signal containers keep their shape/noise contract; operands never touched).

Prints one line per violated (clause, input), exits 1 if any, prints PASS and exits 0 otherwise.
"""
import sys
del sys.path[0]
import itertools
import warnings
import numpy as np

warnings.filterwarnings('ignore')
from opticomlib.typing import electrical_signal as E, optical_signal as O

VIOL = {}          # clause -> list of messages
SEEN = set()


def viol(clause, msg):
    key = (clause, msg)
    if key in SEEN:
        return
    SEEN.add(key)
    VIOL.setdefault(clause, []).append(msg)


# ----------------------------------------------------------------------------------------------
# model helpers
# ----------------------------------------------------------------------------------------------
def parse_str(s):
    """independent reading of a numeric string: ',' / blanks separate samples, ';' rows, i or j imaginary unit"""
    rows = []
    for row in s.split(';'):
        toks = [t for t in row.replace(',', ' ').split() if t]
        rows.append([complex(t.replace('i', 'j')) for t in toks])
    a = np.array(rows if len(rows) > 1 else rows[0])
    if np.all(a.imag == 0):
        a = a.real
        if np.all(a == np.round(a)) and '.' not in s:
            a = a.astype(int)
    return a


def fmt_num(v):
    if isinstance(v, (complex, np.complexfloating)):
        return repr(float(v.real)) + format(float(v.imag), '+') + 'j'
    if isinstance(v, (float, np.floating)):
        return repr(float(v))
    return str(int(v))


def to_str(a, sep=' '):
    a = np.asarray(a)
    if a.ndim == 2:
        return ';'.join(sep.join(fmt_num(v) for v in r) for r in a)
    return sep.join(fmt_num(v) for v in np.atleast_1d(a))


def values(rng, shape, kind):
    """small exactly representable values (multiples of 1/4), never a pure 0/1 pattern"""
    if kind == 'int':
        a = rng.integers(-3, 4, size=shape)
        a.flat[0] = 2
        return a
    if kind == 'float':
        a = rng.integers(-8, 9, size=shape) / 4.0
        a.flat[0] = 1.25
        return a
    a = rng.integers(-8, 9, size=shape) / 4.0 + 1j * rng.integers(-8, 9, size=shape) / 4.0
    a.flat[0] = 0.5 - 1.25j
    return a


def check_contract(clause, desc, obj, cls, n_pol, length):
    """the shape / noise contract of a result"""
    ok = True
    if type(obj) is not cls:
        viol(clause, f'{desc}: class {type(obj).__name__}, expected {cls.__name__}')
        return False
    s, n = obj.signal, obj.noise
    if not isinstance(s, np.ndarray):
        viol(clause, f'{desc}: signal is {type(s).__name__}')
        return False
    exp_shape = (length,) if n_pol == 1 else (2, length)
    if s.shape != exp_shape:
        viol(clause, f'{desc}: signal shape {s.shape}, expected {exp_shape}')
        ok = False
    if s.size < 1:
        viol(clause, f'{desc}: empty signal')
        ok = False
    if n is not None:
        if not isinstance(n, np.ndarray) or n.shape != s.shape:
            viol(clause, f'{desc}: noise shape {getattr(n, "shape", None)} vs signal {s.shape}')
            ok = False
    if cls is O and getattr(obj, 'n_pol', None) != n_pol:
        viol(clause, f'{desc}: n_pol attribute {getattr(obj, "n_pol", None)}, expected {n_pol}')
        ok = False
    if obj.len() != length or len(obj) != length:
        viol(clause, f'{desc}: len() {obj.len()}, expected {length}')
        ok = False
    return ok


def total(obj):
    return obj.signal if obj.noise is None else obj.signal + obj.noise


def arrays_of(obj):
    return [a for a in (obj.signal, obj.noise) if a is not None]


def snapshot(x):
    if isinstance(x, (E, O)):
        return ('obj', x.signal.copy(), None if x.noise is None else x.noise.copy(), x.signal.dtype)
    if isinstance(x, np.ndarray):
        return ('arr', x.copy())
    if isinstance(x, list):
        return ('list', repr(x))
    return ('other', repr(x))


def unchanged(x, snap):
    if snap[0] == 'obj':
        if x.signal.dtype != snap[3] or x.signal.shape != snap[1].shape or x.signal.tobytes() != snap[1].tobytes():
            return False
        if (x.noise is None) != (snap[2] is None):
            return False
        if snap[2] is not None and (x.noise.shape != snap[2].shape or x.noise.tobytes() != snap[2].tobytes()):
            return False
        return True
    if snap[0] == 'arr':
        return x.tobytes() == snap[1].tobytes()
    return repr(x) == snap[1]


def shares(res, x):
    if isinstance(x, (E, O)):
        return any(np.shares_memory(a, b) for a in arrays_of(res) for b in arrays_of(x))
    if isinstance(x, np.ndarray):
        return any(np.shares_memory(a, x) for a in arrays_of(res))
    return False


def close(a, b):
    a = np.asarray(a); b = np.asarray(b)
    if a.shape != b.shape:
        return False
    if a.dtype.kind in 'iu' and b.dtype.kind in 'iu':
        return np.array_equal(a, b)
    scale = max(1.0, float(np.max(np.abs(b))) if b.size else 1.0)
    return bool(np.all(np.abs(a - b) <= 1e-9 * scale))


def make(cls, n_pol, s, n=None):
    if cls is E:
        return E(s, n)
    return O(s, n, n_pol=n_pol)


def describe(cls, n_pol, N, kind, noise):
    return f'{cls.__name__}(pol={n_pol},N={N},{kind},noise={"y" if noise else "n"})'


LENGTHS = [1, 2, 3, 5, 7, 16, 101]
KINDS = ['int', 'float', 'complex']
LAYOUTS = [(E, 1), (O, 1), (O, 2)]


def shape_of(n_pol, N):
    return (N,) if n_pol == 1 else (2, N)


# ----------------------------------------------------------------------------------------------
# clause 1: every constructor form
# ----------------------------------------------------------------------------------------------
def audit_constructors():
    rng = np.random.default_rng(1)
    C = 'ctor'
    for (cls, n_pol), N, kind, with_noise in itertools.product(LAYOUTS, LENGTHS + [4099], KINDS, [False, True]):
        shp = shape_of(n_pol, N)
        s = values(rng, shp, kind)
        n = values(rng, shp, kind) * 2 if with_noise else None
        forms = {
            'ndarray': lambda a: a,
            'list': lambda a: a.tolist(),
            'tuple': lambda a: tuple(map(tuple, a.tolist())) if a.ndim == 2 else tuple(a.tolist()),
        }
        if N <= 101:
            forms['str'] = lambda a: to_str(a)
            forms['str,'] = lambda a: to_str(a, ', ')
        for (fs, ff), (fn, fnf) in itertools.product(forms.items(), forms.items()):
            if not with_noise and fn != 'ndarray':
                continue
            desc = describe(cls, n_pol, N, kind, with_noise) + f' from {fs}/{fn}'
            s_in = ff(s); n_in = None if n is None else fnf(n)
            snaps = snapshot(s_in), snapshot(n_in)
            try:
                if cls is E:
                    x = E(s_in, n_in)
                else:
                    x = O(s_in, n_in)            # n_pol inferred from the layout
            except Exception as e:
                viol(C, f'{desc}: {type(e).__name__}: {e}')
                continue
            if not check_contract(C, desc, x, cls, n_pol, N):
                continue
            if not np.array_equal(x.signal, s) or (n is not None and not np.array_equal(x.noise, n)):
                viol(C, f'{desc}: stored values differ from the input')
            if (n is None) != (x.noise is None):
                viol(C, f'{desc}: noise presence wrong')
            if not unchanged(s_in, snaps[0]) or (n_in is not None and not unchanged(n_in, snaps[1])):
                viol(C, f'{desc}: constructor argument modified')
            if shares(x, s_in) or (n_in is not None and shares(x, n_in)):
                viol(C, f'{desc}: object shares memory with the constructor argument')
            if x.signal.dtype.kind != {'int': 'i', 'float': 'f', 'complex': 'c'}[kind] and fs != 'str':
                viol(C, f'{desc}: dtype {x.signal.dtype}')
        # explicit dtype
        for dt in (int, float, complex):
            if kind == 'complex' and dt is not complex or kind == 'float' and dt is int:
                continue
            desc = describe(cls, n_pol, N, kind, with_noise) + f' dtype={dt.__name__}'
            try:
                x = cls(s, n, dtype=dt)
            except Exception as e:
                viol(C, f'{desc}: {type(e).__name__}: {e}')
                continue
            if check_contract(C, desc, x, cls, n_pol, N):
                if x.signal.dtype != np.dtype(dt) or (n is not None and x.noise.dtype != np.dtype(dt)):
                    viol(C, f'{desc}: dtype {x.signal.dtype}')
                if not np.array_equal(x.signal, s.astype(dt)):
                    viol(C, f'{desc}: values')
                if shares(x, s):
                    viol(C, f'{desc}: shares memory')
    # optical n_pol forms: 1-D -> duplicated rows, (1,N) rows, (2,N) reduced to one polarisation, scalars
    for N, kind, with_noise in itertools.product(LENGTHS, KINDS, [False, True]):
        s1 = values(rng, (N,), kind); n1 = values(rng, (N,), kind) if with_noise else None
        s2 = values(rng, (2, N), kind); n2 = values(rng, (2, N), kind) if with_noise else None
        cases = [
            ('1D,n_pol=2', s1, n1, 2, np.array([s1, s1]), None if n1 is None else np.array([n1, n1])),
            ('1D,n_pol=1', s1, n1, 1, s1, n1),
            ('(1,N),n_pol=None', s1[None], None if n1 is None else n1[None], None, np.array([s1, s1]), None if n1 is None else np.array([n1, n1])),
            ('(1,N),n_pol=1', s1[None], None if n1 is None else n1[None], 1, s1, n1),
            ('(1,N),n_pol=2', s1[None], None if n1 is None else n1[None], 2, np.array([s1, s1]), None if n1 is None else np.array([n1, n1])),
            ('(2,N),n_pol=1', s2, n2, 1, s2[0], None if n2 is None else n2[0]),
            ('(2,N),n_pol=2', s2, n2, 2, s2, n2),
        ]
        for name, si, ni, npol, es, en in cases:
            desc = f'optical_signal {name} N={N} {kind} noise={with_noise}'
            snap = snapshot(si)
            try:
                x = O(si, ni, n_pol=npol)
            except Exception as e:
                viol(C, f'{desc}: {type(e).__name__}: {e}')
                continue
            if check_contract(C, desc, x, O, es.ndim, N):
                if not np.array_equal(x.signal, es) or (en is not None and not np.array_equal(x.noise, en)):
                    viol(C, f'{desc}: values')
                if shares(x, si) or (ni is not None and shares(x, ni)):
                    viol(C, f'{desc}: shares memory with argument')
                if x.noise is not None and np.shares_memory(x.signal, x.noise):
                    viol(C, f'{desc}: signal and noise share memory')
                if x.signal.ndim == 2 and np.shares_memory(x.signal[0], x.signal[1]):
                    viol(C, f'{desc}: rows share memory')
            if not unchanged(si, snap):
                viol(C, f'{desc}: argument modified')
    # scalar forms
    scal = [2, -3, 1.5, 2 - 1j, np.float64(0.5), np.int64(3), np.complex128(1j), '2', '2.5', '1+2j', '-3']
    for sc, nz in itertools.product(scal, [None, 1, 0.25, 1j, '3', np.float64(2)]):
        if nz is not None and isinstance(sc, str) != isinstance(nz, str):
            continue     # a string is read as a 1-D vector, a number as a scalar: mixed forms are a shape mismatch by construction
        for cls, npol in [(E, 1), (O, 1), (O, 2)]:
            desc = f'{cls.__name__}(scalar {sc!r}, noise {nz!r}, n_pol={npol})'
            try:
                x = E(sc, nz) if cls is E else O(sc, nz, n_pol=npol)
            except Exception as e:
                viol(C, f'{desc}: {type(e).__name__}: {e}')
                continue
            if check_contract(C, desc, x, cls, npol, 1):
                ev = parse_str(sc) if isinstance(sc, str) else sc
                if not np.all(x.signal == ev):
                    viol(C, f'{desc}: value {x.signal}')
                if nz is not None:
                    evn = parse_str(nz) if isinstance(nz, str) else nz
                    if not np.all(x.noise == evn):
                        viol(C, f'{desc}: noise value {x.noise}')
    # strings of zeros and ones are numbers too
    for s, n in [('1 0 1', None), ('1,1,0', None), ('1 0 1', '0 1 1'), ('1', None), ('0', '1'), ('1 1; 0 1', None)]:
        for cls in (E, O):
            if ';' in s and cls is E:
                continue
            desc = f'{cls.__name__}({s!r}, {n!r})'
            try:
                x = cls(s, n)
            except Exception as e:
                viol('ctor-str01', f'{desc}: {type(e).__name__}: {e}')
                continue
            es = parse_str(s)
            if x.signal.dtype.kind not in 'iufc':
                viol('ctor-str01', f'{desc}: dtype {x.signal.dtype} (int/float/complex expected: total field and arithmetic are logical, not numeric)')
            if n is not None:
                t = x.signal + x.noise
                if not np.array_equal(np.asarray(t, dtype=float), es + parse_str(n)):
                    viol('ctor-str01', f'{desc}: total field signal+noise = {t}, expected {es + parse_str(n)}')
    # ... also as operands and with multi-digit tokens
    for cls in (E, O):
        nm = cls.__name__
        tests = [
            (f"{nm}('1 1 0') + '1 0 1'", lambda: cls('1 1 0') + '1 0 1', [2, 1, 1]),
            (f"{nm}('1 1 0') + {nm}('1 0 1')", lambda: cls('1 1 0') + cls('1 0 1'), [2, 1, 1]),
            (f"{nm}('1 1 0') - '1 0 1'", lambda: cls('1 1 0') - '1 0 1', [0, 1, -1]),
            (f"1 - {nm}('1 0 1')", lambda: 1 - cls('1 0 1'), [0, 1, 0]),
            (f"'1 1 1' - {nm}('1 0 1')", lambda: '1 1 1' - cls('1 0 1'), [0, 1, 0]),
            (f"{nm}('1 0 1', '1 0 0') + 0", lambda: cls('1 0 1', '1 0 0') + 0, [2, 0, 1]),
            (f"{nm}([5, 5, 5, 5]) + '10 0 1 1'", lambda: cls([5, 5, 5, 5]) + '10 0 1 1', [15, 5, 6, 6]),
            (f"{nm}('10 0 1 1', dtype=int)", lambda: cls('10 0 1 1', dtype=int), [10, 0, 1, 1]),
        ]
        for desc, f, exp in tests:
            try:
                y = f()
                t = np.asarray(total(y))
                if t.shape != (len(exp),) or not np.array_equal(t.astype(complex), np.array(exp, dtype=complex)):
                    viol('ctor-str01', f'{desc}: total field {t}, expected {exp}')
            except Exception as e:
                viol('ctor-str01', f'{desc}: {type(e).__name__}: {e}')
    # rejected shapes
    for bad in [[], [[]], [[1, 2], [3, 4], [5, 6]], [[[1, 2]]]]:
        for cls in (E, O):
            try:
                x = cls(bad)
                if not (cls is O and np.array(bad).ndim == 2 and np.array(bad).shape[0] <= 2 and np.array(bad).size):
                    viol(C, f'{cls.__name__}({bad}) accepted: signal shape {x.signal.shape}')
            except ValueError:
                pass
            except Exception as e:
                viol(C, f'{cls.__name__}({bad}): {type(e).__name__} instead of ValueError')
    for cls in (E, O):
        for s, n in [([1, 2, 3], [1, 2]), ([1, 2, 3], [1, 2, 3, 4]), ([1, 2], 1.0)]:
            try:
                x = cls(s, n)
                if x.noise.shape != x.signal.shape:
                    viol(C, f'{cls.__name__}({s},{n}) accepted with noise shape {x.noise.shape}')
            except ValueError:
                pass
            except Exception as e:
                viol(C, f'{cls.__name__}({s},{n}): {type(e).__name__} instead of ValueError')


# ----------------------------------------------------------------------------------------------
# clause 2: slicing and copy
# ----------------------------------------------------------------------------------------------
def slice_forms(N):
    ints = sorted({0, N - 1, -1, -N, N // 2, -(N // 2) - 1 if N > 1 else 0})
    out = [k for k in ints if -N <= k < N]
    out += [np.int64(out[-1]), np.int32(0)]
    sl = [slice(None), slice(0, None), slice(None, N), slice(None, N + 5), slice(1, None), slice(None, -1), slice(-1, None),
          slice(-N, None), slice(None, None, 2), slice(1, None, 2), slice(None, None, 3), slice(None, None, -1), slice(None, None, -2),
          slice(N - 1, None, -1), slice(-1, -N - 1, -1), slice(0, 1), slice(N - 1, N), slice(N // 2, N // 2 + 1),
          slice(None, None, N), slice(None, None, N + 1), slice(1, -1), slice(-3, None), slice(None, 3), slice(2, None, 5),
          slice(np.int64(0), np.int64(N)), slice(-2 * N, 2 * N)]
    return out + sl


def audit_slicing():
    rng = np.random.default_rng(2)
    C = 'slice'
    for (cls, n_pol), N, kind, with_noise in itertools.product(LAYOUTS, LENGTHS + [1024], KINDS, [False, True]):
        shp = shape_of(n_pol, N)
        s = values(rng, shp, kind); n = values(rng, shp, kind) if with_noise else None
        x = make(cls, n_pol, s, n)
        base = describe(cls, n_pol, N, kind, with_noise)
        for k in slice_forms(N):
            desc = f'{base}[{k}]'
            if isinstance(k, slice):
                es = s[..., k]; en = None if n is None else n[..., k]
            else:
                es = s[..., k:k + 1] if k != -1 else s[..., -1:]
                en = None if n is None else (n[..., k:k + 1] if k != -1 else n[..., -1:])
                if k < -1:
                    es = s[..., [k]]; en = None if n is None else n[..., [k]]
            if es.shape[-1] == 0:
                continue          # empty selection: contract cannot hold
            snap = snapshot(x)
            try:
                y = x[k]
            except Exception as e:
                viol(C, f'{desc}: {type(e).__name__}: {e}')
                continue
            if not check_contract(C, desc, y, cls, n_pol, es.shape[-1]):
                continue
            if not np.array_equal(y.signal, es) or y.signal.dtype != s.dtype:
                viol(C, f'{desc}: signal samples {y.signal} expected {es}')
            if (en is None) != (y.noise is None) or (en is not None and not np.array_equal(y.noise, en)):
                viol(C, f'{desc}: noise samples wrong')
            if shares(y, x):
                viol(C, f'{desc}: slice shares memory with the source')
            if not unchanged(x, snap):
                viol(C, f'{desc}: source modified')
            # writing into the slice must not reach the source
            y.signal[...] = 0
            if y.noise is not None:
                y.noise[...] = 0
            if not unchanged(x, snap):
                viol(C, f'{desc}: write into slice reached the source')
        # copy
        snap = snapshot(x)
        try:
            y = x.copy()
            if check_contract('copy', base + '.copy()', y, cls, n_pol, N):
                if not unchanged(y, snap):
                    viol('copy', f'{base}.copy(): differs from source')
                if shares(y, x):
                    viol('copy', f'{base}.copy(): shares memory')
                if y is x:
                    viol('copy', f'{base}.copy(): same object')
                y.signal[...] = 7
                if not unchanged(x, snap):
                    viol('copy', f'{base}.copy(): write reached source')
        except Exception as e:
            viol('copy', f'{base}.copy(): {type(e).__name__}: {e}')


# ----------------------------------------------------------------------------------------------
# clause 3: + - * with every operand kind
# ----------------------------------------------------------------------------------------------
def operand_kinds(rng, cls, n_pol, N, kind):
    """(name, raw operand, model signal, model noise, may be on the left)"""
    shp = shape_of(n_pol, N)
    out = []
    for k2 in KINDS:
        for wn in (False, True):
            s = values(rng, shp, k2); n = values(rng, shp, k2) if wn else None
            out.append((f'obj[{k2},noise={wn}]', make(cls, n_pol, s, n), s, n, True))
            s1 = values(rng, shape_of(n_pol, 1), k2); n1 = values(rng, shape_of(n_pol, 1), k2) if wn else None
            out.append((f'obj1[{k2},noise={wn}]', make(cls, n_pol, s1, n1), s1, n1, True))
        v = values(rng, (N,), k2)
        out.append((f'list[{k2}]', v.tolist(), v, None, True))
        out.append((f'tuple[{k2}]', tuple(v.tolist()), v, None, True))
        out.append((f'ndarray[{k2}]', v.copy(), v, None, False))
        if N <= 101:
            out.append((f'str[{k2}]', to_str(v), v, None, True))
        if n_pol == 2:
            v2 = values(rng, (2, N), k2)
            out.append((f'list2d[{k2}]', v2.tolist(), v2, None, True))
            out.append((f'ndarray2d[{k2}]', v2.copy(), v2, None, False))
            if N <= 101:
                out.append((f'str2d[{k2}]', to_str(v2), v2, None, True))
        out.append((f'list1[{k2}]', [v[0].item()], v[:1], None, True))
        out.append((f'ndarray1[{k2}]', v[:1].copy(), v[:1], None, False))
        out.append((f'ndarray0d[{k2}]', np.array(v[0]), v[:1], None, False))
        out.append((f'str1[{k2}]', to_str(v[:1]), v[:1], None, True))
    for sc in [2, -1, 0, 0.5, -2.25, 1 - 2j, 1j]:
        out.append((f'py {sc!r}', sc, np.array([sc]), None, True))
    for sc in [np.int64(3), np.int32(-2), np.float64(0.75), np.float32(0.5), np.complex128(1 + 1j)]:
        out.append((f'np {type(sc).__name__}({sc})', sc, np.array([sc]), None, False))
    out.append(('str 0/1', ' '.join('10'[i % 2] for i in range(N)), np.array([1 - i % 2 for i in range(N)]), None, True))
    return out


def audit_operators():
    rng = np.random.default_rng(3)
    for (cls, n_pol), N, kind, with_noise in itertools.product(LAYOUTS, [1, 2, 3, 7, 16, 101], KINDS, [False, True]):
        shp = shape_of(n_pol, N)
        s = values(rng, shp, kind); n = values(rng, shp, kind) if with_noise else None
        x = make(cls, n_pol, s, n)
        base = describe(cls, n_pol, N, kind, with_noise)
        tot_x = s if n is None else s + n
        for name, raw, ms, mn, left_ok in operand_kinds(rng, cls, n_pol, N, kind):
            tot_o = ms if mn is None else ms + mn
            for op, side in itertools.product('+-*', ('right', 'left')):
                if side == 'left' and not left_ok:
                    continue
                if side == 'left' and isinstance(raw, (E, O)) and raw.len() == N:
                    continue   # same as right with roles swapped
                desc = f'{base} {op} {name}' if side == 'right' else f'{name} {op} {base}'
                clause = {'+': 'add', '-': 'sub', '*': 'mul'}[op] + ('' if side == 'right' else '-reflected')
                if isinstance(raw, (E, O)) and raw.len() == 1 and N > 1:
                    clause += '-len1-left' if side == 'left' else '-len1'
                snaps = snapshot(x), snapshot(raw)
                a, b = (x, raw) if side == 'right' else (raw, x)
                try:
                    y = a + b if op == '+' else (a - b if op == '-' else a * b)
                except Exception as e:
                    viol(clause, f'{desc}: {type(e).__name__}: {e}')
                    continue
                if not unchanged(x, snaps[0]) or not unchanged(raw, snaps[1]):
                    viol(clause, f'{desc}: operand modified')
                if not check_contract(clause, desc, y, cls, n_pol, N):
                    continue
                if shares(y, x) or shares(y, raw):
                    viol(clause, f'{desc}: result shares memory with an operand')
                if y.noise is not None and np.shares_memory(y.signal, y.noise):
                    viol(clause, f'{desc}: signal and noise of the result share memory')
                if not y.signal.flags.writeable or (y.noise is not None and not y.noise.flags.writeable):
                    viol(clause, f'{desc}: result arrays are read-only')
                ta, tb = (tot_x, tot_o) if side == 'right' else (tot_o, tot_x)
                if op in '+-':
                    exp = ta + tb if op == '+' else ta - tb
                    if not close(total(y), np.broadcast_to(exp, shp)):
                        viol(clause, f'{desc}: total field {total(y)} expected {exp}')
                    if (y.noise is not None) != (n is not None or mn is not None):
                        viol(clause, f'{desc}: noise presence {y.noise is not None}')
                    if np.result_type(y.signal) != np.result_type(ta, tb) and y.signal.dtype.kind != np.result_type(ta, tb).kind:
                        viol(clause, f'{desc}: dtype {y.signal.dtype}, model {np.result_type(ta, tb)}')
                else:
                    exp = (s * ms)
                    if not close(y.signal, np.broadcast_to(exp, shp)):
                        viol(clause, f'{desc}: product of signals {y.signal} expected {exp}')
        # the same object on both sides
        for op in '+-*':
            snap = snapshot(x)
            desc = f'{base} {op} itself'
            try:
                y = x + x if op == '+' else (x - x if op == '-' else x * x)
            except Exception as e:
                viol('alias', f'{desc}: {type(e).__name__}: {e}')
                continue
            if check_contract('alias', desc, y, cls, n_pol, N):
                if shares(y, x) or not unchanged(x, snap):
                    viol('alias', f'{desc}: shares memory / operand modified')
                if op != '*' and not close(total(y), tot_x + tot_x if op == '+' else tot_x - tot_x):
                    viol('alias', f'{desc}: total field')
                if (y.noise is not None) != with_noise:
                    viol('alias', f'{desc}: noise presence')
        # different lengths are rejected with ValueError
        for M in sorted({N + 1, N - 1, 2 * N, N + 7} - {N, 1, 0, -1}):
            v = values(rng, (M,), kind)
            others = [('list', v.tolist()), ('tuple', tuple(v.tolist())), ('ndarray', v), ('str', to_str(v)),
                      ('obj', make(cls, n_pol, values(rng, shape_of(n_pol, M), kind))),
                      ('obj+noise', make(cls, n_pol, values(rng, shape_of(n_pol, M), kind), values(rng, shape_of(n_pol, M), kind)))]
            for (nm, o), op, side in itertools.product(others, '+-*', ('right', 'left')):
                if side == 'left' and nm == 'ndarray':
                    continue
                if N == 1 and side == 'left' and nm.startswith('obj'):
                    continue  # x (length 1) is then the broadcast right-hand operand
                if N == 1 and side == 'right' and nm.startswith('obj'):
                    continue  # counted under len1-left
                a, b = (x, o) if side == 'right' else (o, x)
                desc = f'{base} {op} {nm}(len {M})' if side == 'right' else f'{nm}(len {M}) {op} {base}'
                if N == 1:
                    continue  # x itself broadcasts
                try:
                    y = a + b if op == '+' else (a - b if op == '-' else a * b)
                    viol('length-mismatch', f'{desc}: accepted, result length {y.len()}')
                except ValueError:
                    pass
                except Exception as e:
                    viol('length-mismatch', f'{desc}: {type(e).__name__} instead of ValueError: {e}')


# ----------------------------------------------------------------------------------------------
# clause 4: domain transforms
# ----------------------------------------------------------------------------------------------
def audit_transforms():
    rng = np.random.default_rng(4)
    C = 'transform'
    for (cls, n_pol), N, kind, with_noise in itertools.product(LAYOUTS, LENGTHS + [1024, 1031], KINDS, [False, True]):
        shp = shape_of(n_pol, N)
        s = values(rng, shp, kind); n = values(rng, shp, kind) if with_noise else None
        x = make(cls, n_pol, s, n)
        base = describe(cls, n_pol, N, kind, with_noise)
        for dom, shift in itertools.product(['w', 'f', 't'], [False, True]):
            desc = f"{base}('{dom}', shift={shift})"
            snap = snapshot(x)
            try:
                y = x(dom, shift)
            except Exception as e:
                viol(C, f'{desc}: {type(e).__name__}: {e}')
                continue
            if not unchanged(x, snap):
                viol(C, f'{desc}: source modified')
            if not check_contract(C, desc, y, cls, n_pol, N):
                continue
            if shares(y, x):
                viol(C, f'{desc}: shares memory')
            if (y.noise is None) != (n is None):
                viol(C, f'{desc}: noise presence')
            f = np.fft.fft if dom in 'wf' else np.fft.ifft
            sh = (lambda a: a) if not shift else ((lambda a: np.fft.fftshift(a, axes=-1)) if dom in 'wf' else (lambda a: np.fft.ifftshift(a, axes=-1)))
            if not close(y.signal, sh(f(s, axis=-1))):
                viol(C, f'{desc}: signal is not the transform of the signal')
            if n is not None and not close(y.noise, sh(f(n, axis=-1))):
                viol(C, f'{desc}: noise is not the transform of the noise')
        # round trip
        try:
            z = x('w')('t')
            if check_contract(C, base + " ('w')('t')", z, cls, n_pol, N) and not close(total(z), total(x)):
                viol(C, f"{base}('w')('t'): round trip differs")
            z = x('f', True)('t', True)
            check_contract(C, base + " ('f',True)('t',True)", z, cls, n_pol, N)
        except Exception as e:
            viol(C, f'{base} round trip: {type(e).__name__}: {e}')


# ----------------------------------------------------------------------------------------------
# clause 5: expression trees of depth <= 6 against a (signal, noise) array-pair model
# ----------------------------------------------------------------------------------------------
class Abort(Exception):
    pass


class Tree:
    def __init__(self, rng, cls, n_pol, kinds, avoid_known):
        self.rng = rng; self.cls = cls; self.n_pol = n_pol; self.kinds = kinds; self.avoid = avoid_known

    def leaf(self, L):
        rng = self.rng
        kind = self.kinds[rng.integers(len(self.kinds))]
        shp = shape_of(self.n_pol, L)
        s = values(rng, shp, kind)
        n = values(rng, shp, kind) if rng.random() < 0.5 else None
        return make(self.cls, self.n_pol, s, n), (s, n), f'X{L}{kind[0]}{"n" if n is not None else ""}'

    def raw(self, L):
        """raw operand (no object): scalar, list, tuple, str, ndarray, numpy scalar"""
        rng = self.rng
        kind = self.kinds[rng.integers(len(self.kinds))]
        c = rng.integers(7)
        if c == 0:
            v = values(rng, (1,), kind)[0].item()
            return v, np.array([v]), repr(v), True
        if c == 1:
            v = values(rng, (1,), kind)[0]
            return v, np.array([v]), f'np.{type(v).__name__}({v})', False
        v = values(rng, (L,) if rng.random() < 0.7 else (1,), kind)
        if c == 2:
            return v.tolist(), v, f'list{len(v)}', True
        if c == 3:
            return tuple(v.tolist()), v, f'tuple{len(v)}', True
        if c == 4 and len(v) < 200:
            return to_str(v), v, f'str{len(v)}', True
        if c == 5 and self.n_pol == 2:
            v = values(rng, (2, L), kind)
            return v.tolist(), v, f'list2d{L}', True
        return v.copy(), v, f'ndarray{len(v)}', False

    def gen(self, depth, L):
        """returns (object, (signal, noise) model, text) of length L"""
        rng = self.rng
        if depth == 0:
            return self.leaf(L)
        c = rng.integers(10)
        if c <= 4:      # binary
            op = '+-*'[rng.integers(3)]
            a, ma, ta = self.gen(depth - 1, L)
            r = rng.random()
            if r < 0.4:
                b, mb, tb = self.gen(rng.integers(depth), L)
                return self.binary(op, a, ma, ta, b, mb, tb)
            if r < 0.55:
                b, mb, tb = self.gen(rng.integers(depth), 1)       # length-1 object
                if rng.random() < 0.5 and not (self.avoid and L > 1):
                    return self.binary(op, b, mb, tb, a, ma, ta)
                return self.binary(op, a, ma, ta, b, mb, tb)
            raw, mv, tr, left_ok = self.raw(L)
            if left_ok and rng.random() < 0.5:
                return self.binary(op, raw, (mv, None), tr, a, ma, ta)
            return self.binary(op, a, ma, ta, raw, (mv, None), tr)
        if c == 5:
            a, ma, ta = self.gen(depth - 1, L)
            return self.unary(lambda o: o.copy(), lambda m: m, a, ma, f'{ta}.copy()', L)
        # slice giving length L
        forms = []
        k = int(rng.integers(1, 4))
        forms.append((L + k, slice(k, None), f'[{k}:]'))
        forms.append((L + k, slice(None, L), f'[:{L}]'))
        forms.append((L + k, slice(None, -k), f'[:-{k}]'))
        forms.append((L + k, slice(-L, None), f'[-{L}:]'))
        forms.append((2 * L, slice(None, None, 2), '[::2]'))
        forms.append((2 * L - 1, slice(None, None, 2), '[::2]'))
        forms.append((2 * L, slice(1, None, 2), '[1::2]'))
        forms.append((L, slice(None, None, -1), '[::-1]'))
        forms.append((L, slice(None), '[:]'))
        forms.append((3 * L, slice(None, None, -3), '[::-3]'))
        if L == 1:
            for idx in (0, -1, k, -k, np.int64(k)):
                forms.append((k + 2, idx, f'[{idx}]'))
        L2, sl, ts = forms[rng.integers(len(forms))]
        a, ma, ta = self.gen(depth - 1, L2)
        if isinstance(sl, slice):
            mf = lambda m: tuple(None if v is None else v[..., sl] for v in m)
        else:
            ii = int(sl) % L2
            mf = lambda m: tuple(None if v is None else v[..., ii:ii + 1] for v in m)
        return self.unary(lambda o: o[sl], mf, a, ma, f'({ta}){ts}', L)

    def verify(self, y, my, text, L, operands):
        if not check_contract('tree', text, y, self.cls, self.n_pol, L):
            raise Abort
        ms, mn = my
        shp = shape_of(self.n_pol, L)
        if (y.noise is None) != (mn is None):
            viol('tree', f'{text}: noise presence {y.noise is not None}, model {mn is not None}')
            raise Abort
        if not close(y.signal, np.broadcast_to(ms, shp)) or (mn is not None and not close(y.noise, np.broadcast_to(mn, shp))):
            viol('tree', f'{text}: values differ from the model')
            raise Abort
        for o, snap in operands:
            if not unchanged(o, snap):
                viol('tree', f'{text}: operand modified')
                raise Abort
            if shares(y, o):
                viol('tree', f'{text}: result shares memory with an operand')
                raise Abort

    def unary(self, f, mf, a, ma, text, L):
        snap = snapshot(a)
        try:
            y = f(a)
        except Exception as e:
            viol('tree', f'{text}: {type(e).__name__}: {e}')
            raise Abort
        my = mf(ma)
        self.verify(y, my, text, L, [(a, snap)])
        return y, tuple(None if v is None else np.array(v) for v in my), text

    def binary(self, op, a, ma, ta, b, mb, tb):
        text = f'({ta} {op} {tb})'
        La = ma[0].shape[-1]; Lb = mb[0].shape[-1]
        L = max(La, Lb)
        a_obj = isinstance(a, (E, O)); b_obj = isinstance(b, (E, O))
        if self.avoid:
            # corners reported by the systematic clauses: keep them out of the random trees
            if a_obj and b_obj and La == 1 and Lb > 1:
                a, ma, ta, b, mb, tb = b, mb, tb, a, ma, ta
            if op == '*' and L > 1:
                for (m1, m2) in ((ma, mb), (mb, ma)):
                    if m1[1] is None and m2[1] is not None and m2[0].shape[-1] == 1:
                        op = '+'
                text = f'({ta} {op} {tb})'
        snaps = [(a, snapshot(a)), (b, snapshot(b))]
        try:
            y = a + b if op == '+' else (a - b if op == '-' else a * b)
        except Exception as e:
            viol('tree', f'{text}: {type(e).__name__}: {e}')
            raise Abort
        (sa, na), (sb, nb) = ma, mb
        shp = np.broadcast_shapes(sa.shape, sb.shape)
        if op == '+':
            ms = sa + sb
            mn = None if na is None and nb is None else (nb if na is None else (na if nb is None else na + nb))
        elif op == '-':
            ms = sa - sb
            mn = None if na is None and nb is None else (-nb if na is None else (na if nb is None else na - nb))
        else:
            ms = sa * sb       # the statement fixes no value for the noise of a product: follow the library's rule
            mn = None if na is None and nb is None else (nb if na is None else (na if nb is None else na * nb))
        if mn is not None:
            mn = np.broadcast_to(mn, shp)
            mn = mn.astype(np.result_type(ms, mn))
        my = (np.array(np.broadcast_to(ms, shp)), None if mn is None else np.array(mn))
        self.verify(y, my, text, L, snaps)
        return y, my, text


def audit_trees():
    rng = np.random.default_rng(5)
    count = 0
    for rep in range(1500):
        cls, n_pol = LAYOUTS[rep % 3]
        L = [1, 2, 3, 5, 7, 11, 16][rng.integers(7)]
        depth = int(rng.integers(1, 7))
        kinds = [KINDS, ['int'], ['float'], ['complex'], ['int', 'float']][rng.integers(5)]
        tr = Tree(rng, cls, n_pol, kinds, avoid_known=True)
        try:
            tr.gen(depth, L)
            count += 1
        except Abort:
            pass
        except RecursionError:
            raise
    return count


# ----------------------------------------------------------------------------------------------
if __name__ == '__main__':
    audit_constructors()
    audit_slicing()
    audit_operators()
    audit_transforms()
    ntree = audit_trees()
    if not VIOL:
        print('PASS')
        sys.exit(0)
    for clause, msgs in VIOL.items():
        for m in msgs[:12]:
            print(f'VIOLATION [{clause}] {m}')
        if len(msgs) > 12:
            print(f'VIOLATION [{clause}] ... and {len(msgs) - 12} more inputs')
    print(f'{sum(len(v) for v in VIOL.values())} violations in {len(VIOL)} clause groups ({ntree} trees evaluated)')
    sys.exit(1)
