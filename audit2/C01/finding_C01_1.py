# C01: a noise-free signal times a length-1 operand that carries noise ("every expression tree ... built from
# +, -, *, slicing": y * x[0]) must give a new object of y's length with matching noise; + and - do (fix 283d3a5), * raises.
import sys
del sys.path[0]
from opticomlib.typing import electrical_signal, optical_signal
bad = 0
for cls, y, x in [(electrical_signal, electrical_signal([1., 2., 3.]), electrical_signal([4., 5., 6.], [.1, .2, .3])),
                  (optical_signal, optical_signal([[1., 2., 3.], [4., 5., 6.]]), optical_signal([[1., 1., 1.], [2., 2., 2.]], [[.1, .2, .3], [.4, .5, .6]]))]:
    s = (y + x[0])                      # the sibling works: noise of x[0] broadcast to y's shape
    try:
        p = y * x[0]
        ok = p.signal.shape == y.signal.shape and p.noise is not None and p.noise.shape == p.signal.shape
        print(cls.__name__, 'y * x[0] ->', p.signal.shape, None if p.noise is None else p.noise.shape)
    except Exception as e:
        ok = False
        print(f'{cls.__name__}: y * x[0] expected a signal of shape {y.signal.shape} with noise of the same shape '
              f'(as y + x[0] gives: noise {s.noise.shape}); got {type(e).__name__}: {e}')
    bad += not ok
sys.exit(1 if bad else 0)
