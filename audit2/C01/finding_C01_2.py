# C01: "scalars and length-1 operands broadcast": a length-1 signal object on the LEFT of +, -, * (x[0] + y) is rejected,
# although the same value as a list on the left ([5.] + y) and the same object on the right (y + x[0]) are accepted.
import sys
del sys.path[0]
import numpy as np
from opticomlib.typing import electrical_signal, optical_signal
bad = 0
for cls in (electrical_signal, optical_signal):
    x = cls([5., 6., 7.]); y = cls([1., 2., 3.], [.1, .2, .3])
    ref = {'+': ([5.] + y), '-': ([5.] - y), '*': ([5.] * y)}          # list on the left: works
    for op in '+-*':
        try:
            r = x[0] + y if op == '+' else (x[0] - y if op == '-' else x[0] * y)
            ok = np.array_equal(r.signal, ref[op].signal) and np.array_equal(r.noise, ref[op].noise)
            print(cls.__name__, f'x[0] {op} y ->', r.signal, r.noise)
        except Exception as e:
            ok = False
            print(f'{cls.__name__}: x[0] {op} y expected signal {ref[op].signal} noise {ref[op].noise} (what [5.] {op} y gives); '
                  f'got {type(e).__name__}: {e}')
        bad += not ok
sys.exit(1 if bad else 0)
