# C01: the string constructor form / string operands: a string of zeros and ones becomes a BOOL container, so
# signal+noise and + are logical OR, - raises TypeError, and multi-digit tokens are split into digits even with dtype=int.
import sys
del sys.path[0]
import numpy as np
from opticomlib.typing import electrical_signal as E
bad = 0
def check(desc, f, expected):
    global bad
    try:
        y = f(); t = np.asarray(y.signal if y.noise is None else y.signal + y.noise)
        ok = t.shape == (len(expected),) and np.array_equal(t.astype(complex), np.array(expected, dtype=complex))
        out = f'{t} (dtype {t.dtype})'
    except Exception as e:
        ok = False; out = f'{type(e).__name__}: {e}'
    if not ok:
        bad += 1
        print(f'{desc}: expected total field {expected}, got {out}')
check("E('1 1 0') + '1 0 1'", lambda: E('1 1 0') + '1 0 1', [2, 1, 1])
check("E('1 0 1', noise='0 0 1')", lambda: E('1 0 1', '0 0 1'), [1, 0, 2])
check("E('1 1 0') - '1 0 1'", lambda: E('1 1 0') - '1 0 1', [0, 1, -1])
check("1 - E('1 0 1')", lambda: 1 - E('1 0 1'), [0, 1, 0])
check("E('10 0 1 1', dtype=int)", lambda: E('10 0 1 1', dtype=int), [10, 0, 1, 1])
check("E([5,5,5,5]) + '10 0 1 1'", lambda: E([5, 5, 5, 5]) + '10 0 1 1', [15, 5, 6, 6])
sys.exit(1 if bad else 0)
