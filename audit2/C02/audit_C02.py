import sys
del sys.path[0]
import warnings, itertools
import numpy as np
from numpy.fft import fft, ifft, fftfreq, fftshift, ifftshift
warnings.simplefilter('ignore')
from opticomlib.typing import gv, electrical_signal, optical_signal

bad = []
def viol(clause, desc, detail=''):
    bad.append((clause, desc))
    print(f'VIOLATION {clause}: {desc} {detail}')

def close(a, b, scale=None, rtol=1e-10):
    a = np.asarray(a); b = np.asarray(b)
    if a.shape != b.shape:
        return False
    if scale is None:
        scale = max(1.0, float(np.max(np.abs(b))) if b.size else 1.0)
    return bool(np.all(np.abs(a - b) <= rtol * scale))

LENGTHS = [1, 2, 3, 4, 5, 7, 8, 9, 15, 16, 17, 31, 32, 33, 64, 97, 100, 127, 128, 255, 256, 257, 1000, 1021, 1024, 4099, 2**14, 2**14 + 1]
DTYPES = [np.float64, np.float32, np.complex128, np.complex64, np.int64, np.int32, np.longdouble, np.float16]
rng = np.random.default_rng(20260927)

def draw(shape, dt):
    if np.issubdtype(dt, np.complexfloating):
        return (rng.normal(size=shape) + 1j * rng.normal(size=shape)).astype(dt)
    if np.issubdtype(dt, np.integer):
        return rng.integers(-50, 50, size=shape).astype(dt)
    return rng.normal(size=shape).astype(dt)

def make(cls, n, npol, dt, noise_dt, container):
    shape = (n,) if npol == 1 else (2, n)
    s = draw(shape, dt)
    nz = None if noise_dt is None else draw(shape, noise_dt)
    conv = {'ndarray': lambda a: a, 'list': lambda a: a.tolist(), 'tuple': lambda a: tuple(map(tuple, a)) if a.ndim == 2 else tuple(a.tolist())}[container]
    if cls is electrical_signal:
        x = cls(conv(s), None if nz is None else conv(nz))
    else:
        x = cls(conv(s), None if nz is None else conv(nz))
    return x, s, nz

def check_obj(x, tag):
    """all clauses for an existing signal object"""
    s0 = np.array(x.signal); n0 = None if x.noise is None else np.array(x.noise)
    n = x.len()
    if s0.shape[-1] != n:
        viol('len', tag, f'len()={n} shape={s0.shape}')
    sc = lambda a: max(1.0, float(np.max(np.abs(a)))) * max(1, a.shape[-1])
    for dom in ('w', 'f'):
        for sh in (False, True, 0, 1, np.True_, np.False_):
            X = x(dom, shift=sh) if sh is not False else x(dom)
            if type(X) is not type(x):
                viol('type', tag, f'{type(X)}')
            ref = fft(s0.astype(complex) if s0.dtype != np.longdouble else s0, axis=-1)
            got = X.signal
            if sh:
                # opposite numpy shift recovers the unshifted transform
                if not close(ifftshift(got, axes=-1), ref, sc(s0)):
                    viol('fwd-shift-signal', tag, f'dom={dom} sh={sh!r}')
                if not np.array_equal(got, fftshift(x(dom).signal, axes=-1)):
                    viol('fwd-shift-reorder', tag, f'dom={dom}')
            else:
                if not close(got, ref, sc(s0)):
                    viol('fwd-signal', tag, f'dom={dom}')
            if (n0 is None) != (X.noise is None):
                viol('noise-presence', tag, f'dom={dom} sh={sh!r}')
            if n0 is not None:
                refn = fft(n0.astype(complex) if n0.dtype != np.longdouble else n0, axis=-1)
                gn = ifftshift(X.noise, axes=-1) if sh else X.noise
                if not close(gn, refn, sc(n0)):
                    viol('fwd-noise', tag, f'dom={dom} sh={sh!r}')
            # Parseval per polarisation
            for name, a, A in (('signal', s0, X.signal), ('noise', n0, X.noise)):
                if a is None: continue
                lhs = np.sum(np.abs(A.astype(complex))**2, axis=-1)
                rhs = n * np.sum(np.abs(a.astype(complex))**2, axis=-1)
                if not np.allclose(lhs, rhs, rtol=1e-9, atol=1e-9):
                    viol('parseval', tag, f'{name} dom={dom} sh={sh!r} {lhs} vs {rhs}')
            # round trip
            if sh:
                # undo the shift by hand, then invert
                U = type(x)(ifftshift(X.signal, axes=-1), None if X.noise is None else ifftshift(X.noise, axes=-1))
            else:
                U = X
            back = U('t')
            if back.signal.shape != s0.shape:
                viol('roundtrip-shape', tag, f'{back.signal.shape} vs {s0.shape}')
            elif not close(back.signal, s0, max(1.0, np.max(np.abs(s0)))):
                viol('roundtrip-signal', tag, f'dom={dom} sh={sh!r}')
            if n0 is not None and (back.noise is None or not close(back.noise, n0, max(1.0, np.max(np.abs(n0))))):
                viol('roundtrip-noise', tag, f'dom={dom} sh={sh!r}')
            if type(x) is optical_signal and back.n_pol != x.n_pol:
                viol('roundtrip-npol', tag, f'{back.n_pol} vs {x.n_pol}')
            if not np.allclose(back.power(), np.asarray(x.power(), float), rtol=lowtol(s0, n0), atol=1e-12):
                viol('roundtrip-power', tag, f'{back.power()} vs {x.power()}')
    # inverse alone and its shift
    for sh in (False, True):
        T = x('t', shift=sh)
        ref = ifft(s0.astype(complex), axis=-1)
        got = fftshift(T.signal, axes=-1) if sh else T.signal
        if not close(got, ref, max(1.0, np.max(np.abs(s0)))):
            viol('inv-signal', tag, f'sh={sh}')
        if sh and not np.array_equal(T.signal, ifftshift(x('t').signal, axes=-1)):
            viol('inv-shift-reorder', tag)
        if n0 is not None:
            refn = ifft(n0.astype(complex), axis=-1)
            gn = fftshift(T.noise, axes=-1) if sh else T.noise
            if not close(gn, refn, max(1.0, np.max(np.abs(n0)))):
                viol('inv-noise', tag, f'sh={sh}')
        # x('t')('w') == x as well (mutually inverse)
        U = type(x)(got, None if n0 is None else gn)
        bw = U('w')
        if not close(bw.signal, s0, max(1.0, np.max(np.abs(s0))), rtol=1e-9):
            viol('inv-roundtrip', tag, f'sh={sh}')
    # input not mutated
    if not np.array_equal(x.signal, s0) or (n0 is not None and not np.array_equal(x.noise, n0)):
        viol('mutation', tag)
    # power
    tot = s0.astype(complex) if n0 is None else s0.astype(complex) + n0.astype(complex)
    refp = np.mean(np.abs(tot)**2, axis=-1)
    for call in (lambda: x.power(), lambda: x.power('all'), lambda: x.power(by='ALL'), lambda: x.power('All')):
        p = call()
        if np.shape(p) != np.shape(refp) or not np.allclose(np.asarray(p, float), refp, rtol=lowtol(s0, n0) if lowtol(s0, n0) > 1e-9 else 1e-12, atol=1e-3 if s0.dtype == np.float16 else 1e-12):
            viol('power', tag, f'{p} vs {refp}')
    ps = x.power('signal'); refs = np.mean(np.abs(s0.astype(complex))**2, axis=-1)
    if not np.allclose(np.asarray(ps, float), refs, rtol=1e-3 if s0.dtype == np.float16 else 1e-6):
        viol('power-signal', tag)
    pn = x.power('noise'); refn_ = 0 * refs if n0 is None else np.mean(np.abs(n0.astype(complex))**2, axis=-1)
    if np.shape(pn) != np.shape(refn_) or not np.allclose(np.asarray(pn, float), refn_, rtol=1e-3 if s0.dtype == np.float16 else 1e-6):
        viol('power-noise', tag, f'{pn} vs {refn_}')

def lowtol(s0, n0):
    low = {np.dtype(np.float16): 5e-3, np.dtype(np.float32): 1e-5, np.dtype(np.complex64): 1e-5}
    return max(low.get(s0.dtype, 1e-9), 1e-9 if n0 is None else low.get(np.result_type(s0, n0), 1e-9))

def check_w(x, tag):
    n = x.len()
    ref = 2 * np.pi * fftfreq(n) * gv.fs
    w = x.w()
    if w.shape != (n,) or not np.array_equal(w, ref):
        viol('w', tag, f'fs={gv.fs} n={n}')
    for sh in (True, 1, np.True_):
        ws = x.w(shift=sh)
        if not np.array_equal(ws, fftshift(ref)):
            viol('w-shift', tag, f'fs={gv.fs} n={n}')
        if not np.array_equal(ifftshift(ws), ref):
            viol('w-shift-undo', tag)
        if n > 1 and np.any(np.diff(ws) <= 0):
            viol('w-shift-monotone', tag)
    if not np.array_equal(x.w(False), ref) or not np.array_equal(x.w(0), ref):
        viol('w-noshift', tag)
    # the transform objects share the axis length
    if x('w').w().shape != (n,):
        viol('w-of-transform', tag)

# ---------------------------------------------------------------- transforms over the grid
gv.clean()
count = 0
for n in LENGTHS:
    for cls, npol in ((electrical_signal, 1), (optical_signal, 1), (optical_signal, 2)):
        for dt in DTYPES:
            for ndt in (None, dt, np.complex128, np.float64):
                if n > 2000 and (dt not in (np.float64, np.complex128) or ndt not in (None, dt)):
                    continue
                container = ['ndarray', 'list', 'tuple'][count % 3] if n <= 64 and dt in (np.float64, np.complex128, np.int64) else 'ndarray'
                tag = f'{cls.__name__} n={n} npol={npol} dt={np.dtype(dt).name} noise={None if ndt is None else np.dtype(ndt).name} {container}'
                try:
                    x, s, nz = make(cls, n, npol, dt, ndt, container)
                    check_obj(x, tag)
                    check_w(x, tag)
                except Exception as e:
                    viol('exception', tag, repr(e))
                count += 1

# ---------------------------------------------------------------- special constructions
gv.clean()
specials = []
for v in (3, 3.5, 2 - 1j, np.float64(2.5), np.int64(4), np.complex64(1 + 2j), 0, 0.0, -1):
    specials.append((f'es scalar {v!r}', lambda v=v: electrical_signal(v)))
    specials.append((f'es scalar {v!r} noise', lambda v=v: electrical_signal(v, 0.25)))
    specials.append((f'os scalar {v!r}', lambda v=v: optical_signal(v)))
    for p in (1, 2):
        specials.append((f'os scalar {v!r} n_pol={p}', lambda v=v, p=p: optical_signal(v, n_pol=p)))
        specials.append((f'os scalar {v!r} noise n_pol={p}', lambda v=v, p=p: optical_signal(v, 0.5j, n_pol=p)))
for n in (1, 2, 3, 5, 8):
    a = rng.normal(size=n); b = rng.normal(size=n) * 1j
    for p in (None, 1, 2):
        specials.append((f'os 1D n={n} n_pol={p}', lambda a=a, p=p: optical_signal(a, n_pol=p)))
        specials.append((f'os 1D n={n} noise n_pol={p}', lambda a=a, b=b, p=p: optical_signal(a, b, n_pol=p)))
        specials.append((f'os (1,n) n={n} n_pol={p}', lambda a=a, p=p: optical_signal(a[None], n_pol=p)))
        specials.append((f'os (1,n) noise n={n} n_pol={p}', lambda a=a, b=b, p=p: optical_signal(a[None], b[None], n_pol=p)))
        specials.append((f'os (2,n) n={n} n_pol={p}', lambda a=a, b=b, p=p: optical_signal([a, 2 * a], n_pol=p)))
        specials.append((f'os (2,n) noise n={n} n_pol={p}', lambda a=a, b=b, p=p: optical_signal([a, 2 * a], [b, -b], n_pol=p)))
    specials.append((f'es dtype= n={n}', lambda a=a: electrical_signal(a, dtype=complex)))
    specials.append((f'es dtype=f32 noise n={n}', lambda a=a: electrical_signal(a, a[::-1], dtype=np.float32)))
    specials.append((f'os dtype=c64 noise n={n}', lambda a=a: optical_signal(a, a[::-1], n_pol=2, dtype=np.complex64)))
    # non contiguous / read only / fortran
    big = rng.normal(size=(2, 2 * n))
    specials.append((f'os strided n={n}', lambda big=big: optical_signal(big[:, ::2], big[:, 1::2])))
    ro = np.broadcast_to(np.array([1.5]), (n,))
    specials.append((f'es broadcast const n={n}', lambda ro=ro: electrical_signal(ro, ro)))
    # results of operators / slicing / copy
    specials.append((f'es sum n={n}', lambda a=a, b=b: electrical_signal(a) + electrical_signal(2.0, 0.5)))
    specials.append((f'es diff n={n}', lambda a=a, b=b: electrical_signal(a, b) - 1))
    specials.append((f'es prod n={n}', lambda a=a, b=b: 2 * electrical_signal(a, b)))
    specials.append((f'os prod n={n}', lambda a=a, b=b: optical_signal(a, b, n_pol=2) * np.exp(1j)))
    specials.append((f'os slice n={n}', lambda a=a, b=b, n=n: optical_signal(a, b, n_pol=2)[0:n]))
    specials.append((f'os item n={n}', lambda a=a, b=b, n=n: optical_signal(a, b, n_pol=2)[n - 1]))
    specials.append((f'os item np n={n}', lambda a=a, b=b: optical_signal(a, b, n_pol=2)[np.int64(0)]))
    specials.append((f'os copy n={n}', lambda a=a, b=b: optical_signal(a, b, n_pol=2).copy()))
    specials.append((f'es apply n={n}', lambda a=a, b=b: electrical_signal(a, b).apply(np.conj)))
# strings
for st in ('1 2 3', '1,2,3,4', '1.5 -2.5 3', '1+2j 3-4i', '1+2j, 3-4i, 5', '7', '2.5'):
    specials.append((f'es str {st!r}', lambda st=st: electrical_signal(st)))
    specials.append((f'es str {st!r} noise', lambda st=st: electrical_signal(st, st)))
    specials.append((f'os str {st!r} noise n_pol=2', lambda st=st: optical_signal(st, st, n_pol=2)))
specials.append(('os str rows', lambda: optical_signal('1 2 3; 4 5 6')))
specials.append(('os str rows noise', lambda: optical_signal('1 2 3; 4 5 6', '1.5 2 3; 4 5 6.5')))
# all zero / constant / zero noise / huge / tiny
for n in (1, 2, 5, 8):
    specials.append((f'es zeros n={n}', lambda n=n: electrical_signal(np.zeros(n), np.zeros(n))))
    specials.append((f'os zero-noise n={n}', lambda n=n: optical_signal(np.ones((2, n)), np.zeros((2, n)))))
    specials.append((f'os zero-sum noise n={n}', lambda n=n: optical_signal(np.ones((2, n)), np.tile([1.0, -1.0], n)[:2 * n].reshape(2, n) if n > 1 else np.zeros((2, 1)))))
    specials.append((f'es huge n={n}', lambda n=n: electrical_signal(1e150 * np.ones(n))))
    specials.append((f'es tiny n={n}', lambda n=n: electrical_signal(1e-150 * np.arange(1, n + 1))))

for tag, f in specials:
    try:
        x = f()
        check_obj(x, tag)
        check_w(x, tag)
    except Exception as e:
        viol('exception', tag, repr(e))

# repeated calls / call order do not leave state
x = optical_signal(rng.normal(size=(2, 9)), rng.normal(size=(2, 9)))
A = x('w', True).signal.copy(); _ = x('t', True); _ = x('f'); B = x('w', True).signal
if not np.array_equal(A, B):
    viol('state', 'repeated calls differ')
# bad domain must not silently return something
for d in ('W', 'T', 'F', 'x', '', None, 'time'):
    try:
        r = x(d)
        viol('domain-validation', f'x({d!r}) returned {type(r)} instead of raising')
    except (ValueError, TypeError):
        pass
    except Exception as e:
        viol('domain-validation', f'x({d!r}) raised {e!r}')

# ---------------------------------------------------------------- gv sampling configurations
def expect_cfg(prev, sps, R, fs):
    psps, pR, pfs = prev
    if sps:
        s = int(np.round(sps))
        if R: return s, R, R * s
        if fs: return s, fs / s, fs
        return s, pR, pR * s
    if R:
        if fs: return int(np.round(fs / R)), R, fs
        return psps, R, R * psps
    if fs:
        return int(np.round(fs / pR)), pR, fs
    return prev

SPS = [None, 1, 2, 3, 7, 8, 16, 64, 8.0, np.int64(4)]
RS = [None, 1, 1.0, 3, 1e3, 2.5e9, 10e9, 1 / 3, np.float64(7e6)]
FS = [None, 1, 2.0, 48e3, 16e9, 80e9, 1e9 / 3, np.float64(3e10)]
sigs = [electrical_signal(rng.normal(size=n)) for n in (1, 2, 5, 8)] + [optical_signal(rng.normal(size=(2, n)), rng.normal(size=(2, n))) for n in (1, 2, 7, 16)]
gv.clean()
for sps, R, fs in itertools.product(SPS, RS, FS):
    if sps is not None and R is not None and fs is not None:
        # keep over-determined triples only when consistent
        if not np.isclose(fs, R * sps):
            continue
    prev = (gv.sps, gv.R, gv.fs)
    tag = f'gv(sps={sps!r}, R={R!r}, fs={fs!r}) after {prev}'
    try:
        kw = {k: v for k, v in (('sps', sps), ('R', R), ('fs', fs)) if v is not None}
        gv(**kw)
        es, eR, efs = expect_cfg(prev, sps, R, fs)
        if gv.sps != es or not np.isclose(gv.R, eR, rtol=1e-15) or not np.isclose(gv.fs, efs, rtol=1e-15):
            viol('gv-config', tag, f'got {(gv.sps, gv.R, gv.fs)} expected {(es, eR, efs)}')
        if fs is not None and not (sps is not None and R is not None) and gv.fs != fs:
            viol('gv-fs', tag, f'gv.fs={gv.fs}')
        if gv.dt != 1 / gv.fs:
            viol('gv-dt', tag)
        for x in sigs:
            check_w(x, tag + f' len={x.len()}')
            if x.fs() != gv.fs:
                viol('fs()', tag)
    except Exception as e:
        viol('exception', tag, repr(e))

# call order: N first, then rate changes; positional; clean; attribute assignment
gv.clean()
seq = [dict(sps=8, R=1e9, N=10), dict(fs=32e9), dict(sps=4), dict(R=5e9), dict(N=3), dict(), dict(sps=2, fs=10.0), dict(R=2.0, fs=10.0), dict(alpha=1)]
for kw in seq:
    prev = (gv.sps, gv.R, gv.fs)
    gv(**kw)
    exp = expect_cfg(prev, kw.get('sps'), kw.get('R'), kw.get('fs'))
    if (gv.sps, gv.R, gv.fs) != exp:
        viol('gv-sequence', f'{kw} after {prev}', f'got {(gv.sps, gv.R, gv.fs)} expected {exp}')
    for x in sigs:
        check_w(x, f'seq {kw} len={x.len()}')
gv(16, 2e9);
if gv.fs != 32e9: viol('gv-positional', 'gv(16, 2e9)')
for x in sigs: check_w(x, 'positional')
gv(None, None, 5e9)
if gv.fs != 5e9: viol('gv-positional', 'gv(None,None,5e9)', f'{gv.fs}')
for x in sigs: check_w(x, 'positional fs')
gv.clean()
if gv.fs != 16e9: viol('gv-clean', f'{gv.fs}')
for x in sigs: check_w(x, 'after clean')
gv.fs = 123.0
for x in sigs: check_w(x, 'attribute fs')
gv.clean()

if bad:
    print(f'{len(bad)} violations')
    sys.exit(1)
print('PASS')
sys.exit(0)
