"""Audit of property C03: a noise-free link built from the library's blocks returns the transmitted bits.

Clauses
  C1  bits -> DAC(nrz|gaussian) -> MZM(CW) -> [DM | linear FIBER, |b2 L| < 1% T^2] -> PD(noise off)
      -> sample at slot centre -> threshold midway between received levels == bits  (1 and 2 polarisations)
  C2  ook.DSP on >= 32 slots of random / PRBS data returns the bits, BER_analizer('counter') == 0
  C3  ppm.DSP(decision='soft') on the link driven by PPM_ENCODER output returns the data
  C4  ppm.DSP(decision='hard'), threshold estimated, returns the data
  C5  BER_analizer('counter') (ook and ppm) == k/n for k flipped bits, every accepted container
  C6  the PD accepts every bandwidth >= 0.7*R of the quantified domain (sps 4..64)
"""
import sys
del sys.path[0]
import signal
import warnings
warnings.filterwarnings('ignore')
import numpy as np

from opticomlib import gv, optical_signal, binary_sequence, idbm
from opticomlib.devices import DAC, MZM, PD, DM, FIBER, PRBS, SAMPLER, LASER
import opticomlib.ook as ook
import opticomlib.ppm as ppm

violations = []


def report(clause, desc, detail):
    line = f'VIOLATION {clause} | {desc} | {detail}'
    violations.append(line)
    print(line[:400], flush=True)


class _Timeout(Exception):
    pass


def _alarm(signum, frame):
    raise _Timeout()


signal.signal(signal.SIGALRM, _alarm)


def fiber(x, **kw):
    signal.alarm(20)
    try:
        return FIBER(x, **kw)
    finally:
        signal.alarm(0)


def link(bits, sps=16, R=1e9, shape='nrz', Vpi=5.0, loss=0.0, ER=26.0, PdBm=0.0, npol=1, pol='x',
         medium=None, r=1.0, Rl=50.0, bwf=0.75, i_dark=10e-9, style='inv', carrier='ones', drive='es', **dk):
    gv(sps=sps, R=R)
    bits = bits if isinstance(bits, binary_sequence) else binary_sequence(bits)
    if style == 'inv':      # 0 V -> ON, Vpi -> OFF (as in examples/ook_transmision.py)
        v = DAC(~bits, Vout=Vpi, pulse_shape=shape, **dk)
        bias = 0.0
    else:                   # bias at the null, +Vpi -> ON
        v = DAC(bits, Vout=Vpi, pulse_shape=shape, **dk)
        bias = -Vpi
    N = v.len()
    if carrier == 'laser':
        cw = LASER(np.arange(N) * gv.dt, PdBm)
        if npol == 2:
            cw = optical_signal(cw.signal, n_pol=2)
    elif carrier == 'xy':   # explicit two-row layout, power in the modulated polarisation only
        row = np.ones(N) * idbm(PdBm) ** 0.5
        cw = optical_signal(np.array([row, 0 * row]) if pol == 'x' else np.array([0 * row, row]))
    else:
        cw = optical_signal(np.ones(N) * idbm(PdBm) ** 0.5, n_pol=npol)
    if drive == 'nd':
        v = v.signal
    elif drive == 'list':
        v = list(v.signal)
    m = MZM(cw, v, bias=bias, Vpi=Vpi, loss_dB=loss, ER_dB=ER, pol=pol)
    if medium is not None:
        kind, par = medium
        m = DM(m, par) if kind == 'DM' else fiber(m, **par)
    return PD(m, BW=bwf * R, r=r, R_load=Rl, include_noise='ase-only', i_dark=i_dark)


def decide(y, bits):
    bits = bits.data if isinstance(bits, binary_sequence) else np.asarray(bits)
    s = SAMPLER(y, gv.sps // 2)
    v = (s.signal + (s.noise if s.noise is not None else 0)).real
    th = (v[bits == 1].mean() + v[bits == 0].mean()) / 2
    return (v > th).astype(np.uint8)


def s2(b):
    return ''.join(map(str, np.asarray(b).astype(int)))[:80]


def named_seqs(n, rng):
    out = {'rand': rng.integers(0, 2, n), 'alt01': np.tile([0, 1], n)[:n], 'alt10': np.tile([1, 0], n)[:n],
           'single1': np.eye(1, n, n // 3, dtype=int)[0], 'single0': 1 - np.eye(1, n, n // 2, dtype=int)[0],
           'first1': np.eye(1, n, 0, dtype=int)[0], 'last1': np.eye(1, n, n - 1, dtype=int)[0],
           'first0': 1 - np.eye(1, n, 0, dtype=int)[0], 'last0': 1 - np.eye(1, n, n - 1, dtype=int)[0],
           'runs': np.r_[np.ones(n // 2, int), np.zeros(n - n // 2, int)], 'prbs7': PRBS(7, n).data}
    return [(k, v) for k, v in out.items() if 0 < v.sum() < n]


def random_cfg(rng, sps, R):
    cfg = dict(sps=sps, R=R)
    cfg['shape'] = str(rng.choice(['nrz', 'gaussian', 'rect', 'NRZ', 'GAUSSIAN']))
    if cfg['shape'].lower() == 'gaussian' and rng.random() < 0.5:
        cfg['m'] = int(rng.integers(1, 4))
        cfg['T'] = int(rng.integers(max(2, (sps + 1) // 2), sps + 1))
    cfg['Vpi'] = float(rng.choice([1.0, 3.3, 5.0, 8.0, 20.0]))
    cfg['loss'] = float(rng.choice([0, 1, 3.5, 10]))
    cfg['ER'] = float(rng.choice([10, 13, 20, 26, 40]))
    cfg['PdBm'] = float(rng.choice([-30, -10, 0, 10, 20]))
    cfg['npol'] = int(rng.choice([1, 2]))
    cfg['pol'] = str(rng.choice(['x', 'y']))
    cfg['r'] = float(rng.choice([0.1, 0.5, 0.9, 1.0]))
    cfg['Rl'] = float(rng.choice([1, 50, 1e3, 1e4]))
    bwf = float(rng.choice([0.7, 0.75, 1.0, 1.5, 1.9, 3.0]))
    cfg['bwf'] = bwf if 2 * bwf < sps else 0.7
    cfg['i_dark'] = float(rng.choice([0, 10e-9]))
    cfg['style'] = str(rng.choice(['inv', 'dir']))
    cfg['carrier'] = str(rng.choice(['ones', 'laser', 'xy'])) if cfg['npol'] == 2 else str(rng.choice(['ones', 'laser']))
    cfg['drive'] = str(rng.choice(['es', 'nd', 'list']))
    T2 = (1 / R * 1e12) ** 2  # squared slot period in ps^2
    mk = int(rng.integers(0, 4))
    if mk == 1:
        cfg['medium'] = ('DM', float(rng.choice([-1, 1])) * 0.0099 * T2 * rng.random())
    elif mk == 2:
        L = float(rng.choice([0.5, 10, 80]))
        cfg['medium'] = ('FIBER', dict(length=L, alpha=float(rng.choice([0, 0.2])),
                                       beta_2=float(rng.choice([-1, 1])) * 0.0099 * T2 / L * rng.random()))
    elif mk == 3:
        cfg['medium'] = ('FIBER', dict(length=float(rng.choice([1, 25])), alpha=0.2))
    return cfg


SPS_ALL = [4, 5, 6, 7, 8, 9, 12, 15, 16, 17, 31, 32, 33, 63, 64]
RATES = [1e6, 155e6, 1e9, 2.5e9, 10e9, 40e9, 100e9]

# ---------------------------------------------------------------- C1 enumerated
rng = np.random.default_rng(7)
for sps in (4, 5, 7, 8, 16, 33, 64):
    for n in (2, 3, 5, 8, 17, 40):
        if n * sps <= 16:
            continue
        for name, b in named_seqs(n, rng):
            for shape in ('nrz', 'gaussian'):
                for npol in (1, 2):
                    for style in ('inv', 'dir'):
                        for bwf in (0.7, 1.0, 1.9):
                            if bwf * 2 >= sps:
                                continue
                            d = f'sps={sps} n={n} {name} {shape} npol={npol} {style} bw={bwf}R'
                            try:
                                rx = decide(link(b, sps=sps, shape=shape, npol=npol, style=style, bwf=bwf), b)
                                if not np.array_equal(rx, b):
                                    report('C1', d, f'tx {s2(b)} rx {s2(rx)}')
                            except Exception as ex:
                                report('C1', d, repr(ex)[:150])
print('C1 enumerated done', flush=True)

# ---------------------------------------------------------------- C1 random
rng = np.random.default_rng(11)
for it in range(2500):
    sps = int(rng.choice(SPS_ALL))
    R = float(rng.choice(RATES))
    n = int(rng.integers(2, 70))
    if n * sps <= 16:
        continue
    kind = int(rng.integers(0, 4))
    if kind == 0:
        b = rng.integers(0, 2, n)
    elif kind == 1:
        b = np.tile([0, 1], n)[:n] if rng.random() < .5 else np.tile([1, 0], n)[:n]
    elif kind == 2:
        b = np.zeros(n, int) if rng.random() < .5 else np.ones(n, int)
        b[rng.integers(0, n)] ^= 1
    else:
        b = PRBS(int(rng.choice([7, 9, 11])), n, seed=int(rng.integers(1, 100))).data
    if not 0 < b.sum() < n:
        continue
    cfg = random_cfg(rng, sps, R)
    try:
        rx = decide(link(b, **cfg), b)
        if not np.array_equal(rx, b):
            report('C1', str(cfg), f'tx {s2(b)} rx {s2(rx)}')
    except Exception as ex:
        report('C1', str(cfg), repr(ex)[:150])
print('C1 random done', flush=True)

# ---------------------------------------------------------------- C2 ook.DSP
rng = np.random.default_rng(5)
for it in range(500):
    sps = int(rng.choice(SPS_ALL))
    R = float(rng.choice(RATES))
    n = int(rng.choice([32, 33, 34, 35, 47, 64, 100, 127, 128, 255, 600]))
    if rng.random() < .5:
        b = rng.integers(0, 2, n)
    else:
        b = PRBS(int(rng.choice([7, 9, 11, 15])), n, seed=int(rng.integers(1, 100))).data
    cfg = random_cfg(rng, sps, R)
    np.random.seed(it)
    try:
        y = link(b, **cfg)
        rx, e, th = ook.DSP(y)
        ber = ook.BER_analizer('counter', Tx=b, Rx=rx)
        if not np.array_equal(rx.data, b) or ber != 0:
            report('C2', f'n={n} {cfg}', f'BER {ber} th {th} mu0 {e.mu0} mu1 {e.mu1} t_opt {e.t_opt}')
    except Exception as ex:
        report('C2', f'n={n} {cfg}', repr(ex)[:150])
# smallest size, every sps, default PRBS, with and without DSP filter
for sps in range(4, 65):
    for shape in ('nrz', 'gaussian'):
        for bw in (None, 0.9e9):
            b = PRBS(7, 32).data
            np.random.seed(sps)
            try:
                y = link(b, sps=sps, shape=shape)
                rx, e, th = ook.DSP(y, bw)
                if not np.array_equal(rx.data, b):
                    report('C2', f'PRBS7 x32 sps={sps} {shape} DSP BW={bw}', f'errors {(rx.data != b).sum()} th {th}')
            except Exception as ex:
                report('C2', f'PRBS7 x32 sps={sps} {shape} DSP BW={bw}', repr(ex)[:150])
# more slots than the eye uses (8192)
b = PRBS(15, 9001).data
rx, e, th = ook.DSP(link(b, sps=8))
if not np.array_equal(rx.data, b):
    report('C2', 'PRBS15 x9001 sps=8', f'errors {(rx.data != b).sum()}')
print('C2 done', flush=True)

# ---------------------------------------------------------------- C3 / C4 ppm.DSP
def ppm_check(b, M, cfg, seed, tag):
    tx = ppm.PPM_ENCODER(b, M)
    if tx.len() * cfg['sps'] <= 16:
        return
    try:
        y = link(tx, **cfg)
    except Exception as ex:
        report('C3/C4', f'{tag} M={M} {cfg}', repr(ex)[:150])
        return
    rxm = decide(y, tx)
    if not np.array_equal(rxm, tx.data):
        report('C1', f'{tag} PPM slots M={M} {cfg}', f'tx {s2(tx.data)} rx {s2(rxm)}')
    failed = set()
    for clause, dec in (('C3', 'soft'), ('C4', 'hard'), ('C4', 'HARD'), ('C3', 'Soft')):
        if clause in failed:
            continue  # the other letter case of a decision that already failed: one line per (clause, input)
        failed.add(clause)
        np.random.seed(seed)
        try:
            rx = ppm.DSP(y, M, dec)
            ber = ppm.BER_analizer('counter', Tx=b, Rx=rx) if rx.len() == len(b) else None
            if not np.array_equal(rx.data, b) or ber != 0:
                report(clause, f'{tag} M={M} decision={dec} data {s2(b)} {cfg}', f'rx {s2(rx.data)} BER {ber}')
            else:
                failed.discard(clause)
        except Exception as ex:
            report(clause, f'{tag} M={M} decision={dec} data {s2(b)} {cfg}', repr(ex)[:150])


rng = np.random.default_rng(9)
# enumerated data corners, plain link
for M in (2, 4, 8, 16):
    k = int(np.log2(M))
    n = 16 * k
    corner = named_seqs(n, rng)
    corner.append(('words_00_11', np.tile(np.r_[np.zeros(k, int), np.ones(k, int)], 8)))   # all-zeros / all-ones words alternating
    corner.append(('two_symbols', np.r_[np.zeros(k, int), np.ones(k, int)]))
    for name, b in corner:
        for sps in (4, 7, 16, 64):
            for shape in ('nrz', 'gaussian'):
                ppm_check(b, M, dict(sps=sps, R=1e9, shape=shape), 0, name)
# random
for it in range(900):
    sps = int(rng.choice(SPS_ALL))
    R = float(rng.choice(RATES))
    M = int(rng.choice([2, 4, 8, 16]))
    k = int(np.log2(M))
    n = int(rng.choice([2, 3, 4, 5, 8, 16, 33, 64])) * k
    kind = int(rng.integers(0, 3))
    if kind == 0:
        b = rng.integers(0, 2, n)
    elif kind == 1:
        b = np.zeros(n, int) if rng.random() < .5 else np.ones(n, int)
        b[rng.integers(0, n)] ^= 1
    else:
        b = PRBS(int(rng.choice([7, 9, 11])), n, seed=int(rng.integers(1, 100))).data
    if not 0 < b.sum() < n:
        continue
    ppm_check(b, M, random_cfg(rng, sps, R), it, 'random')
print('C3/C4 done', flush=True)

# ---------------------------------------------------------------- C2 / C4 pulse shapes: Gaussian pulses narrower than the slot
for sps in (16, 32, 64):
    for T in (sps // 4, sps // 3, sps // 2):
        for bwf in (1.5, 3.0):
            for seed in range(20):
                b = np.random.default_rng(seed).integers(0, 2, 64)
                cfg = dict(sps=sps, R=1e9, shape='gaussian', T=T, bwf=bwf, style='dir')
                y = link(b, **cfg)
                if not np.array_equal(decide(y, b), b):
                    report('C1', f'seed {seed} {cfg}', 'manual decision wrong')
                    continue
                np.random.seed(seed)
                rx, e, th = ook.DSP(y)
                if not np.array_equal(rx.data, b):
                    report('C2', f'random(seed {seed}) x64 {cfg}', f'BER {ook.BER_analizer("counter", Tx=b, Rx=rx)} th {th} t_opt {e.t_opt} mu0 {e.mu0} mu1 {e.mu1}')
                if seed < 8:
                    for M in (2, 4, 16):
                        ppm_check(b, M, cfg, seed, f'random(seed {seed})')
print('pulse-shape section done', flush=True)

# ---------------------------------------------------------------- C5 BER counter
rng = np.random.default_rng(3)
for mod in (ook, ppm):
    for n in (1, 2, 3, 8, 33, 256):
        tx = rng.integers(0, 2, n)
        for k in sorted({0, 1, n // 2, n - 1, n}):
            rx = tx.copy()
            rx[rng.choice(n, k, replace=False)] ^= 1
            forms = lambda a: [a, a.astype(bool), a.astype(float), list(a), tuple(a), binary_sequence(a),
                               ''.join(map(str, a)), ' '.join(map(str, a)), ','.join(map(str, a)),
                               [int(v) for v in a], [bool(v) for v in a]]
            for ft in forms(tx):
                for fr in forms(rx):
                    d = f'{mod.__name__} n={n} k={k} Tx {type(ft).__name__} Rx {type(fr).__name__}'
                    try:
                        v = mod.BER_analizer('counter', Tx=ft, Rx=fr)
                        if v != k / n:
                            report('C5', d, f'expected {k / n} got {v}')
                    except Exception as ex:
                        report('C5', d, repr(ex)[:150])
print('C5 done', flush=True)

# ---------------------------------------------------------------- C6 PD bandwidth domain
b = PRBS(7, 32).data
for sps in (4, 5, 8, 16, 64):
    for bwf in (0.7, 1.0, 0.499 * sps, 0.5 * sps, 0.75 * sps, 2.0 * sps):
        try:
            rx = decide(link(b, sps=sps, bwf=bwf), b)
            if not np.array_equal(rx, b):
                report('C6', f'sps={sps} PD BW={bwf}R', f'rx {s2(rx)}')
        except Exception as ex:
            report('C6', f'sps={sps} PD BW={bwf}R (fs/2={sps / 2}R)', repr(ex)[:150])
print('C6 done', flush=True)

if violations:
    print(f'{len(violations)} violations')
    sys.exit(1)
print('PASS')
sys.exit(0)
