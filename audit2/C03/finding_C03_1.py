# ppm.DSP(decision='hard', estimated threshold) on a noise-free link: 2-PPM of alternating bits decodes to garbage
import sys; del sys.path[0]
import numpy as np
from opticomlib import gv, optical_signal
from opticomlib.devices import DAC, MZM, PD
from opticomlib.ppm import PPM_ENCODER, DSP, BER_analizer

gv(sps=16, R=1e9)
data = np.tile([0, 1], 16)                      # alternating bits ('00..0011..11' words do the same for M = 4, 8, 16)
tx = PPM_ENCODER(data, 2)                       # slots 1001 1001 ...: every edge sits on an odd slot boundary
v = DAC(~tx, Vout=5.0, pulse_shape='nrz')
y = PD(MZM(optical_signal(np.ones(v.len()) * 1e-3 ** 0.5), v, Vpi=5.0), BW=0.75e9,
       include_noise='ase-only')                # no noise source active
soft, hard = DSP(y, 2, 'soft'), DSP(y, 2, 'hard')
print('expected          ', data)
print('soft decision     ', soft.data)
print('hard decision     ', hard.data, 'BER', BER_analizer('counter', Tx=data, Rx=hard))
sys.exit(0 if np.array_equal(hard.data, data) else 1)
