# PD refuses a detector bandwidth at or above the Nyquist frequency of the simulation (sps=4: BW >= 2R)
import sys; del sys.path[0]
import numpy as np
from opticomlib import gv, optical_signal
from opticomlib.devices import DAC, MZM, PD, SAMPLER

gv(sps=4, R=10e9)
bits = np.array([0, 1, 1, 0, 1, 0, 0, 1])
v = DAC(1 - bits, Vout=5.0)
m = MZM(optical_signal(np.ones(v.len()) * 1e-3 ** 0.5), v, Vpi=5.0)
try:
    y = PD(m, BW=20e9, include_noise='ase-only')   # 20 GHz detector, 10 Gb/s signal: BW = 2R = fs/2
except Exception as ex:
    print('expected: the bits', bits, '(a detector faster than the simulation bandwidth filters nothing)')
    print('got     :', repr(ex))
    sys.exit(1)
s = SAMPLER(y, 2); s = (s.signal + s.noise).real
print((s > (s.max() + s.min()) / 2).astype(int))
sys.exit(0)
