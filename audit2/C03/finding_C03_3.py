# ook.DSP on a noise-free link with 25 %-duty Gaussian pulses: the eye centre is put between the pulses, threshold = nan
import sys; del sys.path[0]
import numpy as np
from opticomlib import gv, optical_signal
from opticomlib.devices import DAC, MZM, PD
from opticomlib.ook import DSP, BER_analizer

gv(sps=64, R=1e9)
bits = np.random.default_rng(10).integers(0, 2, 64)          # 64 random slots, both symbols
v = DAC(bits, Vout=5.0, pulse_shape='gaussian', T=16)         # Gaussian pulses, FWHM = a quarter of the slot
m = MZM(optical_signal(np.ones(v.len()) * 1e-3 ** 0.5), v, bias=-5.0, Vpi=5.0)
y = PD(m, BW=3e9, include_noise='ase-only')                   # no noise source active
s = (y.signal + y.noise)[32::64]
print('slot-centre samples, midway threshold:', np.array_equal(s > (s.max() + s.min()) / 2, bits == 1))
np.random.seed(10)                                            # GET_EYE's KMeans draws from the global generator
rx, eye_, rth = DSP(y)
print('expected BER 0, threshold between', s.min(), 'and', s.max())
print('got BER', BER_analizer('counter', Tx=bits, Rx=rx), 'threshold', rth, 't_opt', eye_.t_opt, 'mu1', eye_.mu1)
sys.exit(0 if np.array_equal(rx.data, bits) else 1)
