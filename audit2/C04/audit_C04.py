import sys, os
if sys.path and os.path.abspath(sys.path[0] or '.') == os.path.dirname(os.path.abspath(__file__)):
    del sys.path[0]
import warnings, random, itertools, time
import numpy as np
import opticomlib
from opticomlib.devices import PRBS
from opticomlib.typing import binary_sequence

TAPS = {7: 6, 9: 5, 11: 9, 15: 14, 20: 3, 23: 18, 31: 28}
ORDERS = list(TAPS)
viol = []
T0 = time.time()


def bad(clause, inp, msg):
    viol.append((clause, inp, msg))
    print(f"VIOLATION [{clause}] {inp}: {msg}", flush=True)


def ref(n, seed, L):
    """reference: a[m] = a[m-n] ^ a[m-t], a[-j] = bit j of seed (j = 0..n-1 -> a[0] is LSB)."""
    t = TAPS[n]
    s = seed % (1 << n)
    if s == 0:
        s = 1
    # hist[k] = a[k-(n-1)], k = 0..n-1
    a = [(s >> (n - 1 - k)) & 1 for k in range(n)]  # a[-(n-1)] .. a[0]
    off = n - 1
    while len(a) < L + off:
        m = len(a)
        a.append(a[m - n] ^ a[m - t])
    out = a[off:off + L]
    # state after L outputs: bit j = output j steps before the next one => bit0 = a[L]
    while len(a) < L + off + 1:
        m = len(a)
        a.append(a[m - n] ^ a[m - t])
    st = 0
    for j in range(n):
        st |= a[off + L - j] << j
    return np.array(out, dtype=np.uint8), st


def call(n, L=None, seed=None, rs=False, expect_warn=False, tag=''):
    with warnings.catch_warnings(record=True) as w:
        warnings.simplefilter('always')
        r = PRBS(n, L, seed, rs) if rs else PRBS(n, L, seed)
    uw = [x for x in w if issubclass(x.category, UserWarning)]
    if expect_warn and not uw:
        bad('seed0-warning', f'order={n} len={L} seed={seed!r}', 'no warning emitted')
    if not expect_warn and uw:
        bad('seed0-warning', f'order={n} len={L} seed={seed!r}', f'unexpected warning {uw[0].message}')
    return r


def data(x):
    if not isinstance(x, binary_sequence):
        bad('type', repr(type(x)), 'output is not a binary_sequence')
    return np.asarray(x.data)


# ---------------------------------------------------------------- clause 1: recurrence from seed bits
def corner_seeds(n):
    M = 1 << n
    s = [1, 2, 3, M - 1, M - 2, M >> 1, (M >> 1) + 1, (M >> 1) - 1, 1 << (TAPS[n] - 1), 1 << TAPS[n] % n,
         M + 1, M + 5, 5 * M + 3, -1, -2, -(M - 1), -M + 1, -M - 1, 2 ** 64 + 7, 2 ** 100 + M - 1, -(2 ** 100) + 9,
         True]
    return s


rng = random.Random(404)
for n in ORDERS:
    seeds = corner_seeds(n) + [rng.randrange(-2 ** 40, 2 ** 40) for _ in range(25)] + [1 << j for j in range(n)]
    for sd in seeds:
        if sd % (1 << n) == 0:
            continue
        for L in (1, 2, 3, n - 1, n, n + 1, 2 * n + 1, 97):
            e, est = ref(n, sd, L)
            o, st = call(n, L, sd, True)
            d = data(o)
            if d.shape != (L,) or not np.array_equal(d, e):
                bad('recurrence', f'order={n} seed={sd} len={L}', f'expected {e[:12]}.. got {d[:12]}..')
            if int(st) != est:
                bad('state', f'order={n} seed={sd} len={L}', f'expected state {est} got {st}')
            if o.len() != L:
                bad('len', f'order={n} seed={sd} len={L}', f'len() = {o.len()}')
            o2 = call(n, L, sd)
            if not np.array_equal(data(o2), e):
                bad('recurrence(return_seed=False)', f'order={n} seed={sd} len={L}', 'differs')
        if int(data(call(n, 1, sd))[0]) != (sd & 1):
            bad('first-output-is-LSB', f'order={n} seed={sd}', 'first output != seed LSB')
    # default seed is 2**n-1
    o = call(n, 50)
    if not np.array_equal(data(o), ref(n, (1 << n) - 1, 50)[0]):
        bad('default-seed', f'order={n}', 'default seed differs from 2**n-1')
    # keyword forms
    o, st = PRBS(order=n, len=33, seed=77, return_seed=True)
    if not np.array_equal(data(o), ref(n, 77, 33)[0]) or int(st) != ref(n, 77, 33)[1]:
        bad('keywords', f'order={n}', 'keyword call differs')
print(f'clause 1 done {time.time()-T0:.1f}s', flush=True)

# ---------------------------------------------------------------- clause 2: period / balance / all states
def factor(x):
    f = set()
    p = 2
    while p * p <= x:
        while x % p == 0:
            f.add(p)
            x //= p
        p += 1
    if x > 1:
        f.add(x)
    return f


def step_code(n, s):
    o, st = call(n, 1, s, True)
    return int(data(o)[0]), int(st)


def matmul2(A, B, n):
    # matrices over GF(2) as list of column ints: A[i] = image of e_i
    # (A*B)[i] = A applied to B[i]
    def app(M, v):
        r = 0
        j = 0
        while v:
            if v & 1:
                r ^= M[j]
            v >>= 1
            j += 1
        return r
    return [app(A, B[i]) for i in range(n)]


def matpow(M, e, n):
    R = [1 << i for i in range(n)]
    while e:
        if e & 1:
            R = matmul2(M, R, n)
        M = matmul2(M, M, n)
        e >>= 1
    return R


for n in ORDERS:
    # transition matrix read off the code itself
    M = [step_code(n, 1 << i)[1] for i in range(n)]
    I = [1 << i for i in range(n)]
    # linearity + output = LSB of state on sampled and corner states
    r2 = random.Random(n)
    S = [r2.randrange(1, 1 << n) for _ in range(300)] + [1, (1 << n) - 1, 1 << (n - 1)]
    for a, b in zip(S, S[1:]):
        oa, sa = step_code(n, a)
        ob, sb = step_code(n, b)
        if a ^ b:
            oc, sc = step_code(n, a ^ b)
            if sc != sa ^ sb:
                bad('linearity', f'order={n} a={a} b={b}', 'step not linear')
        if oa != a & 1:
            bad('output-LSB', f'order={n} state={a}', 'output != LSB')
        # state from matrix
        v, j, r = a, 0, 0
        while v:
            if v & 1:
                r ^= M[j]
            v >>= 1
            j += 1
        if r != sa:
            bad('linearity', f'order={n} state={a}', 'matrix image differs from code step')
    N = (1 << n) - 1
    if matpow(M, N, n) != I:
        bad('period', f'order={n}', 'M^(2^n-1) != I: some state does not return after 2^n-1 steps')
    for q in factor(N):
        if N // q > 0 and N // q != N and matpow(M, N // q, n) == I:
            bad('period', f'order={n}', f'M^((2^n-1)/{q}) == I: period is shorter than 2^n-1')
        # primitive => no vector fixed earlier either (minimal polynomial irreducible), exhaustive below for n<=23
print(f'clause 2 algebraic done {time.time()-T0:.1f}s', flush=True)

REFSEQ = {}
for n in [o for o in ORDERS if o <= 23]:
    N = (1 << n) - 1
    extra = n + 5 if n >= 20 else N + n
    L = N + extra
    o, st = call(n, L, 1, True)
    d = data(o)
    REFSEQ[n] = d
    if int(d[:N].sum()) != 1 << (n - 1):
        bad('balance', f'order={n} seed=1', f'ones per period {int(d[:N].sum())} != {1 << (n-1)}')
    if not np.array_equal(d[:extra], d[N:N + extra]):
        bad('period', f'order={n} seed=1', 'sequence does not repeat after 2^n-1')
    # visits all non-zero states: state at time m is bits d[m], d[m-1].. ; windows of n consecutive outputs
    w = np.zeros(N, dtype=np.int64)
    dd = np.concatenate([d[:N], d[:n]]).astype(np.int64)
    for j in range(n):
        w |= dd[j:j + N] << j
    seen = np.zeros(1 << n, dtype=bool)
    seen[w] = True
    if seen[0] or int(seen.sum()) != N:
        bad('all-states', f'order={n}', f'{int(seen.sum())} distinct n-windows in one period, expected {N}; zero window={seen[0]}')
    # vectorised reference recurrence for the whole period
    t = TAPS[n]
    r = np.zeros(N + n, dtype=np.uint8)
    r[n - 1] = 1  # seed 1: a[0]=1, predecessors 0
    # doubling-free block evaluation: a[m] depends on m-n and m-t; evaluate in blocks of min(t, n-?)... use blocks of size t
    m = n
    while m < N + n:
        b = min(t, N + n - m)
        r[m:m + b] = r[m - n:m - n + b] ^ r[m - t:m - t + b]
        m += b
    if not np.array_equal(r[n - 1:n - 1 + N], d[:N]):
        bad('recurrence-full-period', f'order={n} seed=1', 'full period differs from recurrence')
    # no shorter period: autocorrelation of an m-sequence is two-valued; cheap check: d[:N] != roll by N/q
    for q in factor(N):
        if N // q != N and N // q > 0:
            k = N // q
            if np.array_equal(d[:N - k], d[k:N]):
                bad('period', f'order={n}', f'sequence has shorter period {k}')
    print(f'  order {n} exhaustive done {time.time()-T0:.1f}s', flush=True)

# every non-zero seed (exhaustive for n<=11, sampled otherwise): output is the cyclic shift of the reference period
for n in (7, 9, 11, 15):
    N = (1 << n) - 1
    d = REFSEQ[n][:N]
    d3 = np.concatenate([d, d, d])
    # state -> position
    dd = np.concatenate([d, d[:n]]).astype(np.int64)
    w = np.zeros(N, dtype=np.int64)
    for j in range(n):
        w |= dd[j:j + N] << (n - 1 - j)  # window starting at p : bits a[p]..a[p+n-1]; state at time p+n-1 has bit j = a[p+n-1-j]
    pos = np.full(1 << n, -1, dtype=np.int64)
    pos[w] = np.arange(N) + n - 1  # time index of the state's LSB output
    seeds = range(1, N + 1) if n <= 11 else random.Random(15).sample(range(1, N + 1), 400)
    for sd in seeds:
        p = int(pos[sd]) % N
        Ls = N + 3 if n <= 9 else 40
        o, st = call(n, Ls, sd, True)
        dd_ = data(o)
        if not np.array_equal(dd_, d3[p:p + Ls]):
            bad('all-seeds-on-one-cycle', f'order={n} seed={sd}', 'output is not the shifted reference period')
        if n <= 9:
            if int(st) != int(call(n, 3, sd, True)[1]):
                bad('period-state', f'order={n} seed={sd}', f'state after 2^n-1+3 steps {st} != state after 3 steps')
            if int(dd_[:N].sum()) != 1 << (n - 1):
                bad('balance', f'order={n} seed={sd}', 'ones per period wrong')
print(f'clause 2 done {time.time()-T0:.1f}s', flush=True)

# ---------------------------------------------------------------- clause 3: resume
for n in ORDERS:
    r3 = random.Random(1000 + n)
    seeds = [1, (1 << n) - 1, 1 << (n - 1), -3, (1 << n) + 9, None, 0] + [r3.randrange(1, 1 << n) for _ in range(6)]
    for sd in seeds:
        ew = sd is not None and sd % (1 << n) == 0
        for tot in list(range(2, 12)) + [n - 1, n, n + 1, 2 * n, 2 * n + 1, 3 * n + 2]:
            one, st1 = call(n, tot, sd, True, expect_warn=ew)
            one = data(one)
            for a in range(1, tot):
                x, s = call(n, a, sd, True, expect_warn=ew)
                y, s2 = call(n, tot - a, s, True)
                got = np.concatenate([data(x), data(y)])
                if not np.array_equal(got, one):
                    bad('resume', f'order={n} seed={sd} a={a} b={tot-a}', f'expected {one} got {got}')
                if int(s2) != int(st1):
                    bad('resume-state', f'order={n} seed={sd} a={a} b={tot-a}', f'{s2} != {st1}')
                if not (0 < int(s) < (1 << n)):
                    bad('resume-state-range', f'order={n} seed={sd} a={a}', f'state {s}')
                # state passed back as plain python int
                y2 = call(n, tot - a, int(s))
                if not np.array_equal(data(y2), one[a:]):
                    bad('resume-int', f'order={n} seed={sd} a={a} b={tot-a}', 'differs')
        # many pieces
        for trial in range(6):
            pieces = [r3.randrange(1, 40) for _ in range(r3.randrange(3, 9))]
            if trial == 0:
                pieces = [1] * (2 * n + 3)
            tot = sum(pieces)
            one = data(call(n, tot, sd, expect_warn=ew))
            s = sd
            parts = []
            first = True
            for p in pieces:
                o, s = call(n, p, s, True, expect_warn=ew and first)
                first = False
                parts.append(data(o))
            if not np.array_equal(np.concatenate(parts), one):
                bad('resume-multi', f'order={n} seed={sd} pieces={pieces}', 'differs')
    # long split across a period boundary
    if n <= 15:
        N = (1 << n) - 1
        one = data(call(n, N + 20, 5))
        for a in (N - 1, N, N + 1, 1, N + 19):
            x, s = call(n, a, 5, True)
            y = call(n, N + 20 - a, s)
            if not np.array_equal(np.concatenate([data(x), data(y)]), one):
                bad('resume-period-boundary', f'order={n} a={a}', 'differs')
print(f'clause 3 done {time.time()-T0:.1f}s', flush=True)

# ---------------------------------------------------------------- clause 4: seed == 0 mod 2^n
for n in ORDERS:
    M = 1 << n
    e = ref(n, 1, 60)[0]
    for sd in (0, M, -M, 2 * M, 7 * M, -5 * M, 2 ** 100 * M, False, M << 1, -(M << 40)):
        for rs in (False, True):
            r = call(n, 60, sd, rs, expect_warn=True)
            o = r[0] if rs else r
            if not np.array_equal(data(o), e):
                bad('seed0-replaced-by-1', f'order={n} seed={sd}', 'output differs from seed=1')
            if rs and int(r[1]) != ref(n, 1, 60)[1]:
                bad('seed0-replaced-by-1', f'order={n} seed={sd}', 'state differs from seed=1')
    # repeated calls keep warning (with "always") and non-zero seeds / None do not warn
    for k in range(3):
        call(n, 5, 0, expect_warn=True)
        call(n, 5, 1)
        call(n, 5, None)
        call(n, 5, M - 1)
        call(n, 5, M + 1)
    # multiples of smaller powers are NOT zero
    for sd in (M >> 1, 3 * (M >> 1), -(M >> 1)):
        o = call(n, 40, sd)
        if not np.array_equal(data(o), ref(n, sd, 40)[0]):
            bad('seed-half', f'order={n} seed={sd}', 'differs')
print(f'clause 4 done {time.time()-T0:.1f}s', flush=True)

# ---------------------------------------------------------------- clause 5: validation
def raises(exc, f, clause, inp):
    try:
        with warnings.catch_warnings():
            warnings.simplefilter('ignore')
            r = f()
    except exc:
        return
    except BaseException as ex:
        bad(clause, inp, f'expected {exc}, got {type(ex).__name__}: {ex}')
        return
    bad(clause, inp, f'expected {exc}, returned {r!r}')


for n in ORDERS:
    for L in (0, -1, -7, -10 ** 20, False):
        for sd in (None, 1, 0):
            for rs in (False, True):
                raises(ValueError, lambda: PRBS(n, L, sd, rs), 'len-positive', f'order={n} len={L!r} seed={sd} rs={rs}')
    for L in (1.0, 2.5, '5', [3], (4,), 3 + 0j, np.array([3]), float('nan')):
        raises((TypeError, ValueError), lambda: PRBS(n, L), 'len-int', f'order={n} len={L!r}')
    try:  # bool: either refused (TypeError/ValueError) or taken as length 1; never a wrong answer
        o = call(n, True, 3)
        if not np.array_equal(data(o), [1]):
            bad('len-bool', f'order={n}', f'len=True gave {data(o)}')
    except (TypeError, ValueError):
        pass

for n in list(range(-8, 7)) + [8, 10, 12, 13, 14, 16, 17, 18, 19, 21, 22, 24, 25, 29, 30, 32, 33, 63, 64, 65, 127, 128, 1000]:
    for L in (None, 1, 10):
        for sd in (None, 0, 1, 5, -1, 2 ** 70):
            for rs in (False, True):
                raises(ValueError, lambda: PRBS(n, L, sd, rs), 'unsupported-order', f'order={n} len={L} seed={sd} rs={rs}')
print(f'clause 5 done {time.time()-T0:.1f}s', flush=True)

# ---------------------------------------------------------------- default len = one period
for n in (7, 9, 11, 15, 20):
    N = (1 << n) - 1
    for sd in (None, 1, 0, -1, 3 << n):
        ew = sd is not None and sd % (1 << n) == 0
        o, st = call(n, None, sd, True, expect_warn=ew)
        d = data(o)
        s0 = (1 << n) - 1 if sd is None else (sd % (1 << n) or 1)
        if d.shape != (N,) or int(d.sum()) != 1 << (n - 1) or int(st) != s0:
            bad('default-len', f'order={n} seed={sd}', f'shape {d.shape} ones {int(d.sum())} state {st} (expected back at {s0})')
        if not np.array_equal(d[:200], ref(n, s0, 200 if N >= 200 else N)[0][:200]):
            bad('default-len', f'order={n} seed={sd}', 'differs from recurrence')

# ---------------------------------------------------------------- repeated calls / call order independence
for n in ORDERS:
    a = data(call(n, 100, 12345))
    call(7, 3, 1)
    try:
        PRBS(8, 3)
    except ValueError:
        pass
    b = data(call(n, 100, 12345))
    if not np.array_equal(a, b):
        bad('determinism', f'order={n}', 'same call gives different output')

if viol:
    print(f'{len(viol)} violations')
    sys.exit(1)
print('PASS')
sys.exit(0)
