import sys, os
if sys.path and os.path.abspath(sys.path[0] or '.') == os.path.dirname(os.path.abspath(__file__)):
    del sys.path[0]
import warnings
warnings.simplefilter('ignore')
import numpy as np
from opticomlib import gv
from opticomlib.devices import DAC, SAMPLER
from opticomlib.typing import binary_sequence, electrical_signal

viol = []
seen = set()
notes = {}


def V(clause, msg):
    key = (clause, msg)
    if key in seen:
        return
    seen.add(key)
    if sum(1 for c, _ in viol if c == clause) < 12:
        print(f'VIOLATION [{clause}] {msg}')
    viol.append(key)


def note(k):
    notes[k] = notes.get(k, 0) + 1


def setsps(sps):
    gv(sps=sps, R=1e9)
    assert gv.sps == sps and isinstance(gv.sps, int)


rng = np.random.default_rng(505)


def forms(bits):
    """every documented container form of the same bit sequence"""
    b = [int(v) for v in bits]
    out = [
        ('str-compact', ''.join(map(str, b))),
        ('str-space', ' '.join(map(str, b))),
        ('str-comma', ','.join(map(str, b))),
        ('str-comma-space', ', '.join(map(str, b))),
        ('str-tab', '\t'.join(map(str, b))),
        ('str-trailing-newline', ' '.join(map(str, b)) + '\n'),
        ('list-int', list(b)),
        ('list-bool', [bool(v) for v in b]),
        ('list-float', [float(v) for v in b]),
        ('tuple', tuple(b)),
        ('nd-int64', np.array(b, dtype=np.int64)),
        ('nd-uint8', np.array(b, dtype=np.uint8)),
        ('nd-bool', np.array(b, dtype=bool)),
        ('nd-float', np.array(b, dtype=float)),
        ('nd-strided', np.array([v for v in b for _ in (0, 1)])[::2]),
        ('binary_sequence', binary_sequence(list(b))),
        ('binary_sequence-slice', binary_sequence([1] + list(b) + [0])[1:-1]),
    ]
    return out


def vals():
    """Vout / bias pairs: corners of (-48,48) and samples; Vout != 0 (a 0 V swing carries no bits)"""
    corner = [(1.0, 0.0), (1, 0), (5, 1), (-1.0, 0.0), (-3, 2), (47.999, -47.999), (-47.999, 47.999),
              (47, 47), (-47, -47), (np.float64(2.5), np.float64(-1.25)), (1e-3, 47.5), (0.1, 0.2), (3, 0.0), (2.0, -7)]
    for c in corner:
        yield c
    for _ in range(6):
        v = rng.uniform(-47.9, 47.9)
        if abs(v) < 1e-3:
            v = 1.0
        yield (float(v), float(rng.uniform(-47.9, 47.9)))


def decide(samples, Vout, bias):
    thr = bias + Vout / 2
    s = np.real(samples)
    return (s > thr).astype(int) if Vout > 0 else (s < thr).astype(int)


PATTERNS = [[1], [0], [1, 0], [0, 1], [1, 1], [1, 0, 1], [0, 1, 0], [0, 0, 1, 0, 0], [1, 1, 1, 1, 1, 1, 1], [0, 0, 0, 0]]

# ---------------------------------------------------------------- A/B/C/F : NRZ and RZ, every sps
for sps in range(2, 129):
    setsps(sps)
    pats = list(PATTERNS) + [list(rng.integers(0, 2, int(n))) for n in (3, 8, 17)]
    vv = list(vals()) if sps in (2, 3, 4, 5, 7, 8, 9, 16, 17, 63, 64, 127, 128) else [(1.0, 0.0), (-2.5, 3), (5, 1)]
    for bits in pats:
        b = np.array(bits, dtype=int)
        fl = forms(bits) if (sps in (2, 3, 8, 9, 128) or len(bits) <= 2) else [forms(bits)[i] for i in (0, 1, 6, 10, 15)]
        for fname, f in fl:
            for shape in ('nrz', 'NRZ', 'rect', 'rz', 'RZ'):
                for Vout, bias in (vv if fname in ('str-space', 'nd-int64') else [(1.0, 0.0), (-3, 2)]):
                    tag = f'sps={sps} bits={bits} form={fname} shape={shape} Vout={Vout!r} bias={bias!r}'
                    keep = f.copy() if isinstance(f, np.ndarray) else (f.data.copy() if isinstance(f, binary_sequence) else None)
                    try:
                        x = DAC(f, bias=bias, Vout=Vout, pulse_shape=shape)
                    except Exception as e:
                        V('A-forms', f'form={fname} ({f!r:.40}) raised {type(e).__name__}: {e}'[:230])
                        continue
                    if keep is not None:
                        cur = f if isinstance(f, np.ndarray) else f.data
                        if not np.array_equal(cur, keep):
                            V('H-mutation', tag)
                    if not isinstance(x, electrical_signal):
                        V('A-type', tag)
                        continue
                    if x.len() != len(bits) * sps or x.signal.shape != (len(bits) * sps,):
                        V('A-length', tag + f' got {x.signal.shape}')
                        continue
                    if x.noise is not None:
                        V('A-noise', tag)
                    S = x.signal.reshape(len(bits), sps)
                    hi = bias + Vout * b
                    if shape in ('nrz', 'NRZ', 'rect'):
                        exp = np.repeat(hi[:, None], sps, axis=1)
                        if not np.array_equal(S, exp):
                            V('B-nrz-exact', tag + f' maxdiff={np.abs(S-exp).max()}')
                        ks = range(sps)
                    else:
                        exp = np.full((len(bits), sps), float(bias))
                        exp[:, :sps // 2] = hi[:, None]
                        if not np.array_equal(S, exp):
                            V('C-rz-exact', tag + f' maxdiff={np.abs(S-exp).max()}')
                        ks = range(sps // 2)
                    if fname in ('str-space', 'nd-int64'):
                        for k in ks:
                            y = SAMPLER(x, k)
                            if not np.array_equal(y.signal, x.signal[k::sps]) or y.noise is not None:
                                V('E-sampler', tag + f' k={k}')
                            r = decide(y.signal, Vout, bias)
                            if not np.array_equal(r, b):
                                V('F-recover', tag + f' k={k} got {r.tolist()}')
                        if Vout > 0 and bias >= 0:  # the library's own `>` operator (compares magnitudes)
                            k = list(ks)[-1]
                            r = (SAMPLER(x, k) > bias + Vout / 2)
                            if not (isinstance(r, binary_sequence) and np.array_equal(r.data, b)):
                                V('F-recover-operator', tag + f' k={k}')

# ---------------------------------------------------------------- E : SAMPLER on arbitrary signals with noise
for sps in list(range(2, 20)) + [31, 32, 33, 64, 127, 128]:
    setsps(sps)
    for n in (sps, sps + 1, 2 * sps - 1, 2 * sps, 5 * sps, 5 * sps + 3, 7 * sps - 1):
        for cplx in (False, True):
            s = rng.normal(size=n) + (1j * rng.normal(size=n) if cplx else 0)
            w = rng.normal(size=n) + (1j * rng.normal(size=n) if cplx else 0)
            for withnoise in (False, True):
                sig = electrical_signal(s, w) if withnoise else electrical_signal(s)
                for k in range(sps):
                    for kk in (k, np.int64(k)):
                        tag = f'sps={sps} n={n} k={kk!r} noise={withnoise} complex={cplx}'
                        try:
                            y = SAMPLER(sig, kk)
                        except Exception as e:
                            V('E-sampler-exc', tag + f' {type(e).__name__}: {e}')
                            continue
                        if not isinstance(y, electrical_signal) or not np.array_equal(y.signal, s[k::sps]):
                            V('E-sampler-signal', tag)
                        if withnoise and (y.noise is None or not np.array_equal(y.noise, w[k::sps])):
                            V('E-sampler-noise', tag)
                        if not withnoise and y.noise is not None:
                            V('E-sampler-noise-none', tag)
                if not np.array_equal(sig.signal, s):
                    V('H-sampler-mutation', f'sps={sps} n={n}')

# ---------------------------------------------------------------- D : Gaussian, isolated 1


def crossings(y, level):
    """interpolated left/right crossing of `level` around the maximum of y"""
    p = int(np.argmax(y))
    i = p
    while i > 0 and y[i - 1] >= level:
        i -= 1
    if i == 0:
        return None
    left = (i - 1) + (level - y[i - 1]) / (y[i] - y[i - 1])
    j = p
    while j < len(y) - 1 and y[j + 1] >= level:
        j += 1
    if j == len(y) - 1:
        return None
    right = j + (y[j] - level) / (y[j] - y[j + 1])
    return left, right


def gauss_checks(sps, T, m, Vout, bias, bits, pos, tag, kw):
    x = DAC(bits, bias=bias, Vout=Vout, pulse_shape=kw.pop('shape', 'gaussian'), T=T, m=m, **kw)
    n = len(bits)
    if x.len() != n * sps:
        V('A-length-gauss', tag + f' got {x.len()}')
        return None
    if np.abs(np.imag(x.signal)).max() > 1e-9 * abs(Vout):
        V('D-imag', tag)
    y = (np.real(x.signal) - bias) / Vout
    centre = pos * sps + (sps - 1) / 2
    top = np.flatnonzero(y >= y.max() * (1 - 1e-9))
    pk = (top[0] + top[-1]) / 2
    if abs(pk - centre) > 1.0 + 1e-9:
        V('D-peak-position', tag + f' peak at {pk} centre {centre}')
    if abs(y.max() - 1) > 0.05:
        V('D-peak-height', tag + f' peak/Vout={y.max():.4f}')
    # half-maximum width, when the pulse is not cut by the ends of the waveform
    cr = crossings(y, 0.5 * y.max())
    room = min(pos * sps + sps // 2, n * sps - (pos * sps + sps // 2)) - 2
    if room > T / 2 + 1:
        if cr is None:
            V('D-width', tag + ' no half-maximum crossing found')
        else:
            wdt = cr[1] - cr[0]
            if abs(wdt - T) > 1.0:
                V('D-width', tag + f' width={wdt:.3f} T={T}')
            cnt = int(np.sum(y >= 0.5 * y.max()))
            if abs(cnt - T) > 1.0 + 1e-9:
                V('D-width-count', tag + f' samples above half max={cnt} T={T}')
    # the sample at k = sps//2 decides the isolated one
    r = decide(SAMPLER(x, sps // 2).signal, Vout, bias)
    if not np.array_equal(r, np.array(bits)):
        V('F-recover-gauss-isolated', tag + f' got {r.tolist()}')
    return x


for sps in range(8, 129):
    setsps(sps)
    lo = -(-sps // 2)
    Ts = sorted(set([lo, lo + 1, sps - 1, sps, sps + 1, 2 * sps - 1, 2 * sps, int(rng.integers(lo, 2 * sps + 1))]))
    for T in Ts:
        for m in (1, 2, 3, 4):
            for (Vout, bias) in [(1.0, 0.0), (-3, 2), (47.999, -47.999)] if sps % 8 else [(1.0, 0.0), (5, 1), (-47.999, 47.999), (1e-3, 47.5)]:
                for bits, pos in ([0, 0, 0, 0, 1, 0, 0, 0, 0], 4), ([1, 0, 0, 0, 0], 0), ([0, 0, 0, 0, 1], 4), ([1], 0), ([0, 0, 0, 1, 0, 0, 0, 0], 3):
                    tag = f'gaussian sps={sps} T={T} m={m} Vout={Vout} bias={bias} bits={bits}'
                    try:
                        gauss_checks(sps, T, m, Vout, bias, bits, pos, tag, {})
                    except Exception as e:
                        V('D-exc', tag + f' {type(e).__name__}: {e}')
    # default T (= sps), default m, spelling GAUSSIAN, explicit c of both scalar types, forms of the input
    for kw in ({'shape': 'GAUSSIAN'}, {'c': 0}, {'c': 0.0}):
        try:
            x = DAC('0 0 0 1 0 0 0', pulse_shape=kw.get('shape', 'gaussian'), **{k: v for k, v in kw.items() if k != 'shape'})
            ref = DAC([0, 0, 0, 1, 0, 0, 0], pulse_shape='gaussian', T=sps, m=1, c=0.0)
            if not np.array_equal(x.signal, ref.signal):
                V('D-defaults', f'sps={sps} {kw}')
        except Exception as e:
            V('D-exc', f'sps={sps} {kw} {type(e).__name__}: {e}')

# Gaussian: recovery of sequences at k = sps//2 wherever the documented pulse allows it at all
for sps in [8, 9, 10, 11, 15, 16, 17, 31, 32, 33, 64, 65, 127, 128]:
    setsps(sps)
    lo = -(-sps // 2)
    for T in sorted(set([lo, lo + 1, (3 * sps) // 4, sps - 1, sps, sps + 1, (5 * sps) // 4, (3 * sps) // 2, 2 * sps - 1, 2 * sps])):
        for m in (1, 2, 3, 4):
            isi = 2 * sum(2.0 ** (-(2 * j * sps / T) ** (2 * m)) for j in range(1, 6))
            if isi >= 0.45:
                note('gaussian recovery skipped: the documented pulse itself puts >= 0.45*Vout of neighbours on a 0 slot')
                continue
            for bits in PATTERNS + [list(rng.integers(0, 2, 40)) for _ in range(3)] + [[1] * 12 + [0] + [1] * 12]:
                for fname, f in [forms(bits)[i] for i in (1, 10, 15)]:
                    for Vout, bias in [(1.0, 0.0), (-3, 2), (47.999, -47.999), (0.5, 40)]:
                        tag = f'gaussian sps={sps} T={T} m={m} Vout={Vout} bias={bias} form={fname} bits={bits}'
                        try:
                            x = DAC(f, bias=bias, Vout=Vout, pulse_shape='gaussian', T=T, m=m)
                            if x.len() != len(bits) * sps:
                                V('A-length-gauss', tag)
                                continue
                            r = decide(SAMPLER(x, sps // 2).signal, Vout, bias)
                            if not np.array_equal(r, np.array(bits)):
                                V('F-recover-gauss', tag + f' got {r.tolist()}')
                        except Exception as e:
                            V('F-exc', tag + f' {type(e).__name__}: {e}')

# Gaussian below sps = 8: only the length clause applies; plus the all-default call
for sps in range(2, 129):
    setsps(sps)
    for T in sorted(set([1, 2, sps // 2 + 1, sps, 2 * sps - 1, 2 * sps])):
        for m in (1, 4):
            for bits in ([1], [0], [1, 0], [0, 1, 1], [1] * 9):
                try:
                    x = DAC(bits, pulse_shape='gaussian', T=T, m=m)
                    if x.len() != len(bits) * sps:
                        V('A-length-gauss', f'sps={sps} T={T} m={m} bits={bits} got {x.len()}')
                except Exception as e:
                    V('A-exc-gauss', f'sps={sps} T={T} m={m} bits={bits} {type(e).__name__}: {e}')
    x = DAC('101')
    if not np.array_equal(x.signal, np.repeat([1.0, 0.0, 1.0], sps)):
        V('B-nrz-default', f'sps={sps}')

# ---------------------------------------------------------------- G : rejections / acceptances
for sps in (2, 3, 8, 9, 16, 128):
    setsps(sps)
    bad = []
    for name in ('Vout', 'bias'):
        for v in (48, -48, 48.0, -48.0, 50, -50, 1e9, float('inf'), float('-inf'), np.float64(48.0)):
            bad.append(({name: v}, ValueError))
        for v in ('5', [1.0], (1,), 1 + 1j, np.array([1.0]), np.array(1.0), {1: 2}, b'1'):
            bad.append(({name: v}, TypeError))
    for shp in ('gaussian', 'GAUSSIAN'):
        for v in (0, -1, 2 * sps + 1, 3 * sps, -sps):
            bad.append(({'pulse_shape': shp, 'T': v}, ValueError))
        for v in (float(sps), sps + 0.5, '8', None, [sps], 1j):
            bad.append(({'pulse_shape': shp, 'T': v}, TypeError))
        for v in (0, -1, -4):
            bad.append(({'pulse_shape': shp, 'm': v}, ValueError))
        for v in (1.0, 1.5, '1', None, [1], 1j):
            bad.append(({'pulse_shape': shp, 'm': v}, TypeError))
        for v in ('0', None, 1j, 1 + 1j, [0.0], np.array([0.0])):
            bad.append(({'pulse_shape': shp, 'c': v}, TypeError))
    for v in ('triangle', '', 'gauss', 'nrzz', ' nrz', 'sinc', 'nrz,rz', None, 5, ('nrz',)):
        bad.append(({'pulse_shape': v}, ValueError))
    for kw, exc in bad:
        for inp in ('010', [1], np.array([0, 1, 1, 0])):
            try:
                r = DAC(inp, **kw)
                V('G-reject', f'sps={sps} DAC({inp!r}, {kw}) accepted, expected {exc.__name__}')
            except exc:
                pass
            except Exception as e:
                V('G-reject', f'sps={sps} DAC({inp!r}, {kw}) raised {type(e).__name__} ({e}), expected {exc.__name__}')
    good = [{'Vout': 47.999}, {'Vout': -47.999}, {'bias': 47.999}, {'bias': -47.999}, {'Vout': 0}, {'bias': 0}, {'Vout': 3, 'bias': -2},
            {'Vout': np.float64(1.5)}, {'pulse_shape': 'gaussian', 'T': 2 * sps}, {'pulse_shape': 'gaussian', 'T': 1},
            {'pulse_shape': 'gaussian', 'm': 4}, {'pulse_shape': 'gaussian', 'c': 0}, {'pulse_shape': 'gaussian', 'c': 1.5},
            {'pulse_shape': 'rz'}, {'pulse_shape': 'RZ'}, {'pulse_shape': 'NRZ'}, {'pulse_shape': 'rect'}, {'pulse_shape': 'GAUSSIAN'}]
    for kw in good:
        try:
            r = DAC('0110', **kw)
            if r.len() != 4 * sps:
                V('A-length', f'sps={sps} {kw}')
        except Exception as e:
            V('G-accept', f'sps={sps} DAC("0110", {kw}) raised {type(e).__name__}: {e}')
    # after all those refused calls the next good call is unaffected
    x = DAC('10', Vout=2, bias=1)
    if not np.array_equal(x.signal, np.r_[np.full(sps, 3.0), np.full(sps, 1.0)]):
        V('H-state', f'sps={sps} call after rejected calls')

# ---------------------------------------------------------------- H : repeated calls, call order, change of sps between calls
prev = None
for sps in (16, 3, 128, 2, 9, 8):
    setsps(sps)
    for shape, kw in (('nrz', {}), ('rz', {}), ('gaussian', {'T': max(1, sps // 2), 'm': 2}), ('gaussian', {})):
        a = DAC('1 0 1 1 0', Vout=2, bias=-1, pulse_shape=shape, **kw)
        b_ = DAC('1 0 1 1 0', Vout=2, bias=-1, pulse_shape=shape, **kw)
        if a.len() != 5 * sps or not np.array_equal(a.signal, b_.signal):
            V('H-repeat', f'sps={sps} shape={shape}')
        kws = dict(kw)
        DAC('1', pulse_shape=shape, **kws)
        if kws != kw:
            V('H-kwargs-mutated', f'sps={sps} shape={shape}')

if notes:
    for k, v in notes.items():
        print(f'note: {k} ({v} combinations)')
if viol:
    print(f'{len(viol)} violations')
    sys.exit(1)
print('PASS')
sys.exit(0)
