import sys, os
if sys.path and os.path.abspath(sys.path[0] or '.') == os.path.dirname(os.path.abspath(__file__)):
    del sys.path[0]
import warnings; warnings.simplefilter('ignore')
from opticomlib import gv
from opticomlib.devices import DAC
gv(sps=4, R=1e9)
bad = 0
# str form of the bits: "comma or whitespace as element separators" (str2array); tab and newline are whitespace
for s in ('1 0 1', '1,0,1', '1\t0\t1', '1 0 1\n', '1\n0\n1'):
    try:
        n = DAC(s).len()
        print(f'DAC({s!r}): {n} samples (expected 12)'); bad += n != 12
    except Exception as e:
        print(f'DAC({s!r}): expected 12 samples, got {type(e).__name__}: {e}'); bad += 1
sys.exit(1 if bad else 0)
