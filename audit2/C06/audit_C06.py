import sys, os
if sys.path and os.path.abspath(sys.path[0] or '.') == os.path.dirname(os.path.abspath(__file__)):
    del sys.path[0]
import warnings
warnings.filterwarnings('ignore')
import itertools
import numpy as np
import opticomlib
from opticomlib.typing import optical_signal, electrical_signal, gv
from opticomlib.devices import MZM, PM, LASER

pi = np.pi
viol = []
seen = set()


def bad(clause, desc):
    key = (clause, desc)
    if key in seen:
        return
    seen.add(key)
    viol.append(key)
    print(f'VIOLATION [{clause}] {desc}')


def close(a, b, rtol=1e-11, atol=0.0):
    a = np.asarray(a); b = np.asarray(b)
    if a.shape != b.shape:
        return False
    scale = max(np.max(np.abs(b)) if b.size else 0.0, 1e-300)
    return bool(np.all(np.abs(a - b) <= rtol * scale + atol))


rng = np.random.default_rng(20606)


def mk_field(N, n_pol, noise, kind='complex'):
    shape = (N,) if n_pol == 1 else (2, N)
    if kind == 'complex':
        s = rng.normal(size=shape) + 1j * rng.normal(size=shape)
    elif kind == 'real':
        s = rng.normal(size=shape)
    elif kind == 'int':
        s = rng.integers(-5, 6, size=shape)
    elif kind == 'ones':
        s = np.ones(shape)
    elif kind == 'zero':
        s = np.zeros(shape, complex)
    if noise == 'none':
        n = None
    elif noise == 'complex':
        n = 0.3 * (rng.normal(size=shape) + 1j * rng.normal(size=shape))
    elif noise == 'real':
        n = 0.3 * rng.normal(size=shape)
    elif noise == 'zerosum':
        n = 0.3 * rng.normal(size=shape)
        n = n - n.mean(axis=-1, keepdims=True) if N > 1 else np.zeros(shape)
    elif noise == 'zeros':
        n = np.zeros(shape)
    elif noise == 'int':
        n = rng.integers(-2, 3, size=shape)
    return optical_signal(s, n)


def H(u, bias, Vpi, loss_dB, ER_dB):
    th = pi * (np.asarray(u, dtype=float) + bias) / (2.0 * Vpi)
    return np.sqrt(10 ** (-loss_dB / 10.0)) * (np.cos(th) + 1j * 10 ** (-ER_dB / 20.0) * np.sin(th))


def snapshot(x):
    return (x.signal.copy(), None if x.noise is None else x.noise.copy(), x.n_pol)


def unchanged(x, snap):
    ok = np.array_equal(x.signal, snap[0]) and x.n_pol == snap[2]
    if snap[1] is None:
        return ok and x.noise is None
    return ok and x.noise is not None and np.array_equal(x.noise, snap[1])


def total(x):
    return x.signal if x.noise is None else x.signal + x.noise


# --------------------------------------------------------------------------
# drive containers
# --------------------------------------------------------------------------
def scalar_containers(v):
    """containers for a constant drive v (python float value)"""
    out = [('pyfloat', float(v)), ('np.float64', np.float64(v))]
    if float(v).is_integer():
        out += [('pyint', int(v)), ('np.int64', np.int64(int(v)))]
    return out


def array_containers(u):
    """containers for a waveform u (1D float ndarray)"""
    out = [('ndarray', np.array(u, float)),
           ('ndarray-noncontig', np.repeat(np.array(u, float), 2)[::2]),
           ('electrical_signal', electrical_signal(np.array(u, float))),
           ('electrical_signal+noise0', electrical_signal(np.array(u, float), np.zeros(len(u)))),
           ('electrical_signal-complexdtype', electrical_signal(np.array(u, complex)))]
    if np.all(np.asarray(u) == np.round(u)):
        out += [('ndarray-int64', np.array(u).astype(np.int64)),
                ('electrical_signal-int', electrical_signal(np.array(u).astype(np.int64)))]
    if np.all(np.isin(u, (0, 1))):
        out += [('ndarray-bool', np.array(u).astype(bool))]
    return out


Ns = [1, 2, 3, 5, 16, 17]
noises = ['none', 'complex', 'real', 'zerosum', 'zeros', 'int']
kinds = ['complex', 'real', 'int', 'ones', 'zero']

mzm_params = [
    # bias, Vpi, loss_dB, ER_dB
    (0.0, 5.0, 0.0, 26.0),
    (0, 5, 0, 26),
    (2.5, 5.0, 2.0, 30.0),
    (-2.5, 5, 3, 0),
    (1.0, 1e-3, 0.0, 60),
    (-7.3, 1e3, 40.0, 60.0),
    (5.0, 5.0, 0.0, 0.0),
    (0.3, 3.3, 0.5, 10),
    (np.float64(1.25), np.float64(2.5), np.float64(1.0), np.float64(20.0)),
]


def drive_waves(N):
    ws = [('zeros', np.zeros(N)), ('ones', np.ones(N)), ('ramp', np.linspace(-10, 10, N)),
          ('rand', rng.normal(scale=4, size=N)), ('bits', rng.integers(0, 2, N).astype(float)),
          ('ints', rng.integers(-6, 7, N).astype(float))]
    return ws


# --------------------------------------------------------------------------
# MZM
# --------------------------------------------------------------------------
def check_mzm_output(tag, x, out, u, bias, Vpi, loss_dB, ER_dB, pol):
    h = H(u, bias, Vpi, loss_dB, ER_dB)
    h = np.broadcast_to(h, (x.len(),))
    if not isinstance(out, optical_signal):
        bad('MZM.type', f'{tag}: output type {type(out)}'); return
    if out.n_pol != x.n_pol or out.signal.shape != x.signal.shape:
        bad('MZM.shape', f'{tag}: n_pol/shape {out.n_pol}/{out.signal.shape} vs {x.n_pol}/{x.signal.shape}'); return
    exp_s = x.signal * h
    exp_n = None if x.noise is None else x.noise * h
    if x.n_pol == 2:
        off = 1 if pol == 'x' else 0
        exp_s = exp_s.copy(); exp_s[off] = 0
        if exp_n is not None:
            exp_n = exp_n.copy(); exp_n[off] = 0
        if np.any(out.signal[off] != 0):
            bad('MZM.pol-extinguished', f'{tag}: unselected signal row not zero')
        if out.noise is not None and np.any(out.noise[off] != 0):
            bad('MZM.pol-extinguished', f'{tag}: unselected noise row not zero')
    if not close(out.signal, exp_s):
        bad('MZM.transfer', f'{tag}: signal differs, max err {np.max(np.abs(out.signal-exp_s)):.3g}')
    if (x.noise is None) != (out.noise is None):
        bad('MZM.noise', f'{tag}: noise presence in={x.noise is not None} out={out.noise is not None}')
    elif x.noise is not None and not close(out.noise, exp_n):
        bad('MZM.noise', f'{tag}: noise differs, max err {np.max(np.abs(out.noise-exp_n)):.3g}')
    # passivity, sample by sample, for signal, noise and total
    L = np.sqrt(10 ** (-float(loss_dB) / 10))
    for nm, o, i in (('signal', out.signal, x.signal),
                     ('noise', out.noise, x.noise),
                     ('total', total(out), total(x))):
        if o is None or i is None:
            continue
        if np.any(np.abs(o) > L * np.abs(i) * (1 + 1e-12) + 1e-300):
            bad('MZM.passive', f'{tag}: |out|>sqrt(loss)|in| for {nm}')


def audit_mzm():
    for N, n_pol, noise, kind in itertools.product(Ns, (1, 2), noises, kinds):
        if kind in ('int', 'zero', 'ones') and noise not in ('none', 'complex', 'int'):
            continue
        x = mk_field(N, n_pol, noise, kind)
        snap = snapshot(x)
        for pi_, (bias, Vpi, loss_dB, ER_dB) in enumerate(mzm_params):
            if (N + pi_) % 3 and kind != 'complex':
                continue
            for pol in ('x', 'y'):
                for wname, u in drive_waves(N):
                    ref = None
                    for cname, d in array_containers(u):
                        tag = f'N={N} n_pol={n_pol} noise={noise} kind={kind} par#{pi_} pol={pol} wave={wname} drive={cname}'
                        try:
                            out = MZM(x, d, bias=bias, Vpi=Vpi, loss_dB=loss_dB, ER_dB=ER_dB, pol=pol)
                        except Exception as e:
                            bad('MZM.accept', f'{tag}: {type(e).__name__}: {e}'); continue
                        check_mzm_output(tag, x, out, u, bias, Vpi, loss_dB, ER_dB, pol)
                        if ref is None:
                            ref = out
                        else:
                            if not np.array_equal(ref.signal, out.signal) or \
                               ((ref.noise is not None) and not np.array_equal(ref.noise, out.noise)):
                                bad('containers.identical(MZM)', f'{tag}: differs from ndarray drive')
                        if not unchanged(x, snap):
                            bad('MZM.input-mutated', tag); snap = snapshot(x)
                    if wname in ('zeros', 'ones') or (wname == 'ints' and np.all(u == u[0])):
                        v = float(u[0])
                        for cname, d in scalar_containers(v):
                            tag = f'N={N} n_pol={n_pol} noise={noise} kind={kind} par#{pi_} pol={pol} scalar={v} drive={cname}'
                            try:
                                out = MZM(x, d, bias=bias, Vpi=Vpi, loss_dB=loss_dB, ER_dB=ER_dB, pol=pol)
                            except Exception as e:
                                bad('MZM.accept', f'{tag}: {type(e).__name__}: {e}'); continue
                            check_mzm_output(tag, x, out, u, bias, Vpi, loss_dB, ER_dB, pol)
                            if not np.array_equal(ref.signal, out.signal):
                                bad('containers.identical(MZM)', f'{tag}: scalar differs from ndarray drive')
    # default arguments: bias=0, Vpi=5, loss 0, ER 26, pol x
    x = mk_field(7, 2, 'complex')
    u = rng.normal(size=7)
    out = MZM(x, u)
    check_mzm_output('defaults', x, out, u, 0.0, 5.0, 0.0, 26.0, 'x')
    # positional order of the parameters
    out = MZM(x, u, 1.0, 4.0, 2.0, 13.0, 'y')
    check_mzm_output('positional', x, out, u, 1.0, 4.0, 2.0, 13.0, 'y')


def audit_mzm_onoff_period():
    for N, n_pol, noise in itertools.product((1, 2, 9), (1, 2), ('none', 'complex')):
        x = mk_field(N, n_pol, noise, 'complex')
        for Vpi in (1e-3, 1, 3.3, 5.0, 1e3):
            for loss_dB in (0, 0.0, 3.0, 40):
                for ER_dB in (0, 0.0, 1.5, 26, 59.9, 60, 60.0):
                    for bias in (0.0, Vpi / 2, -Vpi, 0.37 * Vpi):
                        for pol in ('x', 'y'):
                            sel = 0 if pol == 'x' else 1
                            on = MZM(x, -bias, bias=bias, Vpi=Vpi, loss_dB=loss_dB, ER_dB=ER_dB, pol=pol)
                            off = MZM(x, Vpi - bias, bias=bias, Vpi=Vpi, loss_dB=loss_dB, ER_dB=ER_dB, pol=pol)
                            pon = np.abs(total(on)) ** 2
                            poff = np.abs(total(off)) ** 2
                            if n_pol == 2:
                                pon, poff = pon[sel], poff[sel]
                            ratio_dB = 10 * np.log10(pon / poff)
                            if not np.allclose(ratio_dB, float(ER_dB), rtol=0, atol=1e-6):
                                bad('MZM.on/off', f'N={N} n_pol={n_pol} Vpi={Vpi} loss={loss_dB} ER={ER_dB} bias={bias}: ratio {ratio_dB.ravel()[:3]} dB')
                            pin = np.abs(total(x)) ** 2
                            if n_pol == 2:
                                pin = pin[sel]
                            if not np.allclose(pon, pin * 10 ** (-loss_dB / 10), rtol=1e-11, atol=0):
                                bad('MZM.on-loss', f'N={N} n_pol={n_pol} Vpi={Vpi} loss={loss_dB} ER={ER_dB} bias={bias}')
                    # periodicity 2*Vpi in the drive
                    ER_dB = 20
                    u = rng.uniform(-3 * Vpi, 3 * Vpi, N)
                    for k in (-3, -1, 1, 2, 7):
                        for conv in (lambda a: a, electrical_signal):
                            a = MZM(x, conv(u), bias=0.2 * Vpi, Vpi=Vpi, loss_dB=loss_dB, ER_dB=ER_dB)
                            b = MZM(x, conv(u + 2 * Vpi * k), bias=0.2 * Vpi, Vpi=Vpi, loss_dB=loss_dB, ER_dB=ER_dB)
                            pa, pb = np.abs(total(a)) ** 2, np.abs(total(b)) ** 2
                            if not np.allclose(pa, pb, rtol=1e-9, atol=1e-12 * np.max(pa)):
                                bad('MZM.periodic', f'N={N} n_pol={n_pol} Vpi={Vpi} loss={loss_dB} k={k}')


# --------------------------------------------------------------------------
# PM
# --------------------------------------------------------------------------
def check_pm_output(tag, x, out, u, Vpi):
    rot = np.broadcast_to(np.exp(1j * pi * np.asarray(u, float) / Vpi), (x.len(),))
    if not isinstance(out, optical_signal):
        bad('PM.type', f'{tag}: output type {type(out)}'); return
    if out.n_pol != x.n_pol or out.signal.shape != x.signal.shape:
        bad('PM.shape', f'{tag}: n_pol/shape {out.n_pol}/{out.signal.shape} vs {x.n_pol}/{x.signal.shape}'); return
    if not close(out.signal, x.signal * rot):
        bad('PM.phase', f'{tag}: signal differs, max err {np.max(np.abs(out.signal - x.signal*rot)):.3g}')
    if (x.noise is None) != (out.noise is None):
        bad('PM.noise', f'{tag}: noise presence in={x.noise is not None} out={out.noise is not None}')
    elif x.noise is not None:
        if out.noise.shape != x.noise.shape or not close(out.noise, x.noise * rot):
            bad('PM.noise', f'{tag}: noise not rotated like the signal')
    pin, pout = np.abs(total(x)) ** 2, np.abs(total(out)) ** 2
    if pin.shape != pout.shape or not np.allclose(pin, pout, rtol=1e-11, atol=1e-13 * max(np.max(pin), 1e-300)):
        bad('PM.power', f'{tag}: instantaneous power of total field changed')


def audit_pm():
    for N, n_pol, noise, kind in itertools.product(Ns, (1, 2), noises, kinds):
        if kind in ('int', 'zero', 'ones') and noise not in ('none', 'complex', 'int', 'zerosum'):
            continue
        x = mk_field(N, n_pol, noise, kind)
        snap = snapshot(x)
        for Vpi in (5.0, 5, 1e-3, 1e3, 3.3, np.float64(2.0)):
            for wname, u in drive_waves(N):
                ref = None
                for cname, d in array_containers(u):
                    tag = f'N={N} n_pol={n_pol} noise={noise} kind={kind} Vpi={Vpi!r} wave={wname} drive={cname}'
                    try:
                        out = PM(x, d, Vpi=Vpi)
                    except Exception as e:
                        bad('PM.accept', f'{tag}: {type(e).__name__}: {e}'); continue
                    check_pm_output(tag, x, out, u, Vpi)
                    if ref is None:
                        ref = out
                    elif not np.array_equal(ref.signal, out.signal) or \
                            (ref.noise is not None and not np.array_equal(ref.noise, out.noise)):
                        bad('containers.identical(PM)', f'{tag}: differs from ndarray drive')
                    if not unchanged(x, snap):
                        bad('PM.input-mutated', tag); snap = snapshot(x)
                if wname in ('zeros', 'ones') or np.all(u == u[0]):
                    v = float(u[0])
                    for cname, d in scalar_containers(v):
                        tag = f'N={N} n_pol={n_pol} noise={noise} kind={kind} Vpi={Vpi!r} scalar={v} drive={cname}'
                        try:
                            out = PM(x, d, Vpi=Vpi)
                        except Exception as e:
                            bad('PM.accept', f'{tag}: {type(e).__name__}: {e}'); continue
                        check_pm_output(tag, x, out, np.full(N, v), Vpi)
                        if ref is not None and not np.array_equal(ref.signal, out.signal):
                            bad('containers.identical(PM)', f'{tag}: scalar differs from ndarray drive')
            # composition
            a = rng.normal(scale=3, size=N); b = rng.normal(scale=3, size=N)
            for ca, cb in itertools.product((lambda v: v, electrical_signal), repeat=2):
                lhs = PM(PM(x, ca(a), Vpi), cb(b), Vpi)
                rhs = PM(x, a + b, Vpi)
                tag = f'N={N} n_pol={n_pol} noise={noise} kind={kind} Vpi={Vpi!r}'
                sc = max(np.max(np.abs(rhs.signal)), 1e-300)
                if not np.allclose(lhs.signal, rhs.signal, rtol=0, atol=1e-9 * sc * max(1, 1 / Vpi * 1e-2)):
                    bad('PM.compose', f'{tag}: signal')
                if (lhs.noise is None) != (rhs.noise is None) or (rhs.noise is not None and not np.allclose(
                        lhs.noise, rhs.noise, rtol=0, atol=1e-9 * max(np.max(np.abs(rhs.noise)), 1e-300) * max(1, 1 / Vpi * 1e-2))):
                    bad('PM.compose', f'{tag}: noise')
            # scalar composition
            lhs = PM(PM(x, 1.5, Vpi), 2, Vpi); rhs = PM(x, 3.5, Vpi)
            if not np.allclose(total(lhs), total(rhs), rtol=0, atol=1e-9 * max(np.max(np.abs(total(rhs))), 1e-300) * max(1, 1e-2 / Vpi)):
                bad('PM.compose', f'N={N} n_pol={n_pol} noise={noise} Vpi={Vpi!r}: scalar drives')
    # default Vpi = 5
    x = mk_field(6, 1, 'complex')
    check_pm_output('default Vpi', x, PM(x, 2.5), np.full(6, 2.5), 5.0)


# --------------------------------------------------------------------------
# mismatched lengths -> ValueError ; matching accepted
# --------------------------------------------------------------------------
def audit_lengths():
    for dev_name, dev in (('MZM', MZM), ('PM', PM)):
        for N, n_pol, noise in itertools.product((1, 2, 3, 8), (1, 2), ('none', 'complex')):
            x = mk_field(N, n_pol, noise)
            for M in (1, 2, 3, N - 1, N + 1, 2 * N, 7, 8, 16):
                if M < 1:
                    continue
                for cname, conv in (('ndarray', lambda a: a), ('electrical_signal', electrical_signal),
                                    ('electrical_signal+noise', lambda a: electrical_signal(a, a * 0))):
                    d = conv(np.linspace(0, 1, M))
                    tag = f'{dev_name} N={N} n_pol={n_pol} noise={noise} drive={cname} len={M}'
                    try:
                        out = dev(x, d)
                    except ValueError:
                        if M == N:
                            bad('lengths.match-accepted', f'{tag}: ValueError for matching length')
                        continue
                    except Exception as e:
                        bad('lengths.mismatch-ValueError' if M != N else 'lengths.match-accepted',
                            f'{tag}: {type(e).__name__}: {e}')
                        continue
                    if M != N:
                        bad('lengths.mismatch-ValueError', f'{tag}: accepted silently, output shape {out.signal.shape}')
            # N drive samples stored as a column: either refused with ValueError or used as N samples
            try:
                out = dev(x, np.linspace(0, 1, N).reshape(-1, 1))
                if out.signal.shape != x.signal.shape:
                    bad('lengths.mismatch-ValueError', f'{dev_name} N={N} n_pol={n_pol} noise={noise} (N,1) column drive: output shape {out.signal.shape} for input {x.signal.shape}')
            except ValueError:
                pass
            except Exception as e:
                bad('lengths.mismatch-ValueError', f'{dev_name} N={N} n_pol={n_pol} (N,1) column drive: {type(e).__name__}: {e}')
            # empty drive
            for cname, d in (('ndarray', np.array([])),):
                try:
                    dev(x, d)
                    bad('lengths.mismatch-ValueError', f'{dev_name} N={N} n_pol={n_pol} empty {cname} drive accepted')
                except ValueError:
                    pass
                except Exception as e:
                    bad('lengths.mismatch-ValueError', f'{dev_name} N={N} n_pol={n_pol} empty {cname}: {type(e).__name__}: {e}')


# --------------------------------------------------------------------------
# scalar spellings
# --------------------------------------------------------------------------
def audit_scalar_spellings():
    x = mk_field(5, 2, 'complex')
    ref_m = MZM(x, 2.0)
    ref_p = PM(x, 2.0)
    for cname, d in (('pyint', 2), ('pyfloat', 2.0), ('np.float64', np.float64(2)), ('np.int64', np.int64(2)),
                     ('np.float32', np.float32(2)), ('np.int32', np.int32(2)),
                     ('0-d ndarray float', np.array(2.0)), ('0-d ndarray int', np.array(2)),
                     ('electrical_signal(scalar)', None)):
        for dev_name, dev, ref in (('MZM', MZM, ref_m), ('PM', PM, ref_p)):
            if d is None:
                continue
            try:
                out = dev(x, d)
            except Exception as e:
                bad('containers.scalar-accepted', f'{dev_name} drive={cname}: {type(e).__name__}: {e}')
                continue
            if cname in ('np.float32',):  # single-precision drive: single-precision result is all that can be asked
                same = np.allclose(out.signal, ref.signal, rtol=1e-6, atol=1e-6) and np.allclose(out.noise, ref.noise, rtol=1e-6, atol=1e-6)
            else:
                same = np.array_equal(out.signal, ref.signal) and np.array_equal(out.noise, ref.noise)
            if not same:
                bad('containers.identical', f'{dev_name} drive={cname}: differs from python float')
    # python bool scalars are ints
    for dev_name, dev in (('MZM', MZM), ('PM', PM)):
        a = dev(x, True); b = dev(x, 1)
        if not np.array_equal(a.signal, b.signal):
            bad('containers.identical', f'{dev_name} True vs 1')


# --------------------------------------------------------------------------
# LASER
# --------------------------------------------------------------------------
def audit_laser():
    for (sps, R) in ((16, 1e9), (8, 10e9), (3, 2.5e9)):
        gv(sps=sps, R=R)
        fs = gv.fs
        for N in (1, 2, 3, 64, 101, 1024):
            t = np.arange(N) * gv.dt
            for p in (-300, -30, 0, 0.0, 10, 13.7, 30, 100, np.float64(3.0)):
                P = 10 ** (p / 10 - 3)
                for lw in (None, 0, 0.0, 1e3, 1e6, 100e6, 1e9):
                    for df in (None, 0, 0.0, fs / N, -fs / N, 3 * fs / N if N > 8 else fs / 4, fs / 4, -fs / 4,
                               fs / 2 - fs / N if N > 2 else fs / 4, -(fs / 2 - fs / N) if N > 2 else -fs / 4, fs / 2, -fs / 2):
                        if df is not None and abs(df) > fs / 2:
                            continue
                        tag = f'fs={fs:g} N={N} p={p!r} lw={lw!r} df={df!r}'
                        np.random.seed(N + 7)
                        try:
                            l = LASER(t, p, lw=lw, df=df)
                        except Exception as e:
                            bad('LASER.accept', f'{tag}: {type(e).__name__}: {e}'); continue
                        if not isinstance(l, optical_signal) or l.n_pol != 1 or l.signal.shape != (N,):
                            bad('LASER.shape', f'{tag}: {type(l)} {getattr(l, "n_pol", None)} {l.signal.shape}'); continue
                        if l.noise is not None:
                            bad('LASER.noise', f'{tag}: noise component present')
                        pw = np.abs(l.signal) ** 2
                        if not np.allclose(pw, P, rtol=1e-12, atol=0):
                            bad('LASER.power', f'{tag}: |E|^2 range [{pw.min():.6g},{pw.max():.6g}] expected {P:.6g}')
                        # spectral peak at df (noise-free linewidth: exact bin)
                        if N >= 8 and P > 0 and (lw is None or lw == 0):
                            f = np.fft.fftfreq(N, 1 / fs)
                            S = np.abs(np.fft.fft(l.signal))
                            fpk = f[np.argmax(S)]
                            target = 0.0 if df is None else df
                            d = abs(fpk - target)
                            d = min(d, abs(d - fs))  # +-fs/2 are the same bin
                            if d > fs / N * 0.51:
                                bad('LASER.peak', f'{tag}: peak at {fpk:g} expected {target:g}')
                        elif N >= 1024 and P > 0 and lw is not None and lw <= 1e6:
                            f = np.fft.fftfreq(N, 1 / fs)
                            S = np.abs(np.fft.fft(l.signal))
                            fpk = f[np.argmax(S)]
                            target = 0.0 if df is None else df
                            d = abs(fpk - target); d = min(d, abs(d - fs))
                            if d > 20 * max(lw, fs / N):
                                bad('LASER.peak', f'{tag}: peak at {fpk:g} expected {target:g} (lw={lw})')
            # out of Nyquist is refused, inside accepted
            for df in (fs / 2 * 1.0001, -fs / 2 * 1.0001):
                try:
                    LASER(t, 0, df=df)
                    bad('LASER.nyquist', f'fs={fs:g} df={df:g} accepted')
                except ValueError:
                    pass
        # integer-typed and float32 time vectors, time vector not starting at 0
        t = np.arange(32) * gv.dt + 5e-9
        l = LASER(t, 3, df=fs / 8)
        if not np.allclose(np.abs(l.signal) ** 2, 10 ** (0.3 - 3), rtol=1e-12):
            bad('LASER.power', 'offset time vector')
        # laser -> PM -> power unchanged ; laser phase terms do not touch power with lw and df together
        np.random.seed(3)
        l = LASER(np.arange(256) * gv.dt, 7, lw=5e6, df=-fs / 5)
        o = PM(l, rng.normal(size=256), 2.0)
        if not np.allclose(np.abs(o.signal) ** 2, 10 ** (0.7 - 3), rtol=1e-12):
            bad('PM.power', 'laser->PM')
        # the laser does not leave state behind in the global RNG-independent sense: two lasers, same seed, same output
        np.random.seed(11); a = LASER(np.arange(50) * gv.dt, 0, lw=1e6)
        np.random.seed(11); b = LASER(np.arange(50) * gv.dt, 0, lw=1e6)
        if not np.array_equal(a.signal, b.signal):
            bad('LASER.repeat', 'same seed differs')
    gv(sps=16, R=1e9)


def audit_laser_phase_stats():
    # phase-noise term is a pure rotation: checked above.  Sanity: increments have variance 2*pi*lw*dt (6 sigma, several seeds)
    gv(sps=16, R=1e9)
    N = 200000
    t = np.arange(N) * gv.dt
    fails = 0
    for seed in range(5):
        np.random.seed(seed)
        lw = 1e6
        l = LASER(t, 0, lw=lw)
        inc = np.angle(l.signal[1:] * np.conj(l.signal[:-1]))
        var = np.var(inc); exp = 2 * pi * lw * gv.dt
        if abs(var - exp) > 6 * exp * np.sqrt(2 / N):
            fails += 1
    if fails >= 3:
        bad('LASER.phase-noise-variance', f'{fails}/5 seeds beyond 6 sigma')


if __name__ == '__main__':
    audit_mzm()
    audit_mzm_onoff_period()
    audit_pm()
    audit_lengths()
    audit_scalar_spellings()
    audit_laser()
    audit_laser_phase_stats()
    if viol:
        print(f'{len(viol)} violations')
        sys.exit(1)
    print('PASS')
    sys.exit(0)
