# C06 "mismatched lengths raise ValueError": MZM takes a length-1 ndarray / electrical_signal drive
# for a field of 8 samples as if it were a scalar; PM raises ValueError for the same input.
import sys, os
if sys.path and os.path.abspath(sys.path[0] or '.') == os.path.dirname(os.path.abspath(__file__)): del sys.path[0]
import numpy as np
from opticomlib.typing import optical_signal, electrical_signal
from opticomlib.devices import MZM, PM
x = optical_signal(np.ones(8, complex))
rc = 0
for name, drive in (('ndarray of length 1', np.array([2.5])), ('electrical_signal of length 1', electrical_signal([2.5]))):
    try: PM(x, drive); pm = 'accepted'
    except ValueError: pm = 'ValueError'
    try: out = MZM(x, drive); mzm = f'accepted, output shape {out.signal.shape}'
    except ValueError: mzm = 'ValueError'
    print(f'{name} on an 8-sample field: expected ValueError (MZM docstring, and PM: {pm}); MZM: {mzm}')
    rc |= mzm != 'ValueError'
sys.exit(rc)
