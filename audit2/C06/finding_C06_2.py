# C06 "Scalar, ndarray and electrical_signal drives ... are all accepted and give identical results":
# a 0-d ndarray (a scalar drive held in an ndarray) is accepted by MZM but PM dies in len().
import sys, os
if sys.path and os.path.abspath(sys.path[0] or '.') == os.path.dirname(os.path.abspath(__file__)): del sys.path[0]
import numpy as np
from opticomlib.typing import optical_signal
from opticomlib.devices import MZM, PM
x = optical_signal(np.ones(4, complex))
u = np.array(2.5)                       # 0-d ndarray, e.g. np.asarray(v) or np.array(table)[()] style values
assert np.array_equal(MZM(x, u).signal, MZM(x, 2.5).signal)   # MZM: same as the python scalar
try:
    out = PM(x, u)
except Exception as e:
    print(f'expected PM(x, np.array(2.5)) == PM(x, 2.5) (phase shift pi/2 on every sample); got {type(e).__name__}: {e}')
    sys.exit(1)
sys.exit(0 if np.array_equal(out.signal, PM(x, 2.5).signal) else 1)
