# C06 "mismatched lengths raise ValueError" / "PM ... pure phase rotation": PM validates an ndarray drive with
# len() only, so an (N,1) column of N drive samples passes and broadcasts the one-polarisation field to N x N.
# MZM refuses the same drive with ValueError.
import sys, os
if sys.path and os.path.abspath(sys.path[0] or '.') == os.path.dirname(os.path.abspath(__file__)): del sys.path[0]
import numpy as np
from opticomlib.typing import optical_signal
from opticomlib.devices import MZM, PM
x = optical_signal(np.ones(4, complex))
u = np.linspace(0, 5, 4).reshape(-1, 1)          # 4 drive samples stored as a column
try: MZM(x, u); print('MZM accepted the column')
except ValueError: print('MZM: ValueError (as stated)')
try:
    out = PM(x, u)
except ValueError:
    print('PM: ValueError'); sys.exit(0)
print(f'PM: expected ValueError or a 4-sample output; got n_pol={out.n_pol}, len()={out.len()}, signal.shape={out.signal.shape}')
sys.exit(0 if out.signal.shape == (4,) else 1)
