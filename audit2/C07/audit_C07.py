import sys, os
if sys.path and os.path.abspath(sys.path[0] or '.') == os.path.dirname(os.path.abspath(__file__)):
    del sys.path[0]
import signal as _sig
import warnings
import itertools
import numpy as np

warnings.filterwarnings('ignore')
from opticomlib import optical_signal, gv
from opticomlib.devices import DM, FIBER

VIOL = []
SEEN = set()


def viol(clause, desc, detail):
    key = (clause, desc)
    if key in SEEN:
        return
    SEEN.add(key)
    VIOL.append(key)
    print(f'VIOLATION [{clause}] {desc} :: {detail}')


class TO(Exception):
    pass


def _h(*a):
    raise TO()


_sig.signal(_sig.SIGALRM, _h)


def fiber(x, *a, **k):
    _sig.alarm(10)
    try:
        return FIBER(x, *a, **k)
    finally:
        _sig.alarm(0)


def ref_filter(field, fs, L=1.0, alpha=0.0, b2=0.0, b3=0.0):
    """independent reference: field (N,) or (2,N); b2 in ps^2(/km), b3 in ps^3(/km), alpha dB/km"""
    N = field.shape[-1]
    w = 2 * np.pi * np.fft.fftfreq(N) * fs * 1e-12  # rad/ps
    H = np.exp(-alpha * np.log(10) / 10 * L / 2 - 1j * b2 * L * w**2 / 2 - 1j * b3 * L * w**3 / 6)
    return np.fft.ifft(np.fft.fft(field, axis=-1) * H, axis=-1), H, w


def tot(x):
    return x.signal if x.noise is None else x.signal + x.noise


def close(a, b, tol):
    a = np.asarray(a); b = np.asarray(b)
    if a.shape != b.shape:
        return False
    if not (np.all(np.isfinite(a)) and np.all(np.isfinite(b))):
        return False
    scale = max(np.abs(b).max(), 1e-300)
    return np.abs(a - b).max() <= tol * scale


def make_field(rng, N, npol, kind, dtype):
    shape = (N,) if npol == 1 else (2, N)
    if kind == 'rand':
        f = rng.normal(size=shape) + 1j * rng.normal(size=shape)
    elif kind == 'impulse_first':
        f = np.zeros(shape, complex); f[..., 0] = 1 + 1j
    elif kind == 'impulse_last':
        f = np.zeros(shape, complex); f[..., -1] = 2 - 1j
    elif kind == 'const':
        f = np.full(shape, 0.5 - 0.25j)
    elif kind == 'nyq':
        f = np.ones(shape, complex) * (-1.0) ** np.arange(N)
    elif kind == 'tiny':
        f = (rng.normal(size=shape) + 1j * rng.normal(size=shape)) * 1e-9
    elif kind == 'big':
        f = (rng.normal(size=shape) + 1j * rng.normal(size=shape)) * 1e3
    if npol == 2 and kind == 'rand':
        pass
    if dtype == 'float':
        f = f.real.copy()
    elif dtype == 'int':
        f = np.round(f.real * 3).astype(np.int64)
    return f


def phase_tol(N, fs, coef2, coef3=0.0):
    wmax = np.pi * fs * 1e-12
    ph = abs(coef2) * wmax**2 / 2 + abs(coef3) * wmax**3 / 6
    return 1e-11 * (1 + ph) + 1e-12 * N


def check_all(field, noise, fs, D1, D2, L1, L2, alpha, b2, b3, tag):
    gv.fs = fs
    gv.dt = 1 / fs
    npol = 1 if field.ndim == 1 else 2
    N = field.shape[-1]
    f0 = field.copy()
    n0 = None if noise is None else noise.copy()
    x = optical_signal(field, noise)
    desc = f'{tag} N={N} npol={npol} fs={fs:g} noise={"y" if noise is not None else "n"} dtype={field.dtype}'
    total_in = tot(x).astype(complex)

    # ---------- DM = reference filter, layout, energy
    try:
        for D in (D1, D2):
            tol = phase_tol(N, fs, D)
            y = DM(x, D)
            if not isinstance(y, optical_signal):
                viol('DM-type', desc, type(y)); continue
            if y.signal.shape != field.shape or (y.noise is not None and y.noise.shape != field.shape) or y.n_pol != x.n_pol:
                viol('DM-layout', desc + f' D={D}', f'{y.signal.shape} n_pol={y.n_pol}')
                continue
            ref, H, w = ref_filter(total_in, fs, 1.0, 0.0, D, 0.0)
            if not close(tot(y), ref, tol):
                viol('DM-filter' + ('-noise' if noise is not None else ''), desc + f' D={D}',
                     f'max|out-ref|={np.abs(tot(y)-ref).max():.3g}')
            refs, _, _ = ref_filter(np.asarray(field, complex), fs, 1.0, 0.0, D, 0.0)
            if not close(y.signal, refs, tol):
                viol('DM-filter-signalpart', desc + f' D={D}', f'max|out-ref|={np.abs(y.signal-refs).max():.3g}')
            # energy per polarisation of the total field
            e_in = np.sum(np.abs(total_in) ** 2, axis=-1)
            e_out = np.sum(np.abs(tot(y)) ** 2, axis=-1)
            if not np.allclose(e_out, e_in, rtol=1e-10, atol=0):
                viol('DM-energy' + ('-noise' if noise is not None else ''), desc + f' D={D}', f'{e_in} -> {e_out}')
            if not np.allclose(y.power(), x.power(), rtol=1e-10, atol=0):
                viol('DM-power()' + ('-noise' if noise is not None else ''), desc + f' D={D}', f'{x.power()} -> {y.power()}')
            # inverse
            z = DM(y, -D)
            if not close(tot(z), total_in, tol):
                viol('DM-inverse', desc + f' D={D}', f'{np.abs(tot(z)-total_in).max():.3g}')
            # retH
            y2, Hret = DM(x, D, retH=True)
            if not close(tot(y2), tot(y), 0):
                viol('DM-retH-output-differs', desc + f' D={D}', '')
            Hs = np.fft.fftshift(H)
            if Hret.shape != (N,) or not close(Hret, Hs, tol):
                viol('DM-retH', desc + f' D={D}', f'shape={Hret.shape}')
            # H returned vs filter actually applied on the total field
            Sin = np.fft.fftshift(np.fft.fft(total_in, axis=-1), axes=-1)
            Sout = np.fft.fftshift(np.fft.fft(tot(y2), axis=-1), axes=-1)
            if not close(Sout, Sin * Hret, tol * 10):
                viol('DM-retH-vs-applied' + ('-noise' if noise is not None else ''), desc + f' D={D}',
                     f'{np.abs(Sout-Sin*Hret).max():.3g}')
        # additivity
        tol = phase_tol(N, fs, abs(D1) + abs(D2))
        a = DM(DM(x, D2), D1)
        b = DM(x, D1 + D2)
        if not close(tot(a), tot(b), tol):
            viol('DM-additive', desc + f' D1={D1} D2={D2}', f'{np.abs(tot(a)-tot(b)).max():.3g}')
    except TO:
        viol('DM-timeout', desc, '')
    except Exception as e:
        viol('DM-exception', desc + f' D1={D1!r} D2={D2!r}', repr(e)[:150])

    # ---------- FIBER
    try:
        tol = phase_tol(N, fs, b2 * (L1 + L2), b3 * (L1 + L2))
        # FIBER(L,b2) == DM(b2*L)
        yf = fiber(x, L1, beta_2=b2)
        yd = DM(x, b2 * L1)
        if yf.signal.shape != field.shape or yf.n_pol != x.n_pol or (yf.noise is not None and yf.noise.shape != field.shape):
            viol('FIBER-layout', desc, f'{yf.signal.shape}')
        elif not close(tot(yf), tot(yd), tol):
            viol('FIBER=DM', desc + f' L={L1} b2={b2}', f'{np.abs(tot(yf)-tot(yd)).max():.3g}')
        # full linear filter
        for gam in (0, 0.0, -0.0):
            yf = fiber(x, L1, alpha, b2, b3, gam)
            ref, H, w = ref_filter(total_in, fs, L1, alpha, b2, b3)
            if yf.signal.shape != field.shape or yf.n_pol != x.n_pol:
                viol('FIBER-layout', desc, f'{yf.signal.shape}')
                continue
            if not close(tot(yf), ref, tol + 1e-11 * alpha * L1):
                viol('FIBER-filter' + ('-noise' if noise is not None else ''), desc + f' L={L1} a={alpha} b2={b2} b3={b3} g={gam!r}',
                     f'rel err {np.abs(tot(yf)-ref).max()/max(np.abs(ref).max(),1e-300):.3g}')
            refs, _, _ = ref_filter(np.asarray(field, complex), fs, L1, alpha, b2, b3)
            if not close(yf.signal, refs, tol + 1e-11 * alpha * L1):
                viol('FIBER-filter-signalpart', desc + f' L={L1} a={alpha} b2={b2} b3={b3}',
                     f'rel err {np.abs(yf.signal-refs).max()/max(np.abs(refs).max(),1e-300):.3g}')
        # power law
        yf = fiber(x, L1, alpha, b2, b3, 0)
        pin = np.atleast_1d(x.power()); pout = np.atleast_1d(yf.power())
        expct = pin * 10 ** (-alpha * L1 / 10)
        if pout.shape != pin.shape:
            viol('FIBER-power-shape', desc, f'{pout.shape}')
        elif not np.allclose(pout, expct, rtol=1e-9 + 1e-12 * alpha * L1, atol=0):
            viol('FIBER-power' + ('-noise' if noise is not None else ''), desc + f' L={L1} a={alpha}',
                 f'expected {expct} got {pout} rel {np.max(np.abs(pout/expct-1)):.3g}')
        # spans
        y12 = fiber(fiber(x, L1, alpha, b2, b3, 0), L2, alpha, b2, b3, 0)
        ysum = fiber(x, L1 + L2, alpha, b2, b3, 0)
        if not close(tot(y12), tot(ysum), tol + 1e-11 * alpha * (L1 + L2)):
            viol('FIBER-spans', desc + f' L1={L1} L2={L2}', f'{np.abs(tot(y12)-tot(ysum)).max():.3g}')
        # keyword / show_progress / phi_max must not matter
        yk = fiber(x, length=L1, alpha=alpha, beta_2=b2, beta_3=b3, gamma=0, phi_max=1e-9)
        if not close(tot(yk), tot(yf), 0):
            viol('FIBER-phi_max-matters', desc, '')
    except TO:
        viol('FIBER-timeout', desc + f' L1={L1} a={alpha} b2={b2} b3={b3}', '')
    except Exception as e:
        viol('FIBER-exception', desc + f' L1={L1!r} a={alpha!r} b2={b2!r} b3={b3!r}', repr(e)[:150])

    # inputs untouched
    if not np.array_equal(field, f0) or not np.array_equal(x.signal, f0):
        viol('input-mutated', desc, '')
    if noise is not None and (not np.array_equal(noise, n0) or not np.array_equal(x.noise, n0)):
        viol('noise-mutated', desc, '')


def main():
    rng = np.random.default_rng(7)
    Ns = [1, 2, 3, 4, 5, 7, 8, 15, 16, 17, 63, 64, 65, 1000, 1001]
    kinds = ['rand', 'impulse_first', 'impulse_last', 'const', 'nyq', 'tiny', 'big']
    fss = [1.0, 1e3, 16e9, 40e9, 160e9, 1e12, 3.7e13]
    Dvals = [0, 0.0, 1, -1, 4000, -4000, 0.37, -12345.678, 1e6, -1e6, 1e-6]
    params = [  # L, alpha, b2, b3
        (1, 0, 0, 0), (50, 0.2, -20, 0), (50.0, 0.2, 20.0, 0.1), (0.001, 0, -20, -0.1), (100, 0.2, 0, 0),
        (80, 0, 0, 0.5), (1e-9, 3.0, 5, -5), (1000, 0.2, -21.7, 0.12), (3, 10, 0, 0), (2.5, 0.0, 1e3, -1e3),
        (50, 1, -20, 1), (500, 1, 0, 0)]
    cnt = 0
    # systematic corners
    for N, npol, kind in itertools.product(Ns, (1, 2), kinds):
        for dtype in ('complex', 'float', 'int'):
            if dtype != 'complex' and kind not in ('rand', 'const'):
                continue
            for with_noise in (False, True):
                if with_noise and kind not in ('rand', 'const'):
                    continue
                fs = fss[cnt % len(fss)]
                D1 = Dvals[cnt % len(Dvals)]; D2 = Dvals[(cnt * 7 + 3) % len(Dvals)]
                L, a, b2, b3 = params[cnt % len(params)]
                L2 = params[(cnt + 5) % len(params)][0]
                f = make_field(rng, N, npol, kind, dtype)
                nz = None
                if with_noise:
                    nz = 0.3 * (rng.normal(size=f.shape) + 1j * rng.normal(size=f.shape))
                check_all(f, nz, fs, D1, D2, L, L2, a, b2, b3, f'{kind}')
                cnt += 1
    # random sampling
    for it in range(400):
        N = int(rng.integers(1, 300))
        npol = int(rng.integers(1, 3))
        fs = float(10 ** rng.uniform(0, 13))
        # keep phases moderate so that the tolerance stays meaningful
        wmax = np.pi * fs * 1e-12
        scale2 = min(1e6, 1e3 / max(wmax**2, 1e-30))
        scale3 = min(1e6, 1e3 / max(wmax**3, 1e-30))
        D1 = float(rng.uniform(-1, 1) * scale2); D2 = float(rng.uniform(-1, 1) * scale2)
        L = float(10 ** rng.uniform(-3, 2.5)); L2 = float(10 ** rng.uniform(-3, 2.5))
        b2 = float(rng.uniform(-1, 1) * scale2 / (L + L2)); b3 = float(rng.uniform(-1, 1) * scale3 / (L + L2))
        a = float(rng.choice([0, 0.2, 1.0, rng.uniform(0, 2)]))
        f = make_field(rng, N, npol, 'rand', 'complex')
        nz = None
        if it % 4 == 0:
            nz = 0.1 * (rng.normal(size=f.shape) + 1j * rng.normal(size=f.shape))
        check_all(f, nz, fs, D1, D2, L, L2, a, b2, b3, f'rnd{it}')

    # ---- argument-type corners
    gv.fs = 16e9; gv.dt = 1 / gv.fs
    f = make_field(rng, 16, 2, 'rand', 'complex')
    x = optical_signal(f)
    base = DM(x, 100.0).signal
    for Dv, name in [(100, 'int'), (np.float64(100), 'np.float64'), (np.array(100.0), '0-d float array'),
                     (np.array([100.0]), '1-elem float array'), (True * 100, 'int*bool')]:
        try:
            keep = np.array(Dv, copy=True)
            y = DM(x, Dv)
            if not close(y.signal, base, 1e-12):
                viol('DM-D-type', name, 'different output')
            if not np.array_equal(np.asarray(Dv), keep):
                viol('DM-D-argument-mutated', name, f'caller\'s D became {Dv!r} (was {keep!r})')
        except Exception as e:
            viol('DM-D-type-exception', name, repr(e)[:120])
    # scalar / (1,N) / str constructions
    for sig, kw, name in [(1 + 1j, {}, 'scalar'), (1 + 1j, {'n_pol': 2}, 'scalar n_pol=2'), ([[1, 2, 3]], {}, '(1,N) default'),
                          ([[1, 2, 3]], {'n_pol': 1}, '(1,N) n_pol=1'), ('1 2 3 4', {}, 'str'), ([1, 2], {'n_pol': 2}, 'len2 n_pol=2'),
                          ([[1, 2], [3, 4]], {}, '2x2'), ([[1], [2]], {}, '2x1')]:
        try:
            x = optical_signal(sig, **kw)
            y = DM(x, 1e5)
            z = fiber(x, 10, 0.2, -20, 0.1, 0)
            ref, _, _ = ref_filter(x.signal.astype(complex), gv.fs, 1, 0, 1e5, 0)
            ref2, _, _ = ref_filter(x.signal.astype(complex), gv.fs, 10, 0.2, -20, 0.1)
            if y.signal.shape != x.signal.shape or y.n_pol != x.n_pol or z.signal.shape != x.signal.shape or z.n_pol != x.n_pol:
                viol('layout-construct', name, f'{x.signal.shape}->{y.signal.shape},{z.signal.shape}')
            elif not close(y.signal, ref, 1e-10):
                viol('DM-filter-construct', name, '')
            elif not close(z.signal, ref2, 1e-10):
                viol('FIBER-filter-construct', name, f'{np.abs(z.signal-ref2).max()/np.abs(ref2).max():.3g}')
        except TO:
            viol('construct-timeout', name, '')
        except Exception as e:
            viol('construct-exception', name, repr(e)[:120])
    # repeated calls / order: same answer twice, fs change honoured
    x = optical_signal(make_field(rng, 33, 1, 'rand', 'complex'))
    a1 = DM(x, 500).signal; gv.fs = 32e9; a2 = DM(x, 500).signal; gv.fs = 16e9; a3 = DM(x, 500).signal
    if not close(a1, a3, 0):
        viol('DM-repeat', 'same call differs after fs toggled', '')
    r2, _, _ = ref_filter(x.signal, 32e9, 1, 0, 500, 0)
    if not close(a2, r2, 1e-11):
        viol('DM-fs', 'fs change not honoured', '')

    if VIOL:
        print(f'{len(VIOL)} violations')
        sys.exit(1)
    print('PASS')
    sys.exit(0)


main()
