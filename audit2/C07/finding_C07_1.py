# DM filters only .signal; the .noise part of the field goes through untouched
import sys; del sys.path[0]
import numpy as np
from opticomlib import optical_signal, gv
from opticomlib.devices import DM
gv.fs = 16e9
rng = np.random.default_rng(0)
s = rng.normal(size=64) + 1j*rng.normal(size=64)
n = 0.3*(rng.normal(size=64) + 1j*rng.normal(size=64))
x = optical_signal(s, n)
y = DM(x, 4000)
w = 2*np.pi*np.fft.fftfreq(64)*gv.fs
ref = np.fft.ifft(np.fft.fft(s + n)*np.exp(-1j*w**2*4000e-24/2))      # all-pass on the whole field
print('expected energy', np.sum(abs(s + n)**2), 'got', np.sum(abs(y.signal + y.noise)**2))
print('max |out - H*in| =', abs(y.signal + y.noise - ref).max(), ' noise unchanged:', np.array_equal(y.noise, n) or np.allclose(y.noise, n))
sys.exit(0 if np.allclose(y.signal + y.noise, ref) and np.isclose(y.power(), x.power(), rtol=1e-9) else 1)
