# FIBER (gamma=0) attenuates/disperses only .signal; .noise leaves the fibre as it entered
import sys; del sys.path[0]
import signal; signal.alarm(20)
import numpy as np
from opticomlib import optical_signal, gv
from opticomlib.devices import FIBER
gv.fs = 16e9
rng = np.random.default_rng(0)
s = rng.normal(size=(2, 32)) + 1j*rng.normal(size=(2, 32))
n = rng.normal(size=(2, 32)) + 1j*rng.normal(size=(2, 32))
x = optical_signal(s, n)
y = FIBER(x, length=100, alpha=0.2)            # 20 dB of loss, no dispersion, gamma = 0
print('input power ', x.power())
print('expected out', x.power()*10**(-0.2*100/10))
print('got         ', y.power(), ' noise power in/out', x.power('noise'), y.power('noise'))
sys.exit(0 if np.allclose(y.power(), x.power()*1e-2, rtol=1e-3) else 1)
