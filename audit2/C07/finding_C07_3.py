# FIBER converts dB/km to 1/km with the rounded constant 4.343 instead of 10/ln(10) = 4.342944819...
import sys; del sys.path[0]
import signal; signal.alarm(20)
import numpy as np
from opticomlib import optical_signal, gv
from opticomlib.devices import FIBER
gv.fs = 16e9
x = optical_signal(np.ones(8, complex))        # power 1 W, one polarisation
bad = False
for alpha, L in [(0.2, 100), (0.2, 1000), (1.0, 500)]:
    got = FIBER(x, length=L, alpha=alpha).power()
    exp = 10**(-alpha*L/10)
    print(f'alpha={alpha} dB/km L={L} km: expected {exp:.12e} got {got:.12e} rel.err {got/exp-1:.2e}')
    bad |= abs(got/exp - 1) > 1e-9
sys.exit(1 if bad else 0)
