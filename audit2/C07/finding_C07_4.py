# DM scales its argument D in place: a 0-d / 1-element float array passed as D is overwritten in the caller
import sys; del sys.path[0]
import numpy as np
from opticomlib import optical_signal, gv
from opticomlib.devices import DM
gv.fs = 16e9
x = optical_signal(np.exp(-np.linspace(-3, 3, 64)**2))
Ds = np.array([[4000.0], [8000.0]])            # e.g. a column of dispersions to sweep
outs = [DM(x, D).signal for D in Ds]           # each D is a view of shape (1,)
print('expected Ds unchanged [[4000.],[8000.]], got', Ds.tolist())
again = DM(x, Ds[0]).signal                    # second sweep silently uses 4e-21 ps^2
print('second call with the same D equals first:', np.allclose(again, outs[0]))
sys.exit(0 if Ds[0, 0] == 4000.0 and np.allclose(again, outs[0]) else 1)
