"""Audit of property C08 (nonlinear FIBER) - second pass.

Clauses
  K1  output finite, same shape / n_pol as the input, input not modified
  K2  energy per polarisation = E_in * 10**(-alpha*L/10) whatever phi_max
  K3  no dispersion: out = in*exp(-a'L/2)*exp(j*gamma*|in|^2*L_eff)   (exact for alpha = 0, O(phi_max) otherwise)
  K4  convergence to the scalar NLSE, error <= C*phi_max
        K4a  against a fine-step reference that uses the operator signs of the library
        K4b  against the textbook NLSE  A_z = -a/2 A - j b2/2 A_tt + b3/6 A_ttt + j g |A|^2 A
             (the sign of the Kerr term is fixed by K3: exp(+j*gamma*|in|^2*L_eff))
  K5  one polarisation == x of (x, 0); y stays 0
  K6  leading zeros / all-zero input / weak input
  K7  side conditions: show_progress, int arguments, repeated calls
"""
import sys
del sys.path[0]
import signal as _sig
import warnings
import itertools
import numpy as np

from opticomlib import gv, optical_signal
from opticomlib.devices import FIBER

warnings.simplefilter("ignore")
FAILS = []
LN10_10 = np.log(10) / 10


def fail(clause, what):
    line = f"VIOLATION {clause}: {what}"
    if len([f for f in FAILS if f.startswith(f"VIOLATION {clause}:")]) < 12:
        print(line, flush=True)
    FAILS.append(line)


class _TO(Exception):
    pass


def _alarm(*a):
    raise _TO()


_sig.signal(_sig.SIGALRM, _alarm)


def fiber(inp, L, seconds=30, **kw):
    """FIBER under a timeout. Returns the output or an exception instance."""
    _sig.setitimer(_sig.ITIMER_REAL, seconds)
    try:
        return FIBER(inp, L, **kw)
    except _TO:
        return TimeoutError(f"no return within {seconds}s")
    except Exception as e:  # noqa
        return e
    finally:
        _sig.setitimer(_sig.ITIMER_REAL, 0)


def energy(a):
    return np.sum(np.abs(np.atleast_2d(a)) ** 2, axis=-1)


# ---------------------------------------------------------------- inputs
FS = 160e9
gv(sps=16, R=10e9)
assert gv.fs == FS


def pulse_train(N, peak, rng, kind):
    n = np.arange(N)
    if kind == "gauss":
        a = np.exp(-0.5 * ((n - N / 2) / max(N / 16, 0.7)) ** 2)
    elif kind == "sech":
        a = 1 / np.cosh((n - N / 2) / max(N / 20, 0.7))
    elif kind == "nrz":
        bits = rng.integers(0, 2, max(N // 16, 1))
        bits[rng.integers(0, bits.size)] = 1
        a = np.repeat(bits, 16)[:N].astype(float)
        a = np.pad(a, (0, N - a.size))
        k = np.exp(-0.5 * (np.arange(-8, 9) / 2.5) ** 2)
        a = np.convolve(a, k / k.sum(), "same") if N > 17 else a
    elif kind == "rand":
        a = rng.normal(size=N) + 1j * rng.normal(size=N)
    elif kind == "cw":
        a = np.ones(N)
    else:
        raise ValueError(kind)
    m = np.abs(a).max()
    if m == 0:
        a = np.ones(N)
        m = 1
    return a / m * np.sqrt(peak)


def ref_nlse(A, L, a_np, b2, b3, g, w, steps, sign_b2=-1.0):
    """Fixed-step Strang splitting (half linear, full nonlinear, half linear): 2nd order.
    sign_b2 = -1 : linear operator of the library exp(-j/2 b2 w^2 h)
    sign_b2 = +1 : textbook NLSE with numpy's FFT (A_tt <-> -w^2 A)."""
    h = L / steps
    D = -a_np / 2 + sign_b2 * 0.5j * b2 * w ** 2 - 1j / 6 * b3 * w ** 3
    eh = np.exp(D * h / 2)
    A = np.array(A, complex)
    fft, ifft = np.fft.fft, np.fft.ifft
    for _ in range(steps):
        A = ifft(eh * fft(A))
        A = A * np.exp(1j * g * h * np.abs(A) ** 2)
        A = ifft(eh * fft(A))
    return A


def rel(a, b):
    return np.linalg.norm(a - b) / max(np.linalg.norm(b), 1e-300)


# ---------------------------------------------------------------- K1/K2/K5/K6: wide sweep
def sweep():
    rng = np.random.default_rng(801)
    sizes = [1, 2, 3, 5, 16, 17, 64, 127]
    kinds = ["gauss", "sech", "nrz", "rand", "cw"]
    corners_alpha = [0, 0.0, 0.2, 0.5]
    corners_L = [1e-3, 1, 50, 100, 100.0]
    corners_b2 = [-25, 0, 25, -25.0]
    corners_b3 = [-0.2, 0, 0.2]
    corners_phi = [5e-4, 0.01, 0.05, 0.1]
    cases = []
    # systematic corners (limited product) ...
    for N, kind in itertools.product(sizes, kinds):
        for alpha, L, b2, b3 in [(0, 100, 25, 0.2), (0.5, 100, -25, -0.2), (0.5, 100, 0, 0), (0, 1, 0, 0.2),
                                 (0.2, 50, -25.0, 0), (0.5, 1e-3, 25, 0.2), (0, 100, 0, 0)]:
            for peak in (0.5, 1e-3):
                gmax = min(5.0, 10.0 / (peak * L))
                for g in (0, gmax, gmax / 7):
                    phi = 0.1 if g * peak * L > 2 else corners_phi[(N + len(cases)) % 4]
                    cases.append((N, kind, alpha, L, b2, b3, g, peak, phi))
    # ... and random ones
    for _ in range(300):
        N = int(rng.choice(sizes + [32, 33, 100]))
        L = float(rng.choice([rng.uniform(0.01, 100), 100.0]))
        peak = float(rng.choice([0.5, rng.uniform(1e-4, 0.5)]))
        g = float(rng.choice([0.0, 5.0, rng.uniform(0, 5)]))
        g = min(g, 10.0 / (peak * L))
        phi = float(rng.choice(corners_phi + [rng.uniform(5e-4, 0.1)]))
        if g * peak * L / phi > 4000:
            phi = max(phi, g * peak * L / 4000)
        cases.append((N, str(rng.choice(kinds)), float(rng.choice([0, 0.5, rng.uniform(0, 0.5)])), L,
                      float(rng.choice([0, -25, 25, rng.uniform(-25, 25)])),
                      float(rng.choice([0, -0.2, 0.2, rng.uniform(-0.2, 0.2)])), g, peak, phi))
    for i, (N, kind, alpha, L, b2, b3, g, peak, phi) in enumerate(cases):
        r = np.random.default_rng(i)
        x = pulse_train(N, peak, r, kind)
        y = pulse_train(N, peak * r.uniform(0, 1), r, "rand" if N < 16 else "gauss") * np.exp(1j * r.uniform(0, 6, N))
        nz = int(r.integers(0, N))  # leading zeros
        xz = x.copy()
        xz[:nz] = 0
        variants = {
            "1pol": x, "1pol_zeros%d" % nz: xz,
            "2pol": np.array([x, y]), "2pol_yempty": np.array([xz, np.zeros(N)]),
            "2pol_xempty": np.array([np.zeros(N), x]), "2pol_zeros": np.array([xz, np.where(np.arange(N) < nz, 0, y)]),
        }
        if kind == "nrz":
            variants["1pol_real_dtype"] = np.abs(x)
        outs = {}
        for name, sig in variants.items():
            tag = f"{name} N={N} {kind} alpha={alpha!r} L={L!r} b2={b2!r} b3={b3!r} g={g:.4g} peak={peak:.3g} phi={phi:.3g}"
            inp = optical_signal(sig)
            before = inp.signal.copy()
            out = fiber(inp, L, alpha=alpha, beta_2=b2, beta_3=b3, gamma=g, phi_max=phi)
            if isinstance(out, Exception):
                fail("K1", f"{tag}: {type(out).__name__}: {out}")
                continue
            outs[name] = out.signal
            if not np.array_equal(inp.signal, before):
                fail("K1", f"{tag}: input modified")
            if out.signal.shape != np.shape(sig) or out.n_pol != inp.n_pol:
                fail("K1", f"{tag}: shape {np.shape(sig)} -> {out.signal.shape}, n_pol {inp.n_pol} -> {out.n_pol}")
                continue
            if not np.all(np.isfinite(out.signal)):
                fail("K1", f"{tag}: non finite output")
                continue
            e0, e1 = energy(sig), energy(out.signal)
            want = e0 * 10 ** (-alpha * L / 10)
            err = np.max(np.abs(e1 - want) / np.where(want > 0, want, 1))
            if np.any((e0 == 0) & (e1 != 0)):
                fail("K2", f"{tag}: empty polarisation came out with energy {e1}")
            if err > 1e-9:
                # the library converts dB/km with the rounded constant 4.343; report that once, separately
                want2 = e0 * np.exp(-alpha / 4.343 * L)
                err2 = np.max(np.abs(e1 - want2) / np.where(want2 > 0, want2, 1))
                if err2 > 1e-9:
                    fail("K2", f"{tag}: energy ratio off by {err:.3g}")
                else:
                    fail("K2-const", f"{tag}: energy/(E_in*10^(-alpha L/10)) - 1 = {err:.3g} (exact for exp(-alpha L/4.343))")
        # K5
        if "1pol_zeros%d" % nz in outs and "2pol_yempty" in outs:
            a, b = outs["1pol_zeros%d" % nz], outs["2pol_yempty"]
            if not np.array_equal(a, b[0]) and rel(b[0], a) > 1e-13:
                fail("K5", f"N={N} {kind} alpha={alpha} L={L} b2={b2} b3={b3} g={g:.4g} phi={phi:.3g}: 1-pol vs x of (x,0) rel diff {rel(b[0], a):.3g}")
            if np.any(b[1] != 0):
                fail("K5", f"N={N} {kind}: empty y polarisation came out non-zero")
        if "1pol" in outs and "2pol_xempty" in outs:
            a, b = outs["1pol"], outs["2pol_xempty"]
            if rel(b[1], a) > 1e-13 or np.any(b[0] != 0):
                fail("K5", f"N={N} {kind} alpha={alpha} L={L} g={g:.4g}: (0,x) y-row differs from 1-pol x by {rel(b[1], a):.3g}")
    return len(cases)


# ---------------------------------------------------------------- K3: SPM closed form
def spm():
    rng = np.random.default_rng(803)
    n = 0
    for N, kind, alpha, L, gP, phi in itertools.product(
            [1, 2, 7, 64], ["gauss", "rand", "nrz", "cw"], [0, 0.05, 0.2, 0.5], [0.5, 100], [0.0, 1.0, 10.0], [5e-4, 0.02, 0.1]):
        peak = 0.5
        g = gP / (peak * L)
        if g > 5:
            continue
        if gP / phi > 5000 and alpha > 0:
            continue
        x = pulse_train(N, peak, rng, kind)
        x[: N // 3] = 0 if kind == "nrz" else x[: N // 3]
        for pol in (1, 2):
            sig = x if pol == 1 else np.array([x, 0.6 * x[::-1] * 1j])
            out = fiber(optical_signal(sig), L, alpha=alpha, gamma=g, phi_max=phi)
            n += 1
            tag = f"N={N} {kind} pol={pol} alpha={alpha} L={L} g={g:.4g} phi={phi}"
            if isinstance(out, Exception):
                fail("K3", f"{tag}: {type(out).__name__}: {out}")
                continue
            for name, ap in (("10/ln10", alpha * LN10_10), ("4.343", alpha / 4.343)):
                Leff = L if ap == 0 else (1 - np.exp(-ap * L)) / ap
                want = sig * np.exp(-ap * L / 2) * np.exp(1j * g * np.abs(sig) ** 2 * Leff)
                e = rel(out.signal, want)
                if name == "4.343":
                    break
            # e is the error with the library's own alpha'; tolerance: exact if alpha == 0, else (1 + a'L) * phi
            tol = 1e-11 if alpha == 0 else (1 + alpha * LN10_10 * L) * phi
            if gP == 0:
                tol = 1e-11
            if e > tol:
                fail("K3", f"{tag}: rel error {e:.3g} > {tol:.3g}")
    # convergence rate of the lossy SPM: error/phi bounded, decreasing
    x = pulse_train(64, 0.5, rng, "gauss")
    for alpha in (0.2, 0.5):
        L, g = 100, 0.2
        ap = alpha / 4.343
        Leff = (1 - np.exp(-ap * L)) / ap
        want = x * np.exp(-ap * L / 2) * np.exp(1j * g * np.abs(x) ** 2 * Leff)
        errs = []
        for phi in (0.1, 0.02, 0.004, 5e-4):
            out = fiber(optical_signal(x), L, alpha=alpha, gamma=g, phi_max=phi)
            errs.append(rel(out.signal, want) / phi)
        if max(errs) > 1 + ap * L or not all(np.isfinite(errs)):
            fail("K3", f"lossy SPM alpha={alpha}: error/phi_max = {errs}")
    return n


# ---------------------------------------------------------------- K4: NLSE convergence
def nlse():
    rng = np.random.default_rng(804)
    n = 0
    cfgs = [
        # N, kind, alpha, L, b2, b3, gamma, peak
        (128, "gauss", 0.2, 20, -25, 0.2, 2.0, 0.1),
        (128, "gauss", 0.0, 20, 25, -0.2, 2.0, 0.1),
        (128, "sech", 0.5, 100, -20, 0.0, 1.0, 0.1),
        (128, "sech", 0.0, 50, 20, 0.0, 1.0, 0.05),
        (96, "nrz", 0.2, 40, -20, 0.1, 1.3, 0.1),
        (96, "nrz", 0.1, 40, 20, 0.1, 1.3, 0.1),
        (63, "rand", 0.3, 2, 10, 0.2, 5.0, 0.5),
        (63, "rand", 0.3, 2, -10, 0.2, 5.0, 0.5),
        (128, "gauss", 0.2, 30, 0, 0.2, 2.0, 0.1),   # beta3 only
        (128, "gauss", 0.2, 30, -25, 0.0, 0.0, 0.1),  # linear
    ]
    for N, kind, alpha, L, b2, b3, g, peak in cfgs:
        x = pulse_train(N, peak, rng, kind)
        if kind == "rand":  # band-limit the random field so that both references are well resolved
            X = np.fft.fft(x)
            X[np.abs(np.fft.fftfreq(N)) > 0.12] = 0
            x = np.fft.ifft(X)
            x = x / np.abs(x).max() * np.sqrt(peak)
        x[:5] = 0
        inp1 = optical_signal(x)
        w = inp1.w() * 1e-12
        ap = alpha / 4.343
        refs = {}
        for nm, s in (("K4a(library signs)", -1.0), ("K4b(textbook NLSE)", +1.0)):
            r1 = ref_nlse(x, L, ap, b2, b3, g, w, 4000, s)
            r2 = ref_nlse(x, L, ap, b2, b3, g, w, 8000, s)
            assert rel(r1, r2) < 1e-5, (nm, rel(r1, r2))
            refs[nm] = r2
        for pol in (1, 2):
            sig = x if pol == 1 else np.array([x, np.zeros(N)])
            errs = {k: [] for k in refs}
            phis = (0.1, 0.03, 0.01, 0.003)
            for phi in phis:
                out = fiber(optical_signal(sig), L, alpha=alpha, beta_2=b2, beta_3=b3, gamma=g, phi_max=phi)
                n += 1
                if isinstance(out, Exception):
                    fail("K4", f"{kind} N={N} pol={pol} phi={phi}: {type(out).__name__}: {out}")
                    break
                o = out.signal if pol == 1 else out.signal[0]
                for k in refs:
                    errs[k].append(rel(o, refs[k]))
            else:
                for k, e in errs.items():
                    ratio = [ei / p for ei, p in zip(e, phis)]
                    # bounded by a constant times phi_max: the constant observed for the correct operator is < 3
                    if max(ratio) > 10 and e[-1] > 1e-6:
                        fail(k.split("(")[0], f"{k}: {kind} N={N} pol={pol} alpha={alpha} L={L} b2={b2} b3={b3} g={g} peak={peak}: "
                                              f"error for phi_max={phis} is {['%.3g' % v for v in e]} (does not go to 0 like phi_max)")
    # the physical landmark of the NLSE: a fundamental soliton sqrt(P0) sech(t/T0), P0 = |b2|/(gamma T0^2), needs b2 < 0
    N = 256
    t = (np.arange(N) - N / 2) * gv.dt * 1e12
    T0, g = 20.0, 2.0
    for b2 in (-20.0, 20.0):
        P0 = abs(b2) / (g * T0 ** 2)
        A = np.sqrt(P0) / np.cosh(t / T0)
        LD = T0 ** 2 / abs(b2)
        out = fiber(optical_signal(A), 5 * LD, beta_2=b2, gamma=g, phi_max=0.005)
        n += 1
        shape_err = np.abs(np.abs(out.signal) - np.abs(A)).max() / np.sqrt(P0)
        if b2 < 0 and shape_err > 0.01:
            fail("K4b", f"soliton: beta_2={b2} gamma={g} P0={P0} T0={T0}ps L=5 L_D: |out| should equal |in|, max deviation {shape_err:.3g} of the peak")
        if b2 > 0 and shape_err < 0.01:
            fail("K4b", f"soliton: beta_2={b2} (normal dispersion) keeps the sech pulse unchanged over 5 L_D (deviation {shape_err:.3g}): dispersion/Kerr relative sign inverted")
    return n


# ---------------------------------------------------------------- K6/K7
def sides():
    rng = np.random.default_rng(807)
    n = 0
    # all-zero and very weak fields, every parameter corner, must return (and fast)
    for N, pol, alpha, b2, g, phi in itertools.product([1, 2, 8], [1, 2], [0, 0.5], [0, -25], [0, 5, 1e-12], [5e-4, 0.1]):
        for amp in (0.0, 1e-9, 1e-160):
            sig = np.full(N, amp) if pol == 1 else np.full((2, N), amp)
            out = fiber(optical_signal(sig), 100, seconds=5, alpha=alpha, beta_2=b2, gamma=g, phi_max=phi)
            n += 1
            tag = f"amp={amp} N={N} pol={pol} alpha={alpha} b2={b2} g={g} phi={phi}"
            if isinstance(out, Exception):
                fail("K6", f"{tag}: {type(out).__name__}: {out}")
            elif out.signal.shape != sig.shape or not np.all(np.isfinite(out.signal)):
                fail("K6", f"{tag}: shape/finite")
            elif amp == 0 and np.any(out.signal != 0):
                fail("K6", f"{tag}: zero in, non-zero out")
            elif amp == 1e-9 and abs(energy(out.signal).sum() / (energy(sig).sum() * np.exp(-alpha / 4.343 * 100)) - 1) > 1e-9:
                fail("K6", f"{tag}: energy")
    # only the last sample non-zero / only the first / first samples zero, two pols with disjoint supports
    N = 32
    for where in (0, N - 1, N // 2):
        x = np.zeros(N, complex)
        x[where] = np.sqrt(0.5)
        y = np.zeros(N, complex)
        y[(where + 7) % N] = np.sqrt(0.3)
        for sig in (x, np.array([x, y]), np.array([y * 0, x])):
            out = fiber(optical_signal(sig), 10, alpha=0.2, beta_2=-20, beta_3=0.1, gamma=2, phi_max=0.01)
            n += 1
            if isinstance(out, Exception):
                fail("K6", f"delta at {where}: {out!r}")
                continue
            e = energy(out.signal) / np.where(energy(sig) > 0, energy(sig), 1)
            if np.max(np.abs(e[energy(sig) > 0] - np.exp(-0.2 / 4.343 * 10))) > 1e-9 or np.any(e[energy(sig) == 0] != 0):
                fail("K6", f"delta at {where}, shape {sig.shape}: energy ratio {e}")
    # K7 show_progress / int arguments / numpy 0-d / call order
    x = pulse_train(64, 0.5, rng, "gauss")
    base = fiber(optical_signal(x), 10.0, alpha=0.2, beta_2=-20.0, beta_3=0.0, gamma=2.0, phi_max=0.05).signal
    alt = {
        "show_progress": fiber(optical_signal(x), 10.0, alpha=0.2, beta_2=-20.0, beta_3=0.0, gamma=2.0, phi_max=0.05, show_progress=True),
        "int args": fiber(optical_signal(x), 10, alpha=0.2, beta_2=-20, beta_3=0, gamma=2, phi_max=0.05),
        "np.float64 args": fiber(optical_signal(x), np.float64(10), alpha=np.float64(0.2), beta_2=np.float64(-20), beta_3=np.float64(0),
                                  gamma=np.float64(2), phi_max=np.float64(0.05)),
        "second call": fiber(optical_signal(x), 10.0, alpha=0.2, beta_2=-20.0, beta_3=0.0, gamma=2.0, phi_max=0.05),
        "list input": fiber(optical_signal(list(x)), 10.0, alpha=0.2, beta_2=-20.0, beta_3=0.0, gamma=2.0, phi_max=0.05),
        "positional": fiber(optical_signal(x), 10.0, 20, alpha=0.2, beta_2=-20.0, beta_3=0.0, gamma=2.0, phi_max=0.05) if False else None,
    }
    pos = None
    _sig.setitimer(_sig.ITIMER_REAL, 20)
    try:
        pos = FIBER(optical_signal(x), 10.0, 0.2, -20.0, 0.0, 2.0, 0.05)
    except Exception as e:  # noqa
        pos = e
    _sig.setitimer(_sig.ITIMER_REAL, 0)
    alt["positional"] = pos
    for k, v in alt.items():
        n += 1
        if isinstance(v, Exception):
            fail("K7", f"{k}: {v!r}")
        elif not np.array_equal(v.signal, base):
            fail("K7", f"{k}: differs from the plain call by {rel(v.signal, base):.3g}")
    # gamma = 0 and linear-only agree with the analytic transfer function, for every phi_max
    inp = optical_signal(np.array([x, x[::-1] * 0.3j]))
    w = inp.w() * 1e-12
    for alpha, b2, b3, L in [(0.5, 25, 0.2, 100), (0, -25, -0.2, 100), (0.2, 0, 0.2, 1)]:
        H = np.exp((-alpha / 4.343 / 2 - 0.5j * b2 * w ** 2 - 1j / 6 * b3 * w ** 3) * L)
        want = np.fft.ifft(np.fft.fft(inp.signal) * H)
        for phi in (5e-4, 0.1):
            out = fiber(inp, L, alpha=alpha, beta_2=b2, beta_3=b3, gamma=0, phi_max=phi)
            n += 1
            if rel(out.signal, want) > 1e-12:
                fail("K7", f"linear fibre alpha={alpha} b2={b2} b3={b3}: differs from exp(D L) by {rel(out.signal, want):.3g}")
    # an input carrying a noise component (outside the quantifier; reported as NOTE only)
    xn = optical_signal(x, noise=0.01 * (rng.normal(size=64) + 1j * rng.normal(size=64)))
    out = fiber(xn, 100, alpha=0.5)
    if not isinstance(out, Exception) and out.noise is not None:
        r = energy(out.noise)[0] / energy(xn.noise)[0]
        if abs(r - 1e-5) > 1e-6:
            print(f"NOTE (not counted, noise is outside the quantifier): noise component of the input leaves a 50 dB lossy fibre with energy ratio {r:.3g} (signal: {energy(out.signal)[0] / energy(x)[0]:.3g})")
    return n


if __name__ == "__main__":
    n1 = sweep()
    print(f"sweep: {n1} parameter sets x 6-7 signal layouts", flush=True)
    n2 = spm()
    print(f"spm: {n2} calls", flush=True)
    n3 = nlse()
    print(f"nlse: {n3} calls", flush=True)
    n4 = sides()
    print(f"sides: {n4} calls", flush=True)
    if FAILS:
        from collections import Counter
        print("violations per clause:", dict(Counter(f.split(":")[0].replace("VIOLATION ", "") for f in FAILS)))
        sys.exit(1)
    print("PASS")
    sys.exit(0)
