# FIBER: relative sign of dispersion and Kerr term is inverted -> FIBER(beta_2=b) is the NLSE solution for beta_2=-b
import sys; del sys.path[0]
import signal, numpy as np
from opticomlib import gv, optical_signal
from opticomlib.devices import FIBER
signal.alarm(120)
gv(sps=16, R=10e9)                                  # fs = 160 GHz
N, T0, g = 256, 20.0, 2.0                           # T0 [ps], gamma [1/W/km]
t = (np.arange(N) - N/2) * gv.dt * 1e12
P0 = 20.0 / (g * T0**2)                             # fundamental soliton power for |beta_2| = 20 ps^2/km: 25 mW
A = np.sqrt(P0) / np.cosh(t / T0)
dev = {}
for b2 in (-20.0, +20.0):                           # 5 dispersion lengths = 100 km, gamma*P0*L = 5 rad
    out = FIBER(optical_signal(A), 100.0, beta_2=b2, gamma=g, phi_max=0.005).signal
    dev[b2] = np.abs(np.abs(out) - np.abs(A)).max() / np.sqrt(P0)
print("expected: beta_2=-20 (anomalous) keeps |sech| (deviation ~0), beta_2=+20 (normal) broadens it")
print("got     : deviation of |out| from |in| relative to the peak: beta_2=-20 -> %.3g, beta_2=+20 -> %.3g" % (dev[-20.0], dev[20.0]))
sys.exit(1 if dev[-20.0] > 0.01 or dev[20.0] < 0.01 else 0)
