# FIBER converts dB/km to 1/km with the rounded constant 4.343 instead of 10/ln(10) = 4.342944819...
import sys; del sys.path[0]
import signal, numpy as np
from opticomlib import optical_signal
from opticomlib.devices import FIBER
signal.alarm(60)
x = np.array([0.5, 0.25j, 0.0, -0.5])
out = FIBER(optical_signal(x), 100, alpha=0.5).signal           # 50 dB of loss, linear fibre
ratio = np.sum(np.abs(out)**2) / np.sum(np.abs(x)**2)
want = 10 ** (-0.5 * 100 / 10)
print("expected energy ratio 10^(-alpha*L/10) =", want)
print("got                                    =", ratio, " relative error %.3g (floating point would give ~1e-16)" % (ratio / want - 1))
sys.exit(1 if abs(ratio / want - 1) > 1e-9 else 0)
