# NOTE (outside the quantifier of C08, which has no noise component): FIBER copies input.noise to the output untouched
import sys; del sys.path[0]
import signal, numpy as np
from opticomlib import optical_signal
from opticomlib.devices import FIBER
signal.alarm(60)
x = optical_signal(np.ones(8), noise=0.1 * np.ones(8))
out = FIBER(x, 100, alpha=0.5)                                   # 50 dB of loss
rs = np.sum(np.abs(out.signal)**2) / 8
rn = np.sum(np.abs(out.noise)**2) / 0.08
print("expected: signal and noise both attenuated by 1e-5;  got: signal %.3g, noise %.3g" % (rs, rn))
sys.exit(1 if abs(rn / 1e-5 - 1) > 1e-3 else 0)
