import sys
del sys.path[0]
import itertools
import warnings
import numpy as np
import scipy.signal as sg
from scipy.constants import k as kB, e as qe

warnings.simplefilter("ignore")
from opticomlib import gv, optical_signal, electrical_signal
from opticomlib.devices import PD

FAIL = []


def bad(clause, inp, msg):
    line = f"VIOLATION [{clause}] input=({inp}): {msg}"
    print(line, flush=True)
    FAIL.append(line)


def setfs(fs):
    gv(fs=fs, R=fs / 16)
    assert gv.fs == fs


def ref_lpf(x, BW, fs):
    sos = sg.bessel(4, BW, btype="low", fs=fs, output="sos", norm="mag")
    return sg.sosfiltfilt(sos, np.asarray(x, dtype=float), padlen=min(15, len(x) - 1))


def neb(BW, fs, n=1 << 18):
    """mean of |H|^4 and of |H|^8 over the whole circle (filtfilt = |H|^2 amplitude)."""
    sos = sg.bessel(4, BW, btype="low", fs=fs, output="sos", norm="mag")
    _, H = sg.sosfreqz(sos, worN=n, whole=True)
    G = np.abs(H) ** 4
    return G.mean(), (G ** 2).mean()


def field(rng, N, npol, scale=1e-2):
    shape = (N,) if npol == 1 else (2, N)
    return scale * (rng.standard_normal(shape) + 1j * rng.standard_normal(shape))


def total_power(a):
    p = np.abs(a) ** 2
    return p if p.ndim == 1 else p.sum(axis=0)


def close(a, b, rtol=1e-10, atol=0.0):
    a = np.asarray(a, dtype=float); b = np.asarray(b, dtype=float)
    if a.shape != b.shape:
        return False
    sc = max(np.max(np.abs(b)), atol, 1e-300)
    return bool(np.max(np.abs(a - b)) <= rtol * sc + atol)


OPTS = ["ase-only", "thermal-only", "shot-only", "ase-thermal", "ase-shot", "thermal-shot", "all"]

# ---------------------------------------------------------------------------
# 1. deterministic signal part = LPF(R*r*(|Ex|^2+|Ey|^2)); length; CW
# ---------------------------------------------------------------------------
rng = np.random.default_rng(1)
for fs in [1.0, 3e3, 16e9, 80e9, 2.5e12]:
    setfs(fs)
    for N in list(range(17, 40)) + [63, 64, 65, 100, 127, 1000, 1025, 4096]:
        for npol in (1, 2):
            for with_noise in (False, True):
                frac = rng.choice([1e-3, 0.01, 0.1, 0.3, 0.5, 0.9, 0.99])
                BW = frac * fs / 2
                r = float(rng.choice([1.0, 0.5, 1e-3, rng.uniform(0.01, 1)]))
                R = float(rng.choice([50.0, 1.0, 1e-3, 1e6, rng.uniform(1, 1e3)]))
                T = float(rng.choice([0.0, 300.0, 1e4]))
                sig = field(rng, N, npol)
                noi = field(rng, N, npol, 1e-3) if with_noise else None
                opt = OPTS[rng.integers(7)]
                tag = f"fs={fs:g},N={N},npol={npol},noise={with_noise},BW={BW:g},r={r:g},R={R:g},T={T:g},opt={opt}"
                x = optical_signal(sig.copy(), None if noi is None else noi.copy())
                np.random.seed(int(rng.integers(1 << 30)))
                y1 = PD(x, BW, r=r, T=T, R_load=R, include_noise=opt)
                np.random.seed(int(rng.integers(1 << 30)))
                y2 = PD(x, BW, r=r, T=T, R_load=R, include_noise=opt)
                if not isinstance(y1, electrical_signal) or isinstance(y1, optical_signal):
                    bad("type", tag, f"returned {type(y1)}")
                if y1.signal.shape != (N,) or y1.noise is None or y1.noise.shape != (N,) or y1.len() != N:
                    bad("length", tag, f"signal shape {y1.signal.shape} noise shape {None if y1.noise is None else y1.noise.shape}")
                    continue
                if not np.array_equal(y1.signal, y2.signal):
                    bad("deterministic", tag, "signal part differs between two calls")
                exp = ref_lpf(R * r * total_power(sig), BW, fs)
                if not close(y1.signal, exp, 1e-11):
                    bad("signal=LPF(R r P)", tag, f"max dev {np.max(np.abs(y1.signal-exp)):.3e} of {np.max(np.abs(exp)):.3e}")
                if np.iscomplexobj(y1.signal) or np.iscomplexobj(y1.noise):
                    bad("real output", tag, "complex output")
                # the input is not modified
                if not np.array_equal(x.signal, sig) or (noi is not None and not np.array_equal(x.noise, noi)) or (noi is None and x.noise is not None):
                    bad("input untouched", tag, "PD modified its input")

# CW: constant r*P*R
rng = np.random.default_rng(2)
for fs in [1.0, 16e9, 1e13]:
    setfs(fs)
    for N in [17, 18, 33, 256, 5000, 1 << 18]:
        for npol in (1, 2):
            for frac in [1e-4, 1e-3, 1e-2, 0.25, 0.5, 0.75, 0.99, 0.9999]:
                P = float(10 ** rng.uniform(-9, 1))
                r = float(rng.uniform(1e-3, 1)); R = float(10 ** rng.uniform(-2, 5))
                ph = rng.uniform(0, 2 * np.pi)
                if npol == 1:
                    a = np.full(N, np.sqrt(P) * np.exp(1j * ph))
                else:
                    th = rng.uniform(0, np.pi)
                    a = np.array([np.full(N, np.sqrt(P) * np.cos(th) * np.exp(1j * ph)), np.full(N, np.sqrt(P) * np.sin(th) * np.exp(-2j * ph))])
                for opt in ("ase-only", "thermal-shot"):
                    y = PD(optical_signal(a), frac * fs / 2, r=r, R_load=R, include_noise=opt)
                    if not close(y.signal, np.full(N, r * P * R), 1e-7):
                        bad("CW", f"fs={fs:g},N={N},npol={npol},BW/Nyq={frac},P={P:g},r={r:g},R={R:g},opt={opt}",
                            f"expected constant {r*P*R:.9e}, got min {y.signal.min():.9e} max {y.signal.max():.9e}")

# ---------------------------------------------------------------------------
# 2. invariances and scalings (signal part and the deterministic ase part)
# ---------------------------------------------------------------------------
rng = np.random.default_rng(3)
setfs(40e9)
for N in [17, 50, 333, 2048]:
    for npol in (1, 2):
        for with_noise in (False, True):
            sig = field(rng, N, npol); noi = field(rng, N, npol, 2e-3) if with_noise else None
            BW = float(rng.uniform(0.05, 0.95)) * 20e9
            kw = dict(r=0.8, T=0.0, R_load=75.0, include_noise="ase-thermal", i_dark=3e-9)
            y0 = PD(optical_signal(sig, noi), BW, **kw)
            tag = f"N={N},npol={npol},noise={with_noise},BW={BW:g}"
            for ph in [np.pi, np.pi / 2, 1.234, -7.0, 2 * np.pi, 1e-9]:
                c = np.exp(1j * ph)
                y = PD(optical_signal(sig * c, None if noi is None else noi * c), BW, **kw)
                if not close(y.signal, y0.signal, 1e-11) or not close(y.noise, y0.noise, 1e-9, 1e-18):
                    bad("phase rotation", tag + f",phi={ph}", "output changed")
            if npol == 2:
                for _ in range(4):
                    M = rng.standard_normal((2, 2)) + 1j * rng.standard_normal((2, 2))
                    U, _r = np.linalg.qr(M)
                    y = PD(optical_signal(U @ sig, None if noi is None else U @ noi), BW, **kw)
                    if not close(y.signal, y0.signal, 1e-11) or not close(y.noise, y0.noise, 1e-9, 1e-18):
                        bad("unitary rotation", tag, f"output changed by {np.max(np.abs(y.signal-y0.signal)):.3e}")
                # swap of the polarisations and x->y transfer
                y = PD(optical_signal(sig[::-1], None if noi is None else noi[::-1]), BW, **kw)
                if not close(y.signal, y0.signal, 1e-11):
                    bad("unitary rotation", tag + ",swap", "output changed")
            # scalings (i_dark=0 so that the noise part scales too)
            kw0 = dict(T=0.0, include_noise="ase-thermal", i_dark=0.0)
            b = PD(optical_signal(sig, noi), BW, r=0.5, R_load=10.0, **kw0)
            for r2 in [1.0, 0.25, 1e-3, 1]:
                y = PD(optical_signal(sig, noi), BW, r=r2, R_load=10.0, **kw0)
                if not close(y.signal, b.signal * (r2 / 0.5), 1e-11) or not close(y.noise, b.noise * (r2 / 0.5), 1e-9, 1e-20):
                    bad("linear in r", tag + f",r={r2!r}", "not proportional")
            for R2 in [1, 1e-6, 50, 50.0, 1e9]:
                y = PD(optical_signal(sig, noi), BW, r=0.5, R_load=R2, **kw0)
                if not close(y.signal, b.signal * (R2 / 10.0), 1e-11) or not close(y.noise, b.noise * (R2 / 10.0), 1e-9, 1e-30):
                    bad("linear in R_load", tag + f",R={R2!r}", "not proportional")
            for amp in [2.0, 0.1, 1e3, 1e-6, -1.0]:
                y = PD(optical_signal(sig * amp, None if noi is None else noi * amp), BW, r=0.5, R_load=10.0, **kw0)
                if not close(y.signal, b.signal * amp ** 2, 1e-11) or not close(y.noise, b.noise * amp ** 2, 1e-9, 1e-40):
                    bad("quadratic in amplitude", tag + f",a={amp}", "not proportional to a^2")

# ---------------------------------------------------------------------------
# 3. noise part: exact composition where it is deterministic
# ---------------------------------------------------------------------------
rng = np.random.default_rng(4)
for fs in [10e9, 64e9]:
    setfs(fs)
    for N in [17, 40, 1001]:
        for npol in (1, 2):
            sig = field(rng, N, npol); noi = field(rng, N, npol, 3e-3)
            BW = 0.3 * fs / 2; r = 0.6; R = 50.0; idk = 1e-6
            if npol == 1:
                beat = 2 * (sig * noi.conj()).real + np.abs(noi) ** 2
            else:
                beat = (2 * (sig * noi.conj()).real + np.abs(noi) ** 2).sum(axis=0)
            tag = f"fs={fs:g},N={N},npol={npol}"
            for case in ["ase-only", "ASE-ONLY", "Ase-Only", "aSE-oNLY"]:
                y = PD(optical_signal(sig, noi), BW, r=r, R_load=R, include_noise=case, i_dark=idk)
                exp = ref_lpf(R * (r * beat + idk), BW, fs)
                if not close(y.noise, exp, 1e-10):
                    bad("ase terms + dark", tag + f",opt={case}", f"max dev {np.max(np.abs(y.noise-exp)):.3e}")
                y = PD(optical_signal(sig), BW, r=r, R_load=R, include_noise=case, i_dark=idk)
                if not close(y.noise, np.full(N, R * idk), 1e-9):
                    bad("dark offset only (no optical noise)", tag + f",opt={case}", f"noise not constant R*i_dark: {y.noise.min()} {y.noise.max()}")
            # thermal at T=0 vanishes: ase-thermal == ase-only, thermal-only == dark
            y = PD(optical_signal(sig, noi), BW, r=r, T=0, R_load=R, include_noise="ase-thermal", i_dark=idk)
            if not close(y.noise, ref_lpf(R * (r * beat + idk), BW, fs), 1e-10):
                bad("ase-thermal,T=0", tag, "noise != ase terms + dark")
            y = PD(optical_signal(sig, noi), BW, r=r, T=0, R_load=R, include_noise="thermal-only", i_dark=idk)
            if not close(y.noise, np.full(N, R * idk), 1e-9):
                bad("thermal-only,T=0", tag, "optical-noise beating leaked into a selection without 'ase', or thermal != 0")
            # shot with zero field, zero dark current vanishes
            z = optical_signal(np.zeros(N if npol == 1 else (2, N), dtype=complex))
            for opt in ("shot-only", "ase-shot"):
                y = PD(z, BW, r=r, R_load=R, include_noise=opt, i_dark=0.0)
                if np.any(y.noise != 0) or np.any(y.signal != 0):
                    bad("zero field, i_dark=0", tag + f",opt={opt}", "nonzero output")

# selections without 'ase' must not contain the beating terms; with it they must (residual test, big N)
# ---------------------------------------------------------------------------
# 4. statistical clauses
# ---------------------------------------------------------------------------
NS = 1 << 18


def stat_check(tag, resid, var_expected, G1, G2, N, detmax=0.0):
    """resid: noise with deterministic parts removed, in V. var_expected in V^2 before filtering."""
    v_exp = var_expected * G1
    m = resid.mean(); v = resid.var()
    sd_mean = np.sqrt(var_expected / N)  # DC gain 1
    sd_var = v_exp * np.sqrt(2.0 / N * G2 / G1 ** 2)
    if v_exp == 0:
        if np.max(np.abs(resid)) > 1e-10 * detmax:  # only rounding of the deterministic part may remain
            bad("variance", tag, f"expected identically zero noise, residual {np.max(np.abs(resid)):.3e}")
        return
    if abs(m) > 6 * sd_mean:
        bad("zero mean", tag, f"mean {m:.4e} = {m/sd_mean:.1f} sigma")
    if abs(v - v_exp) > 6 * sd_var:
        bad("variance", tag, f"measured {v:.6e} expected {v_exp:.6e} ({(v-v_exp)/sd_var:.1f} sigma, ratio {v/v_exp:.4f})")
    # gaussianity: excess kurtosis and skewness loosely (effective sample count N*G1^2/G2)
    neff = N * G1 ** 2 / G2
    zr = (resid - m) / np.sqrt(v)
    sk = np.mean(zr ** 3); ku = np.mean(zr ** 4) - 3
    if abs(sk) > 8 * np.sqrt(6 / neff) or abs(ku) > 8 * np.sqrt(24 / neff):
        bad("gaussian", tag, f"skew {sk:.3f} kurt {ku:.3f} neff {neff:.0f}")


rng = np.random.default_rng(5)
configs = []
for fs in [16e9, 1.0, 3.7e11]:
    for frac in [0.05, 0.3, 0.8]:
        configs.append((fs, frac))
seeds = [11, 22, 33]
for (fs, frac) in configs:
    setfs(fs)
    BW = frac * fs / 2
    G1, G2 = neb(BW, fs)
    for npol in (1, 2):
        for with_noise in (False, True):
            for opt in OPTS:
                if opt == "ase-only":
                    continue
                # parameters (corners included)
                r = float(rng.choice([1.0, 0.3, 1]))
                T = float(rng.choice([0.0, 77.0, 300.0, 5000.0]))
                R = float(rng.choice([50.0, 1.0, 1e4]))
                Fn = rng.choice([0, 0.0, 3.0, 10])
                Fn = int(Fn) if float(Fn).is_integer() and rng.random() < .5 else float(Fn)
                idk = float(rng.choice([0.0, 10e-9, 1e-3]))
                Psig = float(10 ** rng.uniform(-6, -1))
                # modulated field so that mean power matters
                n = np.arange(NS)
                env = np.sqrt(Psig) * (1 + 0.5 * np.cos(2 * np.pi * n / 64))
                if npol == 1:
                    sig = env * np.exp(1j * 0.1 * n)
                else:
                    sig = np.array([env * 0.6 * np.exp(1j * 0.1 * n), env * 0.8 * np.exp(-1j * 0.05 * n)])
                noi = field(rng, NS, npol, np.sqrt(Psig) * 0.05) if with_noise else None
                Pmean = total_power(sig).mean()
                Pn = 0.0 if noi is None else total_power(noi).mean()
                S_T = 4 * kB * T * 10 ** (Fn / 10) * (fs / 2) / R if "thermal" in opt or opt == "all" else 0.0
                S_N = 2 * qe * (r * (Pmean + Pn) + idk) * (fs / 2) if "shot" in opt or opt == "all" else 0.0
                if "ase" in opt or opt == "all":
                    if noi is None:
                        beat = np.zeros(NS)
                    else:
                        bb = 2 * (sig * noi.conj()).real + np.abs(noi) ** 2
                        beat = bb if npol == 1 else bb.sum(axis=0)
                else:
                    beat = np.zeros(NS)
                det = ref_lpf(R * (r * beat + idk), BW, fs)
                for sd in seeds:
                    case = opt if sd == 11 else (opt.upper() if sd == 22 else opt.title())
                    np.random.seed(sd)
                    y = PD(optical_signal(sig, noi), BW, r=r, T=T, R_load=R, include_noise=case, i_dark=idk, Fn=Fn)
                    tag = f"fs={fs:g},BW/Nyq={frac},npol={npol},optnoise={with_noise},opt={case},r={r},T={T},R={R},Fn={Fn!r},i_dark={idk},P={Psig:.3g},seed={sd}"
                    if y.noise.shape != (NS,):
                        bad("length", tag, f"{y.noise.shape}"); continue
                    resid = y.noise - det
                    stat_check(tag, resid, (S_T + S_N) * R ** 2, G1, G2, NS, np.max(np.abs(det)))

# 4b. narrow detector bandwidths (BW in (0, fs/2) has no lower limit): record-level variance, 8 seeds each;
#     a violation is reported only when at least 3 of the 8 realisations are beyond six sigma
for fs in [16e9]:
    setfs(fs)
    z = optical_signal(np.zeros(NS, dtype=complex))
    for frac in [3e-4, 1e-3, 3e-3, 1e-2]:
        BW = frac * fs / 2
        G1, G2 = neb(BW, fs, 1 << 22)
        for opt, kw, S in [("thermal-only", dict(T=300.0, R_load=50.0, i_dark=0.0), 4 * kB * 300.0 * (fs / 2) / 50.0),
                           ("shot-only", dict(R_load=50.0, i_dark=1e-6), 2 * qe * 1e-6 * (fs / 2))]:
            devs = []
            for sd in range(8):
                np.random.seed(sd)
                y = PD(z, BW, include_noise=opt, **kw)
                resid = y.noise - 50.0 * kw["i_dark"]
                v_exp = S * 50.0 ** 2 * G1
                devs.append((resid.var() - v_exp) / (v_exp * np.sqrt(2.0 / NS * G2 / G1 ** 2)))
            nbad = sum(abs(d) > 6 for d in devs)
            if nbad >= 3:
                bad("variance (narrow BW)", f"fs={fs:g},BW/Nyq={frac},opt={opt},N=2^18,seeds 0..7",
                    f"{nbad}/8 realisations beyond 6 sigma: deviations in sigma = {[round(float(d),1) for d in devs]}")

# separate thermal and shot contributions: compare 'thermal-shot' variance with the sum, both via same config
# (covered above through (S_T+S_N)).

# ---------------------------------------------------------------------------
# 5. validation
# ---------------------------------------------------------------------------
setfs(16e9)
x = optical_signal(np.ones(64, dtype=complex))


def expect(exc, clause, inp, **kw):
    try:
        PD(x, 5e9, **kw)
    except exc:
        return
    except Exception as ex:
        bad(clause, inp, f"expected {exc.__name__}, got {type(ex).__name__}: {ex}")
        return
    bad(clause, inp, f"expected {exc.__name__}, nothing raised")


for v in [0, 0.0, -0.0, -1, -1e-300, 1.0000001, 2, 1 + 1e-15, 1e9, float("inf"), -float("inf")]:
    expect(ValueError, "r range", f"r={v!r}", r=v)
expect(ValueError, "r range", "r=nan", r=float("nan"))
for v in ["1", None, [0.5], (0.5,), np.array([0.5]), 0.5j, {"r": 1}]:
    expect(TypeError, "r type", f"r={v!r}", r=v)
for v in [-1, -1e-300, -300.0, -float("inf")]:
    expect(ValueError, "T range", f"T={v!r}", T=v)
    expect(ValueError, "R_load range", f"R_load={v!r}", R_load=v)
for v in ["300", None, [300], np.array([300.0]), 300j]:
    expect(TypeError, "T type", f"T={v!r}", T=v)
    expect(TypeError, "R_load type", f"R_load={v!r}", R_load=v)
for v in [True, None, 1, 0.0, ["all"], ("all",), b"all", np.array("all")]:
    expect(TypeError, "include_noise type", f"include_noise={v!r}", include_noise=v)
for v in ["", "ase", "thermal", "shot", "none", "ase_only", "ase only", "all-only", "thermal-ase", "shot-thermal", "shot-ase", "ase-thermal-shot", " all", "all ", "ALL!", "aseonly", "only"]:
    expect(ValueError, "include_noise value", f"include_noise={v!r}", include_noise=v)
for v in [np.ones(64, dtype=complex), electrical_signal(np.ones(64)), [1, 2, 3], None, "1 1 1"]:
    try:
        PD(v, 5e9)
        bad("input type", repr(type(v)), "no TypeError")
    except TypeError:
        pass
    except Exception as ex:
        bad("input type", repr(type(v)), f"{type(ex).__name__}: {ex}")
# valid boundary values are accepted
for kw in [dict(r=1), dict(r=1.0), dict(r=True), dict(r=5e-324), dict(r=np.float64(0.5)), dict(T=0), dict(T=0.0), dict(T=np.float64(0.0)), dict(R_load=1e-300), dict(R_load=1),
           dict(R_load=np.float64(50.0)), dict(i_dark=0), dict(i_dark=0.0), dict(Fn=0), dict(Fn=0.0), dict(Fn=30), dict(Fn=np.float64(3))]:
    for opt in OPTS:
        for o in (opt, opt.upper(), opt.capitalize(), opt.swapcase(), opt.title()):
            try:
                y = PD(x, 5e9, include_noise=o, **kw)
                if y.len() != 64 or not np.all(np.isfinite(y.signal)) or not np.all(np.isfinite(y.noise)):
                    bad("valid corner", f"{kw},opt={o}", "non-finite or wrong length")
            except Exception as ex:
                bad("valid corner", f"{kw},opt={o}", f"{type(ex).__name__}: {ex}")

# ---------------------------------------------------------------------------
# 6. container / dtype / construction variants of the field, repeated calls, gv state
# ---------------------------------------------------------------------------
rng = np.random.default_rng(6)
setfs(32e9)
N = 200
s1 = field(rng, N, 1); n1 = field(rng, N, 1, 1e-3)
ref = PD(optical_signal(s1, n1), 7e9, include_noise="ase-only")
variants = {
    "list": optical_signal(list(s1), list(n1)),
    "tuple": optical_signal(tuple(s1), tuple(n1)),
    "dtype=complex": optical_signal(s1, n1, dtype=complex),
    "slice": optical_signal(np.r_[s1, s1], np.r_[n1, n1])[:N],
    "fortran/strided": optical_signal(np.r_[s1, s1][::1][:N], np.repeat(n1, 2)[::2]),
    "(2,N) n_pol=1": optical_signal(np.array([s1, 5 * s1]), np.array([n1, 7 * n1]), n_pol=1),
    "sum of signal-only and noise-only": optical_signal(s1) + optical_signal(np.zeros(N, complex), n1),
}
for k, v in variants.items():
    y = PD(v, 7e9, include_noise="ase-only")
    if not close(y.signal, ref.signal, 1e-12) or not close(y.noise, ref.noise, 1e-12):
        bad("container variants", k, "differs from plain ndarray input")
# two polarisation variants
s2 = field(rng, N, 2); n2 = field(rng, N, 2, 1e-3)
ref2 = PD(optical_signal(s2, n2), 7e9, include_noise="ase-only")
for k, v in {"n_pol=2 explicit": optical_signal(s2, n2, n_pol=2), "nested lists": optical_signal(s2.tolist(), n2.tolist()), "slice": optical_signal(np.c_[s2, s2], np.c_[n2, n2])[:N],
             "F-order": optical_signal(np.asfortranarray(s2), np.asfortranarray(n2))}.items():
    y = PD(v, 7e9, include_noise="ase-only")
    if not close(y.signal, ref2.signal, 1e-12) or not close(y.noise, ref2.noise, 1e-12):
        bad("container variants 2pol", k, "differs")
# duplicated 1-pol field in two polarisations doubles the power
y = PD(optical_signal(s1, n1, n_pol=2), 7e9, include_noise="ase-only")
if not close(y.signal, 2 * ref.signal, 1e-12) or not close(y.noise - 50 * 10e-9, 2 * (ref.noise - 50 * 10e-9), 1e-9, 1e-15):
    bad("two equal polarisations", "n_pol=2 from 1D", "not twice the one-polarisation output")
# x only in a 2-pol container equals the one-pol result
y = PD(optical_signal(np.array([s1, 0 * s1]), np.array([n1, 0 * n1])), 7e9, include_noise="ase-only")
if not close(y.signal, ref.signal, 1e-12) or not close(y.noise, ref.noise, 1e-12):
    bad("one vs two polarisations", "y = 0", "differs from one-polarisation result")
# precision variants
for dt, tol in [(np.complex64, 2e-6), (np.clongdouble, 1e-12)]:
    try:
        y = PD(optical_signal(s1.astype(dt), n1.astype(dt)), 7e9, include_noise="all")
        if not close(y.signal, ref.signal, tol) or y.len() != N:
            bad("dtype", str(dt), f"signal deviates {np.max(np.abs(y.signal-ref.signal)):.3e}")
    except Exception as ex:
        bad("dtype", str(dt), f"{type(ex).__name__}: {ex}")
# repeated calls / order / gv changes in between
a = PD(optical_signal(s1, n1), 7e9, include_noise="ase-only")
PD(optical_signal(s2, n2), 3e9, r=0.1, R_load=7, include_noise="ALL")
b = PD(optical_signal(s1, n1), 7e9, include_noise="ase-only")
if not np.array_equal(a.signal, b.signal) or not np.array_equal(a.noise, b.noise):
    bad("repeated calls", "state", "result depends on an earlier call")
# fs reached through each gv spelling, int and float
for call in [dict(fs=32e9, R=2e9), dict(sps=16, R=2e9), dict(sps=16, fs=32e9), dict(fs=32000000000, R=2000000000), dict(sps=16, R=2000000000)]:
    gv(**call)
    b = PD(optical_signal(s1, n1), 7e9, include_noise="ase-only")
    if not close(b.signal, ref.signal, 1e-12):
        bad("sampling rate", str(call), "differs")
# BW given as int / numpy scalar
for bw in [7000000000, np.float64(7e9), np.int64(7000000000)]:
    try:
        b = PD(optical_signal(s1, n1), bw, include_noise="ase-only")
        if not close(b.signal, ref.signal, 1e-12):
            bad("BW type", repr(bw), "differs")
    except Exception as ex:
        bad("BW type", repr(bw), f"{type(ex).__name__}: {ex}")

if FAIL:
    print(f"{len(FAIL)} violations")
    sys.exit(1)
print("PASS")
