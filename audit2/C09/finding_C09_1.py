# PD: thermal/shot noise variance over a 2^18-sample record is several times 4kTB/R * R^2 * NEB when BW is narrow
# (BW = 1e-3 * fs/2, inside "BW in (0, fs/2)"): the first output samples are (nearly) unfiltered noise.
import sys; del sys.path[0]
import warnings; warnings.simplefilter("ignore")
import numpy as np, scipy.signal as sg
from scipy.constants import k as kB
from opticomlib import gv, optical_signal
from opticomlib.devices import PD
fs = 16e9; gv(fs=fs, R=1e9); N = 1 << 18; BW = 1e-3 * fs / 2
G = np.abs(sg.sosfreqz(sg.bessel(4, BW, fs=fs, output="sos", norm="mag"), 1 << 22, whole=True)[1]) ** 4  # filtfilt power response
v_exp = 4 * kB * 300 * (fs / 2) / 50 * 50**2 * G.mean()                 # V^2 after the filter
sd = v_exp * np.sqrt(2 / N * (G**2).mean() / G.mean() ** 2)              # sampling error of the record variance
dev = []
for seed in range(8):
    np.random.seed(seed)
    n = PD(optical_signal(np.zeros(N, complex)), BW, T=300.0, R_load=50.0, include_noise="thermal-only", i_dark=0.0).noise
    dev.append((n.var() - v_exp) / sd)
    print(f"seed {seed}: var/expected = {n.var()/v_exp:6.3f} ({dev[-1]:6.1f} sigma); |first sample|/expected sigma = {abs(n[0])/v_exp**.5:5.1f}; middle var/expected = {n[N//8:-N//8].var()/v_exp:.3f}")
print("expected: every ratio within 6 sigma of 1; got", sum(abs(d) > 6 for d in dev), "of 8 seeds beyond 6 sigma")
sys.exit(1 if sum(abs(d) > 6 for d in dev) >= 3 else 0)
