# PD: r = nan is "not between (0, 1]" but passes the range test (r <= 0 or r > 1) and gives an all-NaN output silently
import sys; del sys.path[0]
import numpy as np
from opticomlib import optical_signal
from opticomlib.devices import PD
x = optical_signal(np.ones(64, dtype=complex))
try:
    y = PD(x, 5e9, r=float("nan"))
except ValueError as ex:
    print("ValueError as documented:", ex); sys.exit(0)
print("expected: ValueError('`r` must be in the range (0,1]'); got no error, signal[:3] =", y.signal[:3], "noise[:3] =", y.noise[:3])
sys.exit(1)
