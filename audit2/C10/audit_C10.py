import sys, os
if sys.path and os.path.abspath(sys.path[0] or '.') == os.path.dirname(os.path.abspath(__file__)):
    del sys.path[0]
import warnings
warnings.filterwarnings('ignore')
import itertools
import numpy as np
from scipy.constants import h, c
import scipy.signal as sg
import opticomlib
from opticomlib import gv, optical_signal, electrical_signal, binary_sequence
from opticomlib.devices import EDFA, BPF

VIOL = []
def bad(clause, inp, msg):
    line = f"VIOLATION [{clause}] input={inp}: {msg}"
    print(line, flush=True)
    VIOL.append(line)

def lin(db): return 10 ** (np.float64(db) / 10)

def expected_parts(x, G):
    """expected (signal, amplified input noise) as (2,N) arrays"""
    g = np.sqrt(lin(G))
    up = lambda a: np.asarray(a).astype(np.result_type(np.asarray(a).dtype, np.float64))  # exact widening (numpy 1.x would keep float32 against a scalar)
    s = up(x.signal)
    n = None if x.noise is None else up(x.noise)
    N = x.len()
    if s.ndim == 1:
        S = np.array([s * g, np.zeros(N)])
        Nn = None if n is None else np.array([n * g, np.zeros(N)])
    else:
        S = s * g
        Nn = None if n is None else n * g
    return S, Nn

def ase_ref(seed, G, NF, N):
    """ASE drawn by the documented scheme with the same seed (4 rows of N normals)."""
    P = lin(NF) * h * gv.f0 * (lin(G) - 1) * gv.fs
    np.random.seed(seed)
    r = np.sqrt(P / 4) * np.random.randn(4, N)
    return r[:2] + 1j * r[2:], P

def close(a, b, rtol=1e-9, atol=0.0):
    a = np.asarray(a); b = np.asarray(b)
    if a.shape != b.shape: return False
    scale = max(np.max(np.abs(b)) if b.size else 0, 1e-300)
    return bool(np.all(np.abs(a - b) <= rtol * scale + atol))

# ----------------------------------------------------------------------------------------
# deterministic clauses: structure, signal part, noise part = g*noise_in + ASE(seed)
# ----------------------------------------------------------------------------------------
def check_det(tag, x, G, NF, BW=None, seed=7):
    s0 = np.array(x.signal, copy=True); n0 = None if x.noise is None else np.array(x.noise, copy=True)
    npol0 = x.n_pol
    np.random.seed(seed)
    try:
        y = EDFA(x, G, NF) if BW is None else EDFA(x, G, NF, BW)
    except Exception as e:
        bad('no-exception', tag, f"G={G!r} NF={NF!r} BW={BW!r}: raised {type(e).__name__}: {e}")
        return None
    # input untouched
    if not (np.array_equal(x.signal, s0) and x.signal.dtype == s0.dtype and x.n_pol == npol0 and
            ((x.noise is None and n0 is None) or (x.noise is not None and n0 is not None and np.array_equal(x.noise, n0)))):
        bad('input-untouched', tag, f"G={G} NF={NF} BW={BW}: the input object was modified")
    if type(y) is not optical_signal:
        bad('returns-optical', tag, f"type {type(y)}"); return None
    N = x.len()
    if y.n_pol != 2 or np.shape(y.signal) != (2, N) or y.noise is None or np.shape(y.noise) != (2, N):
        bad('two-pol', tag, f"G={G} NF={NF} BW={BW}: n_pol={y.n_pol} signal {np.shape(y.signal)} noise {None if y.noise is None else np.shape(y.noise)} expected (2,{N})")
        return None
    if y.len() != N:
        bad('two-pol', tag, f"len {y.len()} != {N}")
    S, Nn = expected_parts(x, G)
    ase, P = ase_ref(seed, G, NF, N)
    Nexp = ase if Nn is None else Nn + ase
    if BW is None:
        if not close(y.signal, S, 1e-12):
            bad('signal=sqrt(G)*in', tag, f"G={G} NF={NF}: max err {np.max(np.abs(y.signal - S)):.3e} (scale {np.max(np.abs(S)):.3e})")
        # noise: exact against reference draw; tolerance relative to the largest of the two terms
        sc = max(np.max(np.abs(Nexp)), 1e-300)
        if not np.all(np.abs(y.noise - Nexp) <= 1e-9 * sc):
            bad('noise=sqrt(G)*noise_in+ASE', tag, f"G={G} NF={NF}: max err {np.max(np.abs(y.noise - Nexp)):.3e} (scale {sc:.3e})")
        if x.n_pol == 1 and np.any(y.signal[1] != 0):
            bad('y-pol-no-signal', tag, "y row of signal not zero")
        if G == 0 and np.any(np.asarray(y.noise) != (0 if Nn is None else Nn)):
            bad('ASE-power(G=0dB -> 0)', tag, "ASE not zero at G = 0 dB")
    else:
        # the whole output is the optical filter applied to the unfiltered output
        ref = optical_signal(S, Nexp)
        try:
            z = BPF(ref, BW)
            if not close(y.signal, z.signal, 1e-9):
                bad('BW-filters-signal', tag, f"G={G} NF={NF} BW={BW}: max err {np.max(np.abs(y.signal - z.signal)):.3e}")
            sc = max(np.max(np.abs(z.noise)), 1e-300)
            if not np.all(np.abs(y.noise - z.noise) <= 1e-9 * sc):
                bad('BW-filters-noise', tag, f"G={G} NF={NF} BW={BW}: max err {np.max(np.abs(y.noise - z.noise)):.3e}")
        except Exception as e:
            bad('BW-ref', tag, f"reference BPF raised {e}")
        # independent filter reference (scipy directly)
        sos = sg.bessel(4, BW / 2, btype='low', fs=gv.fs, output='sos', norm='mag')
        padlen = min(3 * (2 * len(sos) + 1), N - 1)
        zs = sg.sosfiltfilt(sos, S, axis=-1, padlen=padlen)
        zn = sg.sosfiltfilt(sos, Nexp, axis=-1, padlen=padlen)
        if not close(y.signal, zs, 1e-9):
            bad('BW-filters-signal(scipy)', tag, f"G={G} NF={NF} BW={BW}: max err {np.max(np.abs(y.signal - zs)):.3e}")
        if not np.all(np.abs(y.noise - zn) <= 1e-9 * max(np.max(np.abs(zn)), 1e-300)):
            bad('BW-filters-noise(scipy)', tag, f"G={G} NF={NF} BW={BW}: max err {np.max(np.abs(y.noise - zn)):.3e}")
    if not (np.all(np.isfinite(y.signal)) and np.all(np.isfinite(y.noise))):
        bad('finite', tag, f"G={G} NF={NF} BW={BW}: non-finite output")
    return y

def make_inputs(N, rng):
    """every way of building one/two-pol inputs with/without noise, several dtypes/containers"""
    out = []
    t = np.arange(N)
    re = 1e-3 * (1 + 0.5 * np.sin(0.3 * t + 0.1))
    cx = re * np.exp(1j * 0.7 * t)
    nre = 1e-5 * rng.standard_normal(N)
    ncx = 1e-5 * (rng.standard_normal(N) + 1j * rng.standard_normal(N))
    re2 = np.array([re, 0.5 * re[::-1]]); cx2 = np.array([cx, 0.3j * cx[::-1]])
    nre2 = np.array([nre, -nre[::-1]]); ncx2 = np.array([ncx, 1j * ncx[::-1]])
    out += [('1p-real', optical_signal(re)), ('1p-cplx', optical_signal(cx)),
            ('1p-real+noise', optical_signal(re, nre)), ('1p-cplx+noise', optical_signal(cx, ncx)),
            ('1p-real+cplxnoise', optical_signal(re, ncx)),
            ('2p-real', optical_signal(re2)), ('2p-cplx', optical_signal(cx2)),
            ('2p-real+noise', optical_signal(re2, nre2)), ('2p-cplx+noise', optical_signal(cx2, ncx2)),
            ('2p-from1d', optical_signal(re, n_pol=2)), ('2p-from1d+noise', optical_signal(cx, ncx, n_pol=2)),
            ('1p-from2d', optical_signal(cx2, ncx2, n_pol=1)), ('2p-from(1,N)', optical_signal(re[None, :])),
            ('1p-from(1,N)', optical_signal(re[None, :], nre[None, :], n_pol=1)),
            ('1p-list', optical_signal(list(re))), ('2p-listoflists', optical_signal([list(re), list(re)])),
            ('1p-tuple+noise', optical_signal(tuple(re), tuple(nre))),
            ('1p-int', optical_signal((np.arange(N) % 3).astype(np.int64))),
            ('1p-int+noise', optical_signal((np.arange(N) % 3).astype(np.int64), (np.arange(N) % 2).astype(np.int64))),
            ('2p-int32', optical_signal(np.array([np.arange(N) % 3, np.arange(N) % 2], dtype=np.int32))),
            ('1p-bool', optical_signal((np.arange(N) % 2).astype(bool))),
            ('1p-f32', optical_signal(re.astype(np.float32), nre.astype(np.float32))),
            ('2p-c64', optical_signal(cx2.astype(np.complex64), ncx2.astype(np.complex64))),
            ('1p-dtype=complex', optical_signal(re, dtype=complex)),
            ('2p-dtype=f32', optical_signal(re2, nre2, dtype=np.float32)),
            ('1p-zeros', optical_signal(np.zeros(N))), ('2p-zeros+noise', optical_signal(np.zeros((2, N)), nre2)),
            ('1p-zeronoise', optical_signal(re, np.zeros(N))),
            ('2p-y-empty', optical_signal(np.array([re, np.zeros(N)]))),
            ('1p-str', optical_signal(','.join(str(int(v)) for v in (np.arange(N) % 2)))),
            ]
    # noise attached after construction (as the library's own docstrings do)
    a = optical_signal(re); a.noise = nre.copy(); out.append(('1p-noise-attr-real', a))
    a = optical_signal(re); a.noise = ncx.copy(); out.append(('1p-real,noise-attr-cplx', a))
    a = optical_signal(cx2); a.noise = nre2.copy(); out.append(('2p-cplx,noise-attr-real', a))
    # derived objects: slices, arithmetic, copies, fft round trip
    b = optical_signal(np.concatenate([cx2, cx2], axis=1), np.concatenate([ncx2, ncx2], axis=1))
    out.append(('2p-slice', b[:N])); out.append(('2p-copy', optical_signal(cx2, ncx2).copy()))
    out.append(('1p-arith', optical_signal(re, nre) * 2 + 1e-4))
    out.append(('2p-arith', optical_signal(re2) + optical_signal(cx2, ncx2)))
    out.append(('1p*2p', optical_signal(re) * optical_signal(cx2)))
    out.append(('2p-fft-ifft', optical_signal(cx2, ncx2)('w')('t')))
    if N >= 1:
        out.append(('2p-index-int', optical_signal(cx2, ncx2)[N - 1]) if N == 1 else ('2p-slice-last', optical_signal(cx2, ncx2)[N - 1:]))
    return out

def scalar_inputs():
    return [('scalar', optical_signal(1e-3)), ('scalar+noise', optical_signal(1e-3, 1e-5)),
            ('scalar-2p', optical_signal(1e-3, n_pol=2)), ('scalar-2p+noise', optical_signal(1e-3j, 1e-5, n_pol=2)),
            ('scalar-int', optical_signal(2)), ('2p-index-np-int', optical_signal(np.ones((2, 5)), np.ones((2, 5)))[np.int64(2)]),
            ('2p-index-int', optical_signal(np.ones((2, 5)))[4]), ('1p-index-int', optical_signal(np.arange(5.), np.arange(5.))[0])]

GS = [0, 0.0, 1e-9, 0.5, 3, 10, 20.0, 39.999, 40, 40.0, np.float64(17.3)]
NFS = [3, 3.0, 5.5, 10, 10.0, np.float64(4.2)]

def run_det():
    rng = np.random.default_rng(1)
    gv(sps=16, R=1e9)
    for N in [1, 2, 3, 4, 5, 7, 8, 15, 16, 17, 27, 28, 29, 31, 32, 33, 64, 101, 257]:
        for tag, x in make_inputs(N, rng):
            for G, NF in [(0, 3), (40, 10), (20.0, 5.5), (40.0, 3.0), (1e-9, 10.0)]:
                check_det(f"{tag},N={N}", x, G, NF)
            for BW in [40e9 / 16 * 2, 1e9, 15.9e9, 10_000_000_000]:
                if N >= 1:
                    check_det(f"{tag},N={N}", x, 20, 5, BW)
    for tag, x in scalar_inputs():
        for G, NF in itertools.product([0, 13.0, 40], [3, 10.0]):
            check_det(tag, x, G, NF)
            check_det(tag, x, G, NF, 5e9)
    # whole G/NF grid on a few inputs, positional and keyword calling conventions
    x1 = optical_signal(1e-3 * np.ones(33), 1e-5 * np.ones(33)); x2 = optical_signal(1e-3j * np.ones((2, 33)))
    for G, NF in itertools.product(GS, NFS):
        check_det('1p-grid', x1, G, NF); check_det('2p-grid', x2, G, NF)
    for G in np.linspace(0, 40, 41):
        for NF in np.linspace(3, 10, 8):
            check_det('1p-lin-grid', x1, float(G), float(NF))
    np.random.seed(3)
    y = EDFA(input=x1, G=10, NF=4, BW=None)
    a, _ = ase_ref(3, 10, 4, 33)
    if not close(y.noise, np.array([x1.noise * np.sqrt(10), np.zeros(33)]) + a, 1e-9):
        bad('keywords', 'x1', 'keyword call differs')
    # different gv settings, changed between calls (no stale state)
    for kw in [dict(sps=2, R=1e6), dict(sps=64, R=40e9), dict(sps=16, R=10**9), dict(sps=8, R=2.5e9, wavelength=1310e-9),
               dict(fs=1e12), dict(sps=16, R=1e9, wavelength=850e-9), dict(sps=1, R=1e9), dict(sps=16, R=1e9, N=4)]:
        gv(**kw)
        for tag, x in make_inputs(19, rng)[:12]:
            check_det(f"{tag},gv={kw}", x, 25, 6)
            check_det(f"{tag},gv={kw}", x, 25, 6, gv.fs / 4)
    gv.f0 = 2e14
    check_det("gv.f0 attr", x1, 30, 7)
    gv.fs = 3e10; gv.dt = 1 / gv.fs
    check_det("gv.fs attr", x2, 30, 7); check_det("gv.fs attr", x2, 30, 7, 1e10)
    gv(sps=16, R=1e9)
    # cascades and outputs of other devices as inputs
    x = optical_signal(1e-3 * np.ones(40))
    y = EDFA(x, 10, 5); check_det('cascade(real sig, cplx noise)', y, 10, 5); check_det('cascade', y, 10, 5, 4e9)
    y = EDFA(x, 10, 5, 8e9); check_det('cascade-after-BW', y, 40, 3)
    from opticomlib.devices import MZM, PM
    m = MZM(optical_signal(np.ones(32), 0.01 * np.ones(32)), np.linspace(0, 5, 32), bias=1, Vpi=5)
    check_det('MZM-out', m, 20, 5); check_det('MZM-out', m, 20, 5, 5e9)
    m = PM(optical_signal(np.ones((2, 32))), np.linspace(0, 5, 32), Vpi=5)
    check_det('PM-out-2p', m, 20, 5)
    m = BPF(optical_signal(np.ones(32), 0.01 * np.ones(32)), 5e9)
    check_det('BPF-out-1p', m, 20, 5)

# ----------------------------------------------------------------------------------------
# TypeError clause
# ----------------------------------------------------------------------------------------
def run_typeerror():
    gv(sps=16, R=1e9)
    class fake:  # duck type
        signal = np.ones(4); noise = None; n_pol = 1
        def len(self): return 4
    nonopt = [('electrical_signal', electrical_signal(np.ones(8))), ('electrical+noise', electrical_signal(np.ones(8), np.ones(8))),
              ('ndarray', np.ones(8)), ('ndarray2d', np.ones((2, 8))), ('list', [1.0, 2.0]), ('tuple', (1.0, 2.0)), ('None', None),
              ('str', '1,0,1'), ('float', 1.0), ('int', 1), ('complex', 1j), ('binary_sequence', binary_sequence('1010')),
              ('duck', fake()), ('class', optical_signal), ('dict', {}), ('np.float64', np.float64(1))]
    for tag, v in nonopt:
        for BW in [None, 5e9]:
            try:
                EDFA(v, 20, 5, BW)
                bad('TypeError', tag, f"BW={BW}: no exception")
            except TypeError:
                pass
            except Exception as e:
                bad('TypeError', tag, f"BW={BW}: raised {type(e).__name__}: {e}")
    # an optical signal is still accepted after failed calls (no state left behind)
    check_det('after-TypeErrors', optical_signal(np.ones(9)), 20, 5)

# ----------------------------------------------------------------------------------------
# statistical clauses (>= 2^16 samples, six sigma)
# ----------------------------------------------------------------------------------------
def run_stat():
    fails = {}
    def sfail(key, seed, msg):
        fails.setdefault(key, []).append((seed, msg))
    configs = [(dict(sps=16, R=1e9), 2 ** 16), (dict(sps=64, R=10e9, wavelength=1310e-9), 2 ** 16 + 1), (dict(sps=4, R=1e5), 2 ** 17)]
    seeds = [11, 12, 13, 14, 15]
    for kw, N in configs:
        gv(**kw)
        t = np.arange(N)
        for G, NF in [(40, 10), (40, 3.0), (0.5, 3), (20.0, 5), (3, 10.0), (1e-3, 3)]:
            P = lin(NF) * h * (c / kw.get('wavelength', 1550e-9)) * (lin(G) - 1) * gv.fs
            for kind in ['1p', '2p', '1p+n', '2p+n', '1p-int']:
                for seed in seeds:
                    rng = np.random.default_rng(seed)
                    amp = 1e-3
                    s1 = amp * np.exp(1j * 0.01 * t)
                    nz = np.sqrt(P / lin(G)) * (rng.standard_normal((2, N)) + 1j * rng.standard_normal((2, N)))  # comparable to ASE after gain
                    if kind == '1p': x = optical_signal(s1)
                    elif kind == '2p': x = optical_signal(np.array([s1, 0.5 * s1]))
                    elif kind == '1p+n': x = optical_signal(s1, nz[0])
                    elif kind == '2p+n': x = optical_signal(np.array([s1, 0.5 * s1]), nz)
                    else: x = optical_signal(np.ones(N, dtype=int))
                    np.random.seed(seed)
                    y = EDFA(x, G, NF)
                    S, Nn = expected_parts(x, G)
                    a = y.noise - (0 if Nn is None else Nn)       # the added ASE
                    key = (str(kw), G, NF, kind)
                    comps = np.array([a[0].real, a[0].imag, a[1].real, a[1].imag])
                    # total power: sum of 4N squares of N(0,P/4): mean P, sd P/sqrt(2N) (per-sample sum has var 4*2*(P/4)^2 = P^2/2)
                    tot = np.mean(np.sum(comps ** 2, axis=0))
                    sd = P / np.sqrt(2 * N)
                    if abs(tot - P) > 6 * sd:
                        sfail(key + ('total power',), seed, f"got {tot:.6e} expected {P:.6e} ({(tot - P) / sd:+.1f} sigma)")
                    for i, nm in enumerate(['x.re', 'x.im', 'y.re', 'y.im']):
                        v = np.mean(comps[i] ** 2); e = P / 4; sdv = e * np.sqrt(2 / N)
                        if abs(v - e) > 6 * sdv:
                            sfail(key + (f'var {nm} = P/4',), seed, f"got {v:.6e} expected {e:.6e} ({(v - e) / sdv:+.1f} sigma)")
                        mu = np.mean(comps[i]); sdm = np.sqrt(e / N)
                        if abs(mu) > 6 * sdm:
                            sfail(key + (f'mean {nm} = 0',), seed, f"mean {mu:.3e} ({mu / sdm:+.1f} sigma)")
                        # whiteness: lag-1 and lag-2 autocorrelation
                        for lag in (1, 2):
                            r = np.mean(comps[i][lag:] * comps[i][:-lag]) / e
                            if abs(r) > 6 / np.sqrt(N):
                                sfail(key + (f'white {nm} lag{lag}',), seed, f"r={r:.4f}")
                        # gaussianity: kurtosis 3 (sd sqrt(24/N))
                        k = np.mean(comps[i] ** 4) / e ** 2
                        if abs(k - 3) > 6 * np.sqrt(96 / N):
                            sfail(key + (f'gaussian {nm}',), seed, f"kurtosis {k:.3f}")
                    for i, j in itertools.combinations(range(4), 2):
                        r = np.mean(comps[i] * comps[j]) / (P / 4)
                        if abs(r) > 6 / np.sqrt(N):
                            sfail(key + (f'independent {i},{j}',), seed, f"r={r:.4f}")
                        # also with a shift of one sample (rows cut from one long stream)
                        r = np.mean(comps[i][1:] * comps[j][:-1]) / (P / 4)
                        if abs(r) > 6 / np.sqrt(N):
                            sfail(key + (f'independent-shift {i},{j}',), seed, f"r={r:.4f}")
                    # independent of the input signal and of the input noise
                    for nm, ref in [('signal', S)] + ([('noise', Nn)] if Nn is not None else []):
                        for p in range(2):
                            pw = np.mean(np.abs(ref[p]) ** 2)
                            if pw == 0: continue
                            r = np.mean(a[p] * np.conj(ref[p])) / np.sqrt(pw * P / 2)
                            if abs(r) > 6 / np.sqrt(N):
                                sfail(key + (f'ASE indep of input {nm} pol{p}',), seed, f"|r|={abs(r):.4f}")
                    # fresh draw: second call with advancing generator differs and is uncorrelated
                    y2 = EDFA(x, G, NF)
                    a2 = y2.noise - (0 if Nn is None else Nn)
                    for p in range(2):
                        r = np.mean(a[p] * np.conj(a2[p])) / (P / 2)
                        if abs(r) > 6 / np.sqrt(N):
                            sfail(key + (f'fresh draw pol{p}',), seed, f"|r|={abs(r):.4f}")
                    # OSNR never grows (no BW): statistical for inputs with noise
                    if Nn is not None:
                        ps_in = np.sum(np.mean(np.abs(np.atleast_2d(x.signal)) ** 2, axis=-1)); pn_in = np.sum(np.mean(np.abs(np.atleast_2d(x.noise)) ** 2, axis=-1))
                        ps_out = np.sum(y.power('signal')); pn_out = np.sum(y.power('noise'))
                        # pn_out = G pn_in + P + cross ; cross sd ~ 2 sqrt(G pn_in P /(2N))... use 6 sigma
                        cross_sd = np.sqrt(2 * lin(G) * pn_in * P / N) + sd
                        if ps_out / pn_out > ps_in / pn_in and (lin(G) * pn_in - pn_out) > 6 * cross_sd:
                            sfail(key + ('OSNR out <= in',), seed, f"in {ps_in / pn_in:.6e} out {ps_out / pn_out:.6e}")
                    else:
                        if not np.all(np.isfinite(y.noise)):
                            sfail(key + ('finite',), seed, 'non-finite')
    # band limiting: with BW the out-of-band part of the whole output (signal and noise) is suppressed, in-band ASE density kept
    gv(sps=64, R=1e9)
    N = 2 ** 16
    f = np.fft.fftfreq(N) * gv.fs
    for BW in [1e9, 4e9, 8e9]:
        for kind in ['1p', '2p+n']:
            for seed in seeds:
                rng = np.random.default_rng(seed)
                wide = 1e-3 * (rng.standard_normal((2, N)) + 1j * rng.standard_normal((2, N)))  # white "signal" fills the band
                x = optical_signal(wide[0]) if kind == '1p' else optical_signal(wide, 1e-4 * wide[::-1])
                np.random.seed(seed)
                y = EDFA(x, 30, 5, BW)
                P = lin(5) * h * gv.f0 * (lin(30) - 1) * gv.fs
                out = np.abs(f) > 2 * BW; inn = np.abs(f) < BW / 20
                for nm, arr, rows in [('signal', y.signal, [0] if kind == '1p' else [0, 1]), ('noise', y.noise, [0, 1])]:
                    for p in rows:
                        psd = np.abs(np.fft.fft(arr[p])) ** 2 / N
                        ratio = psd[out].mean() / psd[inn].mean()
                        # 4th-order Bessel applied twice: > 2*BW = 4x cut-off: far below -20 dB
                        if not ratio < 1e-2:
                            sfail((BW, kind, f'band-limited {nm} pol{p}'), seed, f"out/in PSD ratio {ratio:.3e}")
                # in-band ASE density = P/fs per pol pair (y-pol of 1p has pure ASE)
                if kind == '1p':
                    psd = np.abs(np.fft.fft(y.noise[1])) ** 2 / N
                    m = psd[inn].mean(); e = P / 2; k = inn.sum()
                    if abs(m - e) > 6 * e / np.sqrt(k) + 0.02 * e:
                        sfail((BW, kind, 'in-band ASE density'), seed, f"got {m:.4e} expected {e:.4e}")
                    if np.any(y.signal[1] != 0):
                        sfail((BW, kind, 'y-pol no signal'), seed, 'nonzero')
    for key, lst in fails.items():
        if len(lst) >= 2:   # several seeds
            bad('statistical:' + str(key[-1]), key[:-1], f"{len(lst)} seeds fail, e.g. seed {lst[0][0]}: {lst[0][1]}")
        else:
            print(f"note (single-seed excursion, not counted): {key} {lst}")

if __name__ == '__main__':
    run_det()
    run_typeerror()
    run_stat()
    if VIOL:
        print(f"{len(VIOL)} violations")
        sys.exit(1)
    print("PASS")
    sys.exit(0)
