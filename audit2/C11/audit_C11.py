import sys, os
if sys.path and os.path.abspath(sys.path[0] or '.') == os.path.dirname(os.path.abspath(__file__)):
    del sys.path[0]
import warnings
warnings.filterwarnings('ignore')
import itertools
import numpy as np
from opticomlib import gv, electrical_signal, optical_signal
from opticomlib.devices import LPF, BPF

V = []
def bad(clause, desc):
    V.append((clause, desc))
    print(f'VIOLATION [{clause}] {desc}')

def close(a, b, rtol=1e-9, atol=None):
    a = np.asarray(a); b = np.asarray(b)
    if a.shape != b.shape:
        return False
    if atol is None:
        atol = rtol * max(1.0, np.max(np.abs(b)) if b.size else 1.0)
    return bool(np.all(np.abs(a - b) <= atol))

rng = np.random.default_rng(11)
ORDERS = range(1, 9)
FS_LIST = [1.0, 7, 16e9, 3.3e11, np.float64(2.5e3), 1000, 1e-3, 1e15]
CUT_FR = [0.0101, 0.02, 0.1, 0.25, 0.3333, 0.4499]
LENS = [17, 18, 19, 27, 28, 29, 31, 32, 33, 64, 101, 256]

def call(kind, x, noise, fr, n, fs, npol=1, how='container'):
    """returns (sig, noise_out, obj)"""
    if kind == 'LPF':
        BW = fr * fs
        if how == 'ndarray':
            o = LPF(np.asarray(x), BW, n, fs)
        elif how == 'gv':
            gv(sps=4, fs=fs)
            o = LPF(electrical_signal(x, noise), BW, n)
        elif how == 'kw':
            o = LPF(input=electrical_signal(x, noise), BW=BW, n=n, fs=fs, retH=False)
        else:
            o = LPF(electrical_signal(x, noise), BW, n, fs)
    else:
        gv(sps=4, fs=fs)
        BW = 2 * fr * fs
        o = BPF(optical_signal(x, noise), BW, n)
    return o.signal, o.noise, o

def gen(kind, N, npol):
    if kind == 'LPF':
        return rng.normal(size=N)
    shape = (N,) if npol == 1 else (2, N)
    return rng.normal(size=shape) + 1j * rng.normal(size=shape)

# ---------------------------------------------------------------- clause A: linearity, length, sig/noise independence, pol independence, input untouched
for kind in ('LPF', 'BPF'):
    for npol in ((1,) if kind == 'LPF' else (1, 2)):
        for N, n, fr, fs in itertools.product(LENS, ORDERS, CUT_FR, [1.0, 16e9, 7]):
            tag = f'{kind} npol={npol} N={N} n={n} cut={fr}fs fs={fs!r}'
            try:
                x = gen(kind, N, npol); y = gen(kind, N, npol); w = gen(kind, N, npol)
                a, b = (rng.normal(), rng.normal()) if kind == 'LPF' else (rng.normal() + 1j * rng.normal(), rng.normal() + 1j * rng.normal())
                Fx, _, ox = call(kind, x, None, fr, n, fs)
                Fy, _, _ = call(kind, y, None, fr, n, fs)
                Fz, _, _ = call(kind, a * x + b * y, None, fr, n, fs)
                sc = max(1.0, np.abs(x).max(), np.abs(y).max())
                if Fx.shape != x.shape:
                    bad('length', f'{tag}: out shape {Fx.shape} in shape {x.shape}')
                if not close(Fz, a * Fx + b * Fy, atol=1e-8 * sc * 4):
                    bad('linearity', f'{tag}: max dev {np.abs(Fz - (a * Fx + b * Fy)).max():.3g}')
                # signal and noise
                x0 = x.copy(); w0 = w.copy()
                S, Nn, o = call(kind, x, w, fr, n, fs)
                if not (np.array_equal(x, x0) and np.array_equal(w, w0)):
                    bad('input-untouched', tag)
                Fw, _, _ = call(kind, w, None, fr, n, fs)
                if Nn is None or not close(S, Fx, atol=1e-10 * sc) or not close(Nn, Fw, atol=1e-10 * sc):
                    bad('signal/noise', f'{tag}: noise={None if Nn is None else "dev"}')
                if kind == 'LPF':
                    for how in ('ndarray', 'gv', 'kw'):
                        G, _, _ = call(kind, x, None, fr, n, fs, how=how)
                        if not close(G, Fx, atol=1e-12 * sc):
                            bad('container', f'{tag} how={how}: dev {np.abs(G - Fx).max():.3g}')
                if npol == 2:
                    for k in (0, 1):
                        P, Pn, _ = call(kind, x[k], w[k], fr, n, fs)
                        if not (close(P, S[k], atol=1e-12 * sc) and close(Pn, Nn[k], atol=1e-12 * sc)):
                            bad('polarisation', f'{tag} pol {k}')
                    # one pol zero stays zero
                    z = x.copy(); z[1] = 0
                    Z, _, _ = call(kind, z, None, fr, n, fs)
                    if np.any(Z[1] != 0) or not close(Z[0], Fx[0], atol=1e-12 * sc):
                        bad('polarisation', f'{tag}: zero pol leaks')
            except Exception as e:
                bad('exception', f'{tag}: {type(e).__name__}: {e}')

# ---------------------------------------------------------------- clause B: constant passes unchanged
for kind in ('LPF', 'BPF'):
    for npol in ((1,) if kind == 'LPF' else (1, 2)):
        for N, n, fr, fs, c in itertools.product(LENS, ORDERS, CUT_FR, FS_LIST, [1.0, -3.5, 1e-9, 1e6, 0.0, 1, 2 - 3j]):
            if kind == 'LPF' and isinstance(c, complex):
                continue
            tag = f'{kind} npol={npol} N={N} n={n} cut={fr}fs fs={fs!r} c={c!r}'
            try:
                if kind == 'BPF' and not isinstance(c, complex):
                    c = c * (1 + 0.5j)
                x = np.full((N,) if npol == 1 else (2, N), c)
                if npol == 2:
                    x[1] = x[1] * 2
                S, Nn, _ = call(kind, x, x * 0.5, fr, n, fs)
                if not close(S, x, atol=1e-7 * max(abs(c), 1e-300) * 2) or not close(Nn, x * 0.5, atol=1e-7 * max(abs(c), 1e-300)):
                    bad('constant', f'{tag}: dev {np.abs(S - x).max():.3g}')
                if kind == 'LPF':
                    S2 = LPF(x, fr * fs, n, fs).signal
                    if not close(S2, x, atol=1e-7 * max(abs(c), 1e-300)):
                        bad('constant', f'{tag} ndarray: dev {np.abs(S2 - x).max():.3g}')
            except Exception as e:
                bad('exception', f'{tag}: {type(e).__name__}: {e}')

# integer typed / float32 / list-like constant and linear ramps through LPF (real inputs, every dtype)
for dt in (np.int64, np.int32, np.uint8, np.float32, np.float16, bool, np.uint64, np.complex128):
    for N in (17, 33):
        for n in ORDERS:
            try:
                x = (np.arange(N) % 2).astype(dt)
                ref = LPF((np.arange(N) % 2).astype(float), 0.2, n, 1.0).signal
                o = LPF(x, 0.2, n, 1.0).signal
                o2 = LPF(electrical_signal(x), 0.2, n, 1.0).signal
                if not close(o, ref, atol=1e-12) or not close(o2, ref, atol=1e-12):
                    bad('dtype', f'LPF dtype={dt.__name__} N={N} n={n}: dev {np.abs(o - ref).max():.3g}')
            except Exception as e:
                bad('exception', f'LPF dtype={dt.__name__} N={N} n={n}: {type(e).__name__}: {e}')

# ---------------------------------------------------------------- clause C: tone at cutoff -6.0 dB, monotone attenuation, never gains power
def tone_gain(kind, f_rel, fr, n, fs, N=4096, npol=1, phase=0.3):
    k = np.arange(N)
    if kind == 'LPF':
        x = np.cos(2 * np.pi * f_rel * k + phase)
    else:
        x = np.exp(1j * (2 * np.pi * f_rel * k + phase))
        if npol == 2:
            x = np.array([x, 0.5j * x])
    S, _, _ = call(kind, x, None, fr, n, fs)
    m = slice(N // 4, 3 * N // 4)
    pin = np.mean(np.abs(x[..., m]) ** 2, axis=-1)
    pout = np.mean(np.abs(S[..., m]) ** 2, axis=-1)
    pin_all = np.mean(np.abs(x) ** 2)
    pout_all = np.mean(np.abs(S) ** 2)
    return pout / pin, pout_all / pin_all

for kind in ('LPF', 'BPF'):
    for npol in ((1,) if kind == 'LPF' else (1, 2)):
        for n, fr, fs in itertools.product(ORDERS, CUT_FR, FS_LIST):
            tag = f'{kind} npol={npol} n={n} cut={fr}fs fs={fs!r}'
            try:
                for sgn in ((1,) if kind == 'LPF' else (1, -1)):
                    # integer number of periods in the middle window is not needed for complex tones; for real use many periods
                    g, gall = tone_gain(kind, sgn * fr, fr, n, fs, npol=npol)
                    dB = -10 * np.log10(np.atleast_1d(g))
                    if np.any(np.abs(dB - 6.0) > 0.1):
                        bad('-6dB', f'{tag} sgn={sgn}: attenuation {dB}')
                    prev = None
                    for f_rel in np.linspace(0.002, 0.498, 40):
                        g, gall = tone_gain(kind, sgn * f_rel, fr, n, fs, npol=npol, N=2048)
                        g = np.atleast_1d(g)
                        if np.any(g > 1 + 1e-6) or gall > 1 + 1e-6:
                            bad('no-gain', f'{tag} f={sgn * f_rel:.4f}fs: gain {g} whole-record {gall}')
                        if prev is not None and np.any(g > prev * (1 + 1e-4) + 1e-13):
                            bad('monotone', f'{tag} f={sgn * f_rel:.4f}fs: gain {g} after {prev}')
                        prev = g
            except Exception as e:
                bad('exception', f'{tag}: {type(e).__name__}: {e}')

# stationary tone power on short records (whole record, tone with integer number of periods so the record power is the tone power)
for kind in ('LPF', 'BPF'):
    for N in [17, 18, 24, 32, 33, 48, 64, 100]:
        worst = None; cnt = 0
        for n, fr in itertools.product(ORDERS, CUT_FR):
            for m in range(1, N // 2):
                for ph in (0.0, 0.7, np.pi / 2):
                    k = np.arange(N)
                    x = np.cos(2 * np.pi * m * k / N + ph) if kind == 'LPF' else np.exp(1j * (2 * np.pi * m * k / N + ph))
                    S, _, _ = call(kind, x, None, fr, n, 1.0)
                    pin, pout = np.mean(np.abs(x) ** 2), np.mean(np.abs(S) ** 2)
                    if pout > pin * (1 + 1e-9):
                        cnt += 1
                        if worst is None or pout / pin > worst[0]:
                            worst = (pout / pin, n, fr, m, ph)
        if worst:
            bad('no-gain-short', f'{kind} N={N}: {cnt} tones gain power; worst x{worst[0]:.4f} at n={worst[1]} cut={worst[2]}fs tone={worst[3]}/{N} fs phase={worst[4]:.2f}')

# ---------------------------------------------------------------- clause D: zero delay / symmetry (pulse far from the edges: record much longer than the filter memory)
for kind in ('LPF', 'BPF'):
    for N, n, fr in itertools.product([513, 1024, 2001], ORDERS, CUT_FR):
        if fr < 0.02 and N < 1024:
            continue
        for width in (1, 2, 7):
            tag = f'{kind} N={N} n={n} cut={fr} width={width}'
            c = N // 2
            x = np.zeros(N, dtype=float if kind == 'LPF' else complex)
            lo = c - width // 2; hi = lo + width
            amp = 1.0 if kind == 'LPF' else (1 + 2j)
            x[lo:hi] = amp
            S, _, _ = call(kind, x, None, fr, n, 1.0)
            centre2 = lo + hi - 1   # twice the centre
            L = min(centre2 // 2, N - 1 - (centre2 + 1) // 2) - 40
            i = np.arange(0, L)
            left = S[(centre2 // 2) - i]; right = S[((centre2 + 1) // 2) + i]
            if not close(left, right, atol=1e-6 * np.abs(S).max()):
                bad('symmetry', f'{tag}: dev {np.abs(left - right).max():.3g}')
            cen = (np.sum(S * np.arange(N)) / np.sum(S)).real
            if abs(cen - centre2 / 2) > 1e-3:
                bad('delay', f'{tag}: centroid at {cen}, centre {centre2 / 2}')
            if abs(np.sum(S) - width * amp) > 1e-6 * width * abs(amp):
                bad('dc-gain', f'{tag}: area {np.sum(S)} vs {width * amp}')

# ---------------------------------------------------------------- clause E: retH
from numpy.fft import fft, fftshift, fftfreq, ifftshift
import scipy.signal as sg
for N, n, fr, fs in itertools.product([17, 18, 33, 64, 255, 256, 1000], ORDERS, CUT_FR, FS_LIST):
    tag = f'retH N={N} n={n} cut={fr} fs={fs!r}'
    try:
        x = rng.normal(size=N)
        for how in ('nd', 'es', 'esn', 'gv'):
            if how == 'nd':
                r = LPF(x, fr * fs, n, fs, True)
            elif how == 'es':
                r = LPF(electrical_signal(x), fr * fs, n, fs, retH=True)
            elif how == 'esn':
                r = LPF(electrical_signal(x, x * 2), fr * fs, n, fs, retH=True)
            else:
                gv(sps=2, fs=fs)
                r = LPF(electrical_signal(x), fr * fs, n, retH=True)
            if not (isinstance(r, tuple) and len(r) == 2):
                bad('retH', f'{tag} {how}: not a pair'); continue
            o, H = r
            ref = LPF(x, fr * fs, n, fs).signal
            if not close(o.signal, ref, atol=1e-12):
                bad('retH', f'{tag} {how}: output differs')
            if how == 'esn' and (o.noise is None or not close(o.noise, 2 * ref, atol=1e-9)):
                bad('retH', f'{tag} {how}: noise wrong')
            if H.shape != (N,):
                bad('retH', f'{tag} {how}: H shape {H.shape}'); continue
            f = fftshift(fftfreq(N, 1 / fs))
            b, a = sg.bessel(n, 1.0, 'low', analog=True, norm='mag')
            # prototype: analog Bessel with -3 dB at cutoff, bilinear with prewarp
            wa = np.tan(np.pi * f / fs) / np.tan(np.pi * fr)
            with np.errstate(all='ignore'):
                Href = np.polyval(b, 1j * wa) / np.polyval(a, 1j * wa)
            Href = np.where(np.isfinite(Href), Href, 0)
            ok = np.abs(np.abs(f) - fs / 2) > 1e-9 * fs
            if not close(H[ok], Href[ok], atol=1e-6):
                bad('retH', f'{tag} {how}: H deviates from prototype by {np.abs(H[ok] - Href[ok]).max():.3g}')
            if abs(H[np.argmin(np.abs(f))] - 1) > 1e-9:
                bad('retH', f'{tag} {how}: H(0)={H[np.argmin(np.abs(f))]}')
    except Exception as e:
        bad('exception', f'{tag}: {type(e).__name__}: {e}')
# retH vs actual filtering in the steady state: periodic input, |H|^2 applied
for N, n, fr in itertools.product([1024, 1001], ORDERS, CUT_FR):
    k = np.arange(N)
    m = 37
    x = np.cos(2 * np.pi * m * k / N)
    o, H = LPF(x, fr, n, 1.0, True)
    f = fftshift(fftfreq(N))
    idx = np.argmin(np.abs(f - m / N))
    mid = slice(N // 4, 3 * N // 4)
    g = np.sqrt(np.mean(o.signal[mid] ** 2) / np.mean(x[mid] ** 2))
    if abs(g - abs(H[idx]) ** 2) > 2e-3 * max(abs(H[idx]) ** 2, 1e-3) + 1e-9:
        bad('retH-consistency', f'N={N} n={n} cut={fr}: tone gain {g} vs |H|^2 {abs(H[idx]) ** 2}')

# ---------------------------------------------------------------- repeated calls / call order / numeric types of args
gv(sps=4, fs=100.0)
x = rng.normal(size=50)
ref = LPF(x, 10.0, 4, 100.0).signal
for BW, n, fs in [(10, 4, 100), (10.0, 4, 100), (10, 4, 100.0), (np.float64(10), 4, np.float64(100)), (10, 4, None), (10, np.int64(4), 100)]:
    try:
        o = LPF(x, BW, n, fs).signal
        if not close(o, ref, atol=1e-13):
            bad('arg-types', f'LPF BW={BW!r} n={n!r} fs={fs!r}: dev {np.abs(o - ref).max()}')
    except Exception as e:
        bad('exception', f'LPF BW={BW!r} n={n!r} fs={fs!r}: {type(e).__name__}: {e}')
if not close(LPF(x, 10.0).signal, ref, atol=1e-13):
    bad('defaults', 'LPF default n/fs differ from n=4, gv.fs')
z = x + 1j * rng.normal(size=50)
refb = BPF(optical_signal(z), 20.0, 4).signal
for BW, n in [(20, 4), (np.float64(20), 4), (20, np.int64(4))]:
    o = BPF(optical_signal(z), BW, n).signal
    if not close(o, refb, atol=1e-13):
        bad('arg-types', f'BPF BW={BW!r} n={n!r}')
if not close(BPF(optical_signal(z), 20.0).signal, refb, atol=1e-13):
    bad('defaults', 'BPF default n differs from 4')
# BPF vs LPF consistency on real and imaginary parts
for n in ORDERS:
    o = BPF(optical_signal(z), 20.0, n).signal
    r = LPF(z.real, 10.0, n, 100.0).signal + 1j * LPF(z.imag, 10.0, n, 100.0).signal
    if not close(o, r, atol=1e-12):
        bad('BPF=LPF', f'n={n}: dev {np.abs(o - r).max()}')
# two-pol input built in every accepted way
for mk in (lambda: optical_signal(z, n_pol=2), lambda: optical_signal([z, z]), lambda: optical_signal(z[None, :]), lambda: optical_signal(z[None, :], z[None, :] * 2), lambda: optical_signal(z, 2 * z, n_pol=2)):
    s = mk()
    o = BPF(s, 20.0, 4)
    if o.signal.shape != s.signal.shape or getattr(o, 'n_pol', None) != s.n_pol:
        bad('container', f'BPF 2-pol: shape {o.signal.shape} n_pol {getattr(o, "n_pol", None)}')
    if not close(o.signal[0], refb, atol=1e-13) or not close(o.signal[1], refb, atol=1e-13):
        bad('polarisation', 'BPF 2-pol built from one row')
    if s.noise is not None and (o.noise is None or not close(o.noise[1], 2 * refb, atol=1e-12)):
        bad('signal/noise', 'BPF 2-pol noise')
    if type(o) is not optical_signal:
        bad('container', 'BPF output type')
if type(LPF(x, 10.0)) is not electrical_signal:
    bad('container', 'LPF output type')

# marginal: LPF given a real-valued two-polarisation container (optical_signal is an electrical_signal)
for N, n in itertools.product([17, 20, 27, 28, 40], ORDERS):
    zz = rng.normal(size=(2, N))
    tag = f'LPF real 2-pol container N={N} n={n}'
    try:
        o, H = LPF(optical_signal(zz), 0.1, n, 1.0, retH=True)
        r = np.array([LPF(zz[0], 0.1, n, 1.0).signal, LPF(zz[1], 0.1, n, 1.0).signal])
        if not close(o.signal, r, atol=1e-12):
            bad('LPF-2pol(marginal)', f'{tag}: rows differ from per-row filtering')
        if H.shape != (N,):
            bad('LPF-2pol(marginal)', f'{tag}: retH has {H.size} points for {N} samples')
    except Exception as e:
        bad('LPF-2pol(marginal)', f'{tag}: {type(e).__name__}: {e}')

if V:
    print(f'{len(V)} violations')
    sys.exit(1)
print('PASS')
