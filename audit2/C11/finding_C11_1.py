# C11 "never increase the power of a stationary tone": a tone that fills a short record with whole
# periods comes out of LPF/BPF with MORE power when the cutoff is low (in domain: 17 samples > 16-sample
# padding, cutoff 0.0101*fs in (0.01, 0.45)*fs, order 8).  Expected: power ratio <= 1 (the tone is 70x above cutoff).
import sys, warnings; warnings.filterwarnings('ignore')
if sys.path and sys.path[0].rstrip('/').endswith('C11'): del sys.path[0]
import numpy as np
from opticomlib import gv, optical_signal
from opticomlib.devices import LPF, BPF
N, fs = 17, 1.0
k = np.arange(N)
x = np.cos(2*np.pi*7*k/N)                      # 7 whole periods in the record, f = 0.41 fs
g_lpf = np.mean(LPF(x, 0.0101*fs, 8, fs).signal**2) / np.mean(x**2)
gv(sps=4, fs=fs)
z = np.exp(2j*np.pi*7*k/N)
g_bpf = np.mean(np.abs(BPF(optical_signal(z), 2*0.0101*fs, 8).signal)**2) / np.mean(np.abs(z)**2)
x32 = np.cos(2*np.pi*2*np.arange(32)/32)       # also order 1, 32 samples, tone 6x above cutoff
g32 = np.mean(LPF(x32, 0.0101, 1, 1.0).signal**2) / np.mean(x32**2)
print(f'expected output/input power <= 1; got LPF {g_lpf:.3f}, BPF {g_bpf:.3f}, LPF(n=1, N=32) {g32:.3f}')
sys.exit(1 if max(g_lpf, g_bpf, g32) > 1 + 1e-9 else 0)
