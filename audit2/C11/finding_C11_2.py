# C11 (marginal: LPF fed a REAL two-polarisation container; optical_signal is an electrical_signal and is accepted).
# LPF sizes the edge padding and the retH grid with signal.size (= 2*N for two rows) where BPF uses input.len().
# Expected: each row filtered like the 1-D record, H on the N-point grid.  Got: ValueError for N <= 27 with
# orders 5..8, and an H of 2*N points.
import sys, warnings; warnings.filterwarnings('ignore')
if sys.path and sys.path[0].rstrip('/').endswith('C11'): del sys.path[0]
import numpy as np
from opticomlib import optical_signal
from opticomlib.devices import LPF
x = np.random.default_rng(0).normal(size=(2, 20))
rc = 0
out, H = LPF(optical_signal(x), 0.1, 4, 1.0, retH=True)
print(f'retH: expected {x.shape[1]} points, got {H.size}'); rc |= H.size != x.shape[1]
try:
    LPF(optical_signal(x), 0.1, 8, 1.0); print('order 8: ok')
except ValueError as e:
    print('order 8: expected a filtered (2, 20) signal (LPF(x[0], 0.1, 8, 1.0) works), got ValueError:', e); rc = 1
sys.exit(rc)
