"""Audit of property C12 (PPM encode/decode bijection, HDD/SDD emit valid codewords)."""
import sys
del sys.path[0]
import itertools
import warnings
import numpy as np

warnings.simplefilter('ignore')

from opticomlib.ppm import PPM_ENCODER, PPM_DECODER, HDD, SDD
from opticomlib.typing import binary_sequence, electrical_signal, gv
from opticomlib.devices import DAC

ORDERS = [2, 4, 8, 16, 32, 64, 128, 256]
viol = []
count = {}


def report(clause, what):
    if "contains invalid characters" in what and ("b=''" in what or "slots=''" in what or "cw=''" in what):
        clause = 'E3 containers: the empty bit string given as str'
    elif 'invalid literal for int()' in what and ('tabbed' in what or 'newline' in what):
        clause = 'E3 containers: bit string given as str with tab / newline whitespace'
    count[clause] = count.get(clause, 0) + 1
    if count[clause] <= 6:                     # keep the listing readable
        line = f'VIOLATION [{clause}] {what}'
        viol.append(line)
        print(line, flush=True)
    elif count[clause] == 7:
        print(f'VIOLATION [{clause}] ... further cases suppressed', flush=True)
        viol.append(clause)


def call(f, *a, **k):
    try:
        return f(*a, **k), None
    except Exception as e:          # noqa
        return None, e


def ref_encode(bits, M):
    k = M.bit_length() - 1
    n = len(bits) // k
    out = np.zeros(n * M, dtype=np.uint8)
    for s in range(n):
        v = 0
        for b in bits[s * k:(s + 1) * k]:
            v = 2 * v + int(b)
        out[s * M + v] = 1
    return out


def containers(bits):
    """Every accepted container type holding the bit list `bits`."""
    s = ''.join(str(int(b)) for b in bits)
    out = {
        'list[int]': [int(b) for b in bits],
        'list[bool]': [bool(b) for b in bits],
        'tuple[int]': tuple(int(b) for b in bits),
        'nd[bool]': np.array(bits, dtype=bool),
        'nd[int64]': np.array(bits, dtype=np.int64),
        'nd[uint8]': np.array(bits, dtype=np.uint8),
        'nd[float64]': np.array(bits, dtype=float),
        'str': s,
        'str spaced': ' '.join(s),
        'str commas': ','.join(s),
        'str tabbed': '\t'.join(s),
        'str newline-terminated': s + '\n',
        'binary_sequence': binary_sequence(np.array(bits, dtype=np.uint8)),
    }
    return out


# --------------------------------------------------------------------------
# E1/E2  encoder position + decoder inverse, exhaustively for len <= 12
# --------------------------------------------------------------------------
def check_encdec(bits, M, cont, name):
    k = M.bit_length() - 1
    exp_cw = ref_encode(bits, M)
    exp_b = np.array(bits[:len(bits) // k * k], dtype=np.uint8)
    cw, e = call(PPM_ENCODER, cont, M)
    tag = f'M={M} b={"".join(map(str, map(int, bits)))!r} as {name}'
    if e is not None:
        report('E1 encoder one ON slot at big-endian position / E3 containers', f'{tag}: PPM_ENCODER raised {e!r}; expected {exp_cw.tolist()}')
        return
    if not isinstance(cw, binary_sequence) or not np.array_equal(np.asarray(cw.data).astype(int), exp_cw):
        report('E1 encoder one ON slot at big-endian position', f'{tag}: got {np.asarray(cw.data).astype(int).tolist()} expected {exp_cw.tolist()}')
        return
    # feed the decoder with the encoder output and with the same container type
    for dn, dc in (('binary_sequence', cw),) if name != 'list[int]' else containers(exp_cw.tolist()).items():
        d, e = call(PPM_DECODER, dc, M)
        if e is not None:
            report('E2 decoder inverts encoder / E3 containers', f'{tag} cw={"".join(map(str, exp_cw))!r}: PPM_DECODER({dn}) raised {e!r}; expected {exp_b.tolist()}')
        elif not np.array_equal(np.asarray(d.data).astype(int), exp_b) or np.asarray(d.data).ndim != 1:
            report('E2 decoder inverts encoder', f'{tag}: PPM_DECODER({dn}) gave {np.asarray(d.data).tolist()} expected {exp_b.tolist()}')


for M in ORDERS:
    for n in range(0, 13):
        for bits in itertools.product((0, 1), repeat=n):
            bits = list(bits)
            if n <= 6 or (n in (7, 8, 12) and sum(bits) in (0, 1, n - 1, n)):
                for name, cont in containers(bits).items():
                    check_encdec(bits, M, cont, name)
            else:
                check_encdec(bits, M, np.array(bits, dtype=bool), 'nd[bool]')

# random long sequences, all containers
rng = np.random.default_rng(12)
for M in ORDERS:
    k = M.bit_length() - 1
    for n in (k * 500, k * 500 + 1, k * 501 - 1, 4097):
        bits = rng.integers(0, 2, n).tolist()
        for name, cont in containers(bits).items():
            check_encdec(bits, M, cont, name)
    # first / last slot, all-zero, all-one symbols
    for bits in ([0] * (k * 7), [1] * (k * 7), ([0] * k + [1] * k) * 5):
        check_encdec(bits, M, bits, 'list[int]')

# inputs are not modified, repeated calls give the same answer
for M in ORDERS:
    b = rng.integers(0, 2, 96).astype(np.uint8)
    b0 = b.copy()
    bs = binary_sequence(b.copy())
    a1 = PPM_ENCODER(b, M).data.copy(); a2 = PPM_ENCODER(bs, M).data.copy(); a3 = PPM_ENCODER(b, M).data
    if not (np.array_equal(b, b0) and np.array_equal(bs.data, b0) and np.array_equal(a1, a2) and np.array_equal(a1, a3)):
        report('E4 purity / repeatability', f'M={M}')

# --------------------------------------------------------------------------
# H  HDD
# --------------------------------------------------------------------------
def check_hdd(pat, M, cont, name, seed):
    pat = np.asarray(pat, dtype=int)
    np.random.seed(seed)
    out, e = call(HDD, cont, M)
    tag = f'M={M} seed={seed} slots={"".join(map(str, pat))!r} as {name}'
    if e is not None:
        report('H1 HDD one ON slot per symbol / containers', f'{tag}: raised {e!r}')
        return
    o = np.asarray(out.data).astype(int)
    if o.shape != pat.shape:
        report('H1 HDD one ON slot per symbol', f'{tag}: shape {o.shape}')
        return
    O = o.reshape(-1, M); P = pat.reshape(-1, M)
    if not np.all(O.sum(1) == 1) or not np.all((o == 0) | (o == 1)):
        report('H1 HDD one ON slot per symbol', f'{tag}: got {o.tolist()}')
    one = P.sum(1) == 1
    if not np.array_equal(O[one], P[one]):
        report('H2 HDD leaves single-ON symbols unchanged', f'{tag}: got {o.tolist()}')
    many = P.sum(1) > 1
    if np.any(O[many] & ~P[many].astype(bool)):
        report('H3 HDD keeps one of the ON slots', f'{tag}: got {o.tolist()}')


for M in (2, 4, 8):
    for n in range(0, 17, M):
        for i, pat in enumerate(itertools.product((0, 1), repeat=n)):
            check_hdd(pat, M, np.array(pat, dtype=bool), 'nd[bool]', seed=(i * 7 + n) % 1000)
    # every container on a sample, several seeds
    for n in (0, M, 2 * M, 16):
        for pat in itertools.islice(itertools.product((0, 1), repeat=n), 0, None, 97 if n > 8 else 1):
            for name, cont in containers(list(pat)).items():
                check_hdd(pat, M, cont, name, seed=len(name))

for M in ORDERS:
    for seed in range(40):
        r = np.random.default_rng(seed)
        p = r.random()
        pat = (r.random(M * 25) < p / M * 2).astype(int)
        name, cont = list(containers(pat.tolist()).items())[seed % 13]
        check_hdd(pat, M, cont, name, seed)
    # identity on valid codewords (every slot position incl. first and last)
    cw = np.eye(M, dtype=int).ravel()
    for name, cont in containers(cw.tolist()).items():
        np.random.seed(1)
        out, e = call(HDD, cont, M)
        if e is not None or not np.array_equal(np.asarray(out.data).astype(int), cw):
            report('H4 HDD identity on codewords', f'M={M} as {name}: {e!r}')
    # input not modified
    a = np.zeros(4 * M, dtype=bool); a0 = a.copy(); bs = binary_sequence(np.ones(2 * M, dtype=int))
    HDD(a, M); HDD(bs, M)
    if not np.array_equal(a, a0) or not np.all(bs.data == 1):
        report('H5 HDD purity', f'M={M}')

# rejections
for M in [-8, -4, -3, -2, -1, 0, 3, 5, 6, 7, 9, 10, 12, 15, 17, 24, 96, 100, 255, 257]:
    for cont in ([0] * 2 * abs(M) if M else [0, 1], '0' * 16, np.zeros(3 * abs(M) + 1, dtype=bool), binary_sequence('0100')):
        out, e = call(HDD, cont, M)
        if not isinstance(e, ValueError):
            report('R1 HDD rejects non power of two with ValueError', f'M={M} input={type(cont).__name__}: {e!r} {out!r}')
for M in ORDERS:
    for n in {1, M - 1, M + 1, 2 * M - 1, 3 * M + M // 2, 16 * M + 1}:
        if n % M == 0:
            continue
        for name, cont in containers([0, 1] * (n // 2) + [1] * (n % 2)).items():
            out, e = call(HDD, cont, M)
            if not isinstance(e, ValueError):
                report('R2 HDD rejects partial symbols with ValueError', f'M={M} len={n} as {name}: {e!r}')

# --------------------------------------------------------------------------
# S  SDD
# --------------------------------------------------------------------------
def check_sdd(x, M, sps, tag, expect=None, noise=None):
    tot = np.asarray(x) if noise is None else np.asarray(x) + np.asarray(noise)
    forms = {'electrical_signal': electrical_signal(x, noise)}
    if noise is None:
        forms.update({'ndarray': np.asarray(x), 'list': list(np.asarray(x).tolist()), 'tuple': tuple(np.asarray(x).tolist())})
    for fname, f in forms.items():
        out, e = call(SDD, f, M)
        if e is not None:
            report('S1 SDD turns ON the slot of largest integrated energy', f'{tag} as {fname}: raised {e!r}')
            continue
        o = np.asarray(out.data).astype(int)
        if np.iscomplexobj(tot) and np.max(np.abs(tot.imag)) > 1e-9 * np.max(np.abs(tot)):   # genuinely complex waveform: energy is |x|^2
            en = np.sum(np.abs(tot.reshape(-1, sps)) ** 2, axis=-1).reshape(-1, M)
        else:                                                # real waveform: the integral of the signal over the slot
            en = np.sum(tot.real.reshape(-1, sps), axis=-1).reshape(-1, M)
        srt = np.sort(en, axis=-1)
        clear = (srt[:, -1] - srt[:, -2]) > 1e-9 * np.max(np.abs(en)) if M > 1 else np.ones(len(en), bool)
        ref = np.zeros_like(en, dtype=int); ref[np.arange(len(en)), en.argmax(-1)] = 1
        O = o.reshape(-1, M)
        if o.size != en.size or not np.all(O.sum(1) == 1):
            report('S1 SDD exactly one ON slot per symbol', f'{tag} as {fname}: {o.tolist()[:32]}')
        elif not np.array_equal(O[clear], ref[clear]):
            report('S1 SDD turns ON the slot of largest integrated energy', f'{tag} as {fname}: {int(np.sum(np.any(O[clear] != ref[clear], axis=1)))} of {len(en)} symbols wrong')
        if expect is not None and not np.array_equal(o, expect):
            report('S2 SDD identity on noiseless waveforms', f'{tag} as {fname}: {int(np.sum(np.any(O != np.asarray(expect).reshape(-1, M), axis=1)))} of {len(en)} symbols changed')


SPS = [1, 2, 3, 4, 5, 7, 8, 15, 16, 17, 32, 64]
for sps in SPS:
    gv(sps=sps, R=1e9)
    for M in ORDERS:
        k = M.bit_length() - 1
        r = np.random.default_rng(sps * 1000 + M)
        nsym = 24 if M <= 16 else 6
        cw = PPM_ENCODER(np.concatenate([r.integers(0, 2, k * nsym), [0] * k, [1] * k, [1] * k, [0] * k]), M).data.astype(int)
        # codeword itself at sps == 1, rectangular waveform otherwise
        check_sdd(np.kron(cw, np.ones(sps)), M, sps, f'sps={sps} M={M} kron', expect=cw)
        check_sdd(np.kron(cw, np.ones(sps, dtype=int)), M, sps, f'sps={sps} M={M} kron int', expect=cw)
        shapes = [('nrz', {}), ('rect', {}), ('rz', {}), ('gaussian', {}), ('gaussian', {'m': 2}), ('gaussian', {'m': 3}),
                  ('gaussian', {'T': max(1, sps // 2)}), ('gaussian', {'c': 1.0}), ('gaussian', {'c': 10.0}), ('gaussian', {'c': 30.0}), ('gaussian', {'c': -10.0})]
        if M > 16:
            shapes = shapes[:4]
        for shape, kw in shapes:
            if shape == 'rz' and sps == 1:
                continue        # an RZ pulse of one sample is identically zero: nothing to decide
            x, e = call(DAC, cw, pulse_shape=shape, **kw)
            tag = f'sps={sps} M={M} DAC {shape} {kw}'
            if e is not None:
                report('S2 SDD identity on noiseless waveforms (waveform cannot be produced)', f'{tag}: DAC raised {e!r}')
                continue
            check_sdd(x.signal, M, sps, tag, expect=cw)
            # with bias and other amplitude
            x2 = DAC(cw, pulse_shape=shape, Vout=3.5, bias=-1.0, **kw)
            check_sdd(x2.signal, M, sps, tag + ' Vout=3.5 bias=-1', expect=cw)
        # noisy real signals: argmax of the integrated signal+noise
        for sig in (0.05, 0.5, 2.0):
            nz = r.normal(0, sig, cw.size * sps)
            check_sdd(np.kron(cw, np.ones(sps)), M, sps, f'sps={sps} M={M} noise sd={sig} (in .noise)', noise=nz)
            check_sdd(np.kron(cw, np.ones(sps)) + nz, M, sps, f'sps={sps} M={M} noise sd={sig} (in signal)')
    # rejections
    for M in [-4, -1, 0, 3, 5, 6, 7, 12, 100]:
        for f in (np.ones(abs(M) * sps * 2 if M else sps), electrical_signal(np.ones(16 * sps)), [1.0] * (8 * sps)):
            out, e = call(SDD, f, M)
            if not isinstance(e, ValueError):
                report('R3 SDD rejects non power of two with ValueError', f'sps={sps} M={M} {type(f).__name__}: {e!r}')
    for M in ORDERS:
        for n in {M * sps - 1, M * sps + 1, M * sps + sps, 2 * M * sps - sps, (M + M // 2) * sps}:
            if n % (M * sps) == 0 or n < 1:
                continue
            for f in (np.ones(n), electrical_signal(np.ones(n)), electrical_signal(np.ones(n), np.zeros(n)), [1.0] * n):
                out, e = call(SDD, f, M)
                if not isinstance(e, ValueError):
                    report('R4 SDD rejects partial symbols with ValueError', f'sps={sps} M={M} len={n} {type(f).__name__}: {e!r}')
gv(sps=16, R=1e9)

if viol:
    print(f'FAIL: {sum(count.values())} violations in {len(count)} clauses')
    for c, n in count.items():
        print(f'  {n:6d}  {c}')
    sys.exit(1)
print('PASS')
sys.exit(0)
