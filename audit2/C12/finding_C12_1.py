# C12: "every bit string of length <= 12 ... all accepted input container types give the same result"
# The empty bit string works as list / tuple / ndarray (and '1' with M=4 truncates to it) but not as str.
import sys; del sys.path[0]
from opticomlib.ppm import PPM_ENCODER, PPM_DECODER, HDD
bad = 0
for f in (PPM_ENCODER, PPM_DECODER, HDD):
    ref = f([], 4).data.tolist()                      # -> [] (empty sequence, no error)
    try:
        got = f('', 4).data.tolist()
    except Exception as e:
        got = repr(e)
    if got != ref:
        bad = 1
        print(f"{f.__name__}('', 4): expected {ref} as for {f.__name__}([], 4), got {got}")
sys.exit(bad)
