# C12: "all accepted input container types give the same result" - str2array documents comma or
# whitespace as separators; in a 0/1 string only ' ' and ',' are removed, tab / newline are not.
import sys; del sys.path[0]
from opticomlib.ppm import PPM_ENCODER, PPM_DECODER, HDD
bad = 0
cw = PPM_ENCODER('01 10', 4).data.tolist()            # [0,1,0,0, 0,0,1,0]
cases = [(PPM_ENCODER, '01\t10', cw), (PPM_ENCODER, '01\n10', cw), (PPM_ENCODER, '0110\n', cw),
         (HDD, '0100\t0010', cw), (PPM_DECODER, '01000010\n', [0, 1, 1, 0])]
for f, arg, exp in cases:
    try:
        got = f(arg, 4).data.tolist()
    except Exception as e:
        got = repr(e)
    if got != exp:
        bad = 1
        print(f'{f.__name__}({arg!r}, 4): expected {exp}, got {got}')
sys.exit(bad)
