# C12: "all sps and pulse shapes for SDD" - at sps = 1 the gaussian waveform of a codeword cannot be
# produced at all (DAC raises), so SDD cannot be the identity on it. sps = 1 is fine for 'nrz'.
import sys, warnings; del sys.path[0]
warnings.simplefilter('ignore')
from opticomlib.typing import gv
from opticomlib.devices import DAC
from opticomlib.ppm import PPM_ENCODER, SDD
gv(sps=1, R=1e9)
cw = PPM_ENCODER('01111000', 4)
assert SDD(DAC(cw, pulse_shape='nrz'), 4) == cw
try:
    out = SDD(DAC(cw, pulse_shape='gaussian'), 4)
except Exception as e:
    print(f'expected SDD(DAC(cw, "gaussian"), 4) == cw = {cw.data.tolist()} at sps=1, got {e!r}')
    sys.exit(1)
sys.exit(0 if out == cw else 1)
