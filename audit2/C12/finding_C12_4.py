# C12: "SDD turns ON exactly the slot of largest integrated energy ... identity on their noiseless
# waveforms ... all sps and pulse shapes". A chirped gaussian pulse (DAC option c) is complex; SDD sums the
# complex samples and np.argmax orders complex numbers by real part, not by energy |x|^2.
import sys, warnings; del sys.path[0]
warnings.simplefilter('ignore')
import numpy as np
from opticomlib.typing import gv
from opticomlib.devices import DAC
from opticomlib.ppm import PPM_ENCODER, SDD
gv(sps=8, R=1e9)
cw = PPM_ENCODER('0111100001', 4)
x = DAC(cw, pulse_shape='gaussian', c=30.0)
energy = np.sum(np.abs(x.signal.reshape(-1, 8))**2, axis=1).reshape(-1, 4).argmax(1)
got = SDD(x, 4).data.reshape(-1, 4).argmax(1)
print('ON slot per symbol  sent:', cw.data.reshape(-1, 4).argmax(1), ' largest energy:', energy, ' SDD:', got)
sys.exit(0 if np.array_equal(got, energy) else 1)
