"""Audit of property C13: analytic BER and receiver-noise formulas.

Prints one line per violated (clause, input); exits 1 if any clause is violated.
"""
import sys, os
_here = os.path.dirname(os.path.abspath(__file__))
if sys.path and os.path.abspath(sys.path[0] or '.') == _here:
    del sys.path[0]

import warnings
warnings.filterwarnings('ignore')
import itertools
import numpy as np
from scipy.integrate import quad
from scipy.special import log_ndtr
from scipy.constants import h as H_PLANCK, k as KB, e as QE, c as C0

import opticomlib
from opticomlib import ook, ppm, utils
from opticomlib.utils import Q
from opticomlib.typing import eye, gv, optical_signal

np.seterr(all='ignore')

VIOL = {}
NOTES = []
MAXLINES = 12          # lines printed per clause


def viol(clause, msg):
    VIOL.setdefault(clause, 0)
    VIOL[clause] += 1
    if VIOL[clause] <= MAXLINES:
        print(f'VIOLATION [{clause}] {msg}')
    elif VIOL[clause] == MAXLINES + 1:
        print(f'VIOLATION [{clause}] ... (further lines suppressed)')


def call(clause, desc, f, *a, **k):
    try:
        return f(*a, **k)
    except Exception as ex:  # loud failures are violations too
        viol(clause, f'{desc}: raised {type(ex).__name__}: {ex}')
        return None


# ---------------------------------------------------------------- references
def cont_min(f, lo, hi):
    """continuous minimiser of f on [lo, hi] (dense grid + two local refinements)."""
    r = np.linspace(lo, hi, 40001)
    v = f(r)
    i = int(np.nanargmin(v))
    for _ in range(2):
        a = r[max(i - 1, 0)]
        b = r[min(i + 1, r.size - 1)]
        r = np.linspace(a, b, 4001)
        v = f(r)
        i = int(np.nanargmin(v))
    return r[i], v[i]


def check_grid(clause, desc, f, lo, hi, npts, val):
    """val must be the minimum of f over thresholds in [lo,hi] up to the npts-grid error and never below it."""
    if val is None:
        return
    val = float(val)
    if not np.isfinite(val):
        viol(clause, f'{desc}: returned {val}')
        return
    rs, fm = cont_min(f, lo, hi)
    hstep = (hi - lo) / (npts - 1)
    up = max(f(np.array([max(rs - hstep, lo)]))[0], f(np.array([min(rs + hstep, hi)]))[0])
    if val < fm * (1 - 1e-9) - 1e-15:
        viol(clause, f'{desc}: {val:.6e} is below the true minimum {fm:.6e}')
    elif val > up * (1 + 1e-9) + 1e-15:
        viol(clause, f'{desc}: {val:.6e} exceeds the minimum {fm:.6e} by more than the grid error (bound {up:.6e})')


def ref_soft(d, s0, s1, M):
    """accurate PPM soft-decision BER (complement integrated directly, step resolved)."""
    if s0 == 0:
        return float(Q(d / s1)) * M / 2 / (M - 1) if M == 2 else None
    f = lambda x: -np.expm1((M - 1) * log_ndtr((d + s1 * x) / s0)) * np.exp(-x * x / 2) / np.sqrt(2 * np.pi)
    x0 = -d / s1
    w = s0 / s1
    pts = sorted(set([-40.0, x0 - 40 * w, x0 - 8 * w, x0, x0 + 8 * w, x0 + 40 * w, -8.0, 0.0, 8.0, 40.0]))
    pts = [p for p in pts if -40 <= p <= 40]
    tot = 0.0
    for a, b in zip(pts[:-1], pts[1:]):
        tot += quad(f, a, b, epsabs=0, epsrel=1e-11, limit=200)[0]
    return tot * M / 2 / (M - 1)


SOFT_RTOL = 1e-3       # generous: scipy.integrate.quad's own default request is 1.5e-8
ABS_FLOOR = 3e-15      # double-precision floor of the "1 - x" formulas: not counted
rng = np.random.default_rng(20240913)

SIG = [(1.0, 1.0), (0.3, 1.0), (1.0, 0.3), (0.1, 1.0), (1.0, 0.1), (0.02, 1.0), (1.0, 0.02), (1e-3, 2e-3), (50.0, 20.0)]
KS = [1e-3, 0.05, 0.5, 1, 2, 3, 4, 5, 5.5, 6, 6.5, 7, 8, 10, 14, 20]      # mu = k*max(s0,s1) in (0, 20 s]
MS = [2, 4, 8, 16, 64, 256]

# ------------------------------------------------------------------ clause A
# ook.theory_BER(mu,s,s) = Q(mu/2s)
for s in [1e-3, 0.1, 1.0, 7.0]:
    for k in KS:
        mu = k * s
        v = call('A ook equal sigmas', f'ook.theory_BER({mu},{s},{s})', ook.theory_BER, mu, s, s)
        if v is None:
            continue
        ex = float(Q(mu / (2 * s)))
        hstep = mu / 999
        up = 0.5 * float(Q((mu / 2 - hstep) / s) + Q((mu / 2 + hstep) / s))
        if not (ex * (1 - 1e-12) - 1e-300 <= float(v) <= up * (1 + 1e-9)):
            viol('A ook equal sigmas', f'ook.theory_BER({mu},{s},{s}) = {float(v):.6e}, Q(mu/2s) = {ex:.6e}')

# ------------------------------------------------------------------ clause B
# ook.theory_BER general = min over thresholds (in [0,mu], the range THRESHOLD_EST is stated to return)
for (s0, s1) in SIG:
    for k in KS:
        mu = k * max(s0, s1)
        v = call('B ook minimum', f'ook.theory_BER({mu},{s0},{s1})', ook.theory_BER, mu, s0, s1)
        f = lambda r: 0.5 * (Q((mu - r) / s1) + Q(r / s0))
        check_grid('B ook minimum', f'ook.theory_BER({mu},{s0},{s1})', f, 0, mu, 1000, v)
        if v is not None:
            # informational: minimum over ALL real thresholds
            rs, fm = cont_min(f, -mu - 8 * max(s0, s1), 2 * mu + 8 * max(s0, s1))
            if float(v) > fm * 1.02 and fm > 1e-3 and len(NOTES) < 3:
                NOTES.append(f'note: ook.theory_BER({mu},{s0},{s1}) = {float(v):.4f} but the unrestricted minimum over thresholds is {fm:.4f} at r = {rs:.4f} (outside [0, mu])')

# ------------------------------------------------------------------ clause C, D, E, F
for (s0, s1) in SIG:
    s = max(s0, s1)
    for M in MS:
        prev_soft = prev_hard = None
        for k in KS:
            mu = k * s
            so = call('C/D ppm soft', f'ppm.theory_BER({mu},{s0},{s1},{M},soft)', ppm.theory_BER, mu, s0, s1, M, 'soft')
            ha = call('D ppm hard', f'ppm.theory_BER({mu},{s0},{s1},{M},hard)', ppm.theory_BER, mu, s0, s1, M, 'hard')
            if so is None or ha is None:
                continue
            so = float(so); ha = float(ha)
            if M == 2:
                ex = float(Q(mu / np.hypot(s0, s1)))
                if abs(so - ex) > SOFT_RTOL * ex + ABS_FLOOR:
                    viol('C soft M=2 closed form', f'ppm.theory_BER(mu={mu:g},s0={s0},s1={s1},M=2,soft) = {so:.6e}, Q(mu/sqrt(s0^2+s1^2)) = {ex:.6e} (rel {abs(so-ex)/ex:.2g})')
            else:
                rf = ref_soft(mu, s0, s1, M)
                if abs(so - rf) > SOFT_RTOL * rf + ABS_FLOOR:
                    viol('C soft integral', f'ppm.theory_BER(mu={mu:g},s0={s0},s1={s1},M={M},soft) = {so:.6e}, accurate integral = {rf:.6e} (rel {abs(so-rf)/rf:.2g})')
            if so > ha * (1 + 1e-9) + ABS_FLOOR:
                viol('D soft <= hard', f'mu={mu:g},s0={s0},s1={s1},M={M}: soft {so:.6e} > hard {ha:.6e}')
            bound = M / (2 * (M - 1))
            for nm, val in (('soft', so), ('hard', ha)):
                if not (val <= bound * (1 + 1e-12)) or val < -ABS_FLOOR or not np.isfinite(val):
                    viol('F bound', f'ppm {nm} mu={mu:g},s0={s0},s1={s1},M={M}: {val!r} outside [0, {bound}]')
            f = lambda r: (1 - Q((r - mu) / s1) * (1 - Q(r / s0)) ** (M - 1)) * 0.5 * M / (M - 1)
            check_grid('B ppm hard minimum', f'ppm.theory_BER({mu:g},{s0},{s1},{M},hard)', f, 0, mu, 1000, ha)
            if prev_soft is not None and so > prev_soft * (1 + 1e-9) + ABS_FLOOR:
                viol('E monotone in mu', f'soft s0={s0},s1={s1},M={M}: BER rises {prev_soft:.6e} -> {so:.6e} at mu={mu:g}')
            if prev_hard is not None and ha > prev_hard * (1 + 1e-9) + ABS_FLOOR:
                viol('E monotone in mu', f'hard s0={s0},s1={s1},M={M}: BER rises {prev_hard:.6e} -> {ha:.6e} at mu={mu:g}')
            prev_soft, prev_hard = so, ha

# fine monotonicity sweeps (vectorised call)
for (s0, s1, M) in [(1, 1, 2), (0.05, 1, 4), (0.1, 1, 2), (1, 0.1, 16), (0.02, 1, 256), (0.3, 1, 8)]:
    mu = np.linspace(0.05, 20 * max(s0, s1), 600)
    for dec in ('soft', 'hard'):
        v = call('E monotone in mu', f'ppm.theory_BER(sweep,{s0},{s1},{M},{dec})', ppm.theory_BER, mu, s0, s1, M, dec)
        if v is None:
            continue
        bad = np.where(v[1:] > v[:-1] * (1 + 1e-9) + ABS_FLOOR)[0]
        for i in bad[:3]:
            viol('E monotone in mu', f'ppm.theory_BER {dec} s0={s0},s1={s1},M={M}: {v[i]:.6e} at mu={mu[i]:.5g} -> {v[i+1]:.6e} at mu={mu[i+1]:.5g}')
    if M == 2:
        v = call('E monotone in mu', 'ook sweep', ook.theory_BER, mu, s0, s1)
        if v is not None:
            bad = np.where(v[1:] > v[:-1] * (1 + 1e-9) + ABS_FLOOR)[0]
            for i in bad[:3]:
                viol('E monotone in mu', f'ook.theory_BER s0={s0},s1={s1}: {v[i]:.6e} -> {v[i+1]:.6e} at mu={mu[i+1]:.5g}')
            if np.any(v > 0.5 * (1 + 1e-12)):
                viol('F bound', f'ook.theory_BER > 1/2 for s0={s0},s1={s1}')

# random samples in the quantified domain
for _ in range(150):
    s0 = 10 ** rng.uniform(-3, 1); s1 = s0 * 10 ** rng.uniform(-2, 2); s = max(s0, s1)
    mu = rng.uniform(0.01, 20) * s
    M = int(2 ** rng.integers(1, 9))
    so = float(ppm.theory_BER(mu, s0, s1, M, 'soft')); ha = float(ppm.theory_BER(mu, s0, s1, M, 'hard'))
    rf = ref_soft(mu, s0, s1, M)
    if abs(so - rf) > SOFT_RTOL * rf + ABS_FLOOR:
        viol('C soft integral', f'random: ppm.theory_BER(mu={mu:.6g},s0={s0:.6g},s1={s1:.6g},M={M},soft) = {so:.6e}, accurate = {rf:.6e}')
    if so > ha * (1 + 1e-9) + ABS_FLOOR:
        viol('D soft <= hard', f'random: mu={mu:.6g},s0={s0:.6g},s1={s1:.6g},M={M}: soft {so:.6e} > hard {ha:.6e}')

# ------------------------------------------------------------------ clause G: element-wise vectorisation
mu_a = np.array([[0.5, 1.0, 3.0], [4.0, 6.0, 9.0]])
s0_a = np.array([0.5, 1.0, 0.2])
for name, fn, extra in (('ook', ook.theory_BER, ()), ('ppm soft', ppm.theory_BER, (8, 'soft')), ('ppm hard', ppm.theory_BER, (8, 'hard'))):
    v = call('G vectorise', f'{name} broadcast', fn, mu_a, s0_a, 0.7, *extra)
    if v is not None:
        if np.shape(v) != (2, 3):
            viol('G vectorise', f'{name}: shape {np.shape(v)} != (2,3)')
        else:
            for i in range(2):
                for j in range(3):
                    w = float(fn(float(mu_a[i, j]), float(s0_a[j]), 0.7, *extra))
                    if w != v[i, j]:
                        viol('G vectorise', f'{name}: element ({i},{j}) {v[i,j]!r} != scalar call {w!r}')
    for cont in (list, tuple):
        v2 = call('G vectorise', f'{name} {cont.__name__} input', fn, cont([1.0, 2.0, 3.0]), 0.5, 0.5, *extra)
        if v2 is not None and np.shape(v2) != (3,):
            viol('G vectorise', f'{name} {cont.__name__}: shape {np.shape(v2)}')
    v3 = call('G vectorise', f'{name} int inputs', fn, np.array([1, 2, 3]), 1, 1, *extra)
    if v3 is not None:
        w = fn(np.array([1.0, 2.0, 3.0]), 1.0, 1.0, *extra)
        if not np.array_equal(v3, w):
            viol('G vectorise', f'{name}: integer inputs {v3} != float inputs {w}')
    v4 = call('G vectorise', f'{name} length-1 array', fn, np.array([2.0]), 1.0, 1.0, *extra)
    if v4 is not None and np.shape(v4) != (1,):
        viol('G vectorise', f'{name}: length-1 array gave shape {np.shape(v4)}')

# ------------------------------------------------------------------ clause H: estimator modes
for (s0, s1) in SIG[:7]:
    for k in [0.5, 2, 5, 6, 9]:
        d = k * max(s0, s1)
        for mu0 in [0.0, 0.37, -2.0, 25.0]:
            e_ = eye(mu0=mu0, mu1=mu0 + d, s0=s0, s1=s1)
            v = call('H ook estimator', f'eye(mu0={mu0},d={d},{s0},{s1})', ook.BER_analizer, 'estimator', eye_obj=e_)
            t = float(ook.theory_BER(d, s0, s1))
            if v is not None and abs(float(v) - t) > 1e-6 * t + ABS_FLOOR:
                viol('H ook estimator', f'BER_analizer(mu0={mu0},mu1={mu0+d},{s0},{s1}) = {float(v):.6e} != theory_BER(mu1-mu0) = {t:.6e}')
            th = call('I ook threshold', 'THRESHOLD_EST', ook.THRESHOLD_EST, e_)
            if th is not None:
                if not (mu0 <= th <= mu0 + d):
                    viol('I ook threshold', f'THRESHOLD_EST {th} outside [{mu0},{mu0+d}]')
                if s0 == s1 and abs(th - (mu0 + d / 2)) > d / 999 * 0.51 + 1e-12 * abs(mu0):
                    viol('I ook threshold', f'equal sigmas: threshold {th} is not the midpoint {mu0+d/2} (within half a grid step)')
                fth = 0.5 * float(Q((mu0 + d - th) / s1) + Q((th - mu0) / s0))
                if abs(fth - t) > 1e-6 * t + ABS_FLOOR:
                    viol('I ook threshold', f'THRESHOLD_EST(mu0={mu0},d={d},{s0},{s1}) = {th} does not attain theory_BER {t:.6e} (gives {fth:.6e})')
            for M in [2, 4, 256]:
                for dec, spell in (('hard', 'hard'), ('soft', 'soft'), ('hard', 'Hard'), ('soft', 'SOFT')):
                    v = call('H ppm estimator', f'BER_analizer(estimator, M={M}, decision={spell})', ppm.BER_analizer, 'estimator', eye_obj=e_, M=M, decision=spell)
                    t = float(ppm.theory_BER(d, s0, s1, M, dec))
                    if v is not None and abs(float(v) - t) > 1e-6 * t + ABS_FLOOR:
                        viol('H ppm estimator', f'BER_analizer(mu0={mu0},d={d},{s0},{s1},M={M},{spell}) = {float(v):.6e} != theory_BER = {t:.6e}')
                    if v is not None and dec == 'soft' and mu0 == 0.0:
                        rf = ref_soft(d, s0, s1, M)
                        if abs(float(v) - rf) > SOFT_RTOL * rf + ABS_FLOOR:
                            viol('H ppm estimator', f'soft estimator d={d:g},s0={s0},s1={s1},M={M}: {float(v):.6e}, accurate integral {rf:.6e}')
                th = call('I ppm threshold', 'ppm.THRESHOLD_EST', ppm.THRESHOLD_EST, e_, M)
                if th is not None and not (mu0 <= th <= mu0 + d):
                    viol('I ppm threshold', f'ppm.THRESHOLD_EST {th} outside [{mu0},{mu0+d}]')

# option spellings of the sibling functions (reported, decision spelling of theory_BER)
for spell in ('Soft', 'HARD'):
    try:
        ppm.theory_BER(3.0, 1.0, 1.0, 4, spell)
    except Exception as ex:
        viol('H option spelling', f"ppm.theory_BER(decision={spell!r}) raised {type(ex).__name__} although ppm.BER_analizer/ppm.DSP/utils.theory_BER accept it")
for spell in ('Estimator', 'ESTIMATOR'):
    try:
        ook.BER_analizer(spell, eye_obj=eye(mu0=0.0, mu1=1.0, s0=0.1, s1=0.1))
    except Exception as ex:
        viol('H option spelling', f"ook.BER_analizer(mode={spell!r}) raised {type(ex).__name__} although ppm.BER_analizer accepts it")

# ------------------------------------------------------------------ clause J: optimum_threshold
def gauss(r, m, S):
    return np.exp(-(r - m) ** 2 / (2 * S)) / np.sqrt(2 * np.pi * S)

for (s0, s1) in SIG:
    for M in [None, 2, 4, 64, 256]:
        mod = 'ook' if M is None else 'ppm'
        Mi = 2 if M is None else M
        for k in [6, 8, 12, 20]:
            d = k * max(s0, s1)
            for mu0 in [0.0, 1.5, -3.0]:
                for conv in (float, np.float64):
                    th = call('J optimum_threshold', f'optimum_threshold({mu0},{mu0+d},{s0**2},{s1**2},{mod},{M})',
                              utils.optimum_threshold, conv(mu0), conv(mu0 + d), conv(s0 ** 2), conv(s1 ** 2), mod, M)
                    if th is None:
                        continue
                    th = float(th)
                    # expected root inside [mu0, mu1]?
                    lhs = lambda r: np.log(Mi - 1) + np.log(gauss(r, mu0, s0 ** 2)) if Mi > 1 else None
                    if not np.isfinite(th):
                        viol('J optimum_threshold', f'({mu0},{mu0+d},S0={s0**2},S1={s1**2},{mod},{M}) -> {th}')
                        continue
                    r0 = (th - mu0); r1 = (th - mu0 - d)
                    res = (np.log(Mi - 1) - 0.5 * np.log(s0 ** 2) - r0 ** 2 / (2 * s0 ** 2)) - (-0.5 * np.log(s1 ** 2) - r1 ** 2 / (2 * s1 ** 2))
                    if abs(res) > 1e-6 * (1 + r0 ** 2 / (2 * s0 ** 2)):
                        viol('J optimum_threshold', f'({mu0},{mu0+d},S0={s0**2},S1={s1**2},{mod},{M}) = {th}: log-density residual {res:.3g}')
                    if k >= 8 and not (mu0 <= th <= mu0 + d):
                        viol('J optimum_threshold', f'({mu0},{mu0+d},S0={s0**2},S1={s1**2},{mod},{M}) = {th} outside [mu0,mu1]')
                    if s0 == s1 and Mi == 2 and abs(th - (mu0 + d / 2)) > 1e-12 * (abs(mu0) + d):
                        viol('J optimum_threshold', f'equal variances: {th} != midpoint {mu0+d/2}')
                    if mu0 == 0.0:
                        base = th
                    elif abs((th - mu0) - base) > 1e-9 * d:
                        viol('J optimum_threshold', f'depends on mu0: {th-mu0} vs {base}')
# integer arguments
th = call('J optimum_threshold', 'int arguments', utils.optimum_threshold, 0, 10, 1, 1, 'OOK')
if th is not None and abs(float(th) - 5) > 1e-12:
    viol('J optimum_threshold', f'optimum_threshold(0,10,1,1,"OOK") = {th} != 5')

# ------------------------------------------------------------------ clause K, L: receiver model
def model(P, mod, M, ER, amplify, G, NF, BWo, r, BWe, RL, T, NFe, wl=1550e-9):
    Mi = 2 if mod == 'ook' else M
    er = np.inf if np.isinf(ER) else 10 ** (ER / 10)
    p = 10 ** (P / 10 - 3)
    pon = p * Mi / (1 + (Mi - 1) / er)
    poff = pon / er
    if amplify:
        g = 10 ** (G / 10); pase = 10 ** (NF / 10) * H_PLANCK * (C0 / wl) * (g - 1) * BWo; l = BWe / BWo
    else:
        g = 1; pase = 0; l = 1
    muA = r * pase * RL
    mu = r * g * np.array([poff, pon]) * RL + muA
    S = 4 * KB * T * BWe * RL * 10 ** (NFe / 10) + 2 * QE * mu * BWe * RL + 2 * muA * (mu - muA) * l + muA ** 2 * (1 - l / 2) * l
    return mu, muA, S, pase

F0 = C0 / 1550e-9
cases = []
for amplify in (False, True):
    Gs = [0, 20, 40] if amplify else [None]
    for G in Gs:
        for NF, BWo in ([(3, 5.01e9), (5, 10e9), (10, 1e12)] if amplify else [(None, None)]):
            for ER in (3, 10, np.inf):
                for (r, RL, T, NFe) in [(1.0, 50, 300, 0), (1.0, 50, 0, 0), (0.05, 10, 400, 10), (0.5, 1e4, 0, 3), (1.0, 1e4, 300, 0)]:
                    cases.append((amplify, G, NF, BWo, ER, r, RL, T, NFe))
for _ in range(40):
    amplify = bool(rng.integers(0, 2))
    BWe = 5e9
    cases.append((amplify, rng.uniform(0, 40) if amplify else None, rng.uniform(3, 10) if amplify else None,
                  BWe * 10 ** rng.uniform(0.01, 2.5) if amplify else None, rng.choice([3.0, 6.0, 13.0, 30.0, np.inf]),
                  rng.uniform(0.01, 1), 10 ** rng.uniform(1, 4), rng.uniform(0, 400), rng.uniform(0, 10)))

PGRID = np.array([-50, -45, -40, -37.5, -35, -32.5, -30, -27.5, -25, -22.5, -20, -15, -10, -5, 0.0])
BWe = 5e9
for (amplify, G, NF, BWo, ER, r, RL, T, NFe) in cases:
    desc0 = f'amplify={amplify},G={G},NF={NF},BW_opt={BWo},ER={ER},r={r:.4g},R_L={RL:.4g},T={T:.4g},NF_el={NFe:.4g}'
    for mod, M, dec in (('ook', None, None), ('ppm', 4, 'hard'), ('ppm', 4, 'soft'), ('ppm', 256, 'soft'), ('PPM', 16, 'Hard')):
        kw = dict(ER=ER, amplify=amplify, G=G, NF=NF, BW_opt=BWo, r=r, R_L=RL)
        mus = call('K model', f'average_voltages {desc0}', utils.average_voltages, PGRID, mod, M, **kw)
        Ss = call('K model', f'noise_variances {desc0}', utils.noise_variances, PGRID, mod, M, BW_el=BWe, T=T, NF_el=NFe, **kw)
        ber = call('K theory_BER', f'theory_BER {mod},{M},{dec},{desc0}', utils.theory_BER, PGRID, mod, M=M, decision=dec,
                   ER=ER, amplify=amplify, f0=F0, G=G, NF=NF, BW_opt=BWo, r=r, BW_el=BWe, R_L=RL, T=T, NF_el=NFe)
        if mus is None or Ss is None or ber is None:
            continue
        mu_arr, muA = mus
        Mi = 2 if mod.lower() == 'ook' else M
        if np.shape(ber) != PGRID.shape:
            viol('K theory_BER', f'shape {np.shape(ber)}')
            continue
        for i, P in enumerate(PGRID):
            rmu, rmuA, rS, rp = model(P, mod.lower(), M, ER, amplify, G, NF, BWo, r, BWe, RL, T, NFe)
            d_ = f'P={P},{mod},M={M},{dec},{desc0}'
            if not np.allclose(mu_arr[:, i], rmu, rtol=1e-9, atol=0) or not np.isclose(muA, rmuA, rtol=1e-9, atol=0):
                viol('K model', f'average_voltages {d_}: {mu_arr[:, i]} != {rmu}')
            if not np.allclose(Ss[:, i], rS, rtol=1e-9, atol=0):
                viol('K model', f'noise_variances {d_}: {Ss[:, i]} != {rS}')
            b = float(ber[i])
            if not np.isfinite(b):
                viol('K theory_BER finite', f'theory_BER({d_}) = {b} (levels {rmu}, sigmas {np.sqrt(rS)})')
                continue
            m0, m1 = rmu; s0, s1 = np.sqrt(rS)
            if s0 == 0:
                continue
            if mod.lower() == 'ook':
                f = lambda x: 0.5 * (Q((m1 - x) / s1) + Q((x - m0) / s0))
                check_grid('K theory_BER ook', d_, f, m0, m1, 5000, b)
            elif dec.lower() == 'hard':
                f = lambda x: (1 - Q((x - m1) / s1) * (1 - Q((x - m0) / s0)) ** (Mi - 1)) * Mi / 2 / (Mi - 1)
                check_grid('K theory_BER ppm hard', d_, f, m0, m1, 5000, b)
            else:
                rf = ref_soft(m1 - m0, s0, s1, Mi)
                if abs(b - rf) > SOFT_RTOL * rf + ABS_FLOOR:
                    viol('K theory_BER ppm soft', f'theory_BER({d_}) = {b:.6e}, integral on the model levels/variances = {rf:.6e} (rel {abs(b-rf)/rf:.2g}, s1/s0 = {s1/s0:.3g})')
        fin = np.isfinite(ber)
        bb = np.asarray(ber, float)
        for i in range(1, len(PGRID)):
            if fin[i] and fin[i - 1] and bb[i] > bb[i - 1] * (1 + 1e-9) + ABS_FLOOR:
                viol('L monotone in power', f'{mod},M={M},{dec},{desc0}: BER rises {bb[i-1]:.6e} -> {bb[i]:.6e} at P={PGRID[i]}')

# p_ase closed form and container types
for G, NF, BWo in [(0, 3, 6e9), (20, 5, 50e9), (40, 10, 1e12), (np.float64(17.5), 4, 12.5e9), (30, np.array(5.0), 50e9)]:
    v = call('K p_ase', f'p_ase({G},{NF},{BWo})', utils.p_ase, True, 1550e-9, G, NF, BWo)
    ex = 10 ** (float(NF) / 10) * H_PLANCK * F0 * (10 ** (float(G) / 10) - 1) * BWo
    if v is not None and not np.isclose(float(v), ex, rtol=1e-12, atol=0):
        viol('K p_ase', f'p_ase(G={G},NF={NF},BW={BWo}) = {v} != {ex}')
if call('K p_ase', 'p_ase(False)', utils.p_ase, False) != 0:
    viol('K p_ase', 'p_ase(amplify=False) != 0')

# scalar / list / integer P_avg
for Pin in (-30, -30.0, np.float64(-30), [-30, -29], (-30.0,), np.array([-30])):
    a = call('K theory_BER containers', f'theory_BER({Pin!r})', utils.theory_BER, Pin, 'ook')
    b = float(utils.theory_BER(-30.0, 'ook'))
    if a is not None and not np.isclose(np.ravel(a)[0], b, rtol=1e-12):
        viol('K theory_BER containers', f'theory_BER({Pin!r}) = {a} != {b}')

# fine power sweep of an amplified receiver, soft decision (dense monotonicity + accuracy)
kw = dict(G=40, NF=5, BW_opt=10e9)
P = np.arange(-50, -38, 0.05)
for M in (2, 4):
    so = utils.theory_BER(P, 'ppm', M=M, decision='soft', amplify=True, f0=F0, **kw)
    bad = np.where(so[1:] > so[:-1] * (1 + 1e-9) + ABS_FLOOR)[0]
    for i in bad[:4]:
        viol('L monotone in power', f'ppm soft M={M}, amplify, G=40,NF=5,BW_opt=10e9: BER rises {so[i]:.6e} (P={P[i]:.2f}) -> {so[i+1]:.6e} (P={P[i+1]:.2f})')

# ------------------------------------------------------------------ clause M: device noise powers (statistical, loose)
# filtfilt'ed 4th-order Bessel filters have a noise-equivalent bandwidth of ~0.75 BW: accept [0.6, 1.1]
try:
    from opticomlib.devices import PD, EDFA
    for seed in (1, 2, 3):
        np.random.seed(seed)
        gv(sps=16, R=10e9, N=2 ** 13)
        n = gv.t.size
        B = 5e9
        Pw = 1e-5
        x = optical_signal(np.sqrt(Pw) * np.ones(n))
        for T, RL, Fn, r in [(300, 50, 0, 1.0), (400, 1e4, 3, 0.5), (0, 10, 0, 1.0)]:
            y = PD(x, BW=B, r=r, T=T, R_load=RL, Fn=Fn, i_dark=0, include_noise='thermal-only')
            th = 4 * KB * T * B * RL * 10 ** (Fn / 10)
            got = np.var(y.noise[300:-300])
            if (th == 0 and got != 0) or (th > 0 and not 0.6 < got / th < 1.1):
                viol('M PD thermal', f'seed {seed}, T={T},R_L={RL},Fn={Fn}: var {got:.4e} vs 4kTB R_L Fn {th:.4e}')
            y = PD(x, BW=B, r=r, T=T, R_load=RL, Fn=Fn, i_dark=0, include_noise='shot-only')
            sh = 2 * QE * (r * Pw * RL) * B * RL
            got = np.var(y.noise[300:-300])
            if not 0.6 < got / sh < 1.1:
                viol('M PD shot', f'seed {seed}, r={r},R_L={RL}: var {got:.4e} vs 2 e mu B R_L {sh:.4e}')
        x = optical_signal(np.sqrt(1e-6) * np.ones(n))
        for G, NF, BW in [(20, 5, 40e9), (40, 3, 20e9)]:
            y = EDFA(x, G, NF, BW)
            pa = utils.p_ase(True, gv.wavelength, G, NF, BW)
            got = y.power('noise').sum()
            if not 0.6 < got / pa < 1.1:
                viol('M EDFA ase', f'seed {seed}, G={G},NF={NF},BW={BW}: ASE power {got:.4e} vs p_ase {pa:.4e}')
            z = PD(y, BW=B, include_noise='ase-only', i_dark=0)
            tot = (z.signal + z.noise)[300:-300]
            Pdbm = 10 * np.log10(1e-6 / 2 * 1e3)   # OOK, ER=inf: ON power = 2 P_avg
            mu, _ = utils.average_voltages(Pdbm, 'ook', ER=np.inf, G=G, NF=NF, BW_opt=BW, wavelength=gv.wavelength)
            S = utils.noise_variances(Pdbm, 'ook', ER=np.inf, G=G, NF=NF, BW_opt=BW, wavelength=gv.wavelength, BW_el=B, T=0)
            S_noshot = S[1] - 2 * QE * mu[1] * B * 50
            if not 0.9 < tot.mean() / mu[1] < 1.02:
                viol('M beat noise', f'seed {seed}, G={G}: mean {tot.mean():.4e} vs mu_ON {mu[1]:.4e}')
            if not 0.5 < tot.var() / S_noshot < 1.1:
                viol('M beat noise', f'seed {seed}, G={G}: var {tot.var():.4e} vs sig-ase + ase-ase {S_noshot:.4e}')
except Exception as ex:
    viol('M devices', f'raised {type(ex).__name__}: {ex}')

# ------------------------------------------------------------------ summary
for nline in NOTES:
    print(nline)
if VIOL:
    print('---- violated clauses:')
    for kname, cnt in VIOL.items():
        print(f'  {kname}: {cnt} input(s)')
    sys.exit(1)
print('PASS')
sys.exit(0)
