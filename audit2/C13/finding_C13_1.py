# C13: ppm soft-decision BER is computed as 1 - quad(...) with quad's default absolute tolerance (1.5e-8):
# for s1 >> s0 the result is wrong by tens of percent at BER 1e-8..1e-13, exceeds the hard-decision BER and rises with mu.
import sys
del sys.path[0]   # the script's own directory; opticomlib comes from PYTHONPATH
import numpy as np
from opticomlib import ppm, utils
from opticomlib.utils import Q
bad = 0
v, ex = float(ppm.theory_BER(6.0, 0.02, 1.0, 2, 'soft')), float(Q(6.0/np.hypot(0.02, 1.0)))
print(f'M=2 soft: expected Q(mu/sqrt(s0^2+s1^2)) = {ex:.6e}, got {v:.6e} (rel. error {abs(v-ex)/ex:.2f})'); bad += abs(v-ex) > 1e-3*ex
so, ha = float(ppm.theory_BER(6.5, 0.02, 1.0, 8, 'soft')), float(ppm.theory_BER(6.5, 0.02, 1.0, 8, 'hard'))
print(f'M=8: expected soft <= hard, got soft {so:.6e} > hard {ha:.6e}'); bad += so > ha
a, b = (float(ppm.theory_BER(m, 0.05, 1.0, 4, 'soft')) for m in (5.26, 5.28))
print(f'M=4: expected non-increasing in mu, got {a:.6e} at mu=5.26 -> {b:.6e} at mu=5.28'); bad += b > a
kw = dict(modulation='ppm', M=2, decision='soft', amplify=True, G=40, NF=5, BW_opt=10e9)
p, q = (float(utils.theory_BER(P, **kw)) for P in (-42.35, -42.30))
print(f'utils.theory_BER (EDFA G=40 dB, NF=5 dB, BW_opt=10 GHz): expected decreasing with power, got {p:.6e} at -42.35 dBm -> {q:.6e} at -42.30 dBm'); bad += q > p
sys.exit(1 if bad else 0)
