# C13: utils.theory_BER returns nan for a noise-free OFF level (T = 0, ER = inf, no ASE): the threshold grid starts
# exactly at mu_OFF, (x-mu_OFF)/s0 = 0/0 = nan there, and ndarray.min() propagates it.
import sys
del sys.path[0]   # the script's own directory; opticomlib comes from PYTHONPATH
import numpy as np
from opticomlib import utils
from opticomlib.utils import Q
mu, _ = utils.average_voltages(-50.0, 'ook', amplify=False)
S = utils.noise_variances(-50.0, 'ook', amplify=False, T=0)
expected = 0.5*float(Q((mu[1]-mu[0])/S[1]**0.5))      # infimum of the error integral: threshold just above the OFF level
bad = 0
for kw in (dict(modulation='ook'), dict(modulation='ppm', M=4, decision='hard'), dict(modulation='ook', amplify=True, G=0, NF=5, BW_opt=10e9)):
    got = float(utils.theory_BER(-50.0, T=0, **kw))
    print(f'theory_BER(-50 dBm, T=0, ER=inf, {kw}): expected a finite BER (ook: ~{expected:.3e}), got {got}')
    bad += not np.isfinite(got)
print('for comparison T=1e-9 K:', float(utils.theory_BER(-50.0, 'ook', T=1e-9)))
sys.exit(1 if bad else 0)
