# C13 (minor, loud): option spellings honoured by the sibling functions are refused.
import sys
del sys.path[0]   # the script's own directory; opticomlib comes from PYTHONPATH
from opticomlib import ppm, ook, utils
from opticomlib.typing import eye
e = eye(mu0=0.0, mu1=1.0, s0=0.1, s1=0.1)
print('accepted:', float(ppm.BER_analizer('Estimator', eye_obj=e, M=4, decision='Soft')), float(utils.theory_BER(-30, 'PPM', M=4, decision='Soft')))
bad = 0
for desc, f in (("ppm.theory_BER(1, .1, .1, 4, 'Soft')", lambda: ppm.theory_BER(1, .1, .1, 4, 'Soft')),
                ("ook.BER_analizer('Estimator', eye_obj=e)", lambda: ook.BER_analizer('Estimator', eye_obj=e))):
    try:
        print(desc, '=', float(f()))
    except Exception as ex:
        print(f'{desc}: expected the same value as the lower-case spelling, got {type(ex).__name__}: {ex}'); bad += 1
sys.exit(1 if bad else 0)
