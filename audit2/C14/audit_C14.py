"""Audit of property C14: global grid consistency over any call history; devices pure and seedable."""
import sys, os
if sys.path and os.path.abspath(sys.path[0] or '.') == os.path.dirname(os.path.abspath(__file__)):
    del sys.path[0]

import copy, itertools, signal as _sig, warnings, io, contextlib
import numpy as np
from numpy.fft import fftshift, fftfreq
from scipy.constants import c, pi

warnings.simplefilter('ignore')

import opticomlib
from opticomlib import gv
from opticomlib.typing import global_variables, electrical_signal, optical_signal, binary_sequence, eye
from opticomlib import devices as dv, ook, ppm, utils
from opticomlib import lab

VIOL = []
def viol(clause, what):
    line = f'VIOLATION [{clause}] {what}'
    if line not in VIOL:
        VIOL.append(line)
        print(line, flush=True)

class Timeout(Exception): pass
def _alarm(*a): raise Timeout()
_sig.signal(_sig.SIGALRM, _alarm)

# ----------------------------------------------------------------------------------------------
# Part A : gv
# ----------------------------------------------------------------------------------------------
RESERVED = ['sps', 'R', 'fs', 'dt', 'wavelength', 'f0', 'N', 't', 'w', 'dw']

def check_grid(tag, customs):
    g = gv
    if not isinstance(g.sps, (int, np.integer)) or isinstance(g.sps, bool):
        viol('A1 sps integer', f'{tag}: sps={g.sps!r} ({type(g.sps).__name__})')
    if not np.isclose(g.fs, g.R*g.sps, rtol=1e-12, atol=0):
        viol('A1 fs=R*sps', f'{tag}: fs={g.fs!r} R={g.R!r} sps={g.sps!r}')
    if g.dt != 1/g.fs:
        viol('A2 dt=1/fs', f'{tag}: dt={g.dt!r} 1/fs={1/g.fs!r}')
    if g.f0 != c/g.wavelength:
        viol('A3 f0=c/wavelength', f'{tag}: f0={g.f0!r} c/wavelength={c/g.wavelength!r}')
    if g.N is not None:
        n = g.N*g.sps
        if not (isinstance(g.t, np.ndarray) and isinstance(g.w, np.ndarray) and g.t.shape == (n,) and g.w.shape == (n,)):
            viol('A4 t,w have N*sps points', f'{tag}: N={g.N} sps={g.sps} t={np.shape(g.t)} w={np.shape(g.w)}')
        else:
            if g.dw != 2*pi*g.fs/n:
                viol('A4 dw', f'{tag}: dw={g.dw!r} expected {2*pi*g.fs/n!r}')
            if not np.array_equal(g.w, 2*pi*fftshift(fftfreq(n))*g.fs):
                viol('A4 w on current fs', f'{tag}: w differs from 2 pi fftshift(fftfreq(n)) fs')
            if n > 1 and not np.allclose(np.diff(g.w), g.dw, rtol=1e-9):
                viol('A4 w spacing = dw', f'{tag}')
            if not np.array_equal(g.t, np.linspace(0, n*g.dt, n, endpoint=True)):
                viol('A4 t on current fs', f'{tag}: t differs from the grid of the current dt')
    else:
        if g.t is not None or g.w is not None or g.dw is not None:
            viol('A4 no N -> no t,w,dw', f'{tag}')
    for k, v in customs.items():
        if not hasattr(g, k):
            viol('A5 custom persists', f'{tag}: custom attribute {k!r} vanished before clean()')
        else:
            cur = getattr(g, k)
            same = (cur is v) or (not isinstance(v, np.ndarray) and not isinstance(cur, np.ndarray) and cur == v)
            if not same:
                viol('A5 custom persists', f'{tag}: custom attribute {k!r} set to {v!r} now reads {cur!r}')

def check_clean(tag):
    try:
        gv.clean()
    except Exception as ex:
        viol('A6 clean restores defaults', f'{tag}: gv.clean() raised {type(ex).__name__}: {ex}')
        # repair by hand so that the audit can continue
        for k in list(vars(gv)):
            if k not in RESERVED:
                delattr(gv, k)
        global_variables.clean(gv)
    ref = vars(global_variables())
    cur = vars(gv)
    if set(ref) != set(cur):
        viol('A6 clean restores defaults', f'{tag}: attributes after clean {sorted(set(cur) ^ set(ref))} differ from a fresh object')
    for k in ref:
        if k in cur and not (cur[k] is ref[k] or cur[k] == ref[k]):
            viol('A6 clean restores defaults', f'{tag}: {k}={cur[k]!r} default {ref[k]!r}')
    for name in ('clean', 'print', '__call__', '__str__'):
        if not callable(getattr(gv, name)):
            viol('A6 clean restores defaults', f'{tag}: gv.{name} is no longer a method')

def gv_sequences():
    rng = np.random.default_rng(14)
    Rs = [1e9, 2.5e9, 10e9, 1, 3, 1e3, 12.5e9, 622.08e6, 10**9, 7]
    spss = [1, 2, 3, 4, 7, 8, 16, 17, 32, 64, 128, np.int64(8), np.int32(5), 16.0]
    Ns = [1, 2, 3, 5, 10, 128, np.int64(4)]
    wls = [1550e-9, 1310e-9, 850e-9, 1.55e-6, 1]
    custom_pool = {
        'alpha': 0.5, 'Vpi': 5, 'G': 20.0, 'name': 'link', 'fun': np.sin, 'cls': dict, 'sig': electrical_signal([1, 2]),
        'arr': np.arange(3), 'none': None, 'flag': False, 'zero': 0, 'lst': [1, 2], '_priv': 1, 'T': 300, 'BW': 5e9, 'M': 4,
        'sps_': 3, 'Fs': 1.0, 'n': 2, 'lam': lambda x: x,
    }
    calls = []
    # systematic: every subset of {sps, R, fs, wavelength, N, custom}
    for subset in itertools.chain.from_iterable(itertools.combinations(['sps', 'R', 'fs', 'wavelength', 'N', 'custom'], r) for r in range(7)):
        calls.append(subset)
    seqs = []
    # every pair of subsets in sequence (with and without clean between), fixed commensurate numbers
    for a in calls:
        for b in calls:
            seqs.append([a, b])
            seqs.append([a, 'clean', b])
    # random longer sequences
    for _ in range(400):
        L = rng.integers(1, 9)
        s = []
        for _ in range(L):
            if rng.random() < 0.15:
                s.append('clean')
            else:
                s.append(calls[rng.integers(len(calls))])
        seqs.append(s)
    return seqs, Rs, spss, Ns, wls, custom_pool, rng

def run_gv():
    seqs, Rs, spss, Ns, wls, pool, rng = gv_sequences()
    for si_, seq in enumerate(seqs):
        gv.clean()
        customs = {}
        hist = []
        n_seen = False
        for step in seq:
            if step == 'clean':
                check_clean(f'seq{si_} {hist} -> clean()')
                customs = {}
                hist.append('clean()')
                n_seen = False
                check_grid(f'seq{si_} {hist}', customs)
                continue
            kw = {}
            sps = spss[rng.integers(len(spss))]
            R = Rs[rng.integers(len(Rs))]
            if 'sps' in step: kw['sps'] = sps
            if 'R' in step: kw['R'] = R
            if 'fs' in step:
                # commensurate with whatever R/sps will be in force
                if 'R' in step:
                    kw['fs'] = R*int(sps)                 # (sps,R,fs) consistent, or (R,fs) with an integer ratio
                elif 'sps' in step:
                    kw['fs'] = R*int(sps)                 # R becomes fs/sps
                else:
                    kw['fs'] = gv.R*int(sps)              # integer multiple of the rate in force
            if 'wavelength' in step: kw['wavelength'] = wls[rng.integers(len(wls))]
            if 'N' in step and not n_seen:
                kw['N'] = Ns[rng.integers(len(Ns))]; n_seen = True
            elif 'N' in step and rng.random() < 0.5:
                kw['N'] = Ns[rng.integers(len(Ns))]
            if 'custom' in step:
                for k in rng.choice(list(pool), size=rng.integers(1, 4), replace=False):
                    kw[str(k)] = pool[str(k)]
            try:
                ret = gv(**kw)
            except Exception as ex:
                viol('A0 gv call accepted', f'seq{si_} {hist} -> gv({kw}) raised {type(ex).__name__}: {ex}')
                break
            if ret is not gv:
                viol('A0 gv returns self', f'gv({kw})')
            for k in kw:
                if k not in ('sps', 'R', 'fs', 'wavelength', 'N'):
                    customs[k] = kw[k]
            hist.append('gv(' + ', '.join(f'{k}={v!r}' if not callable(v) and not isinstance(v, (np.ndarray, electrical_signal)) else f'{k}=<obj>' for k, v in kw.items()) + ')')
            check_grid(f'seq{si_} {hist}', customs)
        check_clean(f'seq{si_} {hist} -> clean()')
    gv.clean()

    # custom keywords: every name a user may pick, including names the object already uses
    names = ['alpha', 'dt', 'f0', 't', 'w', 'dw', 'clean', 'print', 'Dt', 'F0', 'lambda0', 'T', 'n']
    for name in names:
        for with_N in (False, True):
            gv.clean()
            kw = dict(sps=8, R=1e9)
            if with_N: kw['N'] = 4
            val = 193.1e12 if name == 'f0' else 1e-12 if name == 'dt' else 7
            kw[name] = val
            tag = f'gv({kw})'
            try:
                gv(**kw)
            except Exception as ex:
                viol('A0 gv call accepted', f'{tag} raised {type(ex).__name__}: {ex}')
                continue
            check_grid(tag, {name: val})
            gv(sps=4, R=1e9)
            check_grid(tag + ' ; gv(sps=4, R=1e9)', {name: val})
            check_clean(tag + ' -> clean()')
    gv.clean()

# ----------------------------------------------------------------------------------------------
# Part B : devices, codecs, DSP
# ----------------------------------------------------------------------------------------------
def leaves(obj, path='out'):
    """(path, ndarray) for every array reachable in an output / argument."""
    if isinstance(obj, np.ndarray):
        yield path, obj
    elif isinstance(obj, (electrical_signal,)):
        yield path + '.signal', obj.signal
        if obj.noise is not None:
            yield path + '.noise', obj.noise
    elif isinstance(obj, binary_sequence):
        yield path + '.data', obj.data
    elif isinstance(obj, eye):
        for k, v in vars(obj).items():
            if k == 'execution_time': continue
            yield from leaves(v, path + '.' + k)
    elif isinstance(obj, (tuple, list)):
        for i, v in enumerate(obj):
            yield from leaves(v, f'{path}[{i}]')
    elif isinstance(obj, dict):
        for k, v in obj.items():
            yield from leaves(v, f'{path}[{k!r}]')

def scalars(obj, path='out'):
    if isinstance(obj, (bool, int, float, complex, np.generic, str, type(None))):
        yield path, obj
    elif isinstance(obj, eye):
        for k, v in vars(obj).items():
            if k == 'execution_time': continue
            yield from scalars(v, path + '.' + k)
    elif isinstance(obj, (tuple, list)):
        for i, v in enumerate(obj):
            yield from scalars(v, f'{path}[{i}]')
    elif isinstance(obj, optical_signal):
        yield path + '.n_pol', obj.n_pol

def same(a, b):
    la, lb = dict(leaves(a)), dict(leaves(b))
    if set(la) != set(lb): return f'different structure {sorted(set(la) ^ set(lb))}'
    for k in la:
        x, y = la[k], lb[k]
        if x.dtype != y.dtype or x.shape != y.shape: return f'{k}: dtype/shape {x.dtype}{x.shape} vs {y.dtype}{y.shape}'
        if x.tobytes() != y.tobytes():
            if not np.array_equal(x, y, equal_nan=True if x.dtype.kind in 'fc' else False): return f'{k}: values differ (max |d| = {np.nanmax(np.abs(x.astype(complex) - y.astype(complex))):.3g})'
    sa, sb = dict(scalars(a)), dict(scalars(b))
    if set(sa) != set(sb): return f'different scalar structure {sorted(set(sa) ^ set(sb))}'
    for k in sa:
        x, y = sa[k], sb[k]
        if type(x) != type(y): return f'{k}: type {type(x).__name__} vs {type(y).__name__}'
        if not (x == y or (x != x and y != y)): return f'{k}: {x!r} vs {y!r}'
    return None

def snapshot_gv():
    return {k: (v.copy() if isinstance(v, np.ndarray) else v) for k, v in vars(gv).items()}

def gv_changed(snap):
    cur = vars(gv)
    if set(cur) != set(snap): return f'attribute set changed {sorted(set(cur) ^ set(snap))}'
    for k, v in snap.items():
        if isinstance(v, np.ndarray):
            if not (isinstance(cur[k], np.ndarray) and cur[k].tobytes() == v.tobytes()): return f'{k} changed'
        elif not (cur[k] is v or cur[k] == v): return f'{k}: {v!r} -> {cur[k]!r}'
    return None

def snap_args(args, kwargs):
    out = {}
    for p, a in itertools.chain(leaves(list(args), 'args'), leaves(kwargs, 'kwargs')):
        out[p] = (a, a.copy())
    # plain containers
    cont = {}
    for i, a in enumerate(args):
        if isinstance(a, (list, dict)): cont[f'args[{i}]'] = (a, copy.deepcopy(a))
    for k, a in kwargs.items():
        if isinstance(a, (list, dict)): cont[f'kwargs[{k}]'] = (a, copy.deepcopy(a))
    return out, cont

CASES = []   # (name, builder) ; builder() -> (func, args, kwargs, random?)
def case(name, random=False, tmo=60):
    def deco(b):
        CASES.append((name, b, random, tmo)); return b
    return deco

def call(func, args, kwargs, tmo):
    _sig.alarm(tmo)
    try:
        with contextlib.redirect_stdout(io.StringIO()):
            return func(*args, **kwargs)
    finally:
        _sig.alarm(0)

def run_case(name, builder, random, tmo, seeds=(0, 1, 12345)):
    """purity, no aliasing, seed reproducibility of one call. returns the output for seed seeds[0]."""
    first = None
    for s in seeds:
        func, args, kwargs = builder()
        snapA, contA = snap_args(args, kwargs)
        g0 = snapshot_gv()
        np.random.seed(s)
        try:
            out1 = call(func, args, kwargs, tmo)
        except Timeout:
            viol('B0 call returns', f'{name}: timed out'); return None
        except Exception as ex:
            viol('B0 call accepted', f'{name}: raised {type(ex).__name__}: {ex}'); return None
        d = gv_changed(g0)
        if d: viol('B1 gv not modified', f'{name}: {d}')
        for p, (a, a0) in snapA.items():
            if a.dtype != a0.dtype or a.shape != a0.shape or a.tobytes() != a0.tobytes():
                viol('B2 arguments not modified', f'{name}: {p} changed by the call')
        for p, (a, a0) in contA.items():
            try:
                eq = same(a, a0) is None and (a == a0 if not any(isinstance(x, np.ndarray) for x in (a if isinstance(a, list) else a.values())) else True)
            except Exception:
                eq = True
            if not eq: viol('B2 arguments not modified', f'{name}: container {p} changed by the call')
        for po, o in leaves(out1):
            for p, (a, _) in snapA.items():
                if o.size and a.size and np.shares_memory(o, a):
                    viol('B5 outputs do not alias inputs', f'{name}: {po} shares memory with {p}')
        # repeat with the same seed on the same (possibly touched) arguments
        np.random.seed(s)
        out2 = call(func, args, kwargs, tmo)
        d = same(out1, out2)
        if d: viol('B3 reseeding reproduces bit-for-bit', f'{name} seed {s}: {d}')
        # and on freshly built arguments, after unrelated activity
        func, args, kwargs = builder()
        disturb()
        np.random.seed(s)
        out3 = call(func, args, kwargs, tmo)
        d = same(out1, out3)
        if d: viol('B3 reseeding reproduces bit-for-bit (after other calls)', f'{name} seed {s}: {d}')
        if not random:
            # deterministic block: any seed, any history
            if first is None: first = copy.deepcopy(out1)
            else:
                d = same(first, out1)
                if d: viol('B4 deterministic whatever the seed/history', f'{name}: seed {s} vs seed {seeds[0]}: {d}')
        # mutating the output must not change the input and vice versa
        for po, o in leaves(out1):
            if o.size and o.flags.writeable:
                o[...] = 0
        for p, (a, a0) in snapA.items():
            if a.tobytes() != a0.tobytes():
                viol('B5 outputs do not alias inputs', f'{name}: writing into the output changed {p}')
        if first is None: first = True
    return first

_dist_k = [0]
def disturb():
    """unrelated library activity between two calls (must not matter)."""
    _dist_k[0] += 1
    k = _dist_k[0] % 6
    with contextlib.redirect_stdout(io.StringIO()):
        x = dv.DAC('0 1 1 0 1 0 0 1', Vout=1.0)
        if k == 0:
            utils.db([1.0, 2.0]); utils.tic()
        elif k == 1:
            dv.PRBS(7, 20); np.random.rand(3)
        elif k == 2:
            str(x); repr(x); str(gv)
        elif k == 3:
            dv.LPF(x, 0.2*gv.fs, retH=True); dv.DM(optical_signal(x.signal), 10, retH=True)
        elif k == 4:
            dv.EDFA(optical_signal(x.signal), 10, 5)
        else:
            ppm.HDD('0000 1100 0010', 4)

# ---- inputs
def bits(n, seed=3):
    return np.random.default_rng(seed).integers(0, 2, n).astype(np.uint8)

def esig(n, noise=False, cplx=False, seed=5):
    r = np.random.default_rng(seed)
    s = r.normal(size=n) + (1j*r.normal(size=n) if cplx else 0)
    if noise:
        nn = 0.1*r.normal(size=n) + (0.1j*r.normal(size=n) if cplx else 0)
        return electrical_signal(s, nn)
    return electrical_signal(s)

def osig(n, npol=1, noise=False, seed=7, real=False):
    r = np.random.default_rng(seed)
    shape = (n,) if npol == 1 else (2, n)
    s = r.normal(size=shape) + (0 if real else 1j*r.normal(size=shape))
    if noise:
        nn = 0.1*(r.normal(size=shape) + (0 if real else 1j*r.normal(size=shape)))
        return optical_signal(s, nn)
    return optical_signal(s)

def ook_wave(nbits=64, noise=True, seed=11, rz=False):
    r = np.random.default_rng(seed)
    b = r.integers(0, 2, nbits); b[:4] = [0, 1, 1, 0]
    x = np.kron(b, np.ones(gv.sps)).astype(float)
    x = np.convolve(x, np.ones(3)/3, mode='same')
    if noise:
        return electrical_signal(x, 0.05*r.normal(size=x.size))
    return electrical_signal(x + 0.05*r.normal(size=x.size))

def ppm_wave(M=4, nsym=32, seed=13, as_noise=True):
    r = np.random.default_rng(seed)
    sym = r.integers(0, M, nsym)
    slots = np.zeros(nsym*M); slots[np.arange(nsym)*M + sym] = 1
    x = np.kron(slots, np.ones(gv.sps))
    x = np.convolve(x, np.ones(3)/3, mode='same')
    nn = 0.05*r.normal(size=x.size)
    return electrical_signal(x, nn) if as_noise else electrical_signal(x + nn)

def build_cases():
    C = CASES
    C.clear()
    # PRBS
    for order in (7, 9, 15):
        for ln in (1, 2, 127, 200):
            for seed in (None, 0, 1, 124, 2**order):
                case(f'PRBS({order},{ln},seed={seed})')(lambda order=order, ln=ln, seed=seed: (dv.PRBS, (order, ln), dict(seed=seed, return_seed=True)))
    # DAC
    for ps in ('nrz', 'rect', 'NRZ', 'rz', 'RZ', 'gaussian', 'GAUSSIAN'):
        for inp in ('str', 'list', 'tuple', 'arr', 'bs', 'boolarr'):
            for BW in (None, 0.2):
                def b(ps=ps, inp=inp, BW=BW):
                    d = bits(9)
                    a = {'str': ' '.join(map(str, d)), 'list': d.tolist(), 'tuple': tuple(d.tolist()), 'arr': d, 'bs': binary_sequence(d), 'boolarr': d.astype(bool)}[inp]
                    return dv.DAC, (a,), dict(Vout=2.0, bias=0.5, pulse_shape=ps, BW=None if BW is None else BW*gv.fs)
                case(f'DAC({inp},{ps},BW={BW})')(b)
    case('DAC(gaussian m=2 c=1 T)')(lambda: (dv.DAC, (bits(5),), dict(pulse_shape='gaussian', m=2, c=1.0, T=max(1, gv.sps//2))))
    # LASER
    for lw, rin, df in itertools.product((None, 1e6), (None, -150), (None, 0.0, 1e9)):
        case(f'LASER(lw={lw},rin={rin},df={df})', random=(lw is not None or rin is not None))(
            lambda lw=lw, rin=rin, df=df: (dv.LASER, (np.arange(40)*gv.dt, 10), dict(lw=lw, rin=rin, df=df)))
    case('LASER(int t)')(lambda: (dv.LASER, (np.arange(8), 0), {}))
    # PM / MZM
    for npol, noise in itertools.product((1, 2), (False, True)):
        for drive in ('float', 'int', 'npfloat', 'arr', 'intarr', 'es', 'es_noise'):
            def mk(drive, n):
                return {'float': 2.5, 'int': 2, 'npfloat': np.float64(2.5), 'arr': np.linspace(-5, 5, n), 'intarr': np.arange(n),
                        'es': esig(n), 'es_noise': esig(n, noise=True)}[drive]
            case(f'PM({npol}pol,noise={noise},{drive})')(lambda npol=npol, noise=noise, drive=drive: (dv.PM, (osig(24, npol, noise), mk(drive, 24)), dict(Vpi=4.0)))
            for pol in ('x', 'y'):
                for BW in (None, 0.3):
                    case(f'MZM({npol}pol,noise={noise},{drive},pol={pol},BW={BW})')(
                        lambda npol=npol, noise=noise, drive=drive, pol=pol, BW=BW: (dv.MZM, (osig(40, npol, noise), mk(drive, 40)), dict(bias=1.0, Vpi=4.0, loss_dB=1.0, pol=pol, BW=None if BW is None else BW*gv.fs)))
    case('MZM(list drive)')(lambda: (dv.MZM, (osig(8), [0., 1., 2., 3., 4., 3., 2., 1.]), {}))
    case('MZM(real field)')(lambda: (dv.MZM, (osig(8, real=True), 1.0), {}))
    # BPF / EDFA / DM / FBG / PD
    for npol, noise in itertools.product((1, 2), (False, True)):
        for n in (2, 33, 64):
            case(f'BPF({npol}pol,noise={noise},n={n})')(lambda npol=npol, noise=noise, n=n: (dv.BPF, (osig(n, npol, noise), 0.3*gv.fs), dict(n=3)))
            for BW in (None, 0.3):
                case(f'EDFA({npol}pol,noise={noise},n={n},BW={BW})', random=True)(lambda npol=npol, noise=noise, n=n, BW=BW: (dv.EDFA, (osig(n, npol, noise), 20, 5), dict(BW=None if BW is None else BW*gv.fs)))
            for retH in (False, True):
                for D in (0, 0.0, 17, -17.5, np.float64(17.0)):
                    case(f'DM({npol}pol,noise={noise},n={n},D={D!r},retH={retH})')(lambda npol=npol, noise=noise, n=n, D=D, retH=retH: (dv.DM, (osig(n, npol, noise), D), dict(retH=retH)))
            for inc in ('all', 'ALL', 'ase-only', 'thermal-only', 'shot-only', 'ase-shot', 'ase-thermal', 'thermal-shot', 'Thermal-Shot'):
                case(f'PD({npol}pol,noise={noise},n={n},{inc})', random=(inc.lower() != 'ase-only'))(
                    lambda npol=npol, noise=noise, n=n, inc=inc: (dv.PD, (osig(n, npol, noise), 0.3*gv.fs), dict(r=0.9, include_noise=inc)))
        case(f'EDFA real field ({npol}pol,noise={noise})', random=True)(lambda npol=npol, noise=noise: (dv.EDFA, (osig(16, npol, noise, real=True), 10, 4), {}))
    case('DM(D 0-d array)')(lambda: (dv.DM, (osig(16), np.array(17.0)), {}))
    case('DM(D 1-elem array)')(lambda: (dv.DM, (osig(16), np.array([17.0])), {}))
    for apo in ('uniform', 'rcos', 'gaussian', 'parabolic', 'poly'):
        for retH in (False, True):
            for filtfilt in (True, False):
                def b(apo=apo, retH=retH, filtfilt=filtfilt):
                    a = np.poly1d([0.5]) if apo == 'poly' else apo
                    return dv.FBG, (osig(32, 1, False),), dict(fc=gv.f0, vdneff=1e-4, kL=2, apodization=a, print_params=True, retH=retH, filtfilt=filtfilt)
                case(f'FBG({apo},retH={retH},filtfilt={filtfilt})')(b)
    case('FBG(2pol,noise)')(lambda: (dv.FBG, (osig(32, 2, True),), dict(landa_D=gv.wavelength, kL=1.5, N=2000, print_params=False)))
    # FIBER (small, alarm-guarded)
    for npol, noise in itertools.product((1, 2), (False, True)):
        for kw in (dict(length=1.0), dict(length=1.0, alpha=0.2, beta_2=-20, gamma=1.5), dict(length=2.0, beta_2=-20, beta_3=0.1), dict(length=0.5, alpha=0.2, gamma=2.0, phi_max=0.01)):
            def b(npol=npol, noise=noise, kw=kw):
                x = osig(32, npol, noise); x.signal = x.signal*0.05
                return dv.FIBER, (x,), dict(kw)
            case(f'FIBER({npol}pol,noise={noise},{kw})', tmo=30)(b)
    # LPF
    for kind in ('es', 'es_noise', 'arr', 'intarr', 'u8arr', 'cplx'):
        for n in (2, 9, 64):
            for retH in (False, True):
                for fs in (None, 2.0):
                    def b(kind=kind, n=n, retH=retH, fs=fs):
                        a = {'es': esig(n), 'es_noise': esig(n, True), 'arr': esig(n).signal.copy(), 'intarr': np.arange(n) % 3, 'u8arr': (np.arange(n) % 2).astype(np.uint8), 'cplx': esig(n, True, True)}[kind]
                        return dv.LPF, (a, 0.2*gv.fs), dict(n=4, fs=None if fs is None else fs*gv.fs, retH=retH)
                    case(f'LPF({kind},n={n},retH={retH},fs={fs})')(b)
    # ADC
    for kind in ('es', 'es_noise', 'arr'):
        for otype in ('v', 'n'):
            for nb in (1, 8):
                def b(kind=kind, otype=otype, nb=nb):
                    a = {'es': esig(50), 'es_noise': esig(50, True), 'arr': esig(50).signal.copy()}[kind]
                    return dv.ADC, (a,), dict(n=nb, otype=otype)
                case(f'ADC({kind},{otype},n={nb})')(b)
    case('ADC(fs)')(lambda: (dv.ADC, (esig(64, True),), dict(fs=gv.fs/2)))
    # SAMPLER
    for kind in ('es', 'es_noise'):
        for inst in (0, 1, None):
            case(f'SAMPLER({kind},{inst})')(lambda kind=kind, inst=inst: (dv.SAMPLER, (esig(5*gv.sps, kind == 'es_noise'), gv.sps - 1 if inst is None else min(inst, gv.sps - 1)), {}))
    # GET_EYE (uses KMeans -> global numpy state)
    for noise in (False, True):
        for rs in (None, 8):
            case(f'GET_EYE(noise attr={noise},resamp={rs})', random=True)(lambda noise=noise, rs=rs: (dv.GET_EYE, (ook_wave(64, noise),), dict(sps_resamp=rs)))
    case('GET_EYE(ndarray, odd tail)', random=True)(lambda: (dv.GET_EYE, (np.concatenate([ook_wave(64, False).signal.real, [0.1, 0.2, 0.3]]),), dict(nslots=40)))
    # ook
    for BW in (None, 0.8):
        case(f'ook.DSP(BW={BW})', random=True)(lambda BW=BW: (ook.DSP, (ook_wave(64, True),), dict(BW=None if BW is None else 0.8*gv.R)))
    def eye_obj():
        np.random.seed(99)
        return dv.GET_EYE(ook_wave(64, True))
    case('ook.THRESHOLD_EST')(lambda: (ook.THRESHOLD_EST, (eye_obj(),), {}))
    case('ook.BER estimator')(lambda: (ook.BER_analizer, ('estimator',), dict(eye_obj=eye_obj())))
    for tk, rk in itertools.product(('bs', 'arr', 'list', 'str'), repeat=2):
        def b(tk=tk, rk=rk):
            t, r = bits(20, 1), bits(17, 2)
            f = {'bs': binary_sequence, 'arr': lambda x: x, 'list': lambda x: x.tolist(), 'str': lambda x: ''.join(map(str, x))}
            return ook.BER_analizer, ('counter',), dict(Tx=f[tk](t), Rx=f[rk](r))
        case(f'ook.BER counter({tk},{rk})')(b)
        case(f'ppm.BER counter({tk},{rk})')(lambda b=b: (ppm.BER_analizer,) + b()[1:])
    case('ook.theory_BER')(lambda: (ook.theory_BER, (np.array([1.0, 2.0]), np.array([0.1, 0.2]), np.array([0.2, 0.1])), {}))
    # ppm
    for M in (2, 4, 8):
        for kind in ('bs', 'arr', 'list', 'tuple', 'str', 'boolarr'):
            def conv(d, kind):
                return {'bs': binary_sequence(d), 'arr': d, 'list': d.tolist(), 'tuple': tuple(d.tolist()), 'str': ''.join(map(str, d)), 'boolarr': d.astype(bool)}[kind]
            case(f'PPM_ENCODER({kind},M={M})')(lambda M=M, kind=kind: (ppm.PPM_ENCODER, (conv(bits(25), kind), M), {}))
            def slots(M, errors=False):
                r = np.random.default_rng(4)
                sym = r.integers(0, M, 12); s = np.zeros(12*M, np.uint8); s[np.arange(12)*M + sym] = 1
                if errors:
                    s[0:M] = 0; s[M:2*M] = 1; s[2*M] = 1; s[2*M + 1] = 1
                return s
            case(f'PPM_DECODER({kind},M={M})')(lambda M=M, kind=kind: (ppm.PPM_DECODER, (conv(slots(M), kind), M), {}))
            case(f'HDD clean({kind},M={M})')(lambda M=M, kind=kind: (ppm.HDD, (conv(slots(M), kind), M), {}))
            case(f'HDD errors({kind},M={M})', random=True)(lambda M=M, kind=kind: (ppm.HDD, (conv(slots(M, True), kind), M), {}))
        for kind in ('es', 'es_noise', 'arr', 'list'):
            def b(M=M, kind=kind):
                x = ppm_wave(M, 8, as_noise=(kind == 'es_noise'))
                a = x if kind.startswith('es') else (x.signal.real.copy() if kind == 'arr' else x.signal.real.tolist())
                return ppm.SDD, (a, M), {}
            case(f'SDD({kind},M={M})')(b)
        for dec in ('hard', 'soft', 'HARD', 'Soft'):
            for thr in (None, 0.5):
                case(f'ppm.DSP(M={M},{dec},thr={thr})', random=(dec.lower() == 'hard'))(lambda M=M, dec=dec, thr=thr: (ppm.DSP, (ppm_wave(M, 32), M), dict(decision=dec, threshold=thr)))
        case(f'ppm.THRESHOLD_EST(M={M})')(lambda M=M: (ppm.THRESHOLD_EST, (eye_obj(), M), {}))
        for dec in ('hard', 'soft'):
            case(f'ppm.BER estimator(M={M},{dec})')(lambda M=M, dec=dec: (ppm.BER_analizer, ('estimator',), dict(eye_obj=eye_obj(), M=M, decision=dec)))
            case(f'ppm.theory_BER(M={M},{dec})')(lambda M=M, dec=dec: (ppm.theory_BER, (np.array([1.0, 2.0]), np.array([0.2, 0.2]), np.array([0.3, 0.2]), M), dict(decision=dec)))
    case('ppm.DSP(list input)', random=True)(lambda: (ppm.DSP, (ppm_wave(4, 32, as_noise=False).signal.real.tolist(), 4), {}))
    # lab DSP
    def sync_args(kind):
        tx = bits(16, 8); tx[:3] = [1, 0, 1]
        rx = np.kron(np.tile(tx, 3), np.ones(gv.sps))
        rx = np.roll(rx, 5) + 0.01*np.random.default_rng(1).normal(size=rx.size)
        if kind == 'es': return (electrical_signal(rx), binary_sequence(tx)), {}
        return (rx, tx), dict(sps=gv.sps)
    for kind in ('es', 'arr'):
        case(f'SYNC({kind})')(lambda kind=kind: (lab.SYNC,) + sync_args(kind))
    case('GET_EYE_v2')(lambda: (lab.GET_EYE_v2, (ook_wave(64, True), np.r_[[0, 1, 1, 0], np.random.default_rng(11).integers(0, 2, 64)[4:]]), {}))
    # utils used as DSP helpers
    for f in (utils.db, utils.dbm, utils.idb, utils.idbm, utils.Q, utils.gaus, utils.norm, utils.phase):
        case(f'utils.{f.__name__}(arr)')(lambda f=f: (f, (np.linspace(0.5, 3, 7),), {}))
    case('utils.norm(list)')(lambda: (utils.norm, ([1.0, 2.0, 4.0],), {}))
    case('utils.rcos(arr)')(lambda: (utils.rcos, (np.linspace(-1, 1, 21), 0.5, 1), {}))
    case('utils.rcos(int arr)')(lambda: (utils.rcos, (np.arange(-2, 3), 0.5, 1), {}))
    case('utils.tau_g')(lambda: (utils.tau_g, (np.exp(1j*np.linspace(0, 3, 16)**2), 16e9), {}))
    case('utils.dispersion')(lambda: (utils.dispersion, (np.exp(1j*np.linspace(0, 3, 16)**2), 16e9, 193e12), {}))
    case('utils.shortest_int')(lambda: (utils.shortest_int, (np.random.default_rng(2).normal(size=50),), dict(percent=50)))
    case('utils.shortest_int(unsorted ints)')(lambda: (utils.shortest_int, (np.array([5, 1, 4, 1, 3, 9, 2]),), dict(percent=1)))
    case('utils.str2array')(lambda: (utils.str2array, ('1 0 1 10',), dict(dtype=np.int64)))
    case('utils.dec2bin')(lambda: (utils.dec2bin, (5, 4), {}))

GRIDS = [dict(sps=16, R=1e9), dict(sps=8, R=10e9, N=4), dict(sps=4, R=2.5e9, wavelength=1310e-9, Vpi=3.3), dict(sps=2, R=1e9), dict(sps=7, R=1e9, N=3)]

def run_devices():
    for gi, gkw in enumerate(GRIDS):
        gv.clean(); gv(**gkw)
        build_cases()
        ref = {}
        order = list(range(len(CASES)))
        for i in order:
            name, b, random, tmo = CASES[i]
            if gv.sps < 4 and ('GET_EYE' in name or 'DSP' in name or 'THRESHOLD' in name or 'estimator' in name or 'gaussian' in name.lower()):
                continue   # eye estimation / gaussian pulse need a few samples per slot
            if gv.sps % 2 and 'GET_EYE_v2' in name:
                continue   # odd sps: no sample falls in the centre window of GET_EYE_v2 (ValueError; not a C14 matter)
            out = run_case(f'[{gkw}] {name}', b, random, tmo)
            if out is not None: ref[i] = (name, b, random, tmo)
        # call order: every deterministic block again, in reverse and in shuffled order, random blocks interleaved
        det = [i for i in ref if not ref[i][2]]
        rnd = [i for i in ref if ref[i][2]]
        base = {}
        for i in det:
            f, a, k = ref[i][1](); base[i] = call(f, a, k, ref[i][3])
        for perm_seed in (0, 1):
            r = np.random.default_rng(perm_seed)
            perm = list(r.permutation(det)) if perm_seed else det[::-1]
            for j, i in enumerate(perm):
                if rnd and j % 3 == 0:
                    n2, b2, _, t2 = ref[rnd[r.integers(len(rnd))]]
                    f, a, k = b2()
                    try: call(f, a, k, t2)
                    except Exception: pass
                f, a, k = ref[i][1]()
                out = call(f, a, k, ref[i][3])
                d = same(base[i], out)
                if d: viol('B4 deterministic whatever was called before', f'[{gkw}] {ref[i][0]} (order {perm_seed}): {d}')
        # shared inputs through a chain, in both orders
        x = osig(32, 2, True); e = esig(32)
        x0 = [x.signal.copy(), x.noise.copy()]; e0 = e.signal.copy()
        fns = [lambda: dv.PM(x, e), lambda: dv.MZM(x, e), lambda: dv.BPF(x, 0.3*gv.fs), lambda: dv.DM(x, 17), lambda: dv.EDFA(x, 10, 5), lambda: dv.PD(x, 0.3*gv.fs),
               lambda: dv.LPF(e, 0.2*gv.fs), lambda: dv.ADC(e), lambda: dv.SAMPLER(e, 0), lambda: dv.FBG(x, fc=gv.f0, vdneff=1e-4, kL=2, print_params=False)]
        res = {}
        for perm in (list(range(len(fns))), list(range(len(fns)))[::-1], [3, 0, 7, 1, 9, 5, 2, 8, 4, 6]):
            for i in perm:
                np.random.seed(42 + i)
                with contextlib.redirect_stdout(io.StringIO()):
                    o = fns[i]()
                if i in res:
                    d = same(res[i], o)
                    if d: viol('B4 shared inputs, any order', f'[{gkw}] chain fn {i}: {d}')
                else: res[i] = o
                if x.signal.tobytes() != x0[0].tobytes() or x.noise.tobytes() != x0[1].tobytes() or e.signal.tobytes() != e0.tobytes():
                    viol('B2 arguments not modified', f'[{gkw}] chain fn {i} changed the shared input')
                    x = osig(32, 2, True); e = esig(32)
    gv.clean()

def run_process_state():
    """state other than gv / numpy RNG that an earlier call may leave behind and a later result may depend on."""
    import warnings as w
    gv.clean()
    with w.catch_warnings():
        w.simplefilter('error')
        before = list(w.filters)
        try: r1 = ('ret', repr(utils.dbm(0.0)))
        except Warning as ex: r1 = ('raise', type(ex).__name__)
        utils.db(1.0)
        try: r2 = ('ret', repr(utils.dbm(0.0)))
        except Warning as ex: r2 = ('raise', type(ex).__name__)
        if r1 != r2:
            viol('B4 result depends only on arguments, gv, numpy RNG', f'utils.dbm(0.0) under warnings-as-errors: {r1} before utils.db(1.0), {r2} after (db() installs a process-wide "ignore RuntimeWarning" filter)')

if __name__ == '__main__':
    run_gv()
    run_devices()
    run_process_state()
    if VIOL:
        print(f'{len(VIOL)} violation line(s)')
        sys.exit(1)
    print('PASS')
    sys.exit(0)
