# C14: "any subset of sps, R, fs, wavelength, N, custom keywords" -> grid self-consistent, customs persist until clean(), clean() restores defaults
import sys, warnings; warnings.simplefilter('ignore')
from scipy.constants import c
from opticomlib import gv
bad = []
gv.clean(); gv(sps=8, R=1e9, f0=193.1e12)          # keyword falls into **kargs and overwrites the derived attribute
if gv.f0 != c/gv.wavelength: bad.append(f'gv(sps=8,R=1e9,f0=193.1e12): f0={gv.f0:.6e}, c/wavelength={c/gv.wavelength:.6e} (expected equal)')
gv(sps=4, R=1e9)                                    # ... and does not even persist like a custom attribute
if gv.f0 == c/gv.wavelength: bad.append(f'next gv(sps=4,R=1e9): the value f0=193.1e12 set by keyword silently reverted to {gv.f0:.6e} before clean()')
gv.clean(); gv(sps=8, R=1e9, N=4, dt=1e-12)
if gv.dt != 1/gv.fs: bad.append(f'gv(...,dt=1e-12): dt={gv.dt}, 1/fs={1/gv.fs}; t[-1]={gv.t[-1]} was built with the other dt')
gv.clean(); gv(sps=8, R=1e9, N=4, t=7)
if getattr(gv.t, 'size', None) != gv.N*gv.sps: bad.append(f'gv(...,N=4,t=7): t={gv.t!r}, expected {gv.N*gv.sps} points')
gv.clean(); gv(sps=8, R=1e9, clean=7)
try: gv.clean()
except TypeError as ex: bad.append(f'gv(...,clean=7); gv.clean() -> TypeError: {ex} (expected: defaults restored)'); del gv.clean; gv.clean()
print('\n'.join(bad) if bad else 'OK'); sys.exit(1 if bad else 0)
