# C14: "No device ... modifies ... its arguments"; "deterministic blocks give identical results whatever was called before"
import sys, numpy as np
from opticomlib import gv
from opticomlib.typing import optical_signal
from opticomlib.devices import DM
gv.clean()
x = optical_signal(np.exp(-np.linspace(-4, 4, 64)**2))
D = np.array(17.0)                 # dispersion held in a (0-d or 1-element) float array, e.g. Ds[2:3] or np.asarray(17.0)
ref = DM(x, 17.0).signal
y1 = DM(x, D).signal               # `D *= 1e-12**2` works in place on the caller's array
y2 = DM(x, D).signal               # same call again
ok = float(D) == 17.0 and np.array_equal(y1, ref) and np.array_equal(y2, ref)
print(f'D after two calls: {float(D)!r} (expected 17.0)')
print(f'max|DM(x,D) 1st - DM(x,17.0)| = {np.abs(y1-ref).max():.3g}, 2nd call: {np.abs(y2-ref).max():.3g} (expected 0, 0)')
sys.exit(0 if ok else 1)
