# C14 (marginal): result "depends only on its arguments, the current gv and numpy's global random state ... whatever was called before"
import sys, warnings
from opticomlib.utils import db, dbm
def probe():
    try: return repr(dbm(0.0))
    except RuntimeWarning as ex: return f'raises RuntimeWarning({ex})'
warnings.simplefilter('error', RuntimeWarning)              # the program (or `python -W error`, a test-suite) turns numeric warnings into errors
n0 = len(warnings.filters)
a = probe(); db(1.0); b = probe()                            # db() is also reached from FBG(print_params=True)
print(f'dbm(0.0) before any db() call: {a}\ndbm(0.0) after db(1.0)        : {b}   (expected: the same)')
print(f'process-wide warning filters: {n0} -> {len(warnings.filters)} entries; now first: {warnings.filters[0][:3]}')
sys.exit(0 if a == b and len(warnings.filters) == n0 else 1)
