"""Audit of property C15: binary_sequence is a closed, immutable-by-operation algebra over {0,1}."""
import sys
del sys.path[0]
import itertools, warnings, collections
import numpy as np
warnings.simplefilter('ignore')

from opticomlib.typing import binary_sequence as B, electrical_signal as E

viol = collections.OrderedDict()   # (clause, form) -> [count, examples]
CAP = 3


def bad(clause, form, inp, msg):
    k = (clause, form)
    if k not in viol:
        viol[k] = [0, []]
    viol[k][0] += 1
    if len(viol[k][1]) < CAP:
        viol[k][1].append(f"VIOLATION {clause} [{form}] input={inp!r}: {msg}")


def valid(x, bits=None):
    """x is a valid binary_sequence (1-D uint8 of 0/1), optionally equal to bits."""
    if not isinstance(x, B):
        return f"not a binary_sequence: {type(x).__name__}"
    d = x.data
    if not isinstance(d, np.ndarray) or d.ndim != 1 or d.dtype != np.uint8:
        return f"data not 1-D uint8: {type(d).__name__} {getattr(d, 'shape', None)} {getattr(d, 'dtype', None)}"
    if not np.all((d == 0) | (d == 1)):
        return "data outside {0,1}"
    if bits is not None and d.tolist() != list(bits):
        return f"data {d.tolist()} != expected {list(bits)}"
    if len(x) != d.size or x.len() != d.size:
        return "len mismatch"
    return None


# ---------------------------------------------------------------- container forms
FORMS = collections.OrderedDict([
    ('str',          lambda b: ''.join(map(str, b))),
    ('str_space',    lambda b: ' '.join(map(str, b))),
    ('str_comma',    lambda b: ','.join(map(str, b))),
    ('str_commasp',  lambda b: ', '.join(map(str, b))),
    ('str_padded',   lambda b: ' ' + ' '.join(map(str, b)) + ' '),
    ('str_tab',      lambda b: '\t'.join(map(str, b))),
    ('str_newline',  lambda b: ''.join(map(str, b)) + '\n'),
    ('list_int',     lambda b: [int(v) for v in b]),
    ('list_bool',    lambda b: [bool(v) for v in b]),
    ('list_float',   lambda b: [float(v) for v in b]),
    ('list_npint',   lambda b: [np.int64(v) for v in b]),
    ('tuple_int',    lambda b: tuple(int(v) for v in b)),
    ('tuple_bool',   lambda b: tuple(bool(v) for v in b)),
    ('arr_uint8',    lambda b: np.array(b, dtype=np.uint8)),
    ('arr_int64',    lambda b: np.array(b, dtype=np.int64)),
    ('arr_bool',     lambda b: np.array(b, dtype=bool)),
    ('arr_float64',  lambda b: np.array(b, dtype=np.float64)),
    ('arr_float32',  lambda b: np.array(b, dtype=np.float32)),
    ('arr_strided',  lambda b: np.array([v for v in b for _ in (0, 1)], dtype=np.uint8)[::2]),
    ('arr_readonly', lambda b: _ro(np.array(b, dtype=np.uint8))),
    ('binseq',       lambda b: B(np.array(b, dtype=np.uint8))),
])
CONSTRUCT_FORMS = [f for f in FORMS if f != 'binseq']


def _ro(a):
    a.setflags(write=False)
    return a


def snapshot(x):
    if isinstance(x, B):
        return ('B', x.data.tolist(), x.data.dtype.str)
    if isinstance(x, np.ndarray):
        return ('A', repr(x.tolist()), x.dtype.str, x.shape)
    if isinstance(x, E):
        return ('E', repr(x.signal.tolist()), x.signal.dtype.str, None if x.noise is None else repr(x.noise.tolist()))
    return ('P', repr(x))


def all_bits(maxlen, minlen=0):
    for n in range(minlen, maxlen + 1):
        for b in itertools.product((0, 1), repeat=n):
            yield list(b)


# ---------------------------------------------------------------- K1: construction
def k1():
    for b in all_bits(12):
        for name in CONSTRUCT_FORMS:
            if len(b) > 8 and name in ('list_npint', 'arr_strided', 'arr_readonly', 'arr_float32', 'str_commasp', 'str_padded'):
                continue
            if not b and name.startswith('str_') and name not in ('str_padded', 'str_newline'):
                continue   # all of these are '' like 'str'
            src = FORMS[name](b)
            before = snapshot(src)
            try:
                x = B(src)
            except Exception as e:
                bad('K1 construct', name, src if len(b) < 14 else '...', f"raised {type(e).__name__}: {str(e)[:80]}")
                continue
            m = valid(x, b)
            if m:
                bad('K1 construct', name, src, m)
            if snapshot(src) != before:
                bad('K1 construct', name, src, 'source mutated')
            if isinstance(src, np.ndarray) and np.shares_memory(src, x.data):
                bad('K1 construct', name, src, 'stored data aliases the source array')
    # scalars
    for v, exp in [(0, 0), (1, 1), (True, 1), (False, 0), (0.0, 0), (1.0, 1), (np.uint8(1), 1), (np.int64(0), 0),
                   (np.bool_(True), 1), (np.float32(1), 1), (np.array(1), 1), (np.array(False), 0), ('0', 0), ('1', 1)]:
        try:
            x = B(v)
            m = valid(x, [exp])
            if m:
                bad('K1 construct', 'scalar', v, m)
        except Exception as e:
            bad('K1 construct', 'scalar', v, f"raised {type(e).__name__}: {str(e)[:80]}")
    # long random
    rng = np.random.default_rng(150)
    for n in (13, 64, 255, 256, 257, 1000, 65537, 300000):
        b = rng.integers(0, 2, n).tolist()
        for name in ('str', 'str_space', 'list_int', 'tuple_bool', 'arr_uint8', 'arr_bool', 'arr_float64'):
            try:
                x = B(FORMS[name](b))
                m = valid(x, b)
                if m:
                    bad('K1 construct', name + '_long', n, m[:80])
                if int(x.ones()) != sum(b) or int(x.zeros()) != n - sum(b) or x.ones() + x.zeros() != n:
                    bad('K4 ones/zeros', name + '_long', n, f"ones={x.ones()} zeros={x.zeros()}")
            except Exception as e:
                bad('K1 construct', name + '_long', n, f"raised {type(e).__name__}: {str(e)[:80]}")


# ---------------------------------------------------------------- K2: rejection
def k2():
    rej = [
        ('int 2', 2), ('int -1', -1), ('float .5', 0.5), ('nan', float('nan')), ('inf', float('inf')),
        ('complex 1j', 1j), ('None', None), ('list 0 2', [0, 2]), ('list 1 -1', [1, -1]), ('list .5', [0, 0.5]),
        ('list nan', [0, np.nan]), ('list 256', [0, 256]), ('list 257', [257, 1]), ('list -255', [-255]),
        ('arr int 256', np.array([256, 1])), ('arr int16 256', np.array([256], dtype=np.int16)),
        ('arr int16 257', np.array([257], dtype=np.int16)), ('arr float 1+eps', np.array([1 + 2e-16 * 2])),
        ('2d list', [[0, 1], [1, 0]]), ('2d 1xN', [[0, 1, 1]]), ('2d Nx1', [[0], [1]]), ('2d arr', np.zeros((2, 3))),
        ('2d empty', np.zeros((0, 3))), ('2d empty b', np.zeros((3, 0))), ('3d', np.zeros((1, 1, 1))),
        ('ragged', [[0, 1], [1]]), ('str 2', '2'), ('str 012', '012'), ('str abc', 'abc'), ('str 1 0 2', '1 0 2'),
        ('str 2d', '1 0; 0 1'), ('str 2d b', '10;01'), ('str 0.5', '0.5'), ('str -1', '-1'), ('str 1j', '1j'),
        ('str 1e0x', '1x'), ('list str ab', ['a', 'b']), ('dict', {0: 1}), ('list None', [None]),
        ('list 2**70', [1, 2 ** 70]), ('object', object()), ('uint8 2', np.uint8(2)), ('uint8 arr 255', np.array([255], np.uint8)),
        ('int8 -1', np.array([-1], np.int8)), ('complex arr', np.array([1 + 1j])), ('list of lists of bool', [[True]]),
    ]
    for name, v in rej:
        try:
            x = B(v)
        except (ValueError, TypeError):
            continue
        except Exception as e:
            bad('K2 reject', name, v, f"raised {type(e).__name__} (neither ValueError nor TypeError): {str(e)[:80]}")
            continue
        bad('K2 reject', name, v, f"accepted -> data {x.data!r}")
    # concatenation must reject the same invalid content
    a = B('101')
    for name, v in rej:
        if not isinstance(v, (str, list, tuple, np.ndarray)):
            continue
        for order in ('a+x', 'x+a'):
            snap = a.data.copy()
            try:
                r = a + v if order == 'a+x' else v + a
            except (ValueError, TypeError):
                continue
            except Exception as e:
                bad('K2 reject concat', name, (order, v), f"raised {type(e).__name__}: {str(e)[:80]}")
                continue
            finally:
                if not np.array_equal(a.data, snap):
                    bad('K3 operands unchanged', name, (order, v), 'a mutated by failed concat')
                    a = B('101')
            # accepted: must still be a valid sequence of 0/1 (e.g. 0-d array) - otherwise violation
            m = valid(r)
            if m or (r.len() != 3 + np.size(v)):
                bad('K2 reject concat', name, (order, v), f"accepted -> {r!r} {m}")


# ---------------------------------------------------------------- K3: concatenation
def check_concat(ba, bb, name, tag):
    if not bb and name.startswith('str_') and name not in ('str_padded', 'str_newline'):
        return   # '' is covered by form 'str'
    a = B(np.array(ba, dtype=np.uint8))
    other = FORMS[name](bb)
    sa, so = snapshot(a), snapshot(other)
    for order in ('a+x', 'x+a'):
        exp = ba + bb if order == 'a+x' else bb + ba
        try:
            r = a + other if order == 'a+x' else other + a
        except Exception as e:
            bad('K3 concat', f'{name} {order}', (ba, other), f"raised {type(e).__name__}: {str(e)[:80]}")
            continue
        m = valid(r, exp)
        if m:
            bad('K3 concat', f'{name} {order}', (ba, other), m)
            continue
        if len(r) != len(ba) + len(bb):
            bad('K3 len(a+b)', f'{name} {order}', (ba, other), f"{len(r)} != {len(ba)}+{len(bb)}")
        first = ba if order == 'a+x' else bb
        pre = r[:len(first)]
        if valid(pre, first) or not (pre == B(first)):
            bad('K3 prefix', f'{name} {order}', (ba, other), f"(x+y)[:len(x)] = {pre!r}")
        if order == 'a+x' and not (r[:len(a)] == a):
            bad('K3 prefix', f'{name} {order}', (ba, other), "(a+b)[:len(a)] == a is False")
        if np.shares_memory(r.data, a.data) or (isinstance(other, np.ndarray) and np.shares_memory(r.data, other)) \
                or (isinstance(other, B) and np.shares_memory(r.data, other.data)):
            bad('K3 new object', f'{name} {order}', (ba, other), 'result shares memory with an operand')
        if snapshot(a) != sa or snapshot(other) != so:
            bad('K3 operands unchanged', f'{name} {order}', (ba, other), 'operand mutated')
            a = B(np.array(ba, dtype=np.uint8)); other = FORMS[name](bb)
        # mutate the result: operands must stay
        if r.len():
            r.data[:] = 1 - r.data
            if snapshot(a) != sa or snapshot(other) != so:
                bad('K3 operands unchanged', f'{name} {order}', (ba, other), 'operand changed when result was edited')
                a = B(np.array(ba, dtype=np.uint8)); other = FORMS[name](bb)


def k3():
    small = list(all_bits(3))
    for ba in small:
        for bb in small:
            for name in FORMS:
                check_concat(ba, bb, name, 'exh')
    rng = np.random.default_rng(151)
    # every string up to length 12 as right operand against random left operands (main forms)
    for bb in all_bits(12, 4):
        ba = rng.integers(0, 2, rng.integers(0, 13)).tolist()
        for name in ('str', 'list_int', 'tuple_bool', 'arr_uint8', 'binseq'):
            check_concat(ba, bb, name, 'exh12')
    for n, m_ in [(1, 1000), (1000, 1), (255, 1), (256, 256), (100000, 100001), (0, 5000), (5000, 0)]:
        ba = rng.integers(0, 2, n).tolist(); bb = rng.integers(0, 2, m_).tolist()
        for name in ('str', 'str_space', 'list_int', 'list_bool', 'tuple_int', 'arr_uint8', 'arr_bool', 'arr_float64', 'binseq'):
            check_concat(ba, bb, name, 'long')
    # chains and in-place form
    a = B('10'); b = a
    a += '1'
    if valid(a, [1, 0, 1]) or valid(b, [1, 0]):
        bad('K3 operands unchanged', '+=', '10 += 1', f"a={a!r} alias={b!r}")
    r = '1' + B('0') + [1] + (0,) + np.array([1]) + B('0')
    if valid(r, [1, 0, 1, 0, 1, 0]):
        bad('K3 concat', 'chain', 'mixed chain', repr(r))
    r = np.array([1, 0]) + B('0') + np.array([1], dtype=bool)
    if valid(r, [1, 0, 0, 1]):
        bad('K3 concat', 'chain', 'ndarray first', repr(r))


# ---------------------------------------------------------------- K4: inversion / counts
def k4():
    for b in all_bits(12):
        a = B(b)
        snap = a.data.copy()
        try:
            i = ~a
            ii = ~i
        except Exception as e:
            bad('K4 invert', 'exh', b, f"raised {type(e).__name__}: {e}")
            continue
        m = valid(i, [1 - v for v in b]) or valid(ii, b)
        if m:
            bad('K4 invert', 'exh', b, m)
        if not (ii == a):
            bad('K4 ~~a == a', 'exh', b, repr(ii))
        if np.shares_memory(i.data, a.data) or not np.array_equal(a.data, snap) or a.data.dtype != np.uint8:
            bad('K4 operands unchanged', 'exh', b, 'operand changed/aliased by ~')
        if a.ones() + a.zeros() != len(a) or a.ones() != sum(b) or a.zeros() != len(b) - sum(b):
            bad('K4 ones+zeros', 'exh', b, f"ones={a.ones()} zeros={a.zeros()} len={len(a)}")
        if i.ones() != a.zeros() or i.zeros() != a.ones():
            bad('K4 ones(~a)==zeros(a)', 'exh', b, f"{i.ones()} vs {a.zeros()}")
        if a.zeros() < 0 or a.ones() < 0:
            bad('K4 ones+zeros', 'exh', b, 'negative count')


# ---------------------------------------------------------------- K5: indexing / slicing
def k5():
    rng = np.random.default_rng(152)
    for n in list(range(0, 8)) + [12]:
        pats = list(itertools.product((0, 1), repeat=n)) if n <= 5 else [tuple(rng.integers(0, 2, n)) for _ in range(6)]
        bounds = [None] + list(range(-n - 2, n + 3))
        steps = [None, 1, 2, 3, -1, -2, -3, n if n else 1, -(n if n else 1)]
        for p in pats:
            b = [int(v) for v in p]
            a = B(b)
            snap = a.data.copy()
            for s0 in bounds:
                for s1 in bounds:
                    for st in steps:
                        sl = slice(s0, s1, st)
                        try:
                            r = a[sl]
                        except Exception as e:
                            bad('K5 slice', f'n={n}', (b, sl), f"raised {type(e).__name__}: {e}")
                            continue
                        m = valid(r, b[sl])
                        if m:
                            bad('K5 slice', f'n={n}', (b, sl), m)
                        elif np.shares_memory(r.data, a.data):
                            bad('K5 new object', f'n={n}', (b, sl), 'slice result is a view of the operand')
            for k in range(-n, n):
                for kk in (k, np.int64(k), np.int32(k), np.uint8(k % 256) if k >= 0 else np.int8(k)):
                    try:
                        r = a[kk]
                    except Exception as e:
                        bad('K5 index', f'n={n}', (b, kk), f"raised {type(e).__name__}: {e}")
                        continue
                    m = valid(r, [b[k]])
                    if m:
                        bad('K5 index', f'n={n}', (b, kk), m)
                    elif np.shares_memory(r.data, a.data):
                        bad('K5 new object', f'n={n}', (b, kk), 'index result is a view')
            for k in (n, n + 1, -n - 1):
                try:
                    r = a[k]
                    bad('K5 index', f'n={n}', (b, k), f"out-of-range index accepted -> {r!r}")
                except IndexError:
                    pass
                except Exception as e:
                    bad('K5 index', f'n={n}', (b, k), f"raised {type(e).__name__} instead of IndexError")
            if n:
                idx = [0, n - 1, 0]
                r = a[idx]
                if valid(r, [b[i] for i in idx]):
                    bad('K5 index', 'fancy', (b, idx), repr(r))
                mask = np.array(b, dtype=bool)
                r = a[mask]
                if valid(r, [1] * sum(b)):
                    bad('K5 index', 'mask', (b, mask), repr(r))
                if list(int(x.data[0]) for x in a) != b:
                    bad('K5 index', 'iter', b, 'iteration differs')
            if not np.array_equal(a.data, snap):
                bad('K5 operands unchanged', f'n={n}', b, 'operand changed by slicing')
            # editing a slice result must not touch the operand
            if n:
                r = a[:]
                r.data[:] = 1 - r.data
                if not np.array_equal(a.data, snap):
                    bad('K5 operands unchanged', f'n={n}', b, 'a[:] aliases a')
    # long
    b = rng.integers(0, 2, 100003).tolist(); a = B(b)
    for sl in (slice(None, -0 or None), slice(0, 0), slice(None, None, -1), slice(7, -7, 1000), slice(-1, None), slice(255, 257), slice(65535, 65537)):
        m = valid(a[sl], b[sl])
        if m:
            bad('K5 slice', 'long', sl, m[:80])
    if a[:-0].len() != 0:
        bad('K5 slice', 'long', 'a[:-0]', 'python semantics: empty expected')


# ---------------------------------------------------------------- K6: random expressions
def k6():
    rng = np.random.default_rng(153)

    def gen(depth):
        """returns (binary_sequence, list model, text)"""
        if depth == 0 or rng.random() < 0.2:
            n = int(rng.integers(0, 13))
            b = rng.integers(0, 2, n).tolist()
            return B(b), b, f"B({b})"
        op = rng.integers(0, 4)
        x, mx, tx = gen(depth - 1)
        if op == 0:
            return ~x, [1 - v for v in mx], f"~({tx})"
        if op == 1:
            n = len(mx)
            s = [None if rng.random() < .3 else int(rng.integers(-n - 1, n + 2)) for _ in range(2)]
            st = [None, 1, 2, -1, -2, 3][int(rng.integers(0, 6))]
            sl = slice(s[0], s[1], st)
            return x[sl], mx[sl], f"({tx})[{sl}]"
        y, my, ty = gen(depth - 1)
        if op == 2:
            return x + y, mx + my, f"({tx})+({ty})"
        name = list(FORMS)[int(rng.integers(0, len(FORMS)))]
        if name in ('str_tab', 'str_newline') or (name.startswith('str') and not my):
            name = 'list_int'
        o = FORMS[name](my)
        if rng.random() < .5:
            return x + o, mx + my, f"({tx})+{name}{my}"
        return o + x, my + mx, f"{name}{my}+({tx})"

    for it in range(6000):
        try:
            x, m, t = gen(5)
        except Exception as e:
            bad('K6 expression', 'random', it, f"raised {type(e).__name__}: {str(e)[:100]}")
            continue
        msg = valid(x, m)
        if msg:
            bad('K6 expression', 'random', t[:200], msg)
        elif x.ones() + x.zeros() != len(m) or (~x).ones() != x.zeros() or not (~~x == x):
            bad('K6 expression', 'random', t[:200], 'identities fail')


# ---------------------------------------------------------------- K7: comparisons
def thr_forms(thr_arr):
    """thr_arr: 1-D float array (len 1 or n). Yields (name, threshold object)."""
    out = []
    if thr_arr.size == 1:
        v = float(thr_arr[0])
        out += [('py float', v), ('np.float64', np.float64(v)), ('np.float32', np.float32(v)), ('0-d array', np.array(v)),
                ('len-1 list', [v]), ('len-1 array', np.array([v])), ('len-1 tuple', (v,)), ('E scalar', E(v)), ('str', format(v, '.6f'))]
        if v == int(v):
            out += [('py int', int(v)), ('np.int64', np.int64(v)), ('bool', bool(v))] if v in (0, 1) else [('py int', int(v)), ('np.int64', np.int64(v))]
    else:
        out += [('list', thr_arr.tolist()), ('tuple', tuple(thr_arr.tolist())), ('array', thr_arr.copy()),
                ('array f32', thr_arr.astype(np.float32)), ('E array', E(thr_arr.copy())),
                ('str', ' '.join(format(float(v), '.6f') for v in thr_arr))]
    return out


def check_cmp(sig, noise, thr_arr, tag, nonneg):
    s = E(sig) if noise is None else E(sig, noise)
    tot = s.signal if s.noise is None else s.signal + s.noise
    n = s.len()
    for name, thr in thr_forms(thr_arr):
        tv = np.asarray(thr_arr, dtype=np.float32).astype(float) if 'f32' in name or name == 'np.float32' else np.asarray(thr_arr, dtype=float)
        if name == 'str':
            tv = np.array([float(w) for w in thr.split()])
        ss, st = snapshot(s), snapshot(thr)
        for op in ('s>t', 's<t', 't<s', 't>s'):
            if name.startswith('E ') and op[0] == 't':
                continue   # then the threshold object would be the signal of the comparison
            try:
                if op == 's>t': r = s > thr
                elif op == 's<t': r = s < thr
                elif op == 't<s': r = thr < s
                else: r = thr > s
            except Exception as e:
                bad('K7 compare', f'{name} {op}', (tag, np.asarray(sig)[:4].tolist(), thr if np.size(thr_arr) < 5 else '...'),
                    f"raised {type(e).__name__}: {str(e)[:70]}")
                continue
            m = valid(r)
            if m:
                bad('K7 compare valid', f'{name} {op}', (tag, thr if np.size(thr_arr) < 5 else '...'), m)
                continue
            if len(r) != n:
                bad('K7 compare length', f'{name} {op}', (tag, n), f"len {len(r)} != {n}")
                continue
            if nonneg:
                gt = op in ('s>t', 't<s')
                exp = (tot > tv) if gt else (tot < tv)
                if r.data.tolist() != exp.astype(int).tolist():
                    k = int(np.flatnonzero(r.data != exp)[0])
                    bad('K7 compare value', f'{name} {op}', (tag, float(np.real(tot[k])), float(np.atleast_1d(tv)[k % tv.size])),
                        f"got {r.data[k]} expected {int(exp[k])}")
        if snapshot(s) != ss or snapshot(thr) != st:
            bad('K7 operands unchanged', name, tag, 'operand mutated by comparison')


def k7():
    rng = np.random.default_rng(154)
    for seed in range(5):
        for n in (1, 2, 3, 7, 64, 301):
            sig = rng.random(n) * 2
            noise = rng.random(n) * 0.3
            # exact ties at the boundary
            thr_s = np.array([float(sig[0])])
            thr_a = rng.random(n) * 2
            thr_a[::2] = sig[::2]
            thr_a[-1] = sig[-1] + noise[-1]
            for nz in (None, noise, np.zeros(n)):
                check_cmp(sig, nz, thr_s, f'real n={n}', True)
                check_cmp(sig, nz, np.array([0.0]), f'real n={n} thr0', True)
                check_cmp(sig, nz, np.array([1.0]), f'real n={n} thr1', True)
                if n > 1:
                    check_cmp(sig, nz, thr_a, f'real n={n}', True)
            # dtypes
            check_cmp(sig.astype(np.float32), None, np.array([0.75]), f'f32 n={n}', True)
            check_cmp((sig * 10).astype(np.int64), None, np.array([7.0]), f'int64 n={n}', True)
            check_cmp((sig * 10).astype(np.int64), (noise * 10).astype(np.int64), np.array([7.5]), f'int64+noise n={n}', True)
            check_cmp((sig > 1), None, np.array([0.5]), f'bool n={n}', True)
            check_cmp(sig.tolist(), None, np.array([0.5]), f'list n={n}', True)
            check_cmp(tuple(sig.tolist()), tuple(noise.tolist()), np.array([0.5]), f'tuple n={n}', True)
            # non-negative signal, signed noise that keeps signal+noise >= 0
            sn = (rng.random(n) - 0.5) * sig
            check_cmp(sig, sn, np.array([0.5]), f'real signed noise n={n}', True)
            # general real / complex: only validity + length
            check_cmp(rng.normal(size=n), rng.normal(size=n), np.array([0.5]), f'signed n={n}', False)
            c = rng.normal(size=n) + 1j * rng.normal(size=n)
            check_cmp(c, None, np.array([0.5]), f'complex n={n}', False)
            check_cmp(c, c[::-1].copy(), rng.random(n), f'complex n={n}', False) if n > 1 else None
            x = rng.normal(size=n); x[0] = np.nan; x[-1] = np.inf
            check_cmp(x, None, np.array([0.5]), f'nan/inf n={n}', False)
    # scalar signal, string signal
    for s in (E(0.7), E('0.2 0.9 0.5'), E('1 0 1'), E('101'), E(3), E(True), E([2 + 0j])):
        for thr in (0.5, [0.5], np.array(0.5), '0.5'):
            for op in ('>', '<'):
                try:
                    r = (s > thr) if op == '>' else (s < thr)
                    m = valid(r)
                    if m or len(r) != s.len():
                        bad('K7 compare valid', f'misc {op}', (s.signal.tolist(), thr), m or 'length')
                    else:
                        e = (np.abs(s.signal) > 0.5) if op == '>' else (np.abs(s.signal) < 0.5)
                        if r.data.tolist() != e.astype(int).tolist():
                            bad('K7 compare value', f'misc {op}', (s.signal.tolist(), thr), repr(r))
                except Exception as e:
                    bad('K7 compare', f'misc {op}', (s.signal.tolist(), thr), f"raised {type(e).__name__}: {str(e)[:70]}")
    # mismatched lengths must raise, not give a sequence of another length
    for ns, nt in [(1, 3), (3, 2), (4, 5), (2, 4)]:
        try:
            r = E(np.ones(ns)) > np.zeros(nt)
            if len(r) != ns:
                bad('K7 compare length', 'mismatch', (ns, nt), f"returned len {len(r)}")
        except (ValueError, TypeError):
            pass
    # repeated calls / call order: same answer
    s = E(rng.random(50), rng.random(50) * .1)
    r1 = (s > 0.5).data.copy(); _ = s < 0.2; _ = str(B('101')); _ = repr(s); r2 = (s > 0.5).data
    if not np.array_equal(r1, r2):
        bad('K7 compare value', 'repeat', 'call order', 'result changed between calls')


if __name__ == '__main__':
    for f in (k1, k2, k3, k4, k5, k6, k7):
        try:
            f()
        except Exception as e:
            import traceback; traceback.print_exc()
            bad('AUDIT', f.__name__, '-', f"audit function crashed: {type(e).__name__}: {e}")
    if not viol:
        print('PASS')
        sys.exit(0)
    for (clause, form), (cnt, ex) in viol.items():
        for line in ex:
            print(line)
        if cnt > len(ex):
            print(f"   ... {cnt - len(ex)} more inputs violate {clause} [{form}]")
    print(f"FAIL: {len(viol)} (clause, form) groups violated")
    sys.exit(1)
