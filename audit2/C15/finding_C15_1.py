# threshold < signal / threshold > signal with a numpy threshold on the left raises instead of giving a binary_sequence
import sys; del sys.path[0]
import numpy as np
from opticomlib.typing import electrical_signal, binary_sequence
s = electrical_signal([0.1, 0.7, 0.5])
print('0.5 < s              ->', (0.5 < s).data, '(python float: works, same as s > 0.5)')
fail = 0
for name, thr in [('np.float64(0.5)', np.float64(0.5)), ('np.array(0.5)', np.array(0.5)),
                  ('np.array([.5,.5,.5])', np.array([.5, .5, .5]))]:
    try:
        r = thr < s
        ok = isinstance(r, binary_sequence) and r.data.tolist() == [0, 1, 0]
        print(f'{name} < s ->', r if ok else f'WRONG {r!r}'); fail |= not ok
    except Exception as e:
        print(f'{name} < s -> expected binary_sequence([0 1 0]), got {type(e).__name__}: {str(e)[:60]}...'); fail = 1
sys.exit(fail)
