# the empty bit string '' is refused although every other empty container ([], (), array([]), ' ', ',') is a valid empty sequence
import sys; del sys.path[0]
import numpy as np
from opticomlib.typing import binary_sequence
a = binary_sequence('101')
for e in ([], (), np.array([]), ' ', ','):
    assert len(binary_sequence(e)) == 0 and len(a + e) == 3 and len(e + a) == 3
fail = 0
for what, f in [("binary_sequence('')", lambda: binary_sequence('')), ("a + ''", lambda: a + ''), ("'' + a", lambda: '' + a)]:
    try:
        r = f(); print(what, '->', r)
    except Exception as e:
        print(f"{what}: expected a sequence of length {0 if what.startswith('binary') else 3} (len(a+b) = len(a)+len(b)), got {type(e).__name__}: {e}")
        fail = 1
sys.exit(fail)
