# 0/1 strings separated/terminated by whitespace other than ' ' pass str2array's validation as binary text but are not split
import sys; del sys.path[0]
from opticomlib.typing import binary_sequence
from opticomlib.utils import str2array
print("str2array('1\\t2')       ->", str2array('1\t2'), "(tab is an element separator here)")
print("str2array('1\\t0', int)  ->", str2array('1\t0', int), "(and here)")
fail = 0
for s in ('1\t0\t1', '101\n', '1\n0\n1', '1 0\t1'):
    try:
        r = binary_sequence(s)
        ok = r.data.tolist() == [1, 0, 1]; fail |= not ok
        print(repr(s), '->', r.data)
    except Exception as e:
        print(f"binary_sequence({s!r}): expected data [1 0 1], got {type(e).__name__}: {e}")
        fail = 1
sys.exit(fail)
