"""Audit of property C16 (FBG passive reflector / coupled-mode closed forms)."""
import sys
sys.path.pop(0)  # drop the script's own directory; opticomlib must come from PYTHONPATH

import io
import itertools
import functools
import contextlib
import warnings
import numpy as np
from scipy.constants import c, pi
from scipy.integrate import quad
from scipy.interpolate import CubicSpline

from opticomlib import gv, optical_signal
from opticomlib.devices import FBG

warnings.simplefilter("ignore")

TOL_H = 2e-3       # |H| <= 1 within the RK45 tolerance (rtol 1e-3)
TOL_BRAGG = 5e-3   # tanh^2 closed form
TOL_SPEC = 1e-2    # whole uniform spectrum
TOL_ROUTE = 5e-3   # same grating through different routes
NEFF = 1.45

violations = []
notes = []


def bad(clause, what):
    line = f"VIOLATION [{clause}] {what}"
    violations.append(line)
    print(line, flush=True)


def note(tag, what):
    line = f"NOTE (outside the statement) [{tag}] {what}"
    notes.append(line)
    print(line, flush=True)


def quiet(*a, **k):
    k.setdefault("print_params", False)
    k.setdefault("retH", True)
    return FBG(*a, **k)


APO = {
    "uniform": lambda z: 1.0 + 0 * z,
    "rcos": lambda z: 0.5 * (1 + np.cos(2 * pi * z)),  # what the code implements (zero at the ends)
    "gaussian": lambda z: np.exp(-4 * np.log(2) * (3 * z) ** 2),
    "parabolic": lambda z: 1 - (2 * z) ** 2,
}


def uniform_closed_form(kL, vd, lamD, n):
    f = np.fft.fftshift(np.fft.fftfreq(n)) * gv.fs + gv.f0
    lam = c / f
    L = kL * lamD / (pi * vd)
    d = 2 * pi * NEFF * (1 / lam - 1 / lamD) * L
    k = pi * vd / lam * L
    g = np.sqrt((k ** 2 - d ** 2).astype(complex))
    return (np.sinh(g) ** 2 / (np.cosh(g) ** 2 - d ** 2 / k ** 2)).real


def make_input(n, npol, rng, kind):
    if kind == "ones":
        s = np.ones(n)
    elif kind == "impulse":
        s = np.zeros(n); s[0] = 1.0
    elif kind == "int":
        s = rng.integers(0, 2, n)
    else:
        s = rng.normal(size=n) + 1j * rng.normal(size=n)
    if npol == 2:
        s2 = rng.normal(size=n) + 1j * rng.normal(size=n) if kind == "rand" else s * 0.5
        s = np.array([s, s2])
    return optical_signal(s)


def check_passive_and_filter(tag, x, H, y):
    m = np.abs(H).max() - 1
    if not np.isfinite(H).all():
        bad("A |H|<=1", f"{tag}: H has non-finite values")
    elif m > TOL_H:
        bad("A |H|<=1", f"{tag}: max|H|-1 = {m:.3e}")
    exp = np.fft.ifft(np.fft.fft(x.signal, axis=-1) * np.fft.ifftshift(H), axis=-1)
    if y.signal.shape != x.signal.shape:
        bad("B filter", f"{tag}: output shape {y.signal.shape} != input shape {x.signal.shape}")
        return
    err = np.abs(y.signal - exp).max()
    if err > 1e-10 * max(1.0, np.abs(x.signal).max()):
        bad("B filter", f"{tag}: output differs from ifft(fft(in)*H) by {err:.3e}")
    ein = (np.abs(x.signal) ** 2).sum(axis=-1)
    eout = (np.abs(y.signal) ** 2).sum(axis=-1)
    if (eout > ein * (1 + TOL_H) ** 2 + 1e-12).any():
        bad("B energy", f"{tag}: energy out {eout} > energy in {ein}")
    if getattr(y, "noise", None) is not None:
        bad("B filter", f"{tag}: noise-free input produced a noise component")


# ---------------------------------------------------------------- A/B/C/D enumerated corners
def enumerated_corners():
    rng = np.random.default_rng(0)
    for fs in (20e9, 400e9):
        for n in (2 ** 8, 2 ** 12):
            gv(fs=fs)
            lamD = c / gv.f0
            for npol in (1, 2):
                x = make_input(n, npol, rng, "rand")
                for kL in (0.1, 8, 8.0, 1):
                    for vd in (1e-5, 1e-3):
                        if n == 2 ** 12 and vd == 1e-5 and npol == 2:
                            continue  # slow duplicate of the one-pol case
                        tag = f"fs={fs:.0e} n={n} npol={npol} kL={kL!r} vd={vd}"
                        y, H = quiet(x, fc=gv.f0, vdneff=vd, kL=kL)
                        check_passive_and_filter(tag, x, H, y)
                        r = np.abs(H) ** 2
                        e = np.abs(r - uniform_closed_form(kL, vd, lamD, n)).max()
                        if e > TOL_SPEC:
                            bad("D uniform spectrum", f"{tag}: max err {e:.3e}")
                        e0 = abs(r[n // 2] - np.tanh(kL) ** 2)
                        if e0 > TOL_BRAGG:
                            bad("C Bragg", f"{tag} uniform: err {e0:.3e}")
    # apodisations x chirp corners
    for fs in (20e9, 400e9):
        for n in (2 ** 8, 2 ** 10):
            gv(fs=fs)
            for npol in (1, 2):
                x = make_input(n, npol, rng, "ones" if npol == 1 else "int")
                for kL in (0.1, 8):
                    for vd in (1e-5, 1e-3):
                        for apo in APO:
                            I = quad(APO[apo], -0.5, 0.5)[0]
                            for F in (-20, -20.0, 0, 0.0, 20, np.float64(7.5)):
                                if npol == 2 and F not in (0, 20):
                                    continue
                                tag = f"fs={fs:.0e} n={n} npol={npol} kL={kL} vd={vd} apo={apo} F={F!r}"
                                y, H = quiet(x, landa_D=c / gv.f0, vdneff=vd, kL=kL, apodization=apo, F=F)
                                check_passive_and_filter(tag, x, H, y)
                                if F == 0:
                                    e0 = abs(np.abs(H[n // 2]) ** 2 - np.tanh(kL * I) ** 2)
                                    if e0 > TOL_BRAGG:
                                        bad("C Bragg", f"{tag}: |H0|^2={np.abs(H[n//2])**2:.6f} expected {np.tanh(kL*I)**2:.6f}")


# ---------------------------------------------------------------- random sampling
def random_sampling():
    rng = np.random.default_rng(16)
    for it in range(250):
        fs = float(rng.uniform(20e9, 400e9))
        n = int(2 ** rng.integers(8, 12))
        gv(fs=fs)
        npol = int(rng.integers(1, 3))
        x = make_input(n, npol, rng, rng.choice(["ones", "rand", "impulse"]))
        kL = float(rng.choice([0.1, 8, rng.uniform(0.1, 8)]))
        vd = float(rng.choice([1e-5, 1e-3, 10 ** rng.uniform(-5, -3)]))
        F = float(rng.choice([0, 0, -20, 20, rng.uniform(-20, 20)]))
        kind = rng.choice(["builtin", "callable"])
        if kind == "builtin":
            name = str(rng.choice(list(APO)))
            apo, prof = name, APO[name]
        else:
            a, b, ph, amp = rng.uniform(0.2, 1.5), rng.uniform(0, 6), rng.uniform(0, 6), rng.uniform(0, 0.95)
            prof = lambda z, a=a, b=b, ph=ph, amp=amp: a * (1 + amp * np.sin(b * z + ph)) + 1e-3
            apo = prof
            name = f"callable(a={a:.3f},b={b:.3f},ph={ph:.3f},amp={amp:.3f})"
        filt = bool(rng.integers(0, 2))
        tag = f"rand#{it} fs={fs:.4e} n={n} npol={npol} kL={kL:.4f} vd={vd:.3e} F={F:.3f} apo={name} filtfilt={filt}"
        y, H = quiet(x, fc=gv.f0, vdneff=vd, kL=kL, apodization=apo, F=F, filtfilt=filt)
        check_passive_and_filter(tag, x, H, y)
        if F == 0:
            I = quad(prof, -0.5, 0.5)[0]
            e0 = abs(np.abs(H[n // 2]) ** 2 - np.tanh(kL * I) ** 2)
            if e0 > TOL_BRAGG:
                bad("C Bragg", f"{tag}: err {e0:.3e}")
        # repeated call gives the same answer (no state left behind)
        if it % 25 == 0:
            y2, H2 = quiet(x, fc=gv.f0, vdneff=vd, kL=kL, apodization=apo, F=F, filtfilt=filt)
            if not (np.array_equal(H, H2) and np.array_equal(y.signal, y2.signal)):
                bad("A repeat", f"{tag}: second identical call differs")


# ---------------------------------------------------------------- kinds of user callables
def callable_kinds():
    gv(fs=100e9)
    n = 256
    x = optical_signal(np.ones(n))
    base = lambda z: 0.6 + 0.4 * np.cos(2 * z)
    zz = np.linspace(-0.5, 0.5, 101)

    class Obj:
        def __call__(self, z):
            return base(z)

    class Falsy(Obj):
        def __len__(self):
            return 0

    def g(z, a):
        return a * base(z)

    kinds = {
        "lambda": base,
        "poly1d": np.poly1d([-0.8, 0, 1]),
        "poly1d-const": np.poly1d([0.5]),
        "Polynomial": np.polynomial.Polynomial([1, 0, -0.8]),
        "partial": functools.partial(g, a=1.0),
        "spline-on-[-.5,.5]": CubicSpline(zz, base(zz), extrapolate=False),
        "vectorize": np.vectorize(base),
        "object": Obj(),
        "falsy-object": Falsy(),
        "ufunc": np.cos,
        "bound-method": Obj().__call__,
        "returns-int": lambda z: 1,
    }
    for kL in (0.1, 2.0, 8):
        for name, f in kinds.items():
            try:
                y, H = quiet(x, fc=gv.f0, vdneff=1e-4, kL=kL, apodization=f)
            except Exception as e:  # noqa
                bad("C callable", f"{name} kL={kL}: {type(e).__name__}: {e}")
                continue
            check_passive_and_filter(f"callable {name} kL={kL}", x, H, y)
            I = quad(lambda z: float(f(z)), -0.5, 0.5)[0]
            e0 = abs(np.abs(H[n // 2]) ** 2 - np.tanh(kL * I) ** 2)
            if e0 > TOL_BRAGG:
                bad("C Bragg", f"callable {name} kL={kL}: |H0|^2={np.abs(H[n//2])**2:.6f} expected {np.tanh(kL*I)**2:.6f}")


# ---------------------------------------------------------------- specification routes
def routes():
    rng = np.random.default_rng(5)
    cases = [(100e9, 256, 2.0, 1e-4), (20e9, 256, 0.1, 1e-3), (400e9, 1024, 8, 1e-5), (20e9, 512, 8, 1e-3), (400e9, 256, 0.1, 1e-5)]
    for _ in range(10):
        cases.append((float(rng.uniform(20e9, 400e9)), 256, float(rng.uniform(0.1, 8)), float(10 ** rng.uniform(-5, -3))))
    for fs, n, kL0, vd in cases:
        gv(fs=fs)
        x = optical_signal(np.ones(n))
        lam = c / gv.f0
        Lam = lam / (2 * NEFF)
        Nper = max(1, int(round(kL0 * lam / (pi * vd) / Lam)))  # integer number of periods
        L = Nper * Lam
        kL = pi * vd * L / lam
        for apo, F in (("uniform", 0), ("gaussian", 0), ("uniform", 9.0)):
            res = {}
            for cname, ckw in (("fc", dict(fc=gv.f0)), ("landa_D", dict(landa_D=lam))):
                for lname, lkw in (("kL", dict(kL=kL)), ("L", dict(L=L)), ("N", dict(N=Nper)), ("N-npint", dict(N=int(np.int64(Nper))))):
                    try:
                        _, H = quiet(x, vdneff=vd, apodization=apo, F=F, **ckw, **lkw)
                    except Exception as e:  # noqa
                        bad("E routes", f"fs={fs:.3e} kL={kL:.4f} vd={vd:.2e} {cname}+{lname}: {type(e).__name__}: {e}")
                        continue
                    res[(cname, lname)] = H
            ref = res.get(("fc", "kL"))
            for key, H in res.items():
                d = np.abs(H - ref).max()
                if d > TOL_ROUTE:
                    bad("E routes", f"fs={fs:.3e} kL={kL:.4f} vd={vd:.2e} apo={apo} F={F}: {key} differs from (fc,kL) by {d:.3e}")


# ---------------------------------------------------------------- incomplete specifications
def incomplete():
    gv(fs=100e9)
    x = optical_signal(np.ones(256))
    lam = c / gv.f0
    vd, kL = 1e-4, 2.0
    L = kL * lam / (pi * vd)
    N = int(round(L / (lam / 2 / NEFF)))
    allp = dict(fc=gv.f0, landa_D=lam, kL=kL, L=L, N=N, vdneff=vd)
    for r in range(0, 7):
        for sub in itertools.combinations(allp, r):
            kw = {k: allp[k] for k in sub}
            centre = "fc" in kw or "landa_D" in kw
            length = any(k in kw for k in ("kL", "L", "N"))
            complete_vd = centre and "vdneff" in kw and length
            # documented third route: landa_D, kL and (L or N) determine vdneff
            route3 = "landa_D" in kw and "fc" not in kw and "kL" in kw and ("L" in kw or "N" in kw)
            try:
                quiet(x, **kw)
                res = "ok"
            except ValueError:
                res = "ValueError"
            except Exception as e:  # noqa
                res = f"{type(e).__name__}: {e}"
            if complete_vd and res != "ok":
                bad("F specs", f"complete specification {sub} -> {res}")
            if not complete_vd and not route3 and res != "ValueError":
                bad("F specs", f"incomplete specification {sub} -> {res} (ValueError expected)")
    # explicit None / positional-order corners
    for kw in (dict(fc=None, landa_D=None, vdneff=vd, kL=kL), dict(fc=gv.f0, vdneff=None, kL=kL), dict(fc=gv.f0, vdneff=vd, kL=None, L=None, N=None)):
        try:
            quiet(x, **kw)
            bad("F specs", f"{kw} accepted")
        except ValueError:
            pass
        except Exception as e:  # noqa
            bad("F specs", f"{kw} -> {type(e).__name__}: {e}")


# ---------------------------------------------------------------- position of the centre inside the simulated band
def centre_positions():
    for fs, n in ((20e9, 256), (100e9, 256), (400e9, 4096)):
        gv(fs=fs)
        x = optical_signal(np.ones(n))
        bins = sorted({-n // 2, -n // 2 + 1, -n // 4, -1, 0, 1, n // 4, n // 2 - 4, n // 2 - 3, n // 2 - 2, n // 2 - 1})
        for b in bins:
            fcen = gv.f0 + b * fs / n
            for route in ("fc", "landa_D"):
                kw = dict(fc=fcen) if route == "fc" else dict(landa_D=c / fcen)
                tag = f"fs={fs:.0e} n={n} centre at bin {b:+d} of [{-n//2},{n//2-1}] via {route}"
                try:
                    y, H = quiet(x, vdneff=1e-4, kL=2.0, **kw)
                except Exception as e:  # noqa
                    bad("G centre in band", f"{tag}: {type(e).__name__}: {e}")
                    continue
                check_passive_and_filter(tag, x, H, y)
                e0 = abs(np.abs(H[n // 2 + b]) ** 2 - np.tanh(2.0) ** 2)
                if e0 > TOL_BRAGG:
                    bad("C Bragg", f"{tag}: err {e0:.3e}")


# ---------------------------------------------------------------- observations outside the statement
def outside_statement():
    gv(fs=100e9)
    n = 256
    rng = np.random.default_rng(3)
    s = rng.normal(size=n) + 0j
    nz = 0.1 * (rng.normal(size=n) + 1j * rng.normal(size=n))
    x = optical_signal(s, nz)
    y, H = quiet(x, fc=gv.f0, vdneff=1e-4, kL=2.0)
    if y.noise is None:
        note("noise", "input with a noise component: output.noise is None (noise neither filtered nor kept)")
    buf = io.StringIO()
    with contextlib.redirect_stdout(buf):
        FBG(optical_signal(np.ones(n)), landa_D=c / gv.f0, vdneff=1e-4, N=10000)
    txt = buf.getvalue()
    if "None" in txt:
        note("print", "print_params shows the bandwidth as 'None': " + [l for l in txt.splitlines() if "None" in l][0].strip())
    if "N = 10000" not in txt:
        note("print", "N=10000 given, printed: " + [l for l in txt.splitlines() if " N = " in l][0].strip())


if __name__ == "__main__":
    enumerated_corners()
    random_sampling()
    callable_kinds()
    routes()
    incomplete()
    centre_positions()
    outside_statement()
    if violations:
        print(f"FAIL: {len(violations)} violation line(s)")
        sys.exit(1)
    print("PASS")
    sys.exit(0)
