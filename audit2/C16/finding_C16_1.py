# FBG raises IndexError when the Bragg centre lies on one of the two highest frequency bins (or above the
# band), although the mirror-image centre at the bottom of the band works.
import sys; sys.path.pop(0)
import numpy as np, warnings
from opticomlib import gv, optical_signal
from opticomlib.devices import FBG
warnings.simplefilter('ignore')
gv(fs=20e9)                                  # 20 GS/s, n = 2**8: both ends of the quantified domain
x = optical_signal(np.ones(256))
_, Hlow = FBG(x, fc=gv.f0 - 10e9, vdneff=1e-4, kL=2.0, print_params=False, retH=True)   # centre on the lowest bin: fine
print('centre f0-fs/2: ok, |H| at bin 0 =', abs(Hlow[0]), '(expected tanh(2) = %.6f)' % np.tanh(2))
try:
    _, H = FBG(x, fc=gv.f0 + 10e9 - 2*20e9/256, vdneff=1e-4, kL=2.0, print_params=False, retH=True)  # bin 254 of 0..255
except IndexError as e:
    print('centre on bin 254 (f0+fs/2-2*df): expected |H[254]| = %.6f, got IndexError: %s' % (np.tanh(2), e))
    sys.exit(1)
print('ok', abs(H[254]))
