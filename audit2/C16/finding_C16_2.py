# (outside the quantifier, which does not mention noise) FBG drops the noise component of its input:
# the output is the filtered .signal only, .noise comes back as None (BPF, LPF, EDFA, PM, FIBER carry it along).
import sys; sys.path.pop(0)
import numpy as np, warnings
from opticomlib import gv, optical_signal
from opticomlib.devices import FBG
warnings.simplefilter('ignore')
gv(fs=100e9)
rng = np.random.default_rng(0)
x = optical_signal(np.ones(256), 0.1*rng.normal(size=256))
y, H = FBG(x, fc=gv.f0, vdneff=1e-4, kL=2.0, print_params=False, retH=True)
expected = np.fft.ifft(np.fft.fft(x.noise) * np.fft.ifftshift(H))
print('expected output.noise = input noise filtered by H, power %.3e' % np.mean(abs(expected)**2))
print('got      output.noise =', y.noise)
sys.exit(1 if y.noise is None else 0)
