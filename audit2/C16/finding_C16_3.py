# (outside the statement: printed report only) FBG(print_params=True) never shows the bandwidth - it prints
# "None" - and reports one period less than the N it was given.
import sys; sys.path.pop(0)
import io, contextlib, warnings
import numpy as np
from scipy.constants import c
from opticomlib import gv, optical_signal
from opticomlib.devices import FBG
warnings.simplefilter('ignore')
gv(fs=100e9)
buf = io.StringIO()
with contextlib.redirect_stdout(buf):
    FBG(optical_signal(np.ones(256)), landa_D=c/gv.f0, vdneff=1e-4, N=10000)
lines = [l.strip() for l in buf.getvalue().splitlines() if 'Δf' in l or ' N = ' in l]
print('expected: "- N = 10000" and "- Δf = <x> GHz (Δλ = <y> pm)"')
print('got     :', lines)
sys.exit(1 if any('None' in l for l in lines) or '- N = 10000' not in lines else 0)
