# (outside the statement) FBG(..., retH=True) returns before toc(): its tic() stays on the timer stack,
# so the caller's own tic()/toc() pair is answered with FBG's start time and the stack grows by one per call.
import sys; sys.path.pop(0)
import time, warnings
import numpy as np
from opticomlib import gv, optical_signal
from opticomlib.utils import tic, toc, _timer_instance
from opticomlib.devices import FBG
warnings.simplefilter('ignore')
gv(fs=100e9)
x = optical_signal(np.ones(256))
tic(); time.sleep(0.5)
FBG(x, fc=gv.f0, vdneff=1e-4, kL=2.0, print_params=False, retH=True)
t = toc()
print('expected toc() >= 0.5 s (time since the caller\'s tic) and an empty stack')
print('got      toc() = %.3f s, entries left on the stack: %d' % (t, len(_timer_instance.tic_stack)))
sys.exit(1 if t < 0.5 or _timer_instance.tic_stack else 0)
