import sys
del sys.path[0]
import warnings
warnings.filterwarnings("ignore")
import itertools
import numpy as np
import scipy.signal as sg
from opticomlib import gv, electrical_signal
from opticomlib.devices import GET_EYE, PRBS, LPF

viol = []
nrun = 0


def report(clause, desc, msg):
    line = f"VIOLATION [{clause}] {desc}: {msg}"
    print(line, flush=True)
    viol.append(line)


def waveform(bits, sps, a, b, sig_frac, filt, rng):
    """two-level NRZ a/b, mild zero-phase band limiting, white gaussian noise"""
    gv(sps=sps, R=1e9)
    bits = np.asarray(bits, dtype=float)
    x = np.kron(bits, np.ones(sps))
    if filt == "bessel":
        x = LPF(electrical_signal(x), 0.75 * 1e9).signal
    elif filt == "gauss":
        k = np.arange(-2 * sps, 2 * sps + 1)
        h = np.exp(-0.5 * (k / (0.18 * sps)) ** 2)
        h /= h.sum()
        x = np.convolve(np.r_[x[-2 * sps:], x, x[:2 * sps]], h, "same")[2 * sps:-2 * sps]  # periodic
    elif filt == "rc":  # one-pole forward-backward
        bb, aa = sg.butter(1, 0.8 * 2 / sps)
        x = sg.filtfilt(bb, aa, x)
    x = a + (b - a) * x
    sigma = sig_frac * (b - a)
    n = rng.normal(0, sigma, x.size)
    return x, n, sigma


def run(x, seed, wrap="array", noise=None):
    np.random.seed(seed)
    if wrap == "array":
        y = x if noise is None else x + noise
        return GET_EYE(y, sps_resamp=128)
    elif wrap == "esig":
        y = x if noise is None else x + noise
        return GET_EYE(electrical_signal(y), sps_resamp=128)
    else:  # noise kept in the .noise attribute
        return GET_EYE(electrical_signal(x, noise), sps_resamp=128)


def check(e, a, b, sigma, sps, desc):
    d = b - a
    ok = True
    vals = dict(mu0=e.mu0, mu1=e.mu1, s0=e.s0, s1=e.s1, threshold=e.threshold,
                t_left=e.t_left, t_right=e.t_right, t_opt=e.t_opt, i=e.i)
    for k, v in vals.items():
        if v is None or not np.isfinite(v):
            report("finite", desc, f"{k} = {v}")
            ok = False
    if not ok:
        return False
    if abs(e.mu0 - a) > 0.08 * d:
        report("mu0", desc, f"mu0={e.mu0:.6g} expected {a:.6g} +- {0.08*d:.3g}"); ok = False
    if abs(e.mu1 - b) > 0.08 * d:
        report("mu1", desc, f"mu1={e.mu1:.6g} expected {b:.6g} +- {0.08*d:.3g}"); ok = False
    for k in ("s0", "s1"):
        s = getattr(e, k)
        if not (sigma / 2 <= s <= 2 * sigma + 0.03 * d):
            report(k, desc, f"{k}={s:.4g} outside [{sigma/2:.4g}, {2*sigma+0.03*d:.4g}]"); ok = False
    if not (e.mu0 < e.threshold < e.mu1):
        report("threshold", desc, f"mu0={e.mu0:.6g} thr={e.threshold:.6g} mu1={e.mu1:.6g}"); ok = False
    if abs((e.t_right - e.t_left) - 1) > 0.1:
        report("t_dist", desc, f"t_left={e.t_left:.4f} t_right={e.t_right:.4f}"); ok = False
    if abs(e.t_opt - (e.t_left + e.t_right) / 2) > 1 / 128 + 1e-12:
        report("t_opt", desc, f"t_opt={e.t_opt:.5f} mid={(e.t_left+e.t_right)/2:.5f}"); ok = False
    if abs(e.t_dist - (e.t_right - e.t_left)) > 1e-12:
        report("t_dist attr", desc, f"{e.t_dist}")
    if not (isinstance(e.i, (int, np.integer)) and not isinstance(e.i, bool)):
        report("i integer", desc, f"type {type(e.i)}"); ok = False
    if not (0 <= e.i < sps):
        report("i range", desc, f"i={e.i} sps={sps}"); ok = False
    return ok


def check_equiv(e, e2, alpha, beta, d, desc):
    tol = 1e-6 * d * alpha + 1e-9 * abs(beta)
    if abs(e2.mu0 - (alpha * e.mu0 + beta)) > tol:
        report("equiv mu0", desc, f"{e2.mu0!r} vs {alpha*e.mu0+beta!r}")
    if abs(e2.mu1 - (alpha * e.mu1 + beta)) > tol:
        report("equiv mu1", desc, f"{e2.mu1!r} vs {alpha*e.mu1+beta!r}")
    if abs(e2.s0 - alpha * e.s0) > tol:
        report("equiv s0", desc, f"{e2.s0!r} vs {alpha*e.s0!r}")
    if abs(e2.s1 - alpha * e.s1) > tol:
        report("equiv s1", desc, f"{e2.s1!r} vs {alpha*e.s1!r}")
    for k in ("t_left", "t_right", "t_opt", "i"):
        if getattr(e, k) != getattr(e2, k):
            report("equiv " + k, desc, f"{getattr(e,k)} -> {getattr(e2,k)}")
    if e.threshold is not None and e2.threshold is not None:
        if abs(e2.threshold - (alpha * e.threshold + beta)) > 0.02 * d * alpha:
            report("equiv threshold", desc, f"{e2.threshold!r} vs {alpha*e.threshold+beta!r}")


def one(bits, sps, a, b, sf, filt, seed, wrap, desc, alphas=()):
    global nrun
    rng = np.random.default_rng(seed)
    x, n, sigma = waveform(bits, sps, a, b, sf, filt, rng)
    try:
        e = run(x, seed, wrap, n)
    except Exception as ex:
        report("exception", desc, repr(ex))
        return
    nrun += 1
    ok = check(e, a, b, sigma, sps, desc)
    for alpha, beta in alphas:
        try:
            e2 = run(alpha * x + beta, seed, wrap, alpha * n)
        except Exception as ex:
            report("exception", desc + f" alpha={alpha} beta={beta}", repr(ex))
            continue
        nrun += 1
        if ok:
            check_equiv(e, e2, alpha, beta, b - a, desc + f" alpha={alpha} beta={beta}")
        # the scaled signal is itself a signal of the domain if its level distance is in [1e-3, 100]
        if 1e-3 <= alpha * (b - a) <= 100:
            check(e2, alpha * a + beta, alpha * b + beta, alpha * sigma, sps, desc + f" [scaled a={alpha} b={beta}]")


# ---------------------------------------------------------------- patterns
def patterns(rng):
    P = {}
    for L in (64, 65, 66, 67, 100, 127, 128, 129, 257):
        P[f"rand{L}"] = rng.integers(0, 2, L)
    for p in (0.25, 0.75):
        bb = (rng.random(128) < p).astype(int)
        P[f"rand128_p{p}"] = bb
    P["prbs7"] = PRBS(order=7).data
    P["prbs7_len64"] = PRBS(order=7, len=64).data
    P["prbs9"] = PRBS(order=9).data
    P["prbs7_len200"] = PRBS(order=7, len=200).data
    # enumerated structured patterns ("for all ... bit patterns of >= 64 slots", both symbols present)
    P["alt1010"] = np.tile([1, 0], 32)
    P["alt0101"] = np.tile([0, 1], 32)
    P["pairs0011"] = np.tile([0, 0, 1, 1], 16)
    P["pairs1100"] = np.tile([1, 1, 0, 0], 16)
    P["quads"] = np.tile([0, 0, 0, 0, 1, 1, 1, 1], 8)
    P["half0half1"] = np.r_[np.zeros(32, int), np.ones(32, int)]
    P["block_even"] = np.r_[np.zeros(20, int), np.ones(24, int), np.zeros(20, int)]
    P["block_odd"] = np.r_[np.zeros(21, int), np.ones(23, int), np.zeros(20, int)]
    P["triples"] = np.tile([0, 0, 0, 1, 1, 1], 11)
    P["first_last_1"] = np.r_[1, rng.integers(0, 2, 62), 1]
    P["first1_last0"] = np.r_[1, rng.integers(0, 2, 62), 0]
    P["few_ones"] = np.r_[np.zeros(28, int), [1, 0, 1, 1, 0, 0, 1, 0], np.zeros(28, int)]
    P["few_zeros"] = 1 - P["few_ones"]
    return P


def main():
    rng = np.random.default_rng(17)
    P = patterns(rng)
    levels = [(0.0, 1e-3), (0.0, 1.0), (0.0, 100.0), (-50.0, 50.0), (-1.0, 1.0), (-3.0, -1.0),
              (2e-4, 1.2e-3), (5.0, 5.001), (-100.0, 0.0), (40.0, 45.0)]
    sfs = [0.005, 0.02, 0.05]
    alphas_all = [(1e-3, 0.0), (1e3, 0.0), (1.0, 7.0), (2.5, -3.0), (1e3, 1e3), (1e-3, -1e-3), (0.37, 1e4)]

    # systematic: every pattern x sps, rotating the other parameters
    k = 0
    for name, bits in P.items():
        for sps in (8, 16, 32):
            a, b = levels[k % len(levels)]
            sf = sfs[k % 3]
            filt = ("bessel", "gauss", "rc")[(k // 3) % 3]
            wrap = ("array", "esig", "noiseattr")[(k // 2) % 3]
            al = [alphas_all[k % len(alphas_all)]]
            one(bits, sps, a, b, sf, filt, 100 + k, wrap,
                f"pat={name} sps={sps} a={a} b={b} sig={sf} filt={filt} wrap={wrap}", al)
            k += 1

    # systematic: every level x sigma x sps on a random 64-slot pattern, all alphas at the ends
    bits = P["rand64"]
    for (a, b), sf, sps in itertools.product(levels, sfs, (8, 16, 32)):
        one(bits, sps, a, b, sf, "bessel", 1000 + k, "array",
            f"pat=rand64 sps={sps} a={a} b={b} sig={sf}", [alphas_all[k % len(alphas_all)]])
        k += 1
    for al in alphas_all:
        one(P["rand128"], 16, 0.0, 1.0, 0.02, "bessel", 5, "array", "pat=rand128 sps=16 a=0 b=1", [al])
        one(P["prbs7"], 8, 0.0, 1e-3, 0.05, "gauss", 6, "esig", "pat=prbs7 sps=8 a=0 b=1e-3", [al])
        one(P["prbs7"], 32, -50.0, 50.0, 0.005, "rc", 7, "noiseattr", "pat=prbs7 sps=32 a=-50 b=50", [al])

    # random sampling
    for j in range(60):
        L = int(rng.integers(64, 400))
        bits = rng.integers(0, 2, L)
        if bits.min() == bits.max():
            continue
        sps = int(rng.choice([8, 16, 32]))
        d = 10 ** rng.uniform(-3, 2)
        a = rng.uniform(-2, 2) * d
        sf = rng.uniform(0.005, 0.05)
        alpha = 10 ** rng.uniform(-3, 3)
        beta = rng.uniform(-5, 5) * d * alpha
        filt = str(rng.choice(["bessel", "gauss", "rc"]))
        wrap = str(rng.choice(["array", "esig", "noiseattr"]))
        one(bits, sps, a, a + d, sf, filt, 3000 + j, wrap,
            f"random#{j} L={L} sps={sps} a={a:.4g} d={d:.4g} sig={sf:.3g} filt={filt} wrap={wrap}", [(alpha, beta)])

    # long patterns (> default nslots)
    one(PRBS(order=15, len=9001).data, 8, 0.0, 1.0, 0.03, "bessel", 9, "array", "prbs15 len=9001 sps=8")

    # repeated calls / call order: same input, same seed -> same result, input not modified
    gv(sps=16, R=1e9)
    x, n, sigma = waveform(P["rand128"], 16, 0.0, 1.0, 0.02, "bessel", np.random.default_rng(1))
    y = x + n
    y0 = y.copy()
    e1 = run(y, 3); e2 = run(y, 3)
    if not np.array_equal(y, y0):
        report("state", "input mutated", "")
    for kk in ("mu0", "mu1", "s0", "s1", "threshold", "t_left", "t_right", "t_opt", "i"):
        if getattr(e1, kk) != getattr(e2, kk):
            report("state", "repeat call", f"{kk}: {getattr(e1,kk)} vs {getattr(e2,kk)}")

    print(f"runs: {nrun}")
    if viol:
        print(f"{len(viol)} violations")
        sys.exit(1)
    print("PASS")
    sys.exit(0)


main()
