# C17: a >= 64-slot two-level NRZ pattern whose transitions all fall on slot boundaries of one parity
# (every bit sent twice: 0011 0011 ...; likewise 0000 1111, or 20 zeros + 24 ones + 20 zeros)
import sys; del sys.path[0]
import numpy as np
from opticomlib import gv, electrical_signal
from opticomlib.devices import GET_EYE, LPF
gv(sps=16, R=1e9)
a, b, sigma = 0.0, 1.0, 0.02                        # sigma = 2% of b-a
bits = np.tile([0, 0, 1, 1], 16)                   # 64 slots, both symbols present
x = a + (b - a) * LPF(electrical_signal(np.kron(bits, np.ones(16))), 0.75e9).signal   # mild band-limiting
y = x + np.random.default_rng(0).normal(0, sigma, x.size)
np.random.seed(0)
e = GET_EYE(y, sps_resamp=128)
print("expected: mu0~0 mu1~1 s0,s1 in [0.01,0.07] mu0<thr<mu1 t_right-t_left~1 0<=i<16")
print(f"got     : mu0={e.mu0} mu1={e.mu1} s0={e.s0} s1={e.s1} thr={e.threshold} "
      f"t_left={e.t_left} t_right={e.t_right} t_opt={e.t_opt} i={e.i}")
ok = (abs(e.mu0 - a) < 0.08 and abs(e.mu1 - b) < 0.08 and 0.01 <= e.s0 <= 0.07 and 0.01 <= e.s1 <= 0.07
      and e.threshold is not None and e.mu0 < e.threshold < e.mu1 and abs(e.t_right - e.t_left - 1) < 0.1 and 0 <= e.i < 16)
sys.exit(0 if ok else 1)
