"""Audit of property C18: ADC is a true n-bit quantiser; shortest_int returns a shortest covering interval."""
import sys
del sys.path[0]
import itertools
import warnings
import numpy as np

warnings.simplefilter("ignore")

from opticomlib.devices import ADC
from opticomlib.utils import shortest_int
from opticomlib import electrical_signal

viol = []
seen = set()


def bad(clause, desc, msg):
    key = (clause, desc)
    if key in seen:
        return
    seen.add(key)
    viol.append(key)
    print(f"VIOLATION {clause} | {desc} | {msg}")


# ----------------------------------------------------------------------------- shortest_int
def check_si(data, p, desc):
    arr = np.asarray(data)
    N = len(arr)
    lag = int(np.floor(p * N / 100))
    try:
        r = shortest_int(data, p)
    except Exception as e:
        bad("S0 returns", desc, f"{type(e).__name__}: {e}")
        return
    if len(r) != 2:
        bad("S0 returns two values", desc, f"{r!r}")
        return
    lo, hi = r
    s = np.sort(arr)
    if not lo <= hi:
        bad("S1 lo<=hi", desc, f"lo={lo} hi={hi}")
    if not (np.any(s == lo) and np.any(s == hi)):
        bad("S1 data values", desc, f"lo={lo} hi={hi}")
        return
    # S2: exists i with s[i]==lo and s[i+lag]==hi
    idx = np.where(s[: N - lag] == lo)[0]
    if not np.any(s[idx + lag] == hi):
        bad("S2 exactly lag order statistics apart", desc, f"lo={lo} hi={hi} lag={lag}")
    # S3: minimal
    d = s[lag:] - s[: N - lag]
    if hi - lo != d.min():
        bad("S3 no closer pair", desc, f"width={hi - lo} min={d.min()} lag={lag}")
    # S4: coverage
    if np.count_nonzero((arr >= lo) & (arr <= hi)) < lag + 1:
        bad("S4 contains lag+1 samples", desc, f"lo={lo} hi={hi} lag={lag}")


rng = np.random.default_rng(18)
percs = [1e-6, 0.01, 0.5, 1, 5, 10, 25, 33.3, 49.999, 50, 50.001, 66.6, 75, 90, 99, 99.9, 99.99, 99.9999, 12, 37, 50.0]
# enumerated tiny data sets with ties
for N in range(1, 7):
    for tup in itertools.product([0, 1, 2], repeat=N):
        for p in (1, 20, 34, 50, 67, 80, 99, 99.99):
            check_si(np.array(tup, dtype=float), p, f"enum data={tup} p={p}")
for N in (2, 3, 4, 5, 7, 8, 9, 10, 11, 99, 100, 101, 1000, 9999, 10000, 10001, 20000, 2 ** 17):
    gens = {
        "gauss": lambda: rng.normal(size=N),
        "unif": lambda: rng.uniform(-1, 1, N),
        "sine": lambda: np.sin(2 * np.pi * np.arange(N) / max(N, 2) * 3.3),
        "quant8": lambda: rng.integers(0, 8, N).astype(float),
        "quant2": lambda: rng.integers(0, 2, N).astype(float),
        "int64": lambda: rng.integers(-5, 5, N),
        "const": lambda: np.full(N, 2.5),
        "1e9": lambda: rng.normal(size=N) * 1e9 + 1e12,
        "1e-12": lambda: np.round(rng.normal(size=N) * 4) * 1e-12,
        "f32": lambda: rng.normal(size=N).astype(np.float32),
    }
    for name, g in gens.items():
        x = g()
        for p in percs if N <= 1000 else (0.001, 1, 50, 99.99, 99.9999):
            check_si(x, p, f"{name} N={N} p={p}")
# containers
for cont in (list, tuple):
    check_si(cont([3.0, 1.0, 1.0, 2.0, 5.0, 2.0]), 50, f"{cont.__name__} p=50")
    check_si(cont([3, 1, 1, 2, 5, 2]), 40, f"{cont.__name__} int p=40")
# input must not be modified
x0 = rng.normal(size=50)
x1 = x0.copy()
shortest_int(x1, 30)
if not np.array_equal(x0, x1):
    bad("S5 input unchanged", "gauss N=50", "data modified in place")


# ----------------------------------------------------------------------------- ADC
def check_adc(x, n, desc, wrap=None):
    arr = np.asarray(x.signal if isinstance(x, electrical_signal) else x)
    if isinstance(x, electrical_signal) and x.noise is not None:
        arr = arr + x.noise
    arr = np.real(arr).astype(float) if np.iscomplexobj(arr) else arr
    eps = np.finfo(arr.dtype).eps if arr.dtype.kind == "f" else np.finfo(float).eps
    N = len(arr)
    lo, hi = shortest_int(arr, 99.99)
    lo, hi = float(lo), float(hi)
    levels = 2 ** n
    step = (hi - lo) / (levels - 1)
    out = {}
    for ot in ("v", "n"):
        try:
            y = ADC(x, n=n, otype=ot)
        except Exception as e:
            bad("A0 returns", f"{desc} n={n} otype={ot}", f"{type(e).__name__}: {e}")
            return
        if not isinstance(y, electrical_signal):
            bad("A0 returns a signal", f"{desc} n={n} otype={ot}", type(y).__name__)
            return
        s = y.signal
        if y.noise is not None:
            s = s + y.noise
        out[ot] = s
        d = f"{desc} n={n} otype={ot}"
        if len(s) != N:
            bad("A1 length", d, f"{len(s)} != {N}")
            return
        if not np.all(np.isfinite(s)):
            bad("A1 finite", d, "nan/inf in output")
            return
        if len(np.unique(s)) > levels:
            bad("A2 at most 2^n distinct values", d, f"{len(np.unique(s))}")
    v, c = np.real(out["v"]), np.real(out["n"])
    d = f"{desc} n={n}"
    # A3 range (exact), A3t range with a rounding tolerance
    tol = 64 * eps * max(abs(lo), abs(hi), hi - lo)  # rounding error of the arithmetic in the data's precision
    if v.min() < lo or v.max() > hi:
        if v.min() < lo - tol or v.max() > hi + tol:
            bad("A3 values within [V_min,V_max]", d, f"[{v.min()},{v.max()}] vs [{lo},{hi}]")
        else:
            bad("A3x values within [V_min,V_max] (exact, rounding-level excess)", d,
                f"excess lo={lo - v.min():.3g} hi={v.max() - hi:.3g}")
    # A4 codes
    if not np.all(c == np.round(c)) or c.min() < 0 or c.max() > levels - 1:
        bad("A4 integer codes in [0,2^n-1]", d, f"[{c.min()},{c.max()}]")
        return
    inside = (arr >= lo) & (arr <= hi)
    above, below = arr > hi, arr < lo
    # A5 half a step
    if step > 0:
        mv = np.abs(v[inside] - arr[inside]).max()
        mc = np.abs(c[inside] * step + lo - arr[inside]).max()
        if mv > step / 2 + tol or mc > step / 2 + tol:
            bad("A5 inside samples move <= step/2", d, f"moved {mv} / {mc}, step/2={step / 2}")
    else:
        if np.abs(v[inside] - arr[inside]).max() > 0:
            bad("A5 inside samples move <= step/2 (step 0)", d, "moved")
    # A6 saturation
    if np.any(c[above] != levels - 1):
        bad("A6 samples above V_max take code 2^n-1", d,
            f"{np.count_nonzero(above)} above, codes {np.unique(c[above])}")
    if np.any(c[below] != 0):
        bad("A6 samples below V_min take code 0", d,
            f"{np.count_nonzero(below)} below, codes {np.unique(c[below])}")
    if np.any(np.abs(v[above] - hi) > tol) or np.any(np.abs(v[below] - lo) > tol):
        bad("A6 outside samples saturate at V_min/V_max", d, "")
    # A7 consistency of the two output types
    if step > 0 and np.abs(c * step + lo - v).max() > tol:
        bad("A7 'v' and 'n' outputs agree", d, f"{np.abs(c * step + lo - v).max()}")


def signals(N, rng):
    t = np.arange(N)
    yield "gauss", rng.normal(size=N)
    yield "gauss+off", rng.normal(size=N) * 1e-3 + 5
    yield "unif", rng.uniform(-2, 3, N)
    yield "sine", np.sin(2 * np.pi * t * 0.01237 + 0.3)
    yield "sine-1period", np.sin(2 * np.pi * t / N)
    yield "ramp", np.linspace(-1, 1, N)
    yield "quant2", rng.integers(0, 2, N).astype(float)
    yield "quant4", rng.integers(0, 4, N) / 3.0
    yield "quant256", rng.integers(0, 256, N) * 0.01 - 1
    yield "int64 0..7", rng.integers(0, 8, N)
    yield "neg ints", rng.integers(-8, 0, N)
    yield "f32 gauss", rng.normal(size=N).astype(np.float32)
    g = rng.normal(size=N)
    g[rng.integers(0, N)] = 50.0
    g[rng.integers(0, N)] = -70.0
    yield "gauss+2 outliers", g
    g = rng.normal(size=N) * 1e-3
    g[N // 2] = 1e17
    yield "gauss(1e-3)+outlier 1e17", g
    z = np.zeros(N)
    z[N // 3] = 1.0
    yield "one spike on zeros", z
    z = np.ones(N)
    z[0] = 0.0
    z[-1] = 2.0
    yield "flat with low first and high last", z
    z = (rng.uniform(size=N) < 5e-5).astype(float)
    yield "sparse 0/1 (p=5e-5)", z
    yield "const", np.full(N, 0.7)


for N in (2, 3, 4, 5, 17, 255, 256, 1000, 9999, 10000, 10001, 20000, 30011, 2 ** 16, 2 ** 17):
    rng = np.random.default_rng(1000 + N)
    ns = range(1, 13) if N <= 1000 or N == 20000 else (1, 2, 8, 12)
    for name, x in signals(N, rng):
        for n in ns:
            check_adc(x, n, f"{name} N={N}")
# enumerated tiny signals
for N in (2, 3, 4):
    for tup in itertools.product([-1.0, 0.0, 0.5, 2.0], repeat=N):
        for n in (1, 2, 3):
            check_adc(np.array(tup), n, f"enum {tup}")
# containers / electrical_signal with and without noise
rng = np.random.default_rng(7)
a, b = rng.normal(size=20000), rng.normal(size=20000) * 0.1
for n in (1, 3, 8, 12):
    check_adc(list(a[:100]), n, "list N=100")
    check_adc(tuple(a[:100]), n, "tuple N=100")
    check_adc(electrical_signal(a), n, "electrical_signal N=20000")
    check_adc(electrical_signal(a, b), n, "electrical_signal+noise N=20000")
    check_adc(electrical_signal(a.astype(complex)), n, "electrical_signal complex dtype, real valued N=20000")
    check_adc(electrical_signal(a[:2]), n, "electrical_signal N=2")
# repeated calls give the same answer, input untouched
a0 = a.copy()
y1 = ADC(a, n=5).signal
y2 = ADC(a, n=5).signal
if not np.array_equal(y1, y2) or not np.array_equal(a, a0):
    bad("A8 repeatable, input unchanged", "gauss N=20000 n=5", "")
# default n is 8, default otype 'v'
if len(np.unique(ADC(a).signal)) > 256:
    bad("A2 default n=8", "gauss N=20000", "")

if viol:
    print(f"{len(viol)} violations")
    sys.exit(1)
print("PASS")
sys.exit(0)
