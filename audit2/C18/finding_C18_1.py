# ADC: a sample ABOVE a zero-width estimated range gets the LOWEST code (x/0 -> inf/nan -> cast to int -> INT_MIN -> clip -> 0)
import sys; del sys.path[0]
import warnings; warnings.simplefilter("ignore")
import numpy as np
from opticomlib.devices import ADC
from opticomlib.utils import shortest_int

x = np.zeros(20000); x[123] = 1.0          # quantised two-level signal, one spike: 99.99% of the samples are 0
V_min, V_max = shortest_int(x, 99.99)       # (0, 0): the spike is an outlier above the range
codes = ADC(x, n=4, otype='n').signal
print(f"V_min={V_min} V_max={V_max}  sample x[123]={x[123]} > V_max")
print(f"expected code of x[123]: {2**4-1} (saturates at the upper end code);  got: {codes[123]}")
y = np.ones(40000); y[0] = 0.0; y[-1] = 2.0  # one outlier on each side of a flat level
c = ADC(y, n=3, otype='n').signal
print(f"flat level 1 with y[0]=0 below and y[-1]=2 above: expected end codes (0, 7); got ({c[0]}, {c[-1]})")
sys.exit(1 if codes[123] != 15 or c[-1] != 7 else 0)
