# ADC: an outlier far above the range overflows the float->int cast (done BEFORE the clip) and lands on the LOWEST level
import sys; del sys.path[0]
import warnings; warnings.simplefilter("ignore")
import numpy as np
from opticomlib.devices import ADC
from opticomlib.utils import shortest_int

x = np.random.default_rng(0).normal(size=20000) * 1e-3   # Gaussian, sigma = 1 mV, >= 10^4 samples
x[7] = 1e16                                              # one outlier, excluded by the 99.99 % range
V_min, V_max = shortest_int(x, 99.99)
code = ADC(x, n=12, otype='n').signal[7]
volt = ADC(x, n=12, otype='v').signal[7]
print(f"range [{V_min:.4g}, {V_max:.4g}], x[7] = {x[7]:g} is above it")
print(f"expected: code {2**12-1}, level V_max={V_max:.4g};  got: code {code}, level {volt:.4g} (= V_min)")
sys.exit(1 if code != 2**12 - 1 else 0)
