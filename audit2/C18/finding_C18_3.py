# ADC(otype='v'): the top level is computed as 1.0*(V_max-V_min)+V_min, which rounds to a value ABOVE V_max
import sys; del sys.path[0]
import numpy as np
from opticomlib.devices import ADC
from opticomlib.utils import shortest_int

x = np.array([-0.9, 0.2, 0.7])
V_min, V_max = shortest_int(x, 99.99)        # (-0.9, 0.7)
y = ADC(x, n=3).signal
print(f"V_max = {V_max!r}, largest output level = {y.max()!r}")
print("expected: every output value within [V_min, V_max];  got max(y) - V_max =", y.max() - V_max)
rng = np.random.default_rng(1); k = 0
for _ in range(1000):
    g = rng.normal(size=1000); k += ADC(g, n=8).signal.max() > shortest_int(g, 99.99)[1]
print(f"Gaussian signals of 1000 samples, n=8: top level exceeds V_max in {k} of 1000 draws")
sys.exit(1 if y.max() > V_max or y.min() < V_min else 0)
