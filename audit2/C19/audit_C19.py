import sys, os
if sys.path and os.path.abspath(sys.path[0] or '.') == os.path.dirname(os.path.abspath(__file__)):
    del sys.path[0]
import itertools, warnings
import numpy as np
import opticomlib
from opticomlib import db, dbm, idb, idbm, Q, gaus, rcos, dec2bin, str2array, si

warnings.simplefilter('ignore')
viol = []
seen = set()
def bad(clause, inp, msg):
    key = (clause, msg[:60])
    n = sum(1 for k in seen if k[0] == clause)
    seen.add(key)
    if n < 12:
        line = f'VIOLATION [{clause}] input={inp!r}: {msg}'
        print(line)
    viol.append(clause)

def call(clause, f, *a, **k):
    try:
        return True, f(*a, **k)
    except Exception as e:
        bad(clause, (f.__name__, a, k), f'unexpected {type(e).__name__}: {e}')
        return False, None

def close(a, b, rtol=1e-12, atol=0.0):
    a = np.asarray(a, dtype=float); b = np.asarray(b, dtype=float)
    return a.shape == b.shape and np.all(np.abs(a - b) <= atol + rtol * np.abs(b))

rng = np.random.default_rng(19)

# ------------------------------------------------------------------ dB conversions
def containers(vals):
    vals = np.asarray(vals, dtype=float)
    yield 'ndarray', vals
    yield 'list', [float(v) for v in vals]
    yield 'tuple', tuple(float(v) for v in vals)
    yield '2d', vals.reshape(1, -1)
    yield '2d-col', vals.reshape(-1, 1)
    yield 'len1', vals[:1]
    for v in vals[:40]:
        yield 'pyfloat', float(v)
        yield 'npfloat64', np.float64(v)

for span in [(-15, 15), (0, 30), (-30, 0)]:
    lo, hi = span
    pos = np.concatenate([10.0 ** np.arange(lo, hi + 1), 10 ** rng.uniform(lo, hi, 300),
                          [10.0 ** lo * (1 + 1e-15), 10.0 ** hi * (1 - 1e-15)]])
    for kind, x in containers(pos):
        ok, d = call('idb(db(x))=x', db, x)
        if ok:
            ok, y = call('idb(db(x))=x', idb, d)
            if ok and not close(y, x, 1e-11): bad('idb(db(x))=x', (kind, span), f'max rel err {np.max(np.abs(np.asarray(y)/np.asarray(x)-1))}')
        ok, dm = call('idbm(dbm(x))=x', dbm, x)
        if ok:
            ok, y = call('idbm(dbm(x))=x', idbm, dm)
            if ok and not close(y, x, 1e-11): bad('idbm(dbm(x))=x', (kind, span), f'max rel err {np.max(np.abs(np.asarray(y)/np.asarray(x)-1))}')
            if d is not None and not close(dm, np.asarray(d) + 30, 1e-12, 1e-10): bad('dbm=db+30', (kind, span), f'{dm} vs {np.asarray(d)+30}')
        if d is not None and np.ndim(x) == np.ndim(d) and np.shape(d) != np.shape(x): bad('shape', (kind, span), f'{np.shape(d)}')
    # product rule, keep x*y and both factors inside the span
    a = 10 ** rng.uniform(lo / 2 if lo < 0 else lo, hi / 2, 300); b = 10 ** rng.uniform(lo / 2 if lo < 0 else lo, hi / 2, 300)
    if not close(db(a * b), db(a) + db(b), 1e-12, 1e-10): bad('db(xy)=db(x)+db(y)', span, 'array')
    for u, v in zip(a[:50], b[:50]):
        if not close(db(float(u * v)), db(float(u)) + db(float(v)), 1e-12, 1e-10): bad('db(xy)=db(x)+db(y)', (u, v), 'scalar')

# integer-typed positives (python int, int arrays, lists of ints)
for n in [1, 2, 3, 10, 1000, 10 ** 6, 10 ** 9, 10 ** 12, 10 ** 15, 10 ** 18, 10 ** 19, 10 ** 20, 10 ** 25, 10 ** 30]:
    for f, g, nm in [(db, idb, 'idb(db(x))=x'), (dbm, idbm, 'idbm(dbm(x))=x')]:
        for kind, x in [('pyint', n), ('list-int', [n]), ('tuple-int', (n, 1))]:
            ok, d = call(nm + ' [int input]', f, x)
            if ok:
                y = g(d)
                if not close(y, np.asarray(x, dtype=float), 1e-11): bad(nm + ' [int input]', (kind, n), f'{y}')
for f, g, nm in [(db, idb, 'idb(db(x))=x'), (dbm, idbm, 'idbm(dbm(x))=x')]:
    x = np.array([1, 2, 1000, 10 ** 15], dtype=np.int64)
    ok, d = call(nm + ' [int64 arr]', f, x)
    if ok and not close(g(d), x, 1e-11): bad(nm + ' [int64 arr]', x, f'{g(d)}')

# reverse compositions over [-300, 300]
dbs = np.concatenate([np.arange(-300, 301, 1.0), rng.uniform(-300, 300, 500), [0.0, -0.0, 1e-9, -1e-9, 300.0, -300.0]])
def dbcontainers(v):
    yield 'ndarray', v
    yield 'list', [float(t) for t in v]
    yield 'tuple', tuple(float(t) for t in v)
    yield '2d', v.reshape(-1, 1)
    yield 'intarr', np.arange(-300, 301, dtype=np.int64)
    yield 'intlist', list(range(-300, 301, 50))
    for t in v[:80]:
        yield 'pyfloat', float(t)
    for t in range(-300, 301, 25):
        yield 'pyint', t
for kind, x in dbcontainers(dbs):
    ok, y = call('db(idb(x))=x', idb, x)
    if ok:
        if isinstance(y, np.ndarray) and y.ndim == 0: y = float(y)
        ok, z = call('db(idb(x))=x', db, y)
        if ok and not close(z, np.asarray(x, float), 1e-12, 1e-11): bad('db(idb(x))=x', kind, f'max abs err {np.max(np.abs(np.asarray(z)-np.asarray(x,float)))}')
    ok, y = call('dbm(idbm(x))=x', idbm, x)
    if ok:
        if isinstance(y, np.ndarray) and y.ndim == 0: y = float(y)
        ok, z = call('dbm(idbm(x))=x', dbm, y)
        if ok and not close(z, np.asarray(x, float), 1e-12, 1e-11): bad('dbm(idbm(x))=x', kind, f'max abs err {np.max(np.abs(np.asarray(z)-np.asarray(x,float)))}')

# negatives raise ValueError
negs = [-1, -1.0, -1e-300, -1e-15, -1e15, np.float64(-2.0), [-1], [1, -1], [-1, 1], (1.0, 2.0, -3.0), np.array([1.0, -1e-30]),
        np.array([[1, 2], [3, -4]]), np.array([-1]), [1, 2, 3, 4, 5, -1e-20], np.array([-5, 3], dtype=np.int64)]
for f in (db, dbm):
    for x in negs:
        try:
            r = f(x); bad('negative->ValueError', (f.__name__, x), f'returned {r!r}')
        except ValueError: pass
        except Exception as e: bad('negative->ValueError', (f.__name__, x), f'{type(e).__name__}: {e}')
    # repeated calls / order: a negative after a positive call and vice versa
    f(1.0)
    try: f(-1.0); bad('negative->ValueError', (f.__name__, 'after positive'), 'no raise')
    except ValueError: pass

# ------------------------------------------------------------------ Q, gaus
xs = np.concatenate([np.linspace(-40, 40, 4001), rng.normal(0, 5, 1000), [0.0, -0.0, 1e-300, -1e-300]])
q = Q(xs); qm = Q(-xs)
if not np.all(np.abs(q + qm - 1) <= 4e-16): bad('Q(x)+Q(-x)=1', 'array', f'max err {np.max(np.abs(q+qm-1))}')
s = np.sort(xs); qs = Q(s)
if np.any(np.diff(qs) > 0): bad('Q decreasing', 'array', 'increase found')
xx = np.linspace(-5, 8, 2001)  # below -5 the differences fall under the float resolution of 1
if np.any(np.diff(Q(xx)) >= 0): bad('Q strictly decreasing on [-5,8]', 'array', 'non-decrease')
for z in [0, 0.0, -0.0, np.float64(0), [0], (0,), np.array([0]), np.array([[0, 0]]), np.int64(0)]:
    r = Q(z)
    if not np.all(np.asarray(r) == 0.5): bad('Q(0)=1/2', z, repr(r))
for v in list(range(-10, 11)) + [0.5, -0.5, 3.3]:
    for kind, z in [('py', v), ('list', [v]), ('tuple', (v, v)), ('arr', np.array([v])), ('intarr', np.array([int(v)]))]:
        a, b = Q(z), Q(-np.asarray(z))
        if not np.all(np.abs(np.asarray(a) + np.asarray(b) - 1) < 4e-16): bad('Q(x)+Q(-x)=1', (kind, v), f'{a}+{b}')
        if kind in ('py',) and not close(Q(z), 0.5 * __import__('math').erfc(v / 2 ** 0.5), 1e-13): bad('Q value', v, repr(Q(z)))
if not (np.ndim(Q(1.0)) == 0 and np.shape(Q([1, 2, 3])) == (3,) and np.shape(Q(np.ones((2, 3)))) == (2, 3)): bad('Q shape', '', '')

for mu, std in [(None, None), (0, 1), (0.0, 1.0), (3, None), (None, 2), (-2.5, 0.1), (1e6, 1e-3), (5, 100), (0, 1e-9), (0, 1e9), (7, 2), (np.float64(1), np.float64(3))]:
    m = 0 if mu is None else mu; sd = 1 if std is None else std
    for npts, kind in [(200001, 'arr'), (20001, 'list')]:
        g = np.linspace(m - 12 * sd, m + 12 * sd, npts)
        arg = g if kind == 'arr' else list(g)
        kw = {}
        if mu is not None: kw['mu'] = mu
        if std is not None: kw['std'] = std
        ok, y = call('gaus integral', gaus, arg, **kw)
        if ok:
            I = np.trapz(y, g)
            if abs(I - 1) > 1e-9: bad('gaus integral', (mu, std, kind), f'{I}')
            if np.any(np.asarray(y) < 0): bad('gaus >=0', (mu, std), '')
    # positional forms
    y1 = gaus(m + 0.3 * sd, mu, std); y2 = gaus(np.array([m + 0.3 * sd]), mu, std)[0]
    ref = np.exp(-0.5 * 0.09) / (sd * np.sqrt(2 * np.pi))
    if not (close(y1, ref, 1e-6) and close(y2, ref, 1e-6)): bad('gaus value', (mu, std), f'{y1},{y2},{ref}')
# integer grid
gi = np.arange(-40, 41)
if abs(np.sum(gaus(gi, 0, 4)) - 1) > 1e-9: bad('gaus integral int grid', 'std=4', f'{np.sum(gaus(gi,0,4))}')
if abs(np.sum(gaus(list(gi), 2, 4)) - 1) > 1e-9: bad('gaus integral int list', 'mu=2,std=4', '')

# ------------------------------------------------------------------ rcos
for T in [1, 1.0, 2, 0.5, 1e-9, 3.7e-11, 1e3, 7, np.float64(2.0)]:
    for alpha in [0, 0.0, 1e-6, 0.01, 0.1, 0.25, 0.5, 0.75, 0.99, 1, 1.0]:
        B = 1 / (2 * T)
        edges = np.array([0, (1 - alpha) * B, B, (1 + alpha) * B, (1 - alpha) / (2 * T), (1 + alpha) / (2 * T)])
        grid = np.concatenate([np.linspace(-3 * B, 3 * B, 1201), edges, -edges, np.nextafter(edges, np.inf), np.nextafter(edges, -np.inf),
                               rng.uniform(-3 * B, 3 * B, 200)])
        for kind, x in [('arr', grid), ('list', list(grid)), ('tuple', tuple(grid[:50])), ('2d', grid[:1200].reshape(3, -1)), ('len1', grid[:1])]:
            ok, H = call('rcos', rcos, x, alpha, T)
            if not ok: continue
            H = np.asarray(H); xa = np.asarray(x)
            if H.shape != xa.shape: bad('rcos shape', (kind, alpha, T), f'{H.shape}'); continue
            if np.any(np.isnan(H)) or np.any(H < 0) or np.any(H > 1): bad('rcos in [0,1]', (kind, alpha, T), f'min {H.min()} max {H.max()}')
            ok2, Hm = call('rcos', rcos, -xa if kind in ('arr', '2d', 'len1') else type(x)(-v for v in x), alpha, T)
            if ok2 and not np.array_equal(np.asarray(Hm), H): bad('rcos even', (kind, alpha, T), '')
            beyond = np.abs(xa) > (1 + alpha) / (2 * T) * (1 + 1e-12)
            if np.any(H[beyond] != 0): bad('rcos vanishes beyond', (kind, alpha, T), f'{H[beyond].max()}')
            inside = np.abs(xa) < (1 - alpha) / (2 * T) * (1 - 1e-12)
            if np.any(H[inside] != 1): bad('rcos flat top', (kind, alpha, T), '')
            # reference
            ref = np.where(np.abs(xa) <= (1 - alpha) * B, 1.0, np.where(np.abs(xa) > (1 + alpha) * B, 0.0,
                           0.5 * (1 + np.cos(np.pi * T / (alpha if alpha else 1) * (np.abs(xa) - (1 - alpha) * B)))))
            tol = 1e-6 if alpha else 0
            nearedge = (np.abs(np.abs(xa) - (1 - alpha) * B) < 1e-9 * B) | (np.abs(np.abs(xa) - (1 + alpha) * B) < 1e-9 * B)
            if alpha == 0:
                m = ~nearedge
            else:
                m = np.ones_like(nearedge)
            if np.any(np.abs(H[m] - ref[m]) > 1e-6): bad('rcos value', (kind, alpha, T), f'max {np.max(np.abs(H[m]-ref[m]))}')
        # scalars
        for v in list(grid[::40]) + list(edges) + list(-edges):
            for kind, s in [('pyfloat', float(v)), ('npfloat64', np.float64(v))]:
                ok, h = call('rcos scalar', rcos, s, alpha, T)
                if not ok: continue
                ok, ha = call('rcos scalar', rcos, np.array([v]), alpha, T)
                if h != ha[0]: bad('rcos scalar vs array', (kind, v, alpha, T), f'{h} vs {ha[0]}')
                if not (0 <= h <= 1): bad('rcos in [0,1]', (kind, v, alpha, T), f'{h}')
                if rcos(-s, alpha, T) != h: bad('rcos even', (kind, v, alpha, T), '')
        if alpha > 0:
            for kind, x in [('pyfloat', float(B)), ('npfloat64', np.float64(B)), ('arr', np.array([B])), ('list', [B, -B]), ('tuple', (B,)), ('neg', -float(B))]:
                ok, h = call('rcos(1/(2T))=1/2', rcos, x, alpha, T)
                if ok and not np.all(np.abs(np.asarray(h) - 0.5) < 1e-9): bad('rcos(1/(2T))=1/2', (kind, alpha, T), repr(h))
# integer grids and integer scalars
for x, al, T, exp in [(1, 0.5, 0.5, 0.5), (1, 1, 0.5, 0.5), (2, 1, 0.5, 0), (0, 1, 1, 1), (3, 0.5, 0.5, 0), (1, 0, 0.5, 1), (1, 0.5, 1, 0)]:
    for kind, v in [('pyint', x), ('list', [x]), ('arr', np.array([x])), ('tuple', (x, -x))]:
        ok, h = call('rcos int', rcos, v, al, T)
        if ok and not np.all(np.abs(np.asarray(h, float) - exp) < 1e-12): bad('rcos int', (kind, x, al, T), repr(h))

# ------------------------------------------------------------------ dec2bin
for d in range(0, 17):
    for v in range(0, 2 ** d):
        try: b = dec2bin(v, d)
        except Exception as e: bad('dec2bin expansion', (v, d), f'{type(e).__name__}: {e}'); continue
        exp = [int(c) for c in format(v, f'0{d}b')] if d else []
        if len(b) != d or list(map(int, b)) != exp: bad('dec2bin expansion', (v, d), repr(b))
    for v in [2 ** d, 2 ** d + 1, 2 ** (d + 1), 2 ** 17, 10 ** 6, 2 ** 64, 2 ** 70]:
        try: r = dec2bin(v, d); bad('dec2bin too large -> ValueError', (v, d), repr(r))
        except ValueError: pass
        except Exception as e: bad('dec2bin too large -> ValueError', (v, d), f'{type(e).__name__}: {e}')
# default digits, repeated calls don't share state
a = dec2bin(5); b = dec2bin(2)
if list(a) != [0, 0, 0, 0, 0, 1, 0, 1] or list(b) != [0, 0, 0, 0, 0, 0, 1, 0]: bad('dec2bin default digits/state', (5, 2), f'{a} {b}')
for v, d in [(5, 4), (0, 1), (1, 1), (255, 8)]:
    if list(dec2bin(v, digits=d)) != [int(c) for c in format(v, f'0{d}b')]: bad('dec2bin kw', (v, d), '')

# ------------------------------------------------------------------ str2array
seps = [' ', ',', ', ', '  ', ' , ']
rowseps = [';', '; ', ' ; ', ' ;']
def render(arr, fmt, sep, rowsep):
    arr = np.asarray(arr)
    if arr.ndim == 1: return sep.join(fmt(v) for v in arr)
    return rowsep.join(sep.join(fmt(v) for v in row) for row in arr)
def bits_only(s): return all(c in '01,; ' for c in s)
def fint(v): return str(int(v))
def fintp(v): return f'{int(v):+d}'
def ffl(nd): return lambda v: f'{float(v):.{nd}f}'
def fcx(nd, unit, style=0):
    def f(z):
        z = complex(z)
        if style == 1 and z.imag == 0: return f'{z.real:.{nd}f}'
        if style == 2 and z.real == 0: return f'{z.imag:.{nd}f}{unit}'
        return f'{z.real:.{nd}f}{z.imag:+.{nd}f}{unit}'
    return f
shapes = [(n,) for n in range(1, 7)] + [(r, c) for r in (2, 3) for c in range(1, 7)]
def check(clause, text, expect, dtype=None, exact=True):
    kw = {} if dtype is None else {'dtype': dtype}
    try: out = str2array(text, **kw)
    except Exception as e: bad(clause, (text, dtype), f'{type(e).__name__}: {e}'); return
    expect = np.asarray(expect)
    if out.shape != expect.shape: bad(clause, (text, dtype), f'shape {out.shape} != {expect.shape}'); return
    if exact:
        if not np.array_equal(out, expect): bad(clause, (text, dtype), f'got {out.tolist()} expected {expect.tolist()}')
    else:
        if not np.allclose(out, expect, rtol=1e-14, atol=0): bad(clause, (text, dtype), f'got {out.tolist()}')
    if dtype is not None and out.dtype != np.dtype(dtype): bad(clause + ' dtype', (text, dtype), f'{out.dtype}')
    return out

num_dtypes = [int, float, complex, np.int64, np.int32, np.uint8, np.float64, np.float32, np.complex128, 'int', 'float', np.dtype('int64'), np.dtype('float64')]
cnt = 0
for shape in shapes:
    for rep in range(4):
        ints = [rng.integers(-999, 1000, shape), rng.integers(0, 12, shape), rng.integers(0, 2, shape), rng.integers(-1, 2, shape),
                rng.choice([0, 1, 10, 11, 100, 101], shape), np.zeros(shape, int), np.ones(shape, int), rng.integers(-2 ** 40, 2 ** 40, shape)]
        for A in ints:
            for sep in seps:
                for rowsep in (rowseps if len(shape) == 2 else [';']):
                    for fmt in (fint, fintp):
                        text = render(A, fmt, sep, rowsep)
                        if bits_only(text):
                            # bit pattern: digit by digit
                            if A.ndim == 1: exp = [int(c) for c in text if c in '01']
                            else:
                                rows = [[int(c) for c in r if c in '01'] for r in text.split(';')]
                                if len({len(r) for r in rows}) != 1: exp = None
                                else: exp = rows
                            if exp is not None:
                                out = check('str2array bit pattern', text, np.array(exp, bool))
                                if out is not None and out.dtype != bool: bad('str2array bit pattern dtype', text, str(out.dtype))
                                check('str2array bit pattern dtype=bool', text, np.array(exp, bool), bool)
                            for dt in num_dtypes:
                                check('str2array 0/1 text numeric dtype', text, A.astype(dt), dt)
                        else:
                            out = check('str2array int', text, A)
                            if out is not None and out.dtype.kind != 'i': bad('str2array int dtype', text, str(out.dtype))
                            for dt in [int, float, complex, np.int64, np.float32, 'float', np.dtype('float64')]:
                                check('str2array int explicit dtype', text, A.astype(dt), dt)
                            check('str2array int dtype=bool', text, A.astype(bool), bool)
                        cnt += 1
        fl = [rng.uniform(-100, 100, shape), rng.integers(0, 2, shape).astype(float), rng.uniform(0, 1, shape), np.zeros(shape), -rng.uniform(0, 1e-3, shape),
              rng.uniform(-1e9, 1e9, shape)]
        for A in fl:
            for nd in (1, 3, 6, 12):
                fmt = ffl(nd)
                R = np.array([float(fmt(v)) for v in A.ravel()]).reshape(shape)
                for sep in seps:
                    for rowsep in (rowseps if len(shape) == 2 else [';']):
                        text = render(A, fmt, sep, rowsep)
                        out = check('str2array float', text, R)
                        if out is not None and out.dtype.kind != 'f': bad('str2array float dtype', text, str(out.dtype))
                        for dt in [float, complex, np.float32, np.float64, 'float', np.dtype('complex128')]:
                            check('str2array float explicit dtype', text, R.astype(dt), dt)
                        check('str2array float dtype=int', text, R.astype(int), int)
        cx = [rng.uniform(-100, 100, shape) + 1j * rng.uniform(-100, 100, shape), rng.integers(-2, 3, shape) + 1j * rng.integers(-2, 3, shape),
              rng.integers(0, 2, shape) + 1j * rng.integers(0, 2, shape), 1j * rng.integers(-3, 4, shape), rng.integers(-3, 4, shape) + 0j]
        for A in cx:
            for nd in (0, 2, 6):
                for unit in 'ij':
                    for style in (0, 1, 2):
                        fmt = fcx(nd, unit, style)
                        R = np.array([complex(fmt(v).replace('i', 'j')) for v in A.ravel()]).reshape(shape)
                        for sep in seps[:3]:
                            for rowsep in (rowseps[:2] if len(shape) == 2 else [';']):
                                text = render(A, fmt, sep, rowsep)
                                if not any(c in text for c in 'ij'): continue
                                out = check('str2array complex', text, R)
                                if out is not None and out.dtype.kind != 'c': bad('str2array complex dtype', text, str(out.dtype))
                                for dt in [complex, np.complex128, np.complex64, 'complex']:
                                    check('str2array complex explicit dtype', text, R.astype(dt), dt)
            # mixed units in one text
            if A.size >= 2:
                toks = [fcx(1, 'ij'[k % 2])(v) for k, v in enumerate(A.ravel())]
                R = np.array([complex(t.replace('i', 'j')) for t in toks]).reshape(shape)
                text = render(np.array(toks, dtype=object).reshape(shape), str, ' ', ';')
                check('str2array complex mixed i/j', text, R)

# compact bit strings
for n in [1, 2, 3, 5, 6, 18, 64]:
    b = rng.integers(0, 2, n)
    t = ''.join(map(str, b))
    check('str2array compact bits', t, b.astype(bool))
    check('str2array compact bits dtype=bool', t, b.astype(bool), bool)
    check('str2array compact bits dtype=np.bool_', t, b.astype(bool), np.bool_)
    for r in (2, 3):
        B = rng.integers(0, 2, (r, n))
        t = ';'.join(''.join(map(str, row)) for row in B)
        check('str2array compact bits 2d', t, B.astype(bool))
for t, e in [('0', [False]), ('1', [True]), ('0;1', [[False], [True]]), ('00', [False, False]), ('1 0 1 10', [1, 0, 1, 1, 0]), ('10 100 1000', [1, 0, 1, 0, 0, 1, 0, 0, 0])]:
    check('str2array doc examples', t, np.array(e, bool))
for dt in (int, float, complex, np.int64, np.uint8):
    check('str2array doc examples', '1 0 1 10', np.array([1, 0, 1, 10], dtype=dt), dt)
    check('str2array single token numeric dtype', '1', np.array([1], dtype=dt), dt)
    check('str2array single token numeric dtype', '0', np.array([0], dtype=dt), dt)
    check('str2array single token numeric dtype', '101', np.array([101], dtype=dt), dt)
    check('str2array 2d numeric dtype', '1;0;11', np.array([[1], [0], [11]], dtype=dt), dt)
# repeated calls: no state
a1 = str2array('1 2 3'); a2 = str2array('101'); a3 = str2array('1 2 3')
if not (np.array_equal(a1, a3) and a1.dtype == a3.dtype): bad('str2array state', '', '')

# invalid characters
import string as _s
valid = set('0123456789,; \t\n\r\x0b\x0c+-.ij')
for ch in [chr(c) for c in range(32, 127)] + ['µ', 'é', '\x00', '١']:
    if ch in valid: continue
    for tmpl in ['1 2{}3', '{}', '1{}', '{}1 0', '1.5 2.5{}', '1+2j {}', '1 0 1{}', '1 0;0 {}']:
        t = tmpl.format(ch)
        for dt in (None, int, float, complex, bool):
            try:
                r = str2array(t) if dt is None else str2array(t, dtype=dt)
                bad('str2array invalid char -> ValueError', (t, dt), f'returned {r!r}')
            except ValueError: pass
            except Exception as e: bad('str2array invalid char -> ValueError', (t, dt), f'{type(e).__name__}: {e}')

# whitespace variants of the "space" separator on every text class (tab / newline are whitespace)
for ws in ['\t', '\n', ' \t']:
    for cls, t, e in [('int', f'1{ws}2{ws}3', [1, 2, 3]), ('float', f'1.5{ws}2.5', [1.5, 2.5]), ('complex', f'1+2j{ws}3i', [1 + 2j, 3j]),
                      ('bits', f'1{ws}0{ws}1', [True, False, True]), ('bits-trailing', f'1 0 1{ws}', [True, False, True]), ('int-trailing', f'1 2 3{ws}', [1, 2, 3])]:
        check(f'str2array whitespace {ws!r} ({cls})', t, np.array(e))

# ------------------------------------------------------------------ si
prefix = {'f': -15, 'p': -12, 'n': -9, 'u': -6, 'μ': -6, 'µ': -6, 'm': -3, '': 0, 'k': 3, 'M': 6, 'G': 9, 'T': 12}
order = ['f', 'p', 'n', 'u', 'm', '', 'k', 'M', 'G', 'T']
def chk_si(x, unit, k, kw):
    args = (x,) if unit is None else (x, unit)
    try: s = si(*args, **kw)
    except Exception as e: bad('si', (x, unit, kw), f'{type(e).__name__}: {e}'); return
    if not isinstance(s, str): bad('si returns str', (x, unit, kw), repr(s)); return
    u = 's' if unit is None else unit
    if not s.endswith(u) or ' ' not in s: bad('si format', (x, unit, kw), s); return
    mant, rest = s.split(' ', 1)
    p = rest[:len(rest) - len(u)]
    if p not in prefix: bad('si prefix', (x, unit, kw), s); return
    kk = kw.get('k', 1)
    digits = mant.split('.')[1] if '.' in mant else ''
    if len(digits) != kk: bad('si precision', (x, unit, kw), s)
    m = float(mant); e10 = prefix[p]
    xf = float(x)
    if abs(m * 10.0 ** e10 - xf) > (0.5 * 10.0 ** (-kk)) * 10.0 ** e10 * (1 + 1e-9) + 1e-12 * xf: bad('si mantissa*prefix = x', (x, unit, kw), s)
    if xf < 1e15:
        um = xf / 10.0 ** e10
        if not (1 - 1e-12 <= um < 1000 * (1 + 1e-12)): bad('si unrounded mantissa in [1,1000)', (x, unit, kw), s)
    if p == 'μ' and 'si micro spelled' not in seen: pass
units = [None, 's', 'm', 'Hz', 'rad', 'bit', 'byte', 'W', 'V', 'A', 'F', 'H', 'Ohm']
xs = []
for e in range(-15, 16):
    b = float(f'1e{e}')
    xs += [b, np.nextafter(b, np.inf), b * 1.5, b * 9.995, b * 9.99949, b * 2.25, b * 4.35, b * 5, b * 7.77777]
    if e > -15: xs += [np.nextafter(b, -np.inf), b * 0.99996, b * 0.9994]
xs += list(10 ** rng.uniform(-15, 15, 2000)) + [1e15, 5e15, 999.5e12]
for x in xs:
    for kw in [{}, {'k': 0}, {'k': 1}, {'k': 2}, {'k': 3}, {'k': 6}]:
        chk_si(x, None, None, kw); chk_si(x, 'Hz', None, kw)
    chk_si(np.float64(x), 'W', None, {})
for x in [1, 2, 10, 999, 1000, 1001, 10 ** 6, 10 ** 9, 10 ** 12, 10 ** 15 - 1, 10 ** 15, 123456789]:
    for u in units:
        chk_si(x, u, None, {}); chk_si(x, u, None, {'k': 2})
# positional k
if si(0.002, 's', 3) != '2.000 ms' or si(0.002, 's') != '2.0 ms' or si(1e9, 'Hz') != '1.0 GHz': bad('si doc examples', '', '')
# call order: same answer after other calls
r1 = si(2e-6, 'm'); si(5e12, 'Hz', 4); r2 = si(2e-6, 'm')
if r1 != r2: bad('si state', '', '')

if viol:
    from collections import Counter
    print('\nSUMMARY of violated clauses:')
    for k, v in Counter(viol).items(): print(f'  {k}: {v}')
    sys.exit(1)
print('PASS')
sys.exit(0)
