# C19: str2array, text made only of 0/1 digits separated by whitespace other than ' ' (tab, newline,
# a trailing newline of a line read from a file). The validation regex accepts \s and every other text class
# (int, float, complex, and 0/1 text with a numeric dtype) parses it; the bit-pattern branch strips only ' ' and ','.
import sys, numpy as np
from opticomlib import str2array
fails = 0
print("sibling classes:", str2array('1\t2\t3').tolist(), str2array('1.5 2.5\n').tolist(), str2array('1\t0\t1', dtype=int).tolist())
for text in ['1\t0\t1', '1 0 1\n', '1\n0\n1']:
    try:
        out = str2array(text)
        ok = out.tolist() == [True, False, True]
        print(repr(text), '->', out.tolist(), 'OK' if ok else 'WRONG'); fails += not ok
    except Exception as e:
        print(repr(text), 'expected [True, False, True], got', type(e).__name__, e); fails += 1
sys.exit(1 if fails else 0)
