# C19: db / dbm of a positive python int >= 2**64 (alone or inside a list/tuple): np.array(x) makes an
# object array and np.log10 has no loop for it -> TypeError, so idb(db(x)) = x cannot be formed.
# The float of the same value, and the scalar dbm, work.
import sys, numpy as np
from opticomlib import db, dbm, idb, idbm
fails = 0
print('db(1e20) =', db(1e20), '  dbm(10**20) =', dbm(10**20))
for name, f, g, x in [('db', db, idb, 10**20), ('db', db, idb, [10**20, 1]), ('dbm', dbm, idbm, [10**20, 1]), ('db', db, idb, 2**64)]:
    try:
        y = g(f(x))
        ok = np.allclose(y, np.asarray(x, float), rtol=1e-12)
        print(name, x, '->', y, 'OK' if ok else 'WRONG'); fails += not ok
    except Exception as e:
        print(f'i{name}({name}({x})): expected {np.asarray(x, float)}, got {type(e).__name__}: {e}'); fails += 1
sys.exit(1 if fails else 0)
