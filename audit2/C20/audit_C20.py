"""Audit of property C20 (PPG3204 driver limits / memory round trip / SYNC).

Prints one line per violated (clause, input); exit 1 if any, else PASS / exit 0.
"""
import sys
sys.path.pop(0)  # do not import from the script's own directory

import re
import io
import itertools
import warnings
import contextlib
import numpy as np

from opticomlib.lab import PPG3204, SYNC
from opticomlib.typing import electrical_signal, binary_sequence, gv

MAXMEM = 2**21
ORDERS = [7, 9, 11, 15, 23, 31]
VIOL = []
SEEN = set()


def viol(clause, what, limit_per_clause=12):
    n = sum(1 for c, _ in VIOL if c == clause)
    VIOL.append((clause, what))
    if n < limit_per_clause:
        print(f'VIOLATION [{clause}] {what}')
    elif n == limit_per_clause:
        print(f'VIOLATION [{clause}] ... (further lines for this clause suppressed)')


# --------------------------------------------------------------------------
# simulated instrument
# --------------------------------------------------------------------------
class FakePPG:
    """Simulated PPG3204: keeps state, records every command and every protocol violation."""

    def __init__(self):
        self.cmds = []
        self.bad = []          # (clause, text)
        self.mem = {ch: np.zeros(MAXMEM + 1, np.uint8) for ch in range(1, 5)}  # 1-based
        self.state = {}
        self.blocks = []       # (ch, addr, n) of DATA writes

    def _ch(self, s, cmd):
        ch = int(s)
        if not 1 <= ch <= 4:
            self.bad.append(('channel in 1..4', cmd[:60]))
            ch = min(max(ch, 1), 4)
        return ch

    def _rng(self, name, v, lo, hi, cmd):
        if not (lo <= v <= hi):
            self.bad.append((f'{name} within [{lo}, {hi}]', cmd[:60]))

    def query(self, cmd):
        self.cmds.append(cmd)
        m = re.fullmatch(r':DIG(-?\d+):PATT:DATA (\S+?),(\S+?),#(\d)(.*)', cmd, re.S)
        if m:
            ch = self._ch(m.group(1), cmd)
            try:
                addr, n, k = int(m.group(2)), int(m.group(3)), int(m.group(4))
            except ValueError:
                self.bad.append(('DATA address/length are integers', cmd[:60]))
                return '\n'
            rest = m.group(5)
            if k < 1 or not rest[:k].isdigit() or int(rest[:k]) != n or len(str(n)) != k:
                self.bad.append(('IEEE-488.2 length header correct', cmd[:60]))
                return '\n'
            bits = rest[k:]
            if len(bits) != n or not re.fullmatch(r'[01]*', bits):
                self.bad.append(('IEEE-488.2 length header matches payload', cmd[:60]))
                return '\n'
            if not 1 <= n <= 1024:
                self.bad.append(('block of 1..1024 bits', cmd[:60]))
            if addr < 1 or addr + n - 1 > MAXMEM:
                self.bad.append(('block inside memory 1..2^21', cmd[:60]))
                return '\n'
            self.mem[ch][addr:addr + n] = np.frombuffer(bits.encode(), np.uint8) - 48
            self.blocks.append((ch, addr, n))
            return '\n'
        m = re.fullmatch(r':DIG(-?\d+):PATT:DATA\? (\S+?),(\S+)', cmd)
        if m:
            ch = self._ch(m.group(1), cmd)
            addr, n = int(m.group(2)), int(m.group(3))
            if not 1 <= n <= 1024:
                self.bad.append(('read block of 1..1024 bits', cmd))
            if addr < 1 or addr + n - 1 > MAXMEM:
                self.bad.append(('read block inside memory 1..2^21', cmd))
                return '#10\n'
            bits = ''.join(map(str, self.mem[ch][addr:addr + n]))
            return f'#{len(str(n))}{n}{bits}\n'
        m = re.fullmatch(r':DIG(-?\d+):PATT:(LENG|PLEN|BSH|TYPE)(\?| (.*))', cmd)
        if m:
            ch = self._ch(m.group(1), cmd)
            key = (m.group(2), ch)
            if m.group(3) == '?':
                return str(self.state.get(key, {'LENG': 2, 'PLEN': 7, 'BSH': 0, 'TYPE': 'DATA'}[m.group(2)])) + '\n'
            val = m.group(4)
            if m.group(2) == 'LENG':
                if not re.fullmatch(r'-?\d+', val):
                    self.bad.append(('pattern length is an integer', cmd))
                else:
                    self._rng('pattern length', int(val), 2, MAXMEM, cmd)
            elif m.group(2) == 'PLEN':
                if not re.fullmatch(r'-?\d+', val) or int(val) not in ORDERS:
                    self.bad.append(('PRBS order from supported list', cmd))
            elif m.group(2) == 'TYPE':
                if val not in ('DATA', 'PRBS'):
                    self.bad.append(('mode DATA/PRBS', cmd))
            self.state[key] = val
            return '\n'
        m = re.fullmatch(r':FREQ(\?| (.*))', cmd)
        if m:
            if m.group(1) == '?':
                return str(self.state.get('FREQ', 1e10)) + '\n'
            self._rng('frequency', float(m.group(2)), 1.5e9, 32e9, cmd)
            self.state['FREQ'] = m.group(2)
            return '\n'
        m = re.fullmatch(r':SKEW(-?\d+)(\?| (.*))', cmd)
        if m:
            ch = self._ch(m.group(1), cmd)
            if m.group(2) == '?':
                return str(self.state.get(('SKEW', ch), 0.0)) + '\n'
            self._rng('skew', float(m.group(3)), -25e-12, 25e-12, cmd)
            self.state[('SKEW', ch)] = m.group(3)
            return '\n'
        m = re.fullmatch(r':VOLT(-?\d+):POS(\?| (.*)v)', cmd)
        if m:
            ch = self._ch(m.group(1), cmd)
            if m.group(2) == '?':
                return str(self.state.get(('AMP', ch), 1.0)) + '\n'
            self._rng('amplitude', float(m.group(3)), 0.3, 2.0, cmd)
            self.state[('AMP', ch)] = m.group(3)
            return '\n'
        m = re.fullmatch(r':VOLT(-?\d+):(POS|NEG):OFFS (.*)v', cmd)
        if m:
            ch = self._ch(m.group(1), cmd)
            self._rng('offset', float(m.group(3)), -2.0, 3.0, cmd)
            self.state[('OFFS', ch)] = m.group(3)
            return '\n'
        m = re.fullmatch(r':VOLT(-?\d+):OFFS\?', cmd)
        if m:
            ch = self._ch(m.group(1), cmd)
            return str(self.state.get(('OFFS', ch), 0.0)) + '\n'
        m = re.fullmatch(r':OUTP(-?\d+) (ON|OFF)', cmd)
        if m:
            self._ch(m.group(1), cmd)
            return '\n'
        if cmd == '*RST':
            return '\n'
        self.bad.append(('command recognised', cmd[:60]))
        return '\n'


def new_ppg():
    p = PPG3204()
    p.inst = FakePPG()
    return p


def call(p, meth, *a, **k):
    """Call driver method; returns (result, exception, number of warnings)."""
    with warnings.catch_warnings(record=True) as w:
        warnings.simplefilter('always')
        try:
            with contextlib.redirect_stdout(io.StringIO()):
                r = getattr(p, meth)(*a, **k)
            return r, None, len(w)
        except Exception as e:  # noqa
            return None, e, len(w)


def short(x):
    s = repr(x)
    return s if len(s) < 90 else s[:87] + '...'


def flush(p, clause_prefix, inp):
    for what, cmd in p.inst.bad:
        viol(f'{clause_prefix}: {what}', f'{inp} -> {cmd!r}')
    p.inst.bad.clear()


# --------------------------------------------------------------------------
# clause 1+2+3: channels in 1..4, values clamped + warning, no exception
# --------------------------------------------------------------------------
CH_SELECTIONS = [None, 1, 2, 3, 4, 0, -1, 5, 7, 100, -100, True,
                 [1], [4], [1, 2], [3, 4], [1, 2, 3, 4], (2, 3), np.array([1, 4]),
                 [0], [5], [0, 5], [-3, 2, 9], [1, 2, 3, 4, 5], [1, 1, 1, 1, 1, 1], (9, 9),
                 np.array([0, 1, 2, 3, 4, 5, 6]), [4, 3, 2, 1], np.arange(1, 5), [2.0, 3.0]]


def expected_channels(sel):
    if sel is None:
        return [1, 2, 3, 4]
    a = np.atleast_1d(np.array(sel, dtype=int))
    return list(np.clip(a, 1, 4)[:4])


def decades(lo, hi, integer=False):
    vals = set()
    for L in (lo, hi):
        for k in range(-4, 5):
            for f in (1, 1 - 1e-3, 1 + 1e-3, 1 - 1e-9, 1 + 1e-9, 0.5, 2, 3.3):
                vals.add(L * f * 10.0**k)
                vals.add(-L * f * 10.0**k)
    vals |= {0, 0.0, lo, hi, (lo + hi) / 2}
    vals |= {np.nextafter(lo, -np.inf), np.nextafter(lo, np.inf), np.nextafter(hi, -np.inf), np.nextafter(hi, np.inf)}
    if integer:
        out = set()
        for v in vals:
            if abs(v) < 2**62:
                out |= {int(np.floor(v)), int(np.ceil(v))}
        out |= {lo - 1, lo, lo + 1, hi - 1, hi, hi + 1, 0, 1, -1}
        return sorted(out)
    out = set(float(v) for v in vals)
    out |= {int(v) for v in vals if float(v).is_integer() and abs(v) < 2**62}  # python ints too
    return sorted(out, key=float)


SETTERS = {
    # name: (method, lo, hi, integer, per-channel?, parser of emitted value)
    'freq': ('set_freq', 1.5e9, 32e9, False, False),
    'amplitude': ('set_output_voltage', 0.3, 2.0, False, True),
    'offset': ('set_offset', -2.0, 3.0, False, True),
    'skew': ('set_skew', -25e-12, 25e-12, False, True),
    'patt_len': ('set_patt_len', 2, MAXMEM, True, True),
}


def emitted_values(p):
    out = []
    for c in p.inst.cmds:
        m = re.search(r' (-?[0-9.eE+\-]+)v?$', c)
        chm = re.match(r':(?:DIG|SKEW|VOLT|OUTP)(-?\d+)', c)
        out.append((int(chm.group(1)) if chm else None, float(m.group(1)) if m else None))
    return out


def check_setter(name, value, chs, rng=None):
    meth, lo, hi, integer, perch = SETTERS[name]
    p = new_ppg()
    inp = f'{meth}({short(value)}' + (f', CHs={short(chs)})' if perch else ')')
    if perch:
        r, e, nw = call(p, meth, value, chs)
    else:
        r, e, nw = call(p, meth, value)
    if e is not None:
        viol(f'{name}: no error raised', f'{inp} raised {type(e).__name__}: {str(e)[:70]}')
        return
    flush(p, name, inp)
    ech = expected_channels(chs) if perch else [None]
    vals = np.atleast_1d(np.array(value, dtype=float))
    if vals.size == 1 and not isinstance(value, (list, tuple, np.ndarray)):
        vals = np.repeat(vals, len(ech))
    pairs = list(zip(ech, vals))
    em = emitted_values(p)
    if len(em) != len(pairs):
        viol(f'{name}: one command per (channel, value)', f'{inp} emitted {len(em)} commands, expected {len(pairs)}')
        return
    out_of_range = False
    for (ch, v), (ch_e, v_e) in zip(pairs, em):
        if perch and ch != ch_e:
            viol(f'{name}: channel clamped into 1..4', f'{inp} expected channel {ch}, emitted {ch_e}')
        want = min(max(v, lo), hi)
        if v < lo or v > hi:
            out_of_range = True
        tol = {'freq': 0.5e-5 * abs(want) * 1.0001 + 1, 'amplitude': 0.0500001, 'offset': 0.0500001,
               'skew': 1e-24, 'patt_len': 0}[name]
        if v_e is None or abs(v_e - want) > tol:
            viol(f'{name}: clamped value sent', f'{inp} expected {want!r} sent {v_e!r}')
    ch_oor = perch and chs is not None and (
        np.any(np.atleast_1d(np.array(chs, dtype=int)) < 1) or np.any(np.atleast_1d(np.array(chs, dtype=int)) > 4)
        or np.atleast_1d(np.array(chs)).size > 4)
    if out_of_range and nw < 1 + (1 if ch_oor else 0):
        viol(f'{name}: warning issued on clamp', f'{inp} clamped with {nw} warning(s)')
    if ch_oor and nw < 1:
        viol(f'{name}: warning issued on channel clamp', f'{inp}')


def audit_setters():
    rng = np.random.default_rng(20)
    for name, (meth, lo, hi, integer, perch) in SETTERS.items():
        vals = decades(lo, hi, integer)
        # scalars, default channel selection + every channel selection on a few values
        for v in vals:
            check_setter(name, v, None)
        if not perch:
            continue
        probe = [vals[0], lo, hi, vals[-1], (lo + hi) / 2 if not integer else (lo + hi) // 2]
        for chs in CH_SELECTIONS:
            for v in probe:
                check_setter(name, v, chs)
        # per-channel lists: enumerated corners and sampled
        corner = [lo, hi, vals[0], vals[-1], vals[len(vals) // 2]]
        for n in (1, 2, 3, 4):
            for combo in itertools.islice(itertools.product(corner, repeat=n), 0, 200):
                for cont in (list, tuple, np.array):
                    chs = list(range(1, n + 1))
                    check_setter(name, cont(combo), chs)
                    if n == 4:
                        check_setter(name, cont(combo), None)
        for _ in range(300):
            n = int(rng.integers(1, 5))
            combo = [vals[int(i)] for i in rng.integers(0, len(vals), n)]
            chs = [int(c) for c in rng.integers(-2, 8, n)]
            check_setter(name, combo, chs)
            check_setter(name, np.array(combo), tuple(chs))


def audit_prbs_order():
    rng = np.random.default_rng(21)
    orders = sorted(set(list(range(-40, 80)) + [10**k for k in range(2, 10)] + [-10**k for k in range(2, 10)]))
    for o in orders:
        p = new_ppg()
        r, e, nw = call(p, 'set_prbs_order', o)
        inp = f'set_prbs_order({o})'
        if e is not None:
            viol('prbs: no error raised', f'{inp} raised {type(e).__name__}: {e}')
            continue
        flush(p, 'prbs', inp)
        sent = [int(float(c.split()[-1])) for c in p.inst.cmds]
        best = min(abs(o - x) for x in ORDERS)
        if len(sent) != 4 or any(abs(s - o) != best for s in sent):
            viol('prbs: nearest supported order sent', f'{inp} sent {sent}')
        if o not in ORDERS and nw < 1:
            viol('prbs: warning issued', inp)
        if o in ORDERS and nw:
            viol('prbs: no warning for a supported order', inp)
    for chs in CH_SELECTIONS:
        for o in (7, 31, 8, 0, 1000):
            p = new_ppg()
            r, e, nw = call(p, 'set_prbs_order', o, chs)
            inp = f'set_prbs_order({o}, CHs={short(chs)})'
            if e is not None:
                viol('prbs: no error raised', f'{inp} raised {type(e).__name__}: {e}')
                continue
            flush(p, 'prbs', inp)
            got = [int(re.match(r':DIG(-?\d+)', c).group(1)) for c in p.inst.cmds]
            if got != expected_channels(chs):
                viol('prbs: channel clamped into 1..4', f'{inp} channels {got}')
    for _ in range(300):
        n = int(rng.integers(1, 5))
        o = [int(x) for x in rng.integers(-5, 45, n)]
        for cont in (list, tuple, np.array):
            p = new_ppg()
            chs = list(range(1, n + 1))
            r, e, nw = call(p, 'set_prbs_order', cont(o), chs)
            inp = f'set_prbs_order({short(cont(o))}, CHs={chs})'
            if e is not None:
                viol('prbs: no error raised', f'{inp} raised {type(e).__name__}: {e}')
                continue
            flush(p, 'prbs', inp)
            sent = [int(float(c.split()[-1])) for c in p.inst.cmds]
            if len(sent) != n or any(abs(s - x) != min(abs(x - y) for y in ORDERS) for s, x in zip(sent, o)):
                viol('prbs: nearest supported order sent', f'{inp} sent {sent}')


def audit_other_channel_methods():
    for chs in CH_SELECTIONS:
        for meth, args in (('enable_outputs', ()), ('disable_outputs', ()), ('set_mode', ('data',)), ('set_mode', ('PRBS',)),
                           ('set_mode', ('Prbs',)), ('set_bits_shift', (3,)), ('get_patt_len', ()), ('get_mode', ()),
                           ('get_prbs_order', ()), ('get_bits_shift', ()), ('get_skew', ()), ('get_output_voltage', ()),
                           ('get_offset', ())):
            p = new_ppg()
            r, e, nw = call(p, meth, *args, CHs=chs)
            inp = f'{meth}({", ".join(map(repr, args))}{", " if args else ""}CHs={short(chs)})'
            if e is not None:
                viol(f'{meth}: no error raised', f'{inp} raised {type(e).__name__}: {e}')
                continue
            flush(p, meth, inp)
            got = [int(re.match(r':(?:DIG|SKEW|VOLT|OUTP)(-?\d+)', c).group(1)) for c in p.inst.cmds]
            if got != expected_channels(chs):
                viol(f'{meth}: channels clamped into 1..4', f'{inp} channels {got}')
            if meth.startswith('get_') and (r is None or len(r) != len(got)):
                viol(f'{meth}: one value per channel', f'{inp} returned {r!r}')


# --------------------------------------------------------------------------
# clause 4+5: set_data blocks / header / addresses, get_data round trip
# --------------------------------------------------------------------------
def check_data(bits, start, chs, kind, rng):
    """bits: 1-D uint8 (same for every channel) or 2-D (one row per channel)."""
    bits = np.asarray(bits, np.uint8)
    if kind == 'str':
        data = ''.join(map(str, bits)) if bits.ndim == 1 else ';'.join(''.join(map(str, r)) for r in bits)
    elif kind == 'list':
        data = bits.tolist()
    elif kind == 'tuple':
        data = tuple(bits.tolist()) if bits.ndim == 1 else tuple(tuple(r) for r in bits.tolist())
    elif kind == 'bool':
        data = bits.astype(bool)
    elif kind == 'float':
        data = bits.astype(float)
    elif kind == 'int64':
        data = bits.astype(np.int64)
    else:
        data = bits.copy()
    p = new_ppg()
    n = bits.shape[-1]
    inp = f'set_data(<{kind} {bits.shape} bits>, start_addrs={start}, CHs={short(chs)})'
    r, e, nw = call(p, 'set_data', data, start, chs)
    if e is not None:
        viol('set_data: no error raised', f'{inp} raised {type(e).__name__}: {str(e)[:70]}')
        return
    flush(p, 'set_data', inp)
    ech = expected_channels(chs)
    rows = np.tile(bits, (len(ech), 1)) if bits.ndim == 1 else bits
    in_range_start = 1 <= start <= MAXMEM
    room = MAXMEM - start + 1
    n_fit = min(n, room) if in_range_start else None
    if not in_range_start:
        # out-of-range request: must be clamped with a warning, never sent raw (checked by the instrument);
        if nw < 1:
            viol('set_data: out-of-range start address clamped with a warning', f'{inp}: {nw} warnings, first command {p.inst.cmds[:1]}')
        return
    if n > room and nw < 1:
        viol('set_data: warning when data exceeds memory', inp)
    # blocks per channel
    byc = {}
    for ch, a, m in p.inst.blocks:
        byc.setdefault(ch, []).append((a, m))
    last_row_for = {}
    for ch, row in zip(ech, rows):
        last_row_for[ch] = row
    n_cmds_expected = len(list(zip(ech, rows))) * int(np.ceil(n_fit / 1024))
    if len(p.inst.blocks) != n_cmds_expected:
        viol('set_data: number of blocks', f'{inp} emitted {len(p.inst.blocks)} blocks, expected {n_cmds_expected}')
    # consecutive addresses / block sizes (per write of a row)
    idx = 0
    for ch, row in zip(ech, rows):
        a = start
        left = n_fit
        while left > 0 and idx < len(p.inst.blocks):
            bch, ba, bn = p.inst.blocks[idx]
            idx += 1
            if bch != ch or ba != a:
                viol('set_data: consecutive addresses', f'{inp} block {idx} is (ch{bch}, addr {ba}, n {bn}); expected ch{ch} addr {a}')
                break
            if bn > 1024:
                viol('set_data: at most 1024 bits per block', f'{inp} block of {bn}')
            a += bn
            left -= bn
    for ch, row in last_row_for.items():
        if not np.array_equal(p.inst.mem[ch][start:start + n_fit], row[:n_fit]):
            viol('set_data: memory holds the data', f'{inp} channel {ch}')
    # round trip
    p.inst.cmds.clear()
    r, e, nw2 = call(p, 'get_data', int(n_fit), start, chs)
    inp2 = f'{inp}; get_data({n_fit}, {start}, CHs={short(chs)})'
    if e is not None:
        viol('get_data: no error raised', f'{inp2} raised {type(e).__name__}: {str(e)[:70]}')
        return
    flush(p, 'get_data', inp2)
    want = np.array([last_row_for[ch][:n_fit] for ch in ech])
    if r is None or np.asarray(r).shape != want.shape or not np.array_equal(np.asarray(r), want):
        viol('get_data: returns the bits written, every channel', f'{inp2} shape {None if r is None else np.asarray(r).shape} vs {want.shape}')
    for c in p.inst.cmds:
        m = re.fullmatch(r':DIG\d:PATT:DATA\? (\d+),(\d+)', c)
        if not m or int(m.group(2)) > 1024 or int(m.group(2)) < 1:
            viol('get_data: reads blocks of 1..1024 bits', f'{inp2} -> {c}')
    a = np.atleast_1d(np.array(chs if chs is not None else [1], dtype=int))
    if nw2 and not (np.any(a < 1) or np.any(a > 4) or a.size > 4):
        viol('get_data: no warning for an in-range read', inp2)


def audit_data():
    rng = np.random.default_rng(22)
    lengths = sorted(set([1, 2, 3, 7, 8, 9, 10, 11, 99, 100, 101, 999, 1000, 1001, 1022, 1023, 1024, 1025, 1026, 2047, 2048, 2049,
                          3071, 3072, 3073, 4096, 5000, 8191, 8192, 8193, 9215, 9216, 9217, 9999, 10000]
                         + [int(x) for x in rng.integers(1, 10001, 25)]))
    kinds = ['str', 'list', 'tuple', 'uint8', 'bool', 'float', 'int64']
    starts = [1, 2, 1000, 1023, 1024, 1025, 2048, 12345, 2**20, MAXMEM - 10000, MAXMEM - 9999]
    for i, n in enumerate(lengths):
        bits = rng.integers(0, 2, n).astype(np.uint8)
        check_data(bits, 1, None, kinds[i % len(kinds)], rng)
        check_data(bits, starts[i % len(starts)], [1 + i % 4], kinds[(i + 3) % len(kinds)], rng)
        check_data(bits, MAXMEM - n + 1, 1 + (i + 1) % 4, 'uint8', rng)       # ends exactly at the last cell
        # per-channel rows
        k = 1 + i % 4
        rows = rng.integers(0, 2, (k, n)).astype(np.uint8)
        chs = [int(c) for c in rng.permutation(4)[:k] + 1]
        check_data(rows, starts[(i + 5) % len(starts)], chs, kinds[(i + 1) % len(kinds)] if k > 1 or kinds[(i + 1) % len(kinds)] != 'str' else 'list', rng)
    # all-zero, all-one and length-1 patterns with every container
    for kind in kinds:
        for bits in ([0], [1], [0, 0], [1, 1], [1, 0], np.zeros(1024), np.ones(1025), np.zeros(2048)):
            check_data(np.array(bits, np.uint8), 1, None, kind, rng)
    # channel selections
    bits = rng.integers(0, 2, 1500).astype(np.uint8)
    for chs in CH_SELECTIONS:
        check_data(bits, 7, chs, 'uint8', rng)
    # data longer than the room left (must be cut with a warning, nothing outside the memory)
    for n, start in ((5, MAXMEM), (5, MAXMEM - 3), (2000, MAXMEM - 1024), (1025, MAXMEM - 1023), (10000, MAXMEM - 5000)):
        check_data(rng.integers(0, 2, n).astype(np.uint8), start, 2, 'list', rng)
        check_data(rng.integers(0, 2, (2, n)).astype(np.uint8), start, [3, 4], 'uint8', rng)
    # start addresses outside 1..2^21 ("Whatever values the caller requests ... clamped and a warning")
    for start in (0, -1, -1000, MAXMEM + 1, MAXMEM + 2, MAXMEM + 3, MAXMEM + 1000, 10 * MAXMEM):
        for n in (1, 3, 1500):
            check_data(rng.integers(0, 2, n).astype(np.uint8), start, 1, 'list', rng)
    # get_data with out-of-range size / start: clamped with warning, only legal reads
    for size, start in ((0, 1), (-5, 1), (1, 0), (10, -7), (10, MAXMEM + 5), (20, MAXMEM - 5), (MAXMEM * 10, MAXMEM - 3000), (1024, MAXMEM - 1023),
                        (2048, MAXMEM - 2047), (3000, MAXMEM)):
        p = new_ppg()
        r, e, nw = call(p, 'get_data', size, start, [1, 4])
        inp = f'get_data({size}, {start}, CHs=[1, 4])'
        if e is not None:
            viol('get_data: no error raised', f'{inp} raised {type(e).__name__}: {str(e)[:70]}')
            continue
        flush(p, 'get_data', inp)
        s_c = min(max(start, 1), MAXMEM)
        n_c = min(max(size, 1), MAXMEM - s_c + 1)
        clamped = (s_c != start) or (n_c != size)
        if clamped and nw < 1:
            viol('get_data: warning on clamp', inp)
        if np.asarray(r).shape != (2, n_c):
            viol('get_data: shape (channels, clamped size)', f'{inp} -> {np.asarray(r).shape}, expected {(2, n_c)}')


# --------------------------------------------------------------------------
# clause 6: arbitrary sequences of set_*/get_* calls against the simulated instrument
# --------------------------------------------------------------------------
def audit_sequences():
    rng = np.random.default_rng(23)
    for trial in range(60):
        p = new_ppg()
        model = {}
        log = []
        for step in range(40):
            k = int(rng.integers(1, 5))
            chs = [int(c) for c in rng.permutation(4)[:k] + 1]
            sel = chs if rng.random() < 0.7 else (chs[0] if rng.random() < 0.5 else None)
            ech = expected_channels(sel)
            op = rng.choice(['amp', 'off', 'skew', 'len', 'ord', 'freq', 'data', 'mode', 'bsh'])
            if op == 'data':
                n = int(rng.choice([1, 5, 1023, 1024, 1025, 2500]))
                start = int(rng.choice([1, 2, 1000, 1024, 1025, 5000]))
                bits = rng.integers(0, 2, n).astype(np.uint8)
                r, e, nw = call(p, 'set_data', bits, start, sel)
                log.append(f'set_data(n={n}, start={start}, CHs={sel})')
                if e is None:
                    for ch in ech:
                        model.setdefault(('mem', ch), np.zeros(MAXMEM + 1, np.uint8))[start:start + n] = bits
            elif op == 'freq':
                v = float(10 ** rng.uniform(8, 12))
                r, e, nw = call(p, 'set_freq', v)
                log.append(f'set_freq({v})')
                model['freq'] = min(max(v, 1.5e9), 32e9)
            elif op == 'mode':
                v = str(rng.choice(['data', 'prbs', 'DATA', 'PRBS']))
                r, e, nw = call(p, 'set_mode', v, sel)
                log.append(f'set_mode({v!r}, {sel})')
                for ch in ech:
                    model[('mode', ch)] = v.upper()
            elif op == 'bsh':
                v = int(rng.integers(-1000, 1000))
                r, e, nw = call(p, 'set_bits_shift', v, sel)
                log.append(f'set_bits_shift({v}, {sel})')
                for ch in ech:
                    model[('bsh', ch)] = v
            else:
                meth, lo, hi = {'amp': ('set_output_voltage', 0.3, 2.0), 'off': ('set_offset', -2.0, 3.0), 'skew': ('set_skew', -25e-12, 25e-12),
                                'len': ('set_patt_len', 2, MAXMEM), 'ord': ('set_prbs_order', 7, 31)}[op]
                if op in ('len', 'ord'):
                    v = [int(x) for x in rng.integers(-10, 60 if op == 'ord' else 3 * MAXMEM, len(ech))]
                else:
                    v = [float(x) for x in rng.uniform(lo - (hi - lo), hi + (hi - lo), len(ech))]
                arg = v if not isinstance(sel, int) and rng.random() < 0.7 else v[0]
                r, e, nw = call(p, meth, arg, sel)
                log.append(f'{meth}({short(arg)}, {sel})')
                for j, ch in enumerate(ech):
                    x = v[j] if isinstance(arg, list) else v[0]
                    if op == 'ord':
                        model[(op, ch)] = x if x in ORDERS else None   # ties: either neighbour
                    else:
                        model[(op, ch)] = min(max(x, lo), hi)
            if e is not None:
                viol('sequence: no error raised', f'{log[-1]} (step {step}, seed 23/{trial}) raised {type(e).__name__}: {str(e)[:60]}')
            flush(p, 'sequence', f'{log[-1]} (step {step}, seed 23/{trial})')
        # read everything back
        for ch in range(1, 5):
            for key, getter, tol in (('amp', 'get_output_voltage', 0.0500001), ('off', 'get_offset', 0.0500001), ('skew', 'get_skew', 1e-24),
                                     ('len', 'get_patt_len', 0), ('ord', 'get_prbs_order', 0), ('bsh', 'get_bits_shift', 0)):
                if model.get((key, ch)) is None:
                    continue
                r, e, nw = call(p, getter, ch)
                if e is not None:
                    viol('sequence: getter works', f'{getter}({ch}) raised {type(e).__name__}: {e}')
                elif abs(float(r[0]) - model[(key, ch)]) > tol:
                    viol('sequence: getter returns the clamped value set', f'{getter}({ch}) = {r[0]} expected {model[(key, ch)]} (seed 23/{trial})')
            if ('mem', ch) in model:
                for start, n in ((1, 3000), (1000, 1024), (1024, 1025), (4990, 2600)):
                    r, e, nw = call(p, 'get_data', n, start, ch)
                    if e is not None:
                        viol('sequence: get_data works', f'get_data({n},{start},{ch}) raised {type(e).__name__}: {e}')
                    elif not np.array_equal(np.asarray(r)[0], model[('mem', ch)][start:start + n]):
                        viol('sequence: get_data returns memory', f'get_data({n},{start},{ch}) (seed 23/{trial})')
        if 'freq' in model:
            r, e, nw = call(p, 'get_freq')
            if e is not None or abs(r - model['freq']) > 1e-5 * model['freq']:
                viol('sequence: get_freq', f'{r} expected {model["freq"]}')
        flush(p, 'sequence', f'read-back (seed 23/{trial})')


# --------------------------------------------------------------------------
# clause 7: SYNC
# --------------------------------------------------------------------------
def prbs(order):
    taps = {3: (3, 2), 4: (4, 3), 5: (5, 3), 7: (7, 6), 9: (9, 5), 11: (11, 9)}[order]
    s = [1] * order
    out = []
    for _ in range(2**order - 1):
        out.append(s[-1])
        fb = s[taps[0] - 1] ^ s[taps[1] - 1]
        s = [fb] + s[:-1]
    return np.array(out)


def check_sync(slots, sps, d, K, sigma, kind, seed, tail=0):
    rng = np.random.default_rng(seed)
    wave = np.kron(slots, np.ones(sps))
    l = wave.size
    rx_clean = np.roll(np.tile(wave, K + 1), d)[:K * l + tail]
    # keep the noise "moderate" for this pattern: the alignment one sample off must lose by >= 10 standard deviations
    # even against a lag whose noise is independent (the edge robustness is measured separately in audit_sync_edge_noise)
    rising = int(np.sum((np.roll(slots, -1) == 1) & (slots == 0)))
    sigma = min(sigma, rising / (10 * np.sqrt(2.0 * slots.sum() * sps)))
    noise = sigma * rng.standard_normal(rx_clean.size)
    rx = rx_clean + noise
    inp = f'SYNC[{kind}] pattern len {slots.size} sps {sps} d {d} rx len {rx.size} (l={l}) sigma {sigma} seed {seed}'
    try:
        with contextlib.redirect_stdout(io.StringIO()), warnings.catch_warnings():
            warnings.simplefilter('ignore')
            if kind == 'ndarray':
                s, i = SYNC(rx, slots, sps)
                full = rx
            elif kind == 'ndarray/binary_sequence':
                s, i = SYNC(rx, binary_sequence(slots), sps)
                full = rx
            elif kind == 'electrical_signal':
                gv(sps=sps, R=1e9)
                s, i = SYNC(electrical_signal(rx), binary_sequence(slots))
                full = rx
            elif kind == 'electrical_signal+noise':
                gv(sps=sps, R=1e9)
                s, i = SYNC(electrical_signal(rx_clean, noise), slots)
                full = rx
            elif kind == 'int':
                rx = np.round(rx * 100).astype(np.int64)
                s, i = SYNC(rx, slots.astype(bool), sps)
                full = rx
    except Exception as e:  # noqa
        viol('SYNC: returns index d', f'{inp} raised {type(e).__name__}: {str(e)[:70]}')
        return
    if i != d:
        viol('SYNC: returns index d', f'{inp} returned {i}')
        return
    if not isinstance(s, electrical_signal) or s.len() < 1:
        viol('SYNC: returns a signal starting at sample d', f'{inp} returned {type(s).__name__} of length {getattr(s, "len", lambda: None)()}')
        return
    got = s.signal + (s.noise if s.noise is not None else 0)
    m = s.len()
    if not np.allclose(np.real(got), full[d:d + m], rtol=0, atol=1e-12) or np.any(np.abs(np.imag(got)) > 0):
        viol('SYNC: returns a signal starting at sample d', f'{inp}: samples differ from rx[d:] by up to {np.max(np.abs(np.real(got) - full[d:d + m])):.3g}')


def audit_sync():
    kinds = ['ndarray', 'ndarray/binary_sequence', 'electrical_signal', 'electrical_signal+noise', 'int']
    seed = 100
    # exhaustive delays, PRBS7, several sps, K = 2 and 3
    p7 = prbs(7)
    for sps in (1, 2, 3, 8):
        l = p7.size * sps
        for d in range(l):
            seed += 1
            check_sync(p7, sps, d, 2 + d % 2, (0.0, 0.1, 0.3)[d % 3], kinds[d % len(kinds)], seed)
    # corners of d for all kinds / noise / K / record lengths that are not multiples
    for order in (5, 7, 9, 11):
        pat = prbs(order)
        for sps in (1, 4, 16) if order < 11 else (1, 4):
            l = pat.size * sps
            for d in sorted(set([0, 1, 2, sps - 1, sps, sps + 1, l // 2, l - sps, l - 2, l - 1])):
                if not 0 <= d < l:
                    continue
                for kind in kinds:
                    for sigma in (0.0, 0.2):
                        for K, tail in ((2, 0), (3, 0), (2, 1), (2, l - 1), (5, 7)):
                            seed += 1
                            check_sync(pat, sps, d, K, sigma, kind, seed, tail)
    # shifted / inverted PRBS as the pattern ("all PRBS patterns")
    rng = np.random.default_rng(24)
    for _ in range(150):
        order = int(rng.choice([5, 7, 9]))
        pat = np.roll(prbs(order), int(rng.integers(0, 2**order - 1)))
        if rng.random() < 0.5:
            pat = 1 - pat
        sps = int(rng.choice([1, 2, 5, 8]))
        l = pat.size * sps
        seed += 1
        check_sync(pat, sps, int(rng.integers(0, l)), int(rng.integers(2, 5)), float(rng.choice([0, 0.1, 0.3])), str(rng.choice(kinds)), seed,
                   int(rng.integers(0, l)))
    # records between one and two patterns long: delays that leave a whole pattern inside the record
    pat = prbs(7)
    for sps in (1, 4):
        l = pat.size * sps
        for m in (1, 2, sps, l // 2, l - 1):
            for d in sorted(set([0, 1, m // 2, m - 1, m])):
                if 0 <= d <= m - 1:      # d = m gives a signal of 0 samples by construction of the trimming; keep d < m
                    seed += 1
                    check_sync(pat, sps, d, 1, 0.1, 'ndarray', seed, m)
    # a record shorter than the pattern is rejected
    for sps in (1, 4):
        wave = np.kron(pat, np.ones(sps))
        for short_by in (1, 2, wave.size // 2, wave.size - 1):
            for kind in ('ndarray', 'electrical_signal'):
                rx = wave[:wave.size - short_by]
                try:
                    with warnings.catch_warnings():
                        warnings.simplefilter('ignore')
                        if kind == 'ndarray':
                            SYNC(rx, pat, sps)
                        else:
                            gv(sps=sps, R=1e9)
                            SYNC(electrical_signal(rx), binary_sequence(pat))
                    viol('SYNC: shorter record rejected', f'{kind} len {rx.size} < {wave.size} accepted')
                except BufferError:
                    pass
                except Exception as e:  # noqa
                    viol('SYNC: shorter record rejected', f'{kind} len {rx.size} < {wave.size}: {type(e).__name__} instead of a rejection: {e}')


def audit_sync_edge_noise():
    """Same pattern, same noise: every delay must be found equally well. Interior delays are the reference."""
    pat = prbs(7)
    sps, sigma, N = 32, 0.3, 150
    wave = np.kron(pat, np.ones(sps))
    l = wave.size
    for seed in (1, 2, 3):
        fails = {}
        for d in (0, l - 1, l // 2, l // 3):
            rng = np.random.default_rng(seed)
            f = 0
            for _ in range(N):
                rx = np.roll(np.tile(wave, 3), d) + sigma * rng.standard_normal(3 * l)
                try:
                    _, i = SYNC(rx, pat, sps)
                except Exception:  # noqa
                    i = None
                f += (i != d)
            fails[d] = f
        ref = max(fails[l // 2], fails[l // 3])
        for d in (0, l - 1):
            # binomial: with the interior rate (<= (ref+1)/N) the expected count is <= ref+1; demand far more than 6 sigma above it
            if fails[d] > (ref + 1) + 6 * np.sqrt(ref + 1):
                viol('SYNC: returns index d under moderate noise for every d',
                     f'PRBS7 sps {sps} sigma {sigma} seed {seed}: d={d} wrong in {fails[d]}/{N} records; interior delays wrong in {ref}/{N}')


if __name__ == '__main__':
    audit_setters()
    audit_prbs_order()
    audit_other_channel_methods()
    audit_data()
    audit_sequences()
    audit_sync()
    audit_sync_edge_noise()
    if VIOL:
        import collections
        print('--- summary ---')
        for c, n in collections.Counter(c for c, _ in VIOL).items():
            print(f'{n:6d}  {c}')
        sys.exit(1)
    print('PASS')
    sys.exit(0)
