# C20: "Whatever values the caller requests ... out-of-range requests are clamped and a warning is issued rather than ... the raw value sent";
# quantified over "all data lengths 1..10^4 across block boundaries and start addresses". set_data never checks start_addrs
# (get_data clamps it to 1..2^21 with a warning): address 0 / negative goes out raw and silently, an address past the end
# turns the "room left" negative so that data[:, :room] keeps an arbitrary fragment (or nothing: a 0-bit block '#10').
import sys; sys.path.pop(0)
import warnings
from opticomlib.lab import PPG3204
class Fake:
    def __init__(self): self.cmds = []
    def query(self, c): self.cmds.append(c); return '\n'
bad = 0
for start in (0, -5, 2**21 + 1, 2**21 + 3):
    ppg = PPG3204(); ppg.inst = Fake()
    with warnings.catch_warnings(record=True) as w:
        warnings.simplefilter('always')
        ppg.set_data([1, 0, 1], start_addrs=start, CHs=1)
    for c in ppg.inst.cmds:
        addr, n = (int(x) for x in c.split(' ')[1].split(',')[:2])
        if not (1 <= addr and addr + n - 1 <= 2**21 and n >= 1):
            bad += 1
            print(f'start_addrs={start}: expected an address in 1..{2**21} (clamped, with a warning); sent {c!r} with {len(w)} warning(s)')
sys.exit(1 if bad else 0)
