# C20: SYNC "for a received signal that is the pattern's waveform repeated and delayed by d samples ... plus moderate noise
# ... returns index d and a signal starting at that sample". When the record is an electrical_signal whose noise lives in
# its .noise component (how the library's devices carry noise), SYNC keeps only .signal: the returned signal is noise free.
import sys; sys.path.pop(0)
import warnings; warnings.simplefilter('ignore')
import numpy as np
from opticomlib.lab import SYNC
from opticomlib.typing import electrical_signal, binary_sequence, gv
gv(sps=4, R=1e9)
slots = np.array([1, 1, 1, 0, 1, 0, 0, 1, 0, 0, 0, 0, 1, 1, 0])
d = 5
clean = np.roll(np.tile(np.kron(slots, np.ones(4)), 3), d)
noise = 0.1 * np.random.default_rng(0).standard_normal(clean.size)
rx = electrical_signal(clean, noise)
sync, i = SYNC(rx, binary_sequence(slots))
got = sync.signal + (sync.noise if sync.noise is not None else 0)
want = (clean + noise)[d:d + sync.len()]
print('index', i, '(expected', d, ')  noise component of the result:', sync.noise)
if i != d or not np.allclose(got.real, want):
    print('expected the received samples rx[d:], signal+noise; got the noise-free part only, max difference', np.abs(got.real - want).max())
    sys.exit(1)
