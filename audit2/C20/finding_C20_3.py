# C20: SYNC "... delayed by d samples (d less than one pattern length) plus moderate noise it returns index d", "all delays d".
# Same PRBS7 pattern, same noise (sigma 0.3 on a 0/1 waveform, 32 samples per slot: slot decisions are error free):
# every interior delay is found in every record, d = 0 and d = l-1 come back as l-1 / 0 in 4..8 % of the records.
import sys; sys.path.pop(0)
import numpy as np
from opticomlib.lab import SYNC
s = [1] * 7; pat = []
for _ in range(127):
    pat.append(s[-1]); s = [s[6] ^ s[5]] + s[:-1]
pat = np.array(pat); sps = 32; wave = np.kron(pat, np.ones(sps)); l = wave.size
bad = 0
for seed in (1, 2, 3):
    for d in (0, l - 1, l // 2):
        rng = np.random.default_rng(seed); wrong = {}
        for _ in range(150):
            rx = np.roll(np.tile(wave, 3), d) + 0.3 * rng.standard_normal(3 * l)
            i = SYNC(rx, pat, sps)[1]
            if i != d: wrong[i] = wrong.get(i, 0) + 1
        n = sum(wrong.values())
        print(f'seed {seed} d={d}: expected index {d} in 150/150 records, wrong in {n} {wrong}')
        bad += (d != l // 2 and n >= 5)
sys.exit(1 if bad else 0)
